# source me: Go environment that can build/test every influxdb package offline
# (libflux is replaced by a link-only stub: nothing that parses or runs Flux source works)
export GOFLAGS=-mod=mod GOPROXY=off
export PKG_CONFIG_PATH=/tmp/seedtools/libflux
export CGO_LDFLAGS="-L/tmp/seedtools/libflux"
unset GOTOOLCHAIN GOSUMDB
