# source me: environment for every build/run of the harness and of Lean
export VERIF=${VERIF:-/verif}
export GOFLAGS=-mod=mod GOPROXY=off
export PKG_CONFIG_PATH=$VERIF/.build/libflux
export CGO_LDFLAGS="-L$VERIF/.build/libflux"
export CARGO_NET_OFFLINE=true PIP_NO_INDEX=1
