/* Link-only stub of libflux for offline builds of influxdb packages that
 * transitively import github.com/influxdata/flux/libflux/go/libflux.
 * Nothing here parses or analyses Flux.  flux_get_env_stdlib and
 * flux_semantic_packages return a valid *empty* flatbuffer because
 * flux/runtime parses it in a package-level initialiser. */
#include <stddef.h>
#include <stdlib.h>
#include <string.h>
#include <stdio.h>
struct flux_buffer_t { char *data; size_t len; };
struct flux_error_t { const char *msg; };
struct flux_ast_pkg_t { int x; };
struct flux_semantic_pkg_t { int x; };
struct flux_stateful_analyzer_t { int x; };
static struct flux_error_t *mkerr(void) {
	struct flux_error_t *e = malloc(sizeof *e);
	e->msg = "libflux stub: flux is not available in this build";
	return e;
}
static void empty_fb(struct flux_buffer_t *b) {
	static const unsigned char fb[12] = {8,0,0,0, 4,0,4,0, 4,0,0,0};
	b->data = malloc(12); memcpy(b->data, fb, 12); b->len = 12;
}
void flux_semantic_packages(struct flux_buffer_t *b) { empty_fb(b); }
void flux_get_env_stdlib(struct flux_buffer_t *b) { empty_fb(b); }
void flux_free_error(struct flux_error_t *e) { free(e); }
const char *flux_error_str(struct flux_error_t *e) { return e ? e->msg : ""; }
void flux_error_print(struct flux_error_t *e) { if (e) fprintf(stderr, "%s\n", e->msg); }
void flux_free_bytes(const char *p) { free((void *)p); }
struct flux_ast_pkg_t *flux_parse(const char *f, const char *s) { (void)f; (void)s; return calloc(1, sizeof(struct flux_ast_pkg_t)); }
struct flux_error_t *flux_ast_format(struct flux_ast_pkg_t *p, struct flux_buffer_t *b) { (void)p; (void)b; return mkerr(); }
struct flux_error_t *flux_ast_get_error(struct flux_ast_pkg_t *p, const char *o) { (void)p; (void)o; return mkerr(); }
void flux_free_ast_pkg(struct flux_ast_pkg_t *p) { free(p); }
struct flux_error_t *flux_merge_ast_pkgs(struct flux_ast_pkg_t *a, struct flux_ast_pkg_t *b) { (void)a; (void)b; return mkerr(); }
struct flux_error_t *flux_parse_json(const char *s, struct flux_ast_pkg_t **o) { (void)s; *o = NULL; return mkerr(); }
struct flux_error_t *flux_ast_marshal_json(struct flux_ast_pkg_t *p, struct flux_buffer_t *b) { (void)p; (void)b; return mkerr(); }
struct flux_stateful_analyzer_t *flux_new_stateful_analyzer(const char *o) { (void)o; return calloc(1, sizeof(struct flux_stateful_analyzer_t)); }
void flux_free_stateful_analyzer(struct flux_stateful_analyzer_t *a) { free(a); }
struct flux_error_t *flux_analyze_with(struct flux_stateful_analyzer_t *a, const char *s, struct flux_ast_pkg_t *p, struct flux_semantic_pkg_t **o) { (void)a; (void)s; (void)p; *o = NULL; return mkerr(); }
struct flux_error_t *flux_analyze(struct flux_ast_pkg_t *p, const char *o, struct flux_semantic_pkg_t **out) { (void)p; (void)o; *out = NULL; return mkerr(); }
struct flux_error_t *flux_find_var_type(struct flux_semantic_pkg_t *p, const char *n, struct flux_buffer_t *b) { (void)p; (void)n; (void)b; return mkerr(); }
void flux_free_semantic_pkg(struct flux_semantic_pkg_t *p) { free(p); }
struct flux_error_t *flux_semantic_marshal_fb(struct flux_semantic_pkg_t *p, struct flux_buffer_t *b) { (void)p; (void)b; return mkerr(); }
