#!/bin/sh
# builds /verif/.build/libflux/{libflux.a,flux.pc,include/influxdata/flux.h}
set -e
here=$(cd "$(dirname "$0")" && pwd)
out=${1:-$here/../../.build/libflux}
mkdir -p "$out/include/influxdata"
out=$(cd "$out" && pwd)
# header: the one shipped with the pinned flux module (read-only copy)
fluxdir=$(cd /repo && GOFLAGS=-mod=mod GOPROXY=off go list -m -f '{{.Dir}}' github.com/influxdata/flux)
cp "$fluxdir/libflux/include/influxdata/flux.h" "$out/include/influxdata/flux.h"
chmod u+w "$out/include/influxdata/flux.h"
cc -O1 -c -o "$out/flux_stub.o" "$here/flux_stub.c"
rm -f "$out/libflux.a"
ar rcs "$out/libflux.a" "$out/flux_stub.o"
cat > "$out/flux.pc" <<PC
Name: flux
Description: link-only stub of libflux (verif)
Version: 0.200.0
Libs: -L$out -lflux
Cflags: -I$out/include
PC
