/-
  Spec.C23 — the STATEMENT of C23, written from the property text:

    "For any input series, derivative, non_negative_derivative, difference,
     moving_average, cumulative_sum, elapsed, integral, percentile, median, mode,
     spread, stddev, distinct and top/bottom return exactly the values their
     documented definitions give, with the documented output timestamps."

  Each function's documented definition is written here as a list comprehension
  over the input series, or — where the definition is a *selection* (percentile,
  median, mode, spread, distinct, top/bottom) — as a relation checked by counting,
  with no sorting, no ring buffer, no heap, no prev/curr state: nothing of the
  reducers' algorithms.  `verdict` applies them to one observation (function,
  parameters, input series, emitted points); it is evaluated on the REAL
  reducers' output at run time, and `Props.C23` proves it of the model.

  Arithmetic is a parameter (`Arith V F`, no laws): for floats the same
  definitions are instantiated with IEEE doubles by the driver.
-/
import Influx.Model.ReducersTypes

namespace Influx.Spec.C23
open Influx.Reducers

section
variable {V F : Type}

def ptsEq {W : Type} (eqv : W → W → Bool) : List (Pt W) → List (Pt W) → Bool
  | [], [] => true
  | a :: as, b :: bs => decide (a.t = b.t) && eqv a.v b.v && ptsEq eqv as bs
  | _, _ => false

/-- consecutive pairs -/
def adj {α : Type} (l : List α) : List (α × α) := l.zip l.tail

/-- "points at the time of the previously kept point do not advance the stream":
    of a run of equal timestamps only the first point counts -/
def dedupT : List (Pt V) → List (Pt V)
  | [] => []
  | [p] => [p]
  | p :: q :: r => if p.t = q.t then dedupT (p :: r) else p :: dedupT (q :: r)
termination_by l => l.length

/-! ### the definitions -/

/-- derivative: for successive points (after `dedupT`) the difference of the values
    divided by the elapsed time in `unit`s, stamped with the later point's time;
    non_negative_derivative drops negative differences. -/
def derivativeDef (A : Arith V F) (unit : Int) (nonNeg asc : Bool) (xs : List (Pt V)) : List (Pt F) :=
  (adj (dedupT xs)).filterMap fun (a, b) =>
    let diff := A.vo.toF (A.vo.sub b.v a.v)
    let elapsed := if asc then b.t - a.t else a.t - b.t
    if nonNeg && A.fo.lt diff (A.fo.ofInt 0) then none
    else some ⟨b.t, A.fo.div diff (A.fo.div (A.fo.ofInt elapsed) (A.fo.ofInt unit))⟩

/-- difference: `zipWith (−) tail xs` stamped with the later time -/
def differenceDef (A : Arith V F) (nonNeg : Bool) (xs : List (Pt V)) : List (Pt V) :=
  (adj (dedupT xs)).filterMap fun (a, b) =>
    let d := A.vo.sub b.v a.v
    if nonNeg && A.vo.lt d A.vo.zero then none else some ⟨b.t, d⟩

/-- elapsed: time between successive points in whole `unit`s (truncated) -/
def elapsedDef (unit : Int) (xs : List (Pt V)) : List (Pt Int) :=
  (adj xs).map fun (a, b) => ⟨b.t, (b.t - a.t).tdiv unit⟩

/-- cumulative_sum: the running total up to and including each point (`scanl`) -/
def cumulativeSumDef (A : Arith V F) (xs : List (Pt V)) : List (Pt V) :=
  (List.range xs.length).filterMap fun i =>
    (xs[i]?).map fun p => ⟨p.t, ((xs.take (i + 1)).map (·.v)).foldl A.vo.add A.vo.zero⟩

/-- the running window sum the way a sliding window maintains it: the first
    window is summed left to right, every later one is the previous sum minus the
    value leaving plus the value entering (exact arithmetic: the window's sum). -/
def slideSum (A : Arith V F) (n : Nat) (vs : List V) : Nat → Option V
  | 0 => some ((vs.take n).foldl A.vo.add A.vo.zero)
  | i + 1 =>
    match slideSum A n vs i, vs[i]?, vs[i + n]? with
    | some s, some old, some new => some (A.vo.add (A.vo.sub s old) new)
    | _, _, _ => none

/-- moving_average(n): one point per full window of `n` consecutive points, stamped
    with the window's last time, value = window sum / n; `len − n + 1` points. -/
def movingAverageDef (A : Arith V F) (n : Nat) (xs : List (Pt V)) : List (Pt F) :=
  (List.range (xs.length + 1 - n)).filterMap fun i =>
    match xs[i + n - 1]?, slideSum A n (xs.map (·.v)) i with
    | some last, some s => some ⟨last.t, A.fo.div (A.vo.toF s) (A.fo.ofInt n)⟩
    | _, _ => none

/-- `v` is a k-th smallest value (0-based) of `vs`: fewer than or exactly `k` values are
    smaller, more than `k` are not larger.  No sorting involved. -/
def isKth (A : Arith V F) (vs : List V) (k : Nat) (v : V) : Bool :=
  decide (vs.countP (fun x => A.vo.lt x v) ≤ k) && decide (k < vs.countP (fun x => !A.vo.lt v x))

def sameV (A : Arith V F) (a b : V) : Bool := !A.vo.lt a b && !A.vo.lt b a

/-- nearest-rank index of percentile `pn/pd`: `⌊len·p/100 + 0.5⌋ − 1` -/
def rankIndex (len : Nat) (pn : Int) (pd : Nat) : Int :=
  (2 * (len : Int) * pn + 100 * (pd : Int)) / (200 * (pd : Int)) - 1

/-- percentile: nothing when the rank is outside the series; otherwise ONE input
    point whose value is the `i`-th smallest.  Among equal values a stable sort (which
    `sort.Sort` is up to 12 elements) yields them in arrival order, so the point is the
    `(i − #smaller)`-th of the points holding that value (checked when `stable`). -/
def percentileOK (A : Arith V F) (pn : Int) (pd : Nat) (xs : List (Pt V)) (out : List (Pt V)) : Bool :=
  let i := rankIndex xs.length pn pd
  if i < 0 ∨ i ≥ xs.length then out.isEmpty else
  match out with
  | [p] =>
    let vs := xs.map (·.v)
    let k := i.toNat
    isKth A vs k p.v &&
    (let same := xs.filter (fun q => sameV A q.v p.v)
     if xs.length ≤ 12 then
       match same[k - vs.countP (fun x => A.vo.lt x p.v)]? with
       | some q => decide (q.t = p.t) && A.eqvV q.v p.v
       | none => false
     else same.any (fun q => decide (q.t = p.t) && A.eqvV q.v p.v))
  | _ => false

/-- median: the middle value, or for an even count `lo + (hi − lo)/2` of the two
    middle values; an aggregate, so stamped with `ZeroTime` (the window start is
    filled in by the iterator). -/
def medianValueOK (A : Arith V F) (xs : List (Pt V)) (v : F) : Bool :=
  let vs := xs.map (·.v)
  let n := vs.length
  if n % 2 = 1 then vs.any fun m => isKth A vs (n / 2) m && A.eqvF v (A.vo.toF m)
  else
    let los := vs.filter (isKth A vs (n / 2 - 1))
    let his := vs.filter (isKth A vs (n / 2))
    los.any fun lo => his.any fun hi =>
      A.eqvF v (A.fo.add (A.vo.toF lo) (A.fo.div (A.vo.toF (A.vo.sub hi lo)) (A.fo.ofInt 2)))

/-- occurrences of a value -/
def freq (A : Arith V F) (xs : List (Pt V)) (v : V) : Nat := xs.countP (fun p => A.vo.eq p.v v)

/-- earliest timestamp at which a value occurs -/
def firstTime (A : Arith V F) (xs : List (Pt V)) (v : V) : Option Int :=
  (xs.filter (fun p => A.vo.eq p.v v)).foldl (fun m p => match m with
    | none => some p.t
    | some t => some (if p.t < t then p.t else t)) none

/-- mode: a most frequent value -/
def modeValueOK (A : Arith V F) (xs : List (Pt V)) (v : V) : Bool :=
  xs.any (fun p => A.eqvV p.v v) && xs.all (fun p => decide (freq A xs p.v ≤ freq A xs v))

/-- mode, documented tie rule: "returns the field value with the earliest timestamp if
    there is a tie for the maximum number of occurrences" -/
def modeTieOK (A : Arith V F) (xs : List (Pt V)) (v : V) : Bool :=
  xs.all fun p =>
    if freq A xs p.v = freq A xs v then
      match firstTime A xs v, firstTime A xs p.v with
      | some tv, some tp => decide (tv ≤ tp)
      | _, _ => true
    else true

/-- spread: maximum − minimum -/
def spreadValueOK (A : Arith V F) (xs : List (Pt V)) (v : V) : Bool :=
  let vs := xs.map (·.v)
  let isMax := fun m => vs.all fun x => !A.vo.lt m x
  let isMin := fun m => vs.all fun x => !A.vo.lt x m
  vs.any fun mx => isMax mx && vs.any fun mn => isMin mn && A.eqvV v (A.vo.sub mx mn)

/-- stddev: sample standard deviation `sqrt(Σ (x − mean)² / (n − 1))`, NaN for fewer
    than two points; the mean is the incremental mean `m_k = m_{k-1} + (x_k − m_{k-1})/k`. -/
def incMean (fo : FOps F) : List F → Nat → F → F
  | [], _, m => m
  | x :: xs, k, m => incMean fo xs (k + 1) (fo.add m (fo.div (fo.sub x m) (fo.ofInt ((k : Int) + 1))))

def sumSq (fo : FOps F) (mean : F) : List F → F → F
  | [], acc => acc
  | x :: xs, acc => sumSq fo mean xs (fo.add acc (fo.mul (fo.sub x mean) (fo.sub x mean)))

def stddevDef (A : Arith V F) (xs : List (Pt V)) : List (Pt F) :=
  if xs.length < 2 then [⟨zeroTime, A.fo.nan⟩] else
  let vals := (xs.filter (fun p => !A.vo.isNaN p.v)).map (fun p => A.vo.toF p.v)
  let mean := incMean A.fo vals 0 (A.fo.ofInt 0)
  [⟨zeroTime, A.fo.sqrt (A.fo.div (sumSq A.fo mean vals (A.fo.ofInt 0)) (A.fo.ofInt ((vals.length : Int) - 1)))⟩]

/-- permutation up to the observation equality -/
def permBy {W : Type} (eqv : W → W → Bool) : List (Pt W) → List (Pt W) → Bool
  | [], bs => bs.isEmpty
  | a :: as, bs =>
    match bs.findIdx? (fun b => decide (a.t = b.t) && eqv a.v b.v) with
    | some i => permBy eqv as (bs.eraseIdx i)
    | none => false

def pairwiseB {α : Type} (r : α → α → Bool) : List α → Bool
  | [] => true
  | a :: as => as.all (r a) && pairwiseB r as

/-- distinct: every value once, represented by the first point that carried it, the
    result ordered by time (ties by value). -/
def distinctOK (A : Arith V F) (xs : List (Pt V)) (out : List (Pt V)) : Bool :=
  let firsts := (List.range xs.length).filterMap fun i =>
    match xs[i]? with
    | some p => if (xs.take i).any (fun q => A.vo.eq q.v p.v) then none else some p
    | none => none
  permBy A.eqvV firsts out &&
  pairwiseB (fun a b => decide (a.t < b.t) || (decide (a.t = b.t) && !A.vo.lt b.v a.v)) out

/-- `a` ranks strictly before `b` for top (largest first) / bottom (smallest first);
    among equal values the earlier timestamp ranks first -/
def better (A : Arith V F) (isTop : Bool) (a b : Pt V) : Bool :=
  (if isTop then A.vo.lt b.v a.v else A.vo.lt a.v b.v) ||
  (A.vo.eq a.v b.v && decide (a.t < b.t))

/-- remove the points of `out` from `xs` one by one; `none` if one is not there -/
def removeAll {W : Type} (eqv : W → W → Bool) : List (Pt W) → List (Pt W) → Option (List (Pt W))
  | xs, [] => some xs
  | xs, o :: os =>
    match xs.findIdx? (fun x => decide (o.t = x.t) && eqv o.v x.v) with
    | some i => removeAll eqv (xs.eraseIdx i) os
    | none => none

/-- top(n)/bottom(n): `min n len` input points, best first, none of the points left
    out ranks before a selected one. -/
def topOK (A : Arith V F) (isTop : Bool) (n : Nat) (xs : List (Pt V)) (out : List (Pt V)) : Bool :=
  decide (out.length = min n xs.length) &&
  pairwiseB (fun a b => !better A isTop b a) out &&
  match removeAll A.eqvV xs out with
  | some rest => rest.all fun r => out.all fun o => !better A isTop r o
  | none => false

/-! ### integral: trapezium rule, per GROUP BY time window -/

/-- window `[start, end)` of a timestamp for `GROUP BY time(dur, off)`, `dur > 0` -/
def winOf (dur off t : Int) : Int × Int :=
  let s := t - (t - off) % dur
  (s, s + dur)

/-- area of the trapezium between two points of the curve, in `unit`s -/
def trapezium (A : Arith V F) (unit : Int) (ta : Int) (va : F) (tb : Int) (vb : F) : F :=
  A.fo.mul (A.fo.mul A.fo.half (A.fo.add vb va)) (A.fo.div (A.fo.ofInt (tb - ta)) (A.fo.ofInt unit))

/-- value of the straight line through `(ta, va)`, `(tb, vb)` at time `t` -/
def lineAt (A : Arith V F) (t ta tb : Int) (va vb : F) : F :=
  A.fo.add (A.fo.mul (A.fo.div (A.fo.sub vb va) (A.fo.ofInt (tb - ta))) (A.fo.ofInt (t - ta))) va

/-- the segments of the curve: consecutive points at different times (consecutive points
    with one timestamp enclose no area: the curve jumps) -/
def segments (xs : List (Pt V)) : List (Pt V × Pt V) :=
  (adj xs).filter fun (a, b) => decide (a.t ≠ b.t)

/-- integral without GROUP BY time: the sum of the trapezia, left to right from 0 -/
def trapezia (A : Arith V F) (unit : Int) (xs : List (Pt V)) : F :=
  (segments xs).foldl (fun s (a, b) =>
    A.fo.add s (trapezium A unit a.t (A.vo.toF a.v) b.t (A.vo.toF b.v))) (A.fo.ofInt 0)

/-- the part of segment `(a, b)` that lies in the window starting at `ws` (ascending
    time): the whole segment, or the piece up to the window end / from the window start,
    cut at the linearly interpolated boundary value -/
def pieceIn (A : Arith V F) (unit dur off ws : Int) (a b : Pt V) : Option F :=
  let wa := winOf dur off a.t
  let wb := winOf dur off b.t
  let va := A.vo.toF a.v
  let vb := A.vo.toF b.v
  if wa.1 = ws ∧ wb.1 = ws then some (trapezium A unit a.t va b.t vb)
  else if wa.1 = ws then some (trapezium A unit a.t va wa.2 (lineAt A wa.2 a.t b.t va vb))
  else if wb.1 = ws then some (trapezium A unit wa.2 (lineAt A wa.2 a.t b.t va vb) b.t vb)
  else none

/-- no segment jumps over a whole window (then every piece of the curve lies in a window
    that holds a point) -/
def noSkip (dur off : Int) (xs : List (Pt V)) : Bool :=
  (segments xs).all fun (a, b) => decide ((winOf dur off b.t).1 ≤ (winOf dur off a.t).2)

def ascending (xs : List (Pt V)) : Bool := (adj xs).all fun (a, b) => decide (a.t ≤ b.t)

def dedupI : List Int → List Int
  | [] => []
  | [x] => [x]
  | x :: y :: r => if x = y then dedupI (y :: r) else x :: dedupI (y :: r)

/-- integral with GROUP BY time(dur, off) over an ascending series: one row per window
    that holds a point, stamped with the window start, the area of the curve inside the
    window (pieces summed left to right from 0); the window of the last point is left out
    when that point sits exactly on its start (no area yet). -/
def integralWindowed (A : Arith V F) (unit dur off : Int) (xs : List (Pt V)) : List (Pt F) :=
  let starts := dedupI (xs.map fun p => (winOf dur off p.t).1)
  let lastT := xs.getLast?.map (·.t)
  starts.filterMap fun ws =>
    if starts.getLast? = some ws ∧ lastT = some ws then none
    else some ⟨ws, ((segments xs).filterMap fun (a, b) => pieceIn A unit dur off ws a b).foldl A.fo.add (A.fo.ofInt 0)⟩

/-! ### the statement on one observation -/

def expectF (A : Arith V F) (want : List (Pt F)) : Option (Out V F) → Option String → Option String
  | some (.f l), sig => if ptsEq A.eqvF l want then none else sig
  | _, sig => sig

def expectV (A : Arith V F) (want : List (Pt V)) : Option (Out V F) → Option String → Option String
  | some (.v l), sig => if ptsEq A.eqvV l want then none else sig
  | _, sig => sig

/-- `none` = the observation is what the definition gives; `some signature` otherwise.
    `isInt`: the input values are integers (selects the output kind and, for
    integral, which window rule applies). -/
def verdict (A : Arith V F) (isInt : Bool) (o : Obs V F) : Option String :=
  match o.fn with
  | .derivative unit nonNeg asc => expectF A (derivativeDef A unit nonNeg asc o.xs) o.out (some "derivative")
  | .difference nonNeg => expectV A (differenceDef A nonNeg o.xs) o.out (some "difference")
  | .elapsed unit =>
    match o.out with
    | some (.i l) => if ptsEq (fun a b => decide (a = b)) l (elapsedDef unit o.xs) then none else some "elapsed"
    | _ => some "elapsed"
  | .cumulativeSum => expectV A (cumulativeSumDef A o.xs) o.out (some "cumulative_sum")
  | .movingAverage n => expectF A (movingAverageDef A n o.xs) o.out (some "moving_average")
  | .percentile pn pd =>
    match o.out with
    | some (.v l) => if percentileOK A pn pd o.xs l then none else some "percentile"
    | _ => some "percentile"
  | .median =>
    match o.out with
    | some (.f [p]) =>
      -- aggregates carry no time of their own (`ZeroTime`; the interval iterator stamps the
      -- window start over whatever the reducer reports, so a one-point window may also
      -- come back as that point)
      if !medianValueOK A o.xs p.v then some "median"
      else if p.t = zeroTime ∨ o.xs.map (·.t) = [p.t] then none else some "median"
    | _ => some "median"
  | .mode =>
    match o.out with
    | some (.v [p]) =>
      if !modeValueOK A o.xs p.v then some "mode"
      else if !(p.t = zeroTime ∨ o.xs.map (·.t) = [p.t]) then some "mode"
      else if !modeTieOK A o.xs p.v then some "mode-tie"
      else none
    | _ => some "mode"
  | .spread =>
    match o.out with
    | some (.v [p]) => if spreadValueOK A o.xs p.v && p.t = zeroTime then none else some "spread"
    | _ => some "spread"
  | .stddev => expectF A (stddevDef A o.xs) o.out (some "stddev")
  | .distinct =>
    match o.out with
    | some (.v l) => if distinctOK A o.xs l then none else some "distinct"
    | _ => some "distinct"
  | .top n =>
    match o.out with
    | some (.v l) => if topOK A true n o.xs l then none else some "top"
    | _ => some "top"
  | .bottom n =>
    match o.out with
    | some (.v l) => if topOK A false n o.xs l then none else some "bottom"
    | _ => some "bottom"
  | .integral unit dur off st en asc =>
    match o.out with
    | some (.f l) =>
      -- the definition does not depend on the direction the series is read in
      let xs := if asc then o.xs else o.xs.reverse
      let l := if asc then l else l.reverse
      let sig := if asc then "integral" else "integral-descending"
      if !ascending xs then none            -- not a time-ordered series: nothing stated
      else if !xs.all (fun p => decide (st ≤ p.t) && decide (p.t ≤ en)) then none   -- outside the statement's range
      else if dur = 0 then
        -- one row at the statement's start time (`MinTime` is reported as 0), nothing when
        -- the series ends on it
        let t0 := if isInt then (if st = -9223372036854775806 then 0 else st) else 0
        match xs.getLast? with
        | none => if l.isEmpty then none else some sig
        | some lastp =>
          if lastp.t = t0 then (if l.isEmpty then none else some sig)
          else if ptsEq A.eqvF l [⟨t0, trapezia A unit xs⟩] then none else some sig
      else if !noSkip dur off xs then none   -- a segment spans a whole window: not stated
      else if ptsEq A.eqvF l (integralWindowed A unit dur off xs) then none else some sig
    | _ => some "integral"

def holdsOn (A : Arith V F) (isInt : Bool) (o : Obs V F) : Bool := (verdict A isInt o).isNone

end
end Influx.Spec.C23
