/-
  Spec.C12 — the statement of C12, written from the property text:

  "Parsing arbitrary bytes never panics or hangs.  Every returned point has a non-empty
   measurement, at least one field, unique tag keys, a series key plus field key within the
   maximum key length and a representable timestamp, and the error names exactly the lines
   that were rejected."

  An observation is what `ParsePointsWithPrecision` returned for one input, as seen through
  the public accessors of the points (`Name`, `Tags`, `FieldIterator`, `UnixNano`, `Key`) and
  the error string.  `holdsOn` uses no scanner of the model except the definition of what a
  *line* of the input is (`candidateLines`: the parser's own line splitting — a newline ends a
  line unless it is inside a quoted field value — with blank and comment lines dropped).
-/
import Influx.Proto
import Influx.Model.LineProtocolPoint

namespace Influx.Spec.C12
open Influx Influx.LP Influx.Generated.LineProto

structure PointObs where
  key : Bytes
  name : Bytes
  tags : List Tag
  time : Int
  fieldKeys : List Bytes     -- `FieldIterator`: `FieldKey()` of every field, in order
  clean : Bool               -- no accessor (`Name`, `Tags`, iterator values, `Fields`) panicked
deriving DecidableEq, Repr

structure Obs where
  prec : String
  dt : Int
  buf : Bytes
  /-- `none`: the call panicked, crashed or did not return -/
  res : Option (List PointObs × Option Bytes)
deriving Repr

def distinct : List Bytes → Bool
  | [] => true
  | a :: rest => !rest.contains a && distinct rest

/-- the default time is at least an hour inside the int64 nanosecond range (it is `time.Now()`
    in every caller); only then is "representable" claimed for points without a timestamp -/
def dtSane (dt : Int) : Bool := MinNanoTime + 3600000000000 ≤ dt && dt ≤ MaxNanoTime

def wellFormed (dt : Int) (p : PointObs) : Bool :=
  p.clean &&
  !p.name.isEmpty &&
  !p.fieldKeys.isEmpty &&
  distinct (p.tags.map (·.key)) &&
  p.fieldKeys.all (fun fk => p.key.length + 4 + fk.length ≤ MaxKeyLength) &&
  (!dtSane dt || (MinNanoTime ≤ p.time && p.time ≤ MaxNanoTime))

/-! ### "the error names exactly the lines that were rejected" -/

/-- the lines of the input that are handed to the point parser -/
def candidateLines (buf : Bytes) : List Bytes := (splitLines false {} buf).filterMap lineOfBlock

def stripPrefix : Bytes → Bytes → Option Bytes
  | [], s => some s
  | _ :: _, [] => none
  | a :: p, b :: s => if a = b then stripPrefix p s else none

/-- the suffixes of `s` at which a further entry (or the end) can begin -/
def boundarySuffixes : Bytes → List Bytes
  | [] => [[]]
  | b :: r =>
    (if b = cNL ∧ (stripPrefix errPrefix r).isSome then [b :: r] else []) ++ boundarySuffixes r

/-- Can `e` be read as `unable to parse '<line>': <message>` entries, newline-separated, whose
    lines are, in order, all candidate lines except `np` of them?  (`first`: `e` starts at an
    entry, otherwise at the separating newline.) -/
def namesRejected : List Bytes → Nat → Bytes → Bool → Bool
  | [], np, e, _ => np == 0 && e.isEmpty
  | c :: cs, np, e, first =>
    (np > 0 && namesRejected cs (np - 1) e first) ||
    (match (if first then some e else stripPrefix [cNL] e) with
     | none => false
     | some e1 =>
       match stripPrefix (errPrefix ++ c ++ errSep) e1 with
       | none => false
       | some rem => (boundarySuffixes rem).any fun r => namesRejected cs np r false)

def errorsExact (buf : Bytes) (np : Nat) (err : Option Bytes) : Bool :=
  match err with
  | none => namesRejected (candidateLines buf) np [] true
  | some e => !e.isEmpty && namesRejected (candidateLines buf) np e true

/-- the statement on one observation -/
def holdsOn (o : Obs) : Bool :=
  match o.res with
  | none => false
  | some (pts, err) => pts.all (wellFormed o.dt) && errorsExact o.buf pts.length err

/-- `ParseKeyBytes` on arbitrary bytes: it returns -/
def holdsOnPK (res : Option (Bytes × List Tag)) : Bool := res.isSome

end Influx.Spec.C12
