/-
  Spec.C42 — the statement of C42, written from the property text:

  "Listing measurements, tag keys and tag values for a database (optionally
   restricted by a condition and by shards) returns each matching live name exactly
   once, in sorted order, grouped by measurement. Names whose series the caller's
   authorizer hides are never returned, and names only of deleted series are not
   returned."

  Reference: the history of the case (writes, range deletes with a predicate) gives, per
  shard, the set of LIVE series (those with at least one remaining point) by plain list
  comprehension; a name (measurement / tag key / tag value) is expected iff at least one
  live series of the selected shards that the authorizer allows and that satisfies the
  condition carries it.  Conditions are read per series (a missing tag is the empty string,
  as in InfluxQL).  Types (`Op`, `Auth`, `Cond`) and the byte order come from the model
  files; none of the model's query algorithms is used.
-/
import Influx.Model.StoreDelProto
import Influx.Spec.C16

namespace Influx.Spec.C42
open Influx.Model.DelPred (Bytes Pred)
open Influx.Model.StoreDel (Tags Auth Cond Op cmpBytes tagGet nameKey)

/-- one series of one shard with the times at which it has a point -/
structure Entry where
  shard : Nat
  name : Bytes
  tags : Tags
  times : List Int
deriving Repr

/-- history state: live entries and entries that lost all their points (deleted series) -/
structure Hist where
  live : List Entry
  dead : List Entry
deriving Repr

def Hist.write (h : Hist) (shard : Nat) (name : Bytes) (tags : Tags) (ts : List Int) : Hist :=
  if h.live.any (fun e => e.shard = shard ∧ e.name = name ∧ e.tags = tags) then
    { h with live := h.live.map fun e =>
        if e.shard = shard ∧ e.name = name ∧ e.tags = tags then { e with times := e.times ++ ts } else e }
  else
    { live := h.live ++ [⟨shard, name, tags, ts⟩],
      dead := h.dead.filter fun e => !(e.shard = shard ∧ e.name = name ∧ e.tags = tags) }

/-- a range delete with a predicate, on every shard (C17's statement; C42 cases only use
    deletes for which the real store follows it) -/
def Hist.delete (h : Hist) (lo hi : Int) (pred : Option Pred) : Hist :=
  let upd := h.live.map fun e =>
    if (match pred with | none => true | some p => Spec.C16.evalPred e.name e.tags p) then
      { e with times := e.times.filter fun t => !(lo ≤ t ∧ t ≤ hi) }
    else e
  { live := upd.filter (fun e => !e.times.isEmpty),
    dead := h.dead ++ upd.filter (fun e => e.times.isEmpty) }

/-! ### reference semantics -/

def strictAsc : List Bytes → Bool
  | [] => true
  | [_] => true
  | a :: b :: rest => cmpBytes a b == .lt && strictAsc (b :: rest)

/-- per-series reading of a condition (`_name` is the measurement; a missing tag is "") -/
def holdsOf (name : Bytes) (tags : Tags) : Cond → Bool
  | .cmp k neq v =>
    let x := if k = nameKey then name else (tagGet tags k).getD []
    if neq then x ≠ v else x = v
  | .re k neg vals =>
    -- `=~ /^(?:v1|v2|…)$/`: the value is one of the listed ones
    let x := if k = nameKey then name else (tagGet tags k).getD []
    vals.contains x != neg
  | .and l r => holdsOf name tags l && holdsOf name tags r
  | .or l r => holdsOf name tags l || holdsOf name tags r

def optHolds (name : Bytes) (tags : Tags) (c : Option Cond) : Bool :=
  match c with | none => true | some c => holdsOf name tags c

def clauseHolds (x : Bytes) : Option (Bool × Bytes) → Bool
  | none => true
  | some (neq, v) => if neq then x ≠ v else x = v

/-- the series a query may look at: in the selected shards, allowed by the authorizer -/
def visible (es : List Entry) (a : Auth) (shards : Option (List Nat)) : List Entry :=
  es.filter fun e => (match shards with | none => true | some ids => ids.contains e.shard) && a.allows e.name e.tags

abbrev Triple := Bytes × Bytes × Bytes

/-- the names a query is expected to return, flattened to (measurement, key, value) triples
    (`[]` where the query has no such component) -/
def expected (es : List Entry) : Op → List Triple
  | .mn a c =>
    ((visible es a none).filter fun e => optHolds e.name e.tags c).map fun e => (e.name, [], [])
  | .tk a ids nc kc f =>
    ((visible es a (some ids)).filter fun e => clauseHolds e.name nc && optHolds e.name e.tags f).flatMap
      fun e => (e.tags.filter fun t => clauseHolds t.1 kc).map fun t => (e.name, t.1, [])
  | .tv a ids nc kc f =>
    ((visible es a (some ids)).filter fun e => clauseHolds e.name nc && optHolds e.name e.tags f).flatMap
      fun e => (e.tags.filter fun t => clauseHolds t.1 kc).map fun t => (e.name, t.1, t.2)
  | _ => []

def pairLt (a b : Bytes × Bytes) : Bool :=
  match cmpBytes a.1 b.1 with
  | .lt => true
  | .gt => false
  | .eq => cmpBytes a.2 b.2 == .lt

def strictAscPairs : List (Bytes × Bytes) → Bool
  | [] => true
  | [_] => true
  | a :: b :: rest => pairLt a b && strictAscPairs (b :: rest)

/-! ### answers -/

inductive Ans where
  | names (l : List Bytes)
  | groups (l : List (Bytes × List Bytes))
  | pairs (l : List (Bytes × List (Bytes × Bytes)))
  | other (s : String)
deriving Repr

/-- "each name exactly once, in sorted order, grouped by measurement" -/
def sortedAns : Ans → Bool
  | .names l => strictAsc l
  | .groups g => strictAsc (g.map (·.1)) && g.all fun x => strictAsc x.2
  | .pairs g => strictAsc (g.map (·.1)) && g.all fun x => strictAscPairs x.2 && !x.2.isEmpty
  | .other _ => true

/-- the returned names as triples (a measurement group with an empty key list carries no name) -/
def returned : Ans → List Triple
  | .names l => l.map fun m => (m, [], [])
  | .groups g => g.flatMap fun x => x.2.map fun k => (x.1, k, [])
  | .pairs g => g.flatMap fun x => x.2.map fun kv => (x.1, kv.1, kv.2)
  | .other _ => []

def subset (a b : List Triple) : Bool := a.all b.contains

/-- why an observation fails -/
inductive Verd where
  | ok
  | unsorted
  | wrongSet    -- returned ≠ expected
deriving Repr, DecidableEq

def shapeOK : Op → Ans → Bool
  | .mn .., .names _ => true
  | .tk .., .groups _ => true
  | .tv _ _ none none none, .other s => s = "err:cond-required"
  | .tv _ _ none none none, _ => false
  | .tv .., .pairs _ => true
  | _, _ => false

/-- one metadata observation against the live entries `es` -/
def judgeQuery (es : List Entry) (op : Op) (ans : Ans) : Verd :=
  if !shapeOK op ans then .wrongSet
  else if !sortedAns ans then .unsorted
  else match ans with
    | .other _ => .ok
    | _ => if subset (returned ans) (expected es op) && subset (expected es op) (returned ans) then .ok
           else .wrongSet

/-- walk a case: history ops update the reference, metadata queries are judged -/
def judgeCase : Hist → List (Op × Ans) → List Verd
  | _, [] => []
  | h, (op, ans) :: rest =>
    match op with
    -- only acknowledged history ops count
    | .write sh name tags pts =>
      judgeCase (match ans with | .other "ok" => h.write sh name tags (pts.map (·.1)) | _ => h) rest
    | .del lo hi pred _ =>
      judgeCase (match ans with | .other "ok" => h.delete lo hi pred | _ => h) rest
    | .mn .. | .tk .. | .tv .. => judgeQuery h.live op ans :: judgeCase h rest
    | _ => judgeCase h rest

/-- **The statement on one case.** -/
def holdsOn (obs : List (Op × Ans)) : Bool :=
  (judgeCase ⟨[], []⟩ obs).all (· = .ok)

end Influx.Spec.C42
