/-
  Spec.C08 — the STATEMENT of C08 as an executable check over one case (the
  operations with the answers observed on the implementation), written from the
  property text and not from the reader's algorithms:

    "A TSM file written from any sorted set of keys and blocks reads back with the
     same keys, types, index entries and values, and all index lookups (contains,
     seek, key-at, entries, time range) agree with that content.  Tombstones added
     to a file hide exactly the recorded key/time ranges, persist across reopen,
     and a crash during a tombstone write leaves either the old or the new
     tombstone set."

  The written content is the list of acknowledged `WriteBlock`s, grouped by key,
  each key's blocks ordered by min time, laid out from file position 5 (header) in
  write order.  Every lookup is compared with a list comprehension over that
  content; deletes are the list of acknowledged (key, lo, hi) requests:
    * a point (k, t) is visible  iff  k has a block whose [min,max] contains t and
      no request for k covers t                                  (hide exactly);
    * a key may disappear from the index only when every time of its span is
      covered by requests for it                                (never over-deletes),
      and must disappear when one request covers the whole span;
    * the tombstone file (walk) contains only requested tombstones, contains every
      request that touches a key of the file, and only ever grows by appending
      (persistence; after a crash: the old list or the old list + the new ones).

  Domain (outside it the case is not judged, tag `abstain:*`): keys of 1..65535
  bytes in strictly increasing order, per key fewer than 65535 blocks with
  min ≤ max, max times non-decreasing in min-time order, and distinct min times if
  the blocks were not written in min-time order (Go's sort is unstable); sorted
  key lists in deletes.
-/
import Influx.Model.TsmOps

namespace Influx.Spec.C08
open Influx.Tsm

structure SBlock where
  minT : Int
  maxT : Int
  offset : Nat
  data : Bytes
  pts : Option (List Pt)
deriving Repr, Inhabited

def SBlock.entry (b : SBlock) : IndexEntry := ⟨b.minT, b.maxT, b.offset, 4 + b.data.length⟩

structure SKey where
  key : Key
  typ : Nat
  blocks : List SBlock
deriving Repr, Inhabited

structure Req where
  key : Key
  lo : Int
  hi : Int
deriving DecidableEq, Repr, Inhabited

/-! ### the written content -/

structure Write where
  key : Key
  minT : Int
  maxT : Int
  data : Bytes
  pts : Option (List Pt)
deriving Repr, Inhabited

/-- positions: the header is 5 bytes, every block is preceded by a 4-byte checksum -/
def place (pos : Nat) : List Write → List (Key × SBlock)
  | [] => []
  | w :: ws => (w.key, ⟨w.minT, w.maxT, pos, w.data, w.pts⟩) :: place (pos + 4 + w.data.length) ws

/-- consecutive writes with the same key form one key of the file -/
def groupKeys : List (Key × SBlock) → List (Key × List SBlock)
  | [] => []
  | (k, b) :: rest =>
    match groupKeys rest with
    | (k', bs) :: gs => if k = k' then (k, b :: bs) :: gs else (k, [b]) :: (k', bs) :: gs
    | [] => [(k, [b])]

def insertByMin (b : SBlock) : List SBlock → List SBlock
  | [] => [b]
  | x :: xs => if b.minT < x.minT then b :: x :: xs else x :: insertByMin b xs

def sortByMin (bs : List SBlock) : List SBlock := bs.foldl (fun acc b => insertByMin b acc) []

def mkContent (ws : List Write) : List SKey :=
  (groupKeys (place 5 ws)).map fun (k, bs) =>
    ⟨k, (bs.head?.bind (·.data.head?)).getD 0, sortByMin bs⟩

def pairwise (r : α → α → Bool) : List α → Bool
  | [] => true
  | [_] => true
  | a :: b :: rest => r a b && pairwise r (b :: rest)

def allDistinct [DecidableEq α] : List α → Bool
  | [] => true
  | a :: rest => !rest.contains a && allDistinct rest

/-- why a case is outside the specified domain (`none` = inside) -/
def domainIssue (ws : List Write) (c : List SKey) : Option String :=
  if !pairwise (fun a b => klt a.key b.key) c then some "keys-not-increasing"
  else if c.any (fun k => k.blocks.length ≥ 65535) then some "too-many-blocks"
  else if c.any (fun k => k.blocks.any fun b => b.minT > b.maxT) then some "min-above-max"
  else if c.any (fun k => !pairwise (fun a b => decide (a.maxT ≤ b.maxT)) k.blocks) then some "nonmonotone-max"
  else if (groupKeys (place 5 ws)).any (fun g =>
      !pairwise (fun a b => decide (a.minT ≤ b.minT)) g.2 && !allDistinct (g.2.map (·.minT))) then some "unstable-sort"
  else none

/-! ### what the content says about each lookup -/

def findKey (c : List SKey) (k : Key) : Option SKey := c.find? (·.key = k)

def spanOf (sk : SKey) : Option (Int × Int) :=
  match sk.blocks.head?, sk.blocks.getLast? with
  | some a, some b => some (a.minT, b.maxT)
  | _, _ => none

def reqsFor (reqs : List Req) (k : Key) : List Req := reqs.filter (·.key = k)

def covers (rs : List Req) (t : Int) : Bool := rs.any fun r => decide (r.lo ≤ t) && decide (t ≤ r.hi)

/-- every time of `[lo, hi]` is covered by some request.  The least uncovered time of
    the interval, if there is one, is `lo` or the successor of some request's upper
    end, so these candidates decide it (Lemmas/TsmSpecCover.fullyCovered_iff). -/
def fullyCovered (rs : List Req) (lo hi : Int) : Bool :=
  (lo :: rs.filterMap fun r => if lo ≤ r.hi + 1 ∧ r.hi + 1 ≤ hi then some (r.hi + 1) else none).all (covers rs)

/-- the key may be missing from the index -/
def mayBeAbsent (reqs : List Req) (sk : SKey) : Bool :=
  match spanOf sk with
  | some (lo, hi) => fullyCovered (reqsFor reqs sk.key) lo hi
  | none => true

/-- the key must be missing from the index: one request covers its whole span -/
def mustBeAbsent (reqs : List Req) (sk : SKey) : Bool :=
  match spanOf sk with
  | some (lo, hi) => (reqsFor reqs sk.key).any fun r => decide (r.lo ≤ lo) && decide (hi ≤ r.hi)
  | none => false

def entriesOf (sk : SKey) : List IndexEntry := sk.blocks.map (·.entry)

def visible (c : List SKey) (reqs : List Req) (k : Key) (t : Int) : Bool :=
  match findKey c k with
  | none => false
  | some sk => sk.blocks.any (fun b => decide (b.minT ≤ t) && decide (t ≤ b.maxT)) && !covers (reqsFor reqs k) t

def contentMin (c : List SKey) : Option Int :=
  (c.flatMap (·.blocks)).foldl (fun m b => match m with
    | none => some b.minT
    | some x => some (if b.minT < x then b.minT else x)) none

def contentMax (c : List SKey) : Option Int :=
  (c.flatMap (·.blocks)).foldl (fun m b => match m with
    | none => some b.maxT
    | some x => some (if b.maxT > x then b.maxT else x)) none

def isPrefix [DecidableEq α] : List α → List α → Bool
  | [], _ => true
  | _ :: _, [] => false
  | a :: as, b :: bs => a = b && isPrefix as bs

def isSuffix [DecidableEq α] (a b : List α) : Bool := isPrefix a.reverse b.reverse

def reqOf (t : Tombstone) : Req := ⟨t.key, t.min, t.max⟩

/-- a request that must be in the tombstone file: its key is in the file and its
    range meets the key's span -/
def mustRecord (c : List SKey) (r : Req) : Bool :=
  match findKey c r.key with
  | none => false
  | some sk => match spanOf sk with
    | some (lo, hi) => decide (r.lo ≤ hi) && decide (lo ≤ r.hi)
    | none => false

def sortedKeys (ks : List Key) : Bool := pairwise (fun a b => kle a b) ks

/-! ### the fold over one case -/

structure S where
  writes : List Write := []           -- acknowledged, newest first
  wfail : Bool := false               -- the writer answered an error/panic: content is not judged
  wdone : Bool := false
  content : Option (List SKey) := none
  abstain : Option String := none
  emptyKey : Bool := false
  opened : Bool := false
  reqs : List Req := []               -- committed delete requests, oldest first
  pend : Option (List Req) := none    -- requests of the open batch
  lastWalk : List Tombstone := []
  -- stand-alone tombstoner
  tsObj : Bool := false
  tsFile : List Tombstone := []
  tsPend : Option (List Tombstone) := none
  tsAbstain : Bool := false
  fails : List String := []           -- newest first
  tags : List String := []
  nontrivial : Bool := false
deriving Inhabited

def S.fail (s : S) (sig : String) (i : Nat) : S :=
  let sig := if s.emptyKey && sig ≠ "seek-past-end" && sig ≠ "timerange-max-clamped" then "empty-key-merged" else sig
  { s with fails := s!"{sig}:op{i}" :: s.fails }
def S.tag (s : S) (t : String) : S := if s.tags.contains t then s else { s with tags := t :: s.tags }
def S.need (s : S) (b : Bool) (sig : String) (i : Nat) : S := if b then s else s.fail sig i

/-- judge a write answer; record the write when it was accepted -/
def judgeWrite (s : S) (i : Nat) (key : Key) (minT maxT : Int) (block : Bytes) (pts : Option (List Pt)) (a : Ans) : S :=
  if s.wdone then s.need (a = .dead) "write-after-close" i
  else if s.wfail ∧ a = .dead then s
  else if key.length > 65535 then s.need (a = .err "maxkey") "maxkey-accepted" i
  else match block with
  | [] => s.need (a = .ok) "empty-block-answer" i
  | b0 :: _ =>
    if b0 > 4 then s.need (a = .err "blocktype") "blocktype-accepted" i
    else match a with
    | .ok => { s with writes := ⟨key, minT, maxT, block, pts⟩ :: s.writes }
    | .err "maxblocks" => { s with writes := ⟨key, minT, maxT, block, pts⟩ :: s.writes, wfail := true }
    | .err "panic:unsorted" => { s with wfail := true, wdone := true }
    | _ => s.fail "write-answer" i

def rangeOK (c : List SKey) (r : Req) : Bool := (findKey c r.key).isSome

def judgeWalk (s : S) (i : Nat) (c : List SKey) (reqs : List Req) (w : List Tombstone) : S :=
  let s := s.need (w.all fun t => reqs.contains (reqOf t)) "tombstone-not-requested" i
  let s := s.need (reqs.all fun r => !mustRecord c r || w.contains ⟨r.key, r.lo, r.hi⟩) "tombstone-lost" i
  let s := s.need (isPrefix s.lastWalk w) "tombstones-not-persistent" i
  { s with lastWalk := w }

/-- one reader-side operation against the content `c` -/
def judgeRead (s : S) (i : Nat) (c : List SKey) (op : Op) (a : Ans) : S :=
  let reqs := s.reqs
  let pristine := reqs.isEmpty
  let present (sk : SKey) := !mayBeAbsent reqs sk      -- must be in the index
  let gone (sk : SKey) := mustBeAbsent reqs sk          -- must not be in the index
  match op, a with
  | .keycount, .num n =>
    s.need (decide (((c.filter present).length : Int) ≤ n) && decide (n ≤ ((c.filter (!gone ·)).length : Int))) "keycount" i
  | .keyat j, a =>
    if pristine then
      match (if j < 0 then none else c[j.toNat]?), a with
      | some sk, .keyTyp k t => s.need (k = sk.key && t = sk.typ) "keyat" i
      | none, .nil => s
      | _, _ => s.fail "keyat" i
    else match a with
      | .nil => s
      | .keyTyp k t => s.need (c.any fun sk => sk.key = k && sk.typ = t && !gone sk) "keyat" i
      | _ => s.fail "keyat" i
  | .key j, a =>
    if pristine then
      match (if j < 0 then none else c[j.toNat]?), a with
      | some sk, .keyFull k t es => s.need (k = sk.key && t = sk.typ && es = entriesOf sk) "key" i
      | none, .nil => s
      | _, _ => s.fail "key" i
    else match a with
      | .nil => s
      | .keyFull k t es => s.need (c.any fun sk => sk.key = k && sk.typ = t && es = entriesOf sk && !gone sk) "key" i
      | _ => s.fail "key" i
  | .seek k, .num n =>
    if pristine then
      let exp : Int := (c.filter fun sk => klt sk.key k).length
      if n = exp then s
      else if exp = c.length ∧ c.length > 0 ∧ n = exp - 1 then s.fail "seek-past-end" i
      else s.fail "seek" i
    else s.need (decide (0 ≤ n) && decide (n ≤ (c.length : Int))) "seek" i
  | .contains k, .bool b =>
    match findKey c k with
    | none => s.need (!b) "contains-absent-key" i
    | some sk => s.need ((b || !present sk) && (!b || !gone sk)) "contains" i
  | .containsvalue k t, .bool b => s.need (b = visible c reqs k t) "containsvalue" i
  | .entries k, .entries es =>
    match findKey c k with
    | none => s.need es.isEmpty "entries-absent-key" i
    | some sk => if es.isEmpty then s.need (!present sk) "entries-lost" i
                 else s.need (es = entriesOf sk && !gone sk) "entries" i
  | .entry k t, a =>
    let exp := (findKey c k).bind fun sk => (entriesOf sk).find? fun e => decide (e.MinTime ≤ t) && decide (t ≤ e.MaxTime)
    match a, exp with
    | .nil, none => s
    | .nil, some _ => s.need (((findKey c k).map fun sk => !present sk).getD true) "entry-lost" i
    | .entries [e], some x => s.need (e = x && ((findKey c k).map fun sk => !gone sk).getD false) "entry" i
    | _, _ => s.fail "entry" i
  | .typ k, a =>
    match findKey c k, a with
    | none, .err "nokey" => s
    | some sk, .err "nokey" => s.need (!present sk) "type-lost" i
    | some sk, .num t => s.need (t = sk.typ && !gone sk) "type" i
    | _, _ => s.fail "type" i
  | .timerange, .times lo hi =>
    match contentMin c, contentMax c with
    | some mn, some mx =>
      if lo = mn ∧ hi = mx then s
      else if lo = mn ∧ mx < 0 ∧ hi = 0 then s.fail "timerange-max-clamped" i
      else s.fail "timerange" i
    | _, _ => s
  | .overlapstime lo hi, .bool b =>
    match contentMin c, contentMax c with
    | some mn, some mx =>
      let exp := decide (mn ≤ hi) && decide (mx ≥ lo)
      if b = exp then s
      else if mx < 0 ∧ b = (decide (mn ≤ hi) && decide (0 ≥ lo)) then s.fail "timerange-max-clamped" i
      else s.fail "overlapstime" i
    | _, _ => s
  | .keyrange, .keys2 lo hi =>
    s.need (some lo = c.head?.map (·.key) && some hi = c.getLast?.map (·.key)) "keyrange" i
  | .overlapskey lo hi, .bool b =>
    match c.head?, c.getLast? with
    | some f, some l => s.need (b = (kle f.key hi && kle lo l.key)) "overlapskey" i
    | _, _ => s
  | .tombrange k, .ranges rs =>
    let s := s.need (rs.all fun r => (reqsFor reqs k).contains ⟨k, r.Min, r.Max⟩) "tombrange-not-requested" i
    s.need (pairwise (fun a b => decide (a.Min < b.Min) || (a.Min = b.Min && decide (a.Max ≤ b.Max))) rs) "tombrange-order" i
  | .readbytes k j, a =>
    let exp := (findKey c k).bind fun sk => if j < 0 then none else sk.blocks[j.toNat]?
    match a, exp with
    | .nil, none => s
    | .nil, some _ => s.need (((findKey c k).map fun sk => !present sk).getD true) "block-lost" i
    | .crcBytes _ d, some b => s.need (d = b.data && ((findKey c k).map fun sk => !gone sk).getD false) "block-bytes" i
    | _, _ => s.fail "readbytes" i
  | .readall k, .points ps =>
    match findKey c k with
    | none => s.need ps.isEmpty "readall-absent-key" i
    | some sk =>
      match sk.blocks.mapM (·.pts) with
      | none => s           -- raw blocks: values are not specified
      | some bps => s.need (ps = bps.flatten.filter fun p => !covers (reqsFor reqs k) p.1) "readall" i
  | .read k t, .points ps =>
    let blk := (findKey c k).bind fun sk => sk.blocks.find? fun b => decide (b.minT ≤ t) && decide (t ≤ b.maxT)
    match blk with
    | none => s.need ps.isEmpty "read-no-block" i
    | some b =>
      match b.pts with
      | none => s
      | some bp => s.need (ps = bp || (ps.isEmpty && ((findKey c k).map fun sk => !present sk).getD true)) "read" i
  | .iter, .blocks bs =>
    if pristine then
      let exp := c.flatMap fun sk => sk.blocks.map fun b => (sk.key, b.minT, b.maxT, sk.typ, b.data)
      s.need (bs.map (fun b => (b.key, b.minT, b.maxT, b.typ, b.data)) = exp) "iter" i
    else s
  | .walk, .tombs w => judgeWalk s i c reqs w
  | .hastomb, .bool _ => s
  | _, .star => s
  | _, _ => s.fail "answer-shape" i

def reqsOf (ks : List Key) (lo hi : Int) : List Req := ks.map fun k => ⟨k, lo, hi⟩

def stepS (s : S) (i : Nat) (op : Op) (a : Ans) : S :=
  match op with
  | .wb key minT maxT block pts => judgeWrite s i key minT maxT block pts a
  | .wbn key count t0 st block =>
    match a with
    | .runs [("ok", n)] =>
      if n = count ∧ key.length ≤ 65535 ∧ block.head?.any (· ≤ 4) then
        { s with writes := ((List.range count).map fun (j : Nat) =>
            (⟨key, t0 + (j : Int) * st, t0 + (j : Int) * st + st - 1, block, none⟩ : Write)).reverse ++ s.writes }
      else s.fail "write-answer" i
    | .dead => s
    | _ => { s with wfail := true }
  | .wsize | .file | .index | .filelen => s
  | .wi =>
    if s.wdone then s.need (a = .dead) "write-after-close" i
    else
      let s := { s with wdone := true }
      if s.wfail then s
      else match a with
      | .ok =>
        if s.writes.isEmpty then s.fail "index-without-values" i
        else
          let ws := s.writes.reverse
          let c := mkContent ws
          let s := { s with content := some c, emptyKey := c.any (·.key.isEmpty), nontrivial := true }
          match domainIssue ws c with
          | some why => { (s.tag ("abstain:" ++ why)) with abstain := some why }
          | none => s
      | .err "novalues" => s.need s.writes.isEmpty "values-lost" i
      | _ => s.fail "writeindex-answer" i
  | .open_ =>
    match s.content, s.abstain with
    | some _, none =>
      if s.opened then s
      else
        let s := s.need (a = .ok) "open-failed" i
        if a = .ok then { s with opened := true, pend := none } else s
    | _, _ => s
  | .reopen =>
    match s.content, s.abstain with
    | some _, none =>
      if !s.opened then s
      else
        let s := s.need (a = .ok) "reopen-failed" i
        if a = .ok then { s with pend := none } else { s with opened := false, pend := none }
    | _, _ => s
  | .close => if a = .ok then { s with opened := false, pend := none } else s
  | .tsNew => { s with tsObj := true, tsPend := none }
  | .tsAdd ks | .tsAddRange ks _ _ =>
    if !s.tsObj then s.need (a = .err "no-ts") "ts-answer" i
    else
      let (lo, hi) := match op with
        | .tsAddRange _ lo hi => (lo, hi)
        | _ => (minInt64, maxInt64)
      let s := s.need (a = .ok) "ts-answer" i
      if ks.isEmpty then s
      else { s with tsPend := some (s.tsPend.getD [] ++ ks.map fun k => ⟨k, lo, hi⟩), nontrivial := true }
  | .tsFlush =>
    if !s.tsObj then s.need (a = .err "no-ts") "ts-answer" i
    else
      let s := s.need (a = .ok) "ts-answer" i
      match s.tsPend with
      | some p => { s with tsFile := s.tsFile ++ p, tsPend := none }
      | none => s
  | .tsRollback => if !s.tsObj then s.need (a = .err "no-ts") "ts-answer" i else { (s.need (a = .ok) "ts-answer" i) with tsPend := none }
  | .tsDelete =>
    if !s.tsObj then s.need (a = .err "no-ts") "ts-answer" i
    else { (s.need (a = .ok) "ts-answer" i) with tsFile := [], tsAbstain := s.tsAbstain || s.tsPend.isSome }
  | .tsHas => s
  | .tsWalkFresh =>
    if !s.tsObj then s.need (a = .err "no-ts") "ts-answer" i
    else if s.tsAbstain then s.tag "abstain:ts-delete-while-pending"
    else s.need (a = .tombs s.tsFile) "walk-differs-from-committed" i
  | .tsWalk =>
    if !s.tsObj then s.need (a = .err "no-ts") "ts-answer" i
    else if s.tsAbstain then s
    else match a with
      | .tombs w => s.need (isSuffix w s.tsFile) "walk-not-of-committed" i
      | _ => s.fail "ts-answer" i
  | op =>
    match s.content, s.abstain, s.opened with
    | some c, none, true =>
      match op with
      | .del ks =>
        if !sortedKeys ks then { (s.tag "abstain:unsorted-delete-keys") with abstain := some "unsorted-delete-keys" }
        else if s.pend.isSome then s
        else { (s.need (a = .ok) "delete-failed" i) with reqs := s.reqs ++ reqsOf ks minInt64 maxInt64 }
      | .delrange ks lo hi =>
        if !sortedKeys ks then { (s.tag "abstain:unsorted-delete-keys") with abstain := some "unsorted-delete-keys" }
        else if s.pend.isSome then s
        else { (s.need (a = .ok) "delete-failed" i) with reqs := s.reqs ++ reqsOf ks lo hi }
      | .bdBegin => if s.pend.isSome then s else { (s.need (a = .ok) "delete-failed" i) with pend := some [] }
      | .bdRange ks lo hi =>
        if !sortedKeys ks then { (s.tag "abstain:unsorted-delete-keys") with abstain := some "unsorted-delete-keys" }
        else match s.pend with
          | some p => { (s.need (a = .ok) "delete-failed" i) with pend := some (p ++ reqsOf ks lo hi) }
          | none => s
      | .bdCommit =>
        match s.pend with
        | some p => { (s.need (a = .ok) "delete-failed" i) with reqs := s.reqs ++ p, pend := none }
        | none => s
      | .bdRollback => { s with pend := none }
      | .crash ks lo hi _ =>
        if !sortedKeys ks then { (s.tag "abstain:unsorted-delete-keys") with abstain := some "unsorted-delete-keys" }
        else if s.pend.isSome then s
        else match a with
          | .crash pfx old new outs =>
            let s := s.need pfx "tmp-not-a-prefix-of-new-file" i
            let s := judgeWalk s i c s.reqs old
            let s := { s with reqs := s.reqs ++ reqsOf ks lo hi }
            -- every crash state re-opens with the old list or the old list + the new tombstones
            let s := s.need (outs.all fun o => o = some old || o = some new) "crash-mixed-tombstones" i
            (judgeWalk s i c s.reqs new).tag "crash"
          | _ => s.fail "answer-shape" i
      | op => if s.pend.isSome then s else judgeRead s i c op a
    | _, _, _ => s

structure Result where
  fails : List String
  nontrivial : Bool
  tags : List String

def run (tr : List (Op × Ans)) : S :=
  (tr.zipIdx.foldl (fun s x => stepS s x.2 x.1.1 x.1.2) ({} : S))

def check (tr : List (Op × Ans)) : Result :=
  let s := run tr
  ⟨s.fails.reverse, s.nontrivial, s.tags.reverse⟩

/-- the statement on one case -/
def holdsOn (tr : List (Op × Ans)) : Bool := (run tr).fails.isEmpty

end Influx.Spec.C08
