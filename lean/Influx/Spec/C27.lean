/-
  Spec.C27 — the statement of C27, written from the property text:

    "For any sequence of remote responses (success, timeouts, 429 with or without
     Retry-After, 4xx, 5xx), every batch enqueued for a replication is posted to
     the remote in enqueue order and is removed from the queue only after the
     remote accepted it, except when the remote answers 400 and dropping
     non-retryable data is enabled, or the batch exceeds the configured max age.
     Retry delays follow the documented backoff and Retry-After rules."

  The checker sees: what was enqueued, which bodies the remote received during
  each `SendWrite` and what it answered, the returned delay, and (on `dump`) what
  is still queued.  It keeps, per enqueued batch, whether it has been accepted,
  and how many batches are old enough to be purged.  It knows nothing of
  segments, scanners or the writer's code.

  Documented delay rules (writer.go comments / DESIGN §5 C27): after more than
  10 failed attempts wait 15 min, else 0.5·2^(n−1) s; 429 with `Retry-After: n`,
  n > 0 ⇒ n s; `Retry-After: 0` ⇒ the minimal backoff(1); absent / unparsable /
  other statuses / no response ⇒ backoff(n).
-/
import Influx.Model.ReplicationTypes

namespace Influx.Spec.C27
open Influx.Repl

/-- 0.5·2^(n−1) s = 2^n / 4 s, in ns; 15 min after more than 10 attempts -/
def docBackoff (n : Nat) : Int :=
  if n > 10 then 15 * 60 * 1000000000 else ((2 ^ n * 1000000000 / 4 : Nat) : Int)

/-- the remote accepted the batch, or the batch may be given up (400 + drop) -/
def releases (drop : Bool) (r : Resp) : Bool :=
  r.kind == 0 && (r.status == 204 || (r.status == 400 && drop))

/-- is `w` the documented delay after the `fails`-th consecutive failure answered by `r` -/
def delayOk (fails : Nat) (r : Resp) (w : Int) : Bool :=
  if r.kind == 0 && r.status == 429 then
    match r.retryAfter with
    | none => w == docBackoff fails
    | some s =>
      if s == "0" then w == docBackoff 1
      else match atoi s with
        | none => w == docBackoff fails
        | some n =>
          if n > 0 then (if n ≤ 9000000000 then w == n * 1000000000 else true)
          else if n == 0 then w == docBackoff fails
          else true                    -- negative Retry-After: nothing documented
  else w == docBackoff fails

structure SS where
  enq : List Bytes := []        -- batches enqueued, in order
  acc : List Bool := []         -- per batch: released by the remote (204, or 400 with dropping on)
  purgeable : Nat := 0          -- batches older than the max age
  mayPurged : Nat := 0          -- batches a purge may have removed
  posted : Nat := 0             -- batches posted at least once (a prefix of `enq`)
  fails : Nat := 0              -- consecutive failed writes
  drop : Bool := false
deriving Repr

/-- every batch before `g` is released or may have been purged -/
def SS.goneOk (s : SS) (g : Nat) : Bool :=
  (List.range g).all fun i => s.acc.getD i false || decide (i < s.mayPurged)

def setTrue (xs : List Bool) (i : Nat) : List Bool := xs.set i true

/-- the responses the posted bodies got: the script, then 204 -/
def respAt (script : List Resp) (k : Nat) : Resp := script.getD k { kind := 0, status := 204 }

/-- process the posts of one `SendWrite` that started at batch `j` -/
def sendFrom (s : SS) (script : List Resp) (j n : Nat) (wait : Int) (retry : Bool) (failed : Nat) : Option SS :=
  -- all but the last were released (otherwise the scan would have stopped there)
  let allButLast := (List.range (n - 1)).all fun k => releases s.drop (respAt script k)
  let last := respAt script (n - 1)
  let acc' := (List.range (n - 1)).foldl (fun a k => setTrue a (j + k)) s.acc
  if !allButLast then none
  else if releases s.drop last then
    if wait == 0 && retry && failed == 0 then
      some { s with acc := setTrue acc' (j + n - 1), posted := max s.posted (j + n), fails := 0 }
    else none
  else
    let fails := if n ≥ 2 then 0 else s.fails
    if delayOk fails last wait && retry && failed == fails + 1 then
      some { s with acc := acc', posted := max s.posted (j + n), fails := fails + 1 }
    else none

/-- the checker states consistent with answer `a` to `op` from `s`
    (several when two identical batches make the start of a run of posts ambiguous) -/
def wstep (s : SS) : Op → Ans → List SS
  | .init _ _ _, .err => [s]
  | .enq b, .ok => [{ s with enq := s.enq ++ [b], acc := s.acc ++ [false] }]
  | .enq _, .err => [s]
  | .age, .ok => [{ s with purgeable := s.enq.length }]
  | .purge, .ok => [{ s with mayPurged := max s.mayPurged s.purgeable }]
  | .dump, .dumped rs =>
    if rs.length ≤ s.enq.length ∧ s.enq.drop (s.enq.length - rs.length) = rs ∧
       s.goneOk (s.enq.length - rs.length) then [s] else []
  | .send script, .sent posted wait retry failed =>
    if posted.isEmpty then
      -- nothing to send: every batch is released or purged
      if wait == 0 && !retry && failed == s.fails && s.goneOk s.enq.length then [s] else []
    else
      -- the posts are a run of consecutive batches starting at some j: no batch
      -- before j is still owed, and no batch that was never posted is skipped
      let n := posted.length
      let js := (List.range (s.enq.length + 1)).filter fun j =>
        (s.enq.drop j).take n == posted && s.goneOk j && decide (j ≤ max s.posted s.mayPurged)
      js.filterMap fun j => sendFrom s script j n wait retry failed
  | _, _ => []

/-- `none`: no replication stream yet; `some ws`: the consistent checker states -/
abbrev SpecState := Option (List SS)

def sstep : SpecState → Op × Ans → SpecState
  | st, (.backoff n, .dur d) => if d == docBackoff n then st else some []
  | none, (.init d _ _, .inited _) => some [{ drop := d }]
  | none, (_, .notInit) => none
  | none, _ => some []
  | some ws, (op, a) => some (ws.flatMap fun w => wstep w op a)

def run (obs : List (Op × Ans)) : SpecState := obs.foldl sstep none

/-- The statement on one case. -/
def holdsOn (obs : List (Op × Ans)) : Bool :=
  match run obs with
  | none => true
  | some ws => !ws.isEmpty

/-- index of the first observation that violates the statement -/
def firstFail (st : SpecState) : List (Op × Ans) → Nat → Option Nat
  | [], _ => none
  | oa :: rest, i =>
    match sstep st oa with
    | some [] => some i
    | st' => firstFail st' rest (i + 1)

end Influx.Spec.C27
