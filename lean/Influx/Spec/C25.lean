/-
  Spec.C25 — the statement of C25, written from the property text:

    "Across any sequence of task create, update (status, schedule) and delete
     operations through the coordinating task service, the set of tasks the
     scheduler will run is exactly the set of existing tasks whose status is
     active, each with its latest schedule."

  One case is a history of operations, each with the observation made after it
  (result, the store's tasks, what the scheduler holds).  The checker keeps its
  own abstract map id ↦ (status, schedule) built only from the requests and
  their results, and demands after every operation

    (a) the scheduler holds exactly the active tasks of the store, each with
        the store's current schedule (effective cron, offset), and
    (b) the store is the abstract map: "existing" and "latest schedule" mean
        what the acknowledged requests said.

  It is evaluated on the REAL implementation's observations at run time and is
  the subject of `Props.C25.C25_holdsOn`.
-/
import Influx.Proto
import Influx.Model.Coord

namespace Influx.Spec.C25
open Influx.Model.Coord

/-- what the scheduler should hold for an active task -/
def entryOf (t : Task) : Entry := { id := t.id, eff := t.sched.eff, offset := t.sched.offset }

def isActive (t : Task) : Bool := t.status == .active

/-- `{ (t.id, t.latestSchedule) | t ∈ tasks, t.status = active }`, ascending id when `tasks` is. -/
def expected (tasks : List Task) : List Entry := (tasks.filter isActive).map entryOf

/-- insert into an id-ascending list (replacing an equal id) -/
def insertTask (t : Task) : List Task → List Task
  | [] => [t]
  | x :: xs =>
    if t.id < x.id then t :: x :: xs
    else if t.id = x.id then t :: xs
    else x :: insertTask t xs

def lookup (id : Nat) (m : List Task) : Option Task := m.find? (fun t => t.id == id)

/-- The abstract map after one acknowledged request. `none`: the result makes no
    sense for the request (e.g. an update of an unknown id answered ok). -/
def absStep (m : List Task) (op : Op) (o : Obs) : Option (List Task) :=
  match op, o.res with
  | .create st si, .created k =>
    if (lookup k m).isSome then none
    else some (insertTask { id := k, status := st.getD .active, sched := si.toSched } m)
  | .create _ _, .err _ => some m
  | .update id st si, .ok =>
    match lookup id m with
    | none => none
    | some old =>
      some (insertTask { id := id, status := st.getD old.status,
                         sched := (si.map SchedIn.toSched).getD old.sched } m)
  | .optUpdate id ev cr off _, .ok =>
    -- an acknowledged options patch: "the options patch sets the effective schedule"
    match lookup id m with
    | none => none
    | some old => some (insertTask { old with sched := patchSched old.sched ev cr off } m)
  | .optUpdate _ _ _ _ _, .err .sched => some o.tasks
  | .optUpdate _ _ _ _ _, .err _ => some m
  | .update _ _ _, .err .sched => some o.tasks   -- failed half-way: not judged by (b), resynchronise
  | .update _ _ _, .err _ => some m
  | .delete id, .ok => if (lookup id m).isSome then some (m.filter (fun t => t.id ≠ id)) else none
  | .delete _, .err _ => some m
  | .restart _ _, _ => some m
  | .cancel _ _, _ => some m
  | .force _ _, _ => some m
  | .retry _ _, _ => some m
  | _, _ => none

/-- why (a) fails, for the report -/
def explain (tasks : List Task) (held : List Entry) : String :=
  match held.find? (fun e => !(tasks.any (fun t => t.id == e.id))) with
  | some e => s!"ghost-scheduled:id={e.id}"
  | none =>
    match held.find? (fun e => tasks.any (fun t => t.id == e.id && !isActive t)) with
    | some e => s!"inactive-scheduled:id={e.id}"
    | none =>
      match tasks.find? (fun t => isActive t && !(held.any (fun e => e.id == t.id))) with
      | some t => s!"active-unscheduled:id={t.id}"
      | none =>
        match tasks.find? (fun t => isActive t && !(held.contains (entryOf t))) with
        | some t => s!"stale-schedule:id={t.id}"
        | none => "scheduler-set-malformed:"

/-- The statement on one history: `none` = holds, `some reason` otherwise. -/
def check : List Task → List (Op × Obs) → Option String
  | _, [] => none
  | m, (op, o) :: rest =>
    if o.held ≠ expected o.tasks then some (explain o.tasks o.held)
    else
      match absStep m op o with
      | none => some "result-impossible:"
      | some m' =>
        if o.tasks ≠ m' then some "store-differs-from-acknowledged-requests:"
        else check m' rest

def holdsOn (h : List (Op × Obs)) : Bool := (check [] h).isNone

end Influx.Spec.C25
