/-
  Spec.C28 — the statement of C28, written from the property text and not from
  the code: "A permission grants a request only if the actions are equal and the
  permission is instance-wide, or has the same resource type and is either
  type-wide, scoped to the request's organization, or names the requested
  resource ID."
-/
import Influx.Proto
import Influx.Model.AuthzTypes

namespace Influx.Spec.C28
open Influx

/-- The permission is instance-wide (resource type `instance`). -/
def instanceWide (p : Permission) : Prop := p.Resource.Type_ = "instance"
/-- Type-wide: names neither an organization nor a resource. -/
def typeWide (p : Permission) : Prop := p.Resource.OrgID = none ∧ p.Resource.ID = none
/-- Organization-scoped (names an organization and no single resource) and
    scoped to the request's organization. -/
def orgScoped (p r : Permission) : Prop :=
  p.Resource.ID = none ∧ ∃ o, p.Resource.OrgID = some o ∧ r.Resource.OrgID = some o
/-- Names the requested resource ID. -/
def namesID (p r : Permission) : Prop :=
  ∃ i, p.Resource.ID = some i ∧ r.Resource.ID = some i

/-- What a grant may rest on, by the property text. -/
def Justified (p r : Permission) : Prop :=
  p.Action = r.Action ∧
    (instanceWide p ∨
      (p.Resource.Type_ = r.Resource.Type_ ∧ (typeWide p ∨ orgScoped p r ∨ namesID p r)))

instance (p r : Permission) : Decidable (Justified p r) := by
  unfold Justified instanceWide typeWide orgScoped namesID
  cases p.Resource.OrgID <;> cases r.Resource.OrgID <;> cases p.Resource.ID <;> cases r.Resource.ID <;>
    simp <;> exact inferInstance

/-- One observation: permission, request, and the answer (`none` = the call panicked). -/
structure Obs where
  p : Permission
  r : Permission
  ans : Option Bool

/-- The statement on one observation: the call returns, and a grant is justified. -/
def holdsOn (o : Obs) : Bool :=
  match o.ans with
  | none => false
  | some true => decide (Justified o.p o.r)
  | some false => true

end Influx.Spec.C28
