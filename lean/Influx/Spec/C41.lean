/-
  Spec.C41 — the statement of C41, written from the property text:

    "For any stored series, query bounds, window (every, offset) and pushed-down aggregate,
     the tables the Flux storage reader produces contain one row per non-empty window (one
     row per window inside the bounds when empty windows are requested), with _start/_stop
     equal to the window clipped to the query bounds. Each row's value equals the aggregate
     of the raw rows that a filter read returns for that window, and empty windows carry
     null (0 for count)."

  `pts` is what a filter read of the bounds returns for the series (time order).  Windows
  are `[offset + i·every, offset + (i+1)·every)` (floor division; no running state).

  How the tables are read:
  * without a time column every window is its own table keyed by the clipped window; the
    table has one row (whose `_start/_stop` repeat the key) or, for a selector without a
    value, no row at all — both count as "the window carries null";
  * with a time column (`_start` or `_stop`) there is one table keyed by the query bounds
    and every row carries the clipped window start (resp. stop) in `_time`.
  * a `_time` column next to `_start/_stop` (selectors) must hold the time of the selected point.

  Reading of "when empty windows are requested": a selector read with a time column
  (the shape `aggregateWindow(fn: first, …)` compiles to, which drops null rows afterwards)
  is not required to materialise empty windows, unless ForceAggregate is set.
  A series without a point in the bounds is not reported at all.
-/
import Influx.Proto
import Influx.Model.FluxTable
import Influx.Spec.C20

namespace Influx.Spec.C41
open Influx.WindowAgg Influx.FluxTable

/-- index of the window containing `t` -/
def widx (q : Req) (t : Int) : Int := (t - q.offset) / q.every

def clipped (q : Req) (i : Int) : Int × Int :=
  let s := q.offset + i * q.every
  (max s q.bstart, min (s + q.every) q.bstop)

set_option wf.preprocess false in
/-- the distinct window indices of the points, in order of first appearance (ascending for
    time-ordered points) -/
def distinctIdx (q : Req) : List (Pt Val) → List Int
  | [] => []
  | p :: ps => widx q p.1 :: distinctIdx q (ps.filter fun x => !(widx q x.1 == widx q p.1))
termination_by l => l.length
decreasing_by
  simp only [List.length_cons]
  exact Nat.lt_succ_of_le (List.length_filter_le _ _)

/-- `lo, lo+1, …` (`n` of them) -/
def intRange (lo : Int) : Nat → List Int
  | 0 => []
  | n + 1 => lo :: intRange (lo + 1) n

def emptiesRequired (q : Req) : Bool :=
  q.createEmpty && !(isSelector q.agg && !q.force && q.timeCol != .none)

/-- the windows that must be reported -/
def windows (q : Req) (pts : List (Pt Val)) : List Int :=
  if emptiesRequired q then
    let lo := widx q q.bstart
    let hi := widx q (q.bstop - 1)
    intRange lo (hi - lo + 1).toNat
  else distinctIdx q pts

/-- what one window must show: clipped bounds and the aggregate of its raw rows
    (`none` = no raw row: null, or 0 for count) -/
def expectedRow (o : Ops Val) (q : Req) (pts : List (Pt Val)) (i : Int) : (Int × Int) × Option (Pt Val) :=
  (clipped q i,
   Spec.C20.aggregate o q.agg (q.offset + (i + 1) * q.every) (pts.filter fun p => widx q p.1 == i))

/-- a reported window: clipped bounds, `_time` cell if the schema has one besides the window columns, value -/
structure Logical where
  start : Int
  stop : Int
  time : Cell
  value : Option Val
deriving Repr

/-- read the tables as a sequence of reported windows; `none` = malformed -/
def logical (q : Req) (ts : List Table) : Option (List Logical) :=
  match q.timeCol with
  | .none =>
    ts.mapM fun t =>
      match t.rows with
      | [] => some ⟨t.keyStart, t.keyStop, .null, none⟩
      | [r] => if r.start = t.keyStart ∧ r.stop = t.keyStop then some ⟨r.start, r.stop, r.time, r.value⟩ else none
      | _ => none
  | tc =>
    match ts with
    | [] => some []
    | [t] =>
      if t.keyStart = q.bstart ∧ t.keyStop = q.bstop then
        t.rows.mapM fun r =>
          if r.start = q.bstart ∧ r.stop = q.bstop then
            match r.time with
            | .val x =>
              -- the other edge of the clipped window is determined by the window index
              let i := if tc = .start then widx q x else widx q (x - 1)
              let c := clipped q i
              if (if tc = .start then c.1 = x else c.2 = x) then some ⟨c.1, c.2, .absent, r.value⟩ else none
            | _ => none
          else none
      else none
    | _ => none

def rowOK (o : Ops Val) (q : Req) (pts : List (Pt Val)) (i : Int) (l : Logical) : Bool :=
  let e := expectedRow o q pts i
  decide (l.start = e.1.1) && decide (l.stop = e.1.2) &&
    (match e.2 with
     | none => l.value.isNone || (q.agg == .count && l.value == some (Val.i 0))
     | some p =>
       l.value == some p.2 &&
         (match l.time with
          | .val t => !isSelector q.agg || t == p.1       -- a selector's `_time` is the point's time
          | .null => false
          | .absent => true))

structure Case where
  q : Req
  pts : List (Pt Val)
  observed : Option (List Table)

def holdsOn (o : Ops Val) (c : Case) : Bool :=
  match c.observed with
  | none => false
  | some ts =>
    if c.pts.isEmpty then ts.isEmpty
    else
      match logical c.q ts with
      | none => false
      | some ls =>
        let ws := windows c.q c.pts
        ls.length == ws.length && (ws.zip ls).all fun (i, l) => rowOK o c.q c.pts i l

end Influx.Spec.C41
