/-
  Spec.C43 — the statement of C43, written from the property text:

  "After any sequence of creating, updating and deleting DBRP mappings in an
   organization, each (database, retention policy) pair resolves to at most one bucket,
   each database with at least one mapping has exactly one default mapping, and a lookup
   with an empty retention policy returns that default.  Deleting the default promotes
   another mapping of the same database, if one exists."

  Observed at `DBRPMappingService.FindMany` (the v1 write and query paths resolve names
  through it): the listing of one organization, the lookup by (org, db, rp) and the lookup
  of the default (org, db, default = true).  "Mapping" in the default clause = stored
  (physical) mapping; a database that only has virtual mappings (derived from bucket
  names) may have none, but never two defaults.
-/
import Influx.Model.DBRP

namespace Influx.Spec.C43
open Influx.DBRP

/-- shapes of `FindMany` filters the statement is observed through -/
inductive Query where
  | listing (org : Nat)
  | resolve (org : Nat) (db rp : String)
  | dflt (org : Nat) (db : String)

def classify (f : Filter) : Option Query :=
  match f.ID, f.OrgID, f.BucketID, f.Database, f.RetentionPolicy, f.Default, f.Virtual with
  | none, some org, none, none, none, none, none => some (.listing org)
  | none, some org, none, some db, some rp, none, none => if db != "" then some (.resolve org db rp) else none
  | none, some org, none, some db, none, some true, none => if db != "" then some (.dflt org db) else none
  | _, _, _, _, _, _, _ => none

/-- no two mappings of the listing name the same (database, retention policy) -/
def pairsUnique : List Mapping → Bool
  | [] => true
  | m :: ms => ms.all (fun x => !(x.Database == m.Database && x.RetentionPolicy == m.RetentionPolicy)) && pairsUnique ms

def dbs (l : List Mapping) : List String := (l.map (·.Database)).eraseDups

/-- per database: exactly one default when it has a stored mapping, never more than one -/
def defaultsOK (l : List Mapping) : Bool :=
  (dbs l).all fun db =>
    let n := (l.filter fun m => m.Database == db && m.Default).length
    if l.any fun m => m.Database == db && !m.Virtual then n == 1 else n ≤ 1

def listingOK (org : Nat) (l : List Mapping) : Bool :=
  l.all (·.OrganizationID == org) && pairsUnique l && defaultsOK l

def ids (l : List Mapping) : List Nat := l.map (·.ID)

/-- operations after which an earlier listing is no longer current -/
def mutates : Op → Bool
  | .bucket .. | .delBucket .. | .create .. | .update .. | .delete .. => true
  | _ => false

/-- the statement on one pair, given the current listings (per organization, since the last change) -/
def holdsOp (known : List (Nat × List Mapping)) : Op × Obs → Bool
  | (.find f, .mappings r) =>
    match classify f with
    | some (.listing org) => listingOK org r
    | some (.resolve org db rp) =>
      r.length ≤ 1 &&
      (match known.find? (·.1 == org) with
       | some (_, l) => ids r == ids (l.filter fun m => m.Database == db && m.RetentionPolicy == rp)
       | none => true)
    | some (.dflt org db) =>
      -- the lookup with an empty retention policy returns the database's default; the
      -- statement speaks of databases that have a stored mapping
      r.length ≤ 1 &&
      (match known.find? (·.1 == org) with
       | some (_, l) =>
         !(l.any fun m => m.Database == db && !m.Virtual) ||
           ids r == ids (l.filter fun m => m.Database == db && m.Default)
       | none => true)
    | none => true
  | (.find f, .err _) =>
    -- a lookup the statement is observed through must answer
    (classify f).isNone
  | _ => true

def learn (known : List (Nat × List Mapping)) : Op × Obs → List (Nat × List Mapping)
  | (.find f, .mappings r) =>
    match classify f with
    | some (.listing org) => (org, r) :: known.filter (·.1 != org)
    | _ => known
  | (op, _) => if mutates op then [] else known

def judge : List (Nat × List Mapping) → List (Op × Obs) → Bool
  | _, [] => true
  | known, p :: rest => holdsOp known p && judge (learn known p) rest

/-- a history that updates or deletes a *virtual* mapping (its id is the id of a bucket) -/
def touchesVirtual : List Nat → List (Op × Obs) → Bool
  | _, [] => false
  | bs, (.bucket _ id _, .ok) :: rest => touchesVirtual (id :: bs) rest
  | bs, (.update _ id _ _, _) :: rest => bs.contains id || touchesVirtual bs rest
  | bs, (.delete _ id, _) :: rest => bs.contains id || touchesVirtual bs rest
  | bs, _ :: rest => touchesVirtual bs rest

def holdsOn (tr : List (Op × Obs)) : Bool := judge [] tr

end Influx.Spec.C43
