/-
  Spec.C36 — the STATEMENT of C36, written from the property text:

    "The robin-hood hash map behaves as a map, the bloom filter never reports a present key
     as absent, the radix tree behaves as a sorted map, and series ID sets implement union,
     intersection, difference and serialization as set operations."

  `holdsOn` replays one case (operations with the OBSERVED answers) against four abstract
  objects — an association list, a list of inserted keys per filter, an association list
  read in key order, and plain lists used as sets — and checks every observation the
  sentence above speaks about.  Nothing here looks at slots, probe distances, bits, tree
  nodes or bitmaps.  Observations about internals (`rcap`, `bbytes`, `tdump`, …) are not judged.
-/
import Influx.Proto
import Influx.Model.C36

namespace Influx.Spec.C36
open Influx.C36

/-- lexicographic byte order (`bytes.Compare < 0`) -/
def keyLt : Key → Key → Bool
  | [], [] => false
  | [], _ :: _ => true
  | _ :: _, [] => false
  | a :: as, b :: bs => if a < b then true else if b < a then false else keyLt as bs

abbrev Assoc := List (Key × Int)

def Assoc.find (m : Assoc) (k : Key) : Option Int := (m.find? (·.1 = k)).map (·.2)
def Assoc.erase (m : Assoc) (k : Key) : Assoc := m.filter (·.1 ≠ k)
/-- insert-or-overwrite -/
def Assoc.put (m : Assoc) (k : Key) (v : Int) : Assoc := (k, v) :: m.erase k

/-- insertion of a pair into a list sorted by key -/
def insByKey (p : Key × Int) : Assoc → Assoc
  | [] => [p]
  | q :: qs => if keyLt p.1 q.1 then p :: q :: qs else q :: insByKey p qs

/-- the pairs in key order -/
def Assoc.sorted (m : Assoc) : Assoc := m.foldr insByKey []

def isPrefix : Key → Key → Bool
  | [], _ => true
  | _ :: _, [] => false
  | a :: as, b :: bs => a == b && isPrefix as bs

/-- canonical form of a list used as a set of numbers: ascending, no duplicates -/
def insNat (x : Nat) : List Nat → List Nat
  | [] => [x]
  | y :: ys => if x < y then x :: y :: ys else if x = y then y :: ys else y :: insNat x ys
def canon (s : List Nat) : List Nat := s.foldr insNat []

/-- radix part of the abstract state -/
structure TSpec where
  /-- `none` before `tnew` -/
  tree : Option Assoc := none
  /-- a `DeletePrefix` ran since `tnew` -/
  deleted : Bool := false

/-- id-set part of the abstract state -/
structure SSpec where
  sets : List (List Nat) := List.replicate nReg []
  /-- an id ≥ 2^32 was used -/
  big : Bool := false

structure SpecState where
  /-- rhh: `none` before `rnew` -/
  rmap : Option Assoc := none
  /-- bloom: keys inserted into each register's filter (`none` = no filter yet) -/
  bloom : List (Option (List Key)) := List.replicate nReg none
  t : TSpec := {}
  s : SSpec := {}

/-- verdict of one step: `none` = fine, `some reason` = the statement fails here -/
abbrev Check := Option String

def expect (ok : Bool) (reason : String) : Check := if ok then none else some reason

/-! ### robin-hood map -/

def checkR (rm : Option Assoc) : ROp → Obs → Option Assoc × Check
  | .new _ _, a => (some [], expect (a == .ok) "rhh-new:")
  | .dist h i c, a =>
    -- Dist is the number of steps from the home slot of `h` to slot `i`
    (rm, match a with
      | .nat d => expect (c == 0 || i ≥ c || (d < c && (h % c + d) % c == i)) "rhh-dist:"
      | _ => some "rhh-dist:")
  | op, a =>
    match rm with
    | none => (rm, expect (a == .err "nomap") "rhh-nomap:")
    | some m =>
      match op with
      | .put k _ v => (some (m.put k v), expect (a == .ok) "rhh-put-does-not-return:")
      | .get k _ =>
        (rm, expect (a == (match m.find k with | some v => Obs.int v | none => Obs.nil)) "rhh-get:")
      | .len => (rm, expect (a == .nat m.length) "rhh-len:")
      | .keys => (rm, expect (a == .keys (m.sorted.map (·.1))) "rhh-keys:")
      | .dump =>
        (rm, match a with
          | .slots ss =>
            let occ := ss.filterMap id
            expect (occ.length == m.length && m.all fun p => occ.contains p) "rhh-dump:"
          | _ => some "rhh-dump:")
      | .cap => (rm, match a with | .nat _ => none | _ => some "rhh-cap:")
      | .grow _ => (rm, expect (a == .ok) "rhh-grow-does-not-return:")
      | .reset => (some [], expect (a == .ok) "rhh-reset:")
      | _ => (rm, none)

/-! ### bloom filter: a present key is never reported absent -/

def checkB (bl : List (Option (List Key))) : BOp → Obs → List (Option (List Key)) × Check
  | .new r _ _, a =>
    match a with
    | .okN _ => (bl.set r (some []), none)
    | _ => (bl, none)
  | .buf r _ _, a =>
    match a with
    | .okN _ => (bl.set r (some []), none)
    | _ => (bl, none)
  | .ins r key _ _, a =>
    match bl[r]?, a with
    | some (some ks), .ok => (bl.set r (some (key :: ks)), none)
    | some (some _), _ => (bl, some "bloom-insert:")
    | _, _ => (bl, none)
  | .has r key _ _, a =>
    match bl[r]? with
    | some (some ks) =>
      (bl, match a with
        | .bool b => expect (b || !ks.contains key) "bloom-present-key-reported-absent:"
        | _ => some "bloom-contains:")
    | _ => (bl, none)
  | .merge r o, a =>
    match bl[r]?, bl[o]?, a with
    | some (some ks), some (some os), .ok => (bl.set r (some (os ++ ks)), none)
    | _, _, _ => (bl, none)
  | .clone src dst, a =>
    match bl[src]?, a with
    | some (some ks), .ok => (bl.set dst (some ks), none)
    | _, _ => (bl, none)
  | .bytes _, _ => (bl, none)
  | .kl _, _ => (bl, none)

/-! ### radix tree: a sorted map (insert never updates; delete by prefix) -/

def checkT (st : TSpec) : TOp → Obs → TSpec × Check
  | .new, a => ({ tree := some [], deleted := false }, expect (a == .ok) "radix-new:")
  | op, a =>
    match st.tree with
    | none => (st, expect (a == .err "notree") "radix-notree:")
    | some m =>
      let mm := if st.deleted then "radix-minmax-after-deleteprefix:" else "radix-minmax:"
      match op with
      | .ins k v =>
        match m.find k with
        | some old => (st, expect (a == .insRes old false) "radix-insert:")
        | none => ({ st with tree := some ((k, v) :: m) }, expect (a == .insRes v true) "radix-insert:")
      | .get k =>
        (st, expect (a == (match m.find k with | some v => Obs.int v | none => Obs.nil)) "radix-get:")
      | .del p =>
        let gone := m.filter fun q => isPrefix p q.1
        ({ tree := some (m.filter fun q => !isPrefix p q.1), deleted := true },
          expect (a == .nat gone.length) "radix-deleteprefix-count:")
      | .len => (st, expect (a == .int m.length) "radix-len:")
      | .walk => (st, expect (a == .pairs m.sorted) "radix-walk-order:")
      | .min =>
        (st, expect (a == (match m.sorted.head? with | some p => Obs.kv p.1 p.2 | none => Obs.nil)) mm)
      | .max =>
        (st, expect (a == (match m.sorted.getLast? with | some p => Obs.kv p.1 p.2 | none => Obs.nil)) mm)
      | .dump => (st, none)
      | .new => (st, none)

/-! ### series id sets: plain set operations -/

def big (id : Nat) : Bool := id ≥ 2 ^ 32

def tagS (st : SSpec) : String := if st.big then "idset-id-truncated-to-32-bits:" else "idset:"

/-- register `r` becomes `s`; the op must answer `ok` -/
def updS (st : SSpec) (a : Obs) (r : Nat) (s : List Nat) : SSpec × Check :=
  if r < nReg then ({ st with sets := st.sets.set r s }, expect (a == .ok) (tagS st ++ "update")) else (st, none)

def checkS (st0 : SSpec) (op : SOp) (a : Obs) : SSpec × Check :=
  let sets := st0.sets
  match op with
  | .new r ids => updS { st0 with big := st0.big || ids.any big } a r ids
  | .add r id =>
    let st := { st0 with big := st0.big || big id }
    match sets[r]? with | some s => updS st a r (id :: s) | none => (st, none)
  | .addMany r ids =>
    let st := { st0 with big := st0.big || ids.any big }
    match sets[r]? with | some s => updS st a r (ids ++ s) | none => (st, none)
  | .rem r id =>
    let st := { st0 with big := st0.big || big id }
    match sets[r]? with | some s => updS st a r (s.filter (· ≠ id)) | none => (st, none)
  | .has r id =>
    let st := { st0 with big := st0.big || big id }
    match sets[r]? with
    | some s => (st, expect (a == .bool (s.contains id)) (tagS st ++ "contains"))
    | none => (st, none)
  | .card r =>
    match sets[r]? with
    | some s => (st0, expect (a == .nat (canon s).length) (tagS st0 ++ "cardinality"))
    | none => (st0, none)
  | .merge r others =>
    match sets[r]?, others.mapM (fun o => sets[o]?) with
    | some s, some os =>
      if others.contains r then (st0, none) else updS st0 a r (os.foldl (fun acc o => o ++ acc) s)
    | _, _ => (st0, none)
  | .mergeIP r o =>
    match sets[r]?, sets[o]? with | some s, some t => updS st0 a r (t ++ s) | _, _ => (st0, none)
  | .eq x y =>
    match sets[x]?, sets[y]? with
    | some s, some t => (st0, expect (a == .bool (canon s == canon t)) (tagS st0 ++ "equals"))
    | _, _ => (st0, none)
  | .and x y dst =>
    match sets[x]?, sets[y]? with
    | some s, some t => updS st0 a dst (s.filter fun i => t.contains i)
    | _, _ => (st0, none)
  | .andNot x y dst =>
    match sets[x]?, sets[y]? with
    | some s, some t => updS st0 a dst (s.filter fun i => !t.contains i)
    | _, _ => (st0, none)
  | .diff r o =>
    match sets[r]?, sets[o]? with
    | some s, some t => if r = o then (st0, none) else updS st0 a r (s.filter fun i => !t.contains i)
    | _, _ => (st0, none)
  | .inter x y =>
    match sets[x]?, sets[y]? with
    | some s, some t => (st0, expect (a == .bool (s.any fun i => t.contains i)) (tagS st0 ++ "intersects"))
    | _, _ => (st0, none)
  | .clone src dst =>
    match sets[src]? with | some s => updS st0 a dst s | none => (st0, none)
  | .roundTrip src dst =>
    -- serialization followed by deserialization gives the same set
    match sets[src]? with | some s => updS st0 a dst s | none => (st0, none)
  | .clear r =>
    match sets[r]? with | some _ => updS st0 a r [] | none => (st0, none)
  | .slice r =>
    -- iteration / Slice: the members in ascending order
    match sets[r]? with
    | some s => (st0, expect (a == .ids (canon s)) (tagS st0 ++ "members"))
    | none => (st0, none)

def check (st : SpecState) : Op → Obs → SpecState × Check
  | .r o, a => let (x, c) := checkR st.rmap o a; ({ st with rmap := x }, c)
  | .b o, a => let (x, c) := checkB st.bloom o a; ({ st with bloom := x }, c)
  | .t o, a => let (x, c) := checkT st.t o a; ({ st with t := x }, c)
  | .s o, a => let (x, c) := checkS st.s o a; ({ st with s := x }, c)

/-- first failure of a case, if any -/
def firstFailure : SpecState → List (Op × Obs) → Check
  | _, [] => none
  | st, (o, a) :: rest =>
    match check st o a with
    | (_, some why) => some why
    | (st', none) => firstFailure st' rest

/-- **The statement of C36 on one case.** -/
def holdsOn (tr : List (Op × Obs)) : Bool := (firstFailure {} tr).isNone

end Influx.Spec.C36
