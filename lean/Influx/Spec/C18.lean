/-
  Spec.C18 — the statement of C18, written from the property text:

  "For any timestamps in the representable range (including before 1970 and at the
   extremes) and any shard-group duration, each accepted point is routed to a shard
   group whose [start, end) contains its timestamp, live shard groups of a retention
   policy never overlap, and after the metadata is persisted and reloaded every group
   keeps its bounds, so time-range queries still find all groups holding data."

  One case = the list of (operation, observed answer) of the harness
  (`Influx.Model.MetaSM`).  Quantifier domain: timestamps within
  `[MinNanoTime, MaxNanoTime]` (`models.CheckTime`), shard-group durations > 0; a case
  that leaves the domain is not judged.
-/
import Influx.Model.MetaSM

namespace Influx.Spec.C18
open Influx.Meta
open Influx.Generated.Meta (MinNanoTime MaxNanoTime Deleted)

def inRange (t : Int) : Bool := decide (MinNanoTime ≤ t) && decide (t ≤ MaxNanoTime)

/-- the quantifier domain, per operation -/
def opInDomain : Op → Bool
  | .rp _ _ sgd raw => !raw || decide (sgd > 0)
  | .sgd _ _ d => decide (d > 0)
  | .csg _ _ t => inRange t
  | .ms _ _ _ ts => ts.all inRange
  /- `DeletedAt` exactly at the Unix epoch is persisted as "not deleted"; wall-clock deletion
     times are never 0 and lie within the int64 range -/
  | .setdel _ _ _ a => decide (0 < a) && decide (a ≤ MaxNanoTime)
  | .pre _ to => decide (to ≤ MaxNanoTime)
  /- truncation (`TruncateShardGroups`, no production caller) leaves the domain of the history
     theorems: truncated groups overlap their successors in raw bounds -/
  | .trunc _ => false
  | _ => true

/-- `[start, end)` contains `t` -/
def within (g : ShardGroupInfo) (t : Int) : Bool := decide (g.StartTime ≤ t) && decide (t < g.EndTime)

/-- two groups share a timestamp -/
def overlap (a b : ShardGroupInfo) : Bool :=
  decide (max a.StartTime b.StartTime < min a.EndTime b.EndTime)

/-- live groups pairwise disjoint -/
def disjointLive : List ShardGroupInfo → Bool
  | [] => true
  | g :: gs => (Deleted g || gs.all fun h => Deleted h || !overlap g h) && disjointLive gs

def fullDisjoint (f : List (String × String × List ShardGroupInfo)) : Bool :=
  f.all fun (_, _, gs) => disjointLive gs

/-- every group of `before` is in `after` with the same bounds, and nothing else is -/
def sameBounds (before after : List ShardGroupInfo) : Bool :=
  before.length == after.length &&
  before.all fun g => after.any fun h => h.ID == g.ID && h.StartTime == g.StartTime && h.EndTime == g.EndTime

def fullSame (b a : List (String × String × List ShardGroupInfo)) : Bool :=
  b.length == a.length &&
  (b.zip a).all fun ((db, rp, gs), (db', rp', gs')) => db == db' && rp == rp' && sameBounds gs gs'

/-- a point the write path accepted earlier in the case: policy, timestamp, shard group id -/
structure Accepted where
  db : String
  rp : String
  t : Int
  gid : Nat
deriving Repr, DecidableEq

/-- operations that remove shard groups or shards: what was routed before is no longer tracked -/
def removes : Op → Bool
  | .del .. | .dc .. | .setdel .. | .dropshard .. => true
  | _ => false

/-- the statement on one (operation, answer) pair, given the points accepted so far -/
def holdsOp (acc : List Accepted) : Op × Obs → Bool
  | (.ms _ _ _ ts, .mapping m) =>
    -- each accepted point is routed to a group containing its timestamp
    m.placements.length == ts.length &&
    (ts.zip m.placements).all fun (t, p) => match p with
      | .dropped => true
      | .mapped _ g => within g t
  | (.csg _ _ t, .group (some g)) => within g t
  | (.dump _ _, .groups gs) => disjointLive gs
  | (.restart, .restarted b a) => fullDisjoint b && fullDisjoint a && fullSame b a
  | (.dc _, .dc _ pre _) => fullDisjoint pre
  | (.find db rp t, .group g) =>
    -- a point accepted earlier is still found in its group
    acc.all fun x => !(x.db == db && x.rp == rp && x.t == t) || (match g with
      | some g => g.ID == x.gid
      | none => false)
  | (.find db rp t, .err _) => acc.all fun x => !(x.db == db && x.rp == rp && x.t == t)
  | (.range db rp a b, .ids ids) =>
    -- a time-range query covering an accepted point finds its group
    acc.all fun x => !(x.db == db && x.rp == rp && decide (a ≤ x.t) && decide (x.t ≤ b)) || ids.contains x.gid
  | (.range db rp a b, .err _) =>
    acc.all fun x => !(x.db == db && x.rp == rp && decide (a ≤ x.t) && decide (x.t ≤ b))
  | _ => true

/-- points accepted by one (operation, answer) pair -/
def newlyAccepted : Op × Obs → List Accepted
  | (.ms db rp _ ts, .mapping m) =>
    (ts.zip m.placements).filterMap fun (t, p) => match p with
      | .dropped => none
      | .mapped _ g => some { db := db, rp := rp, t := t, gid := g.ID }
  | (.csg db rp t, .group (some g)) => [{ db := db, rp := rp, t := t, gid := g.ID }]
  | _ => []

def judge : List Accepted → List (Op × Obs) → Bool
  | _, [] => true
  | acc, p :: rest =>
    holdsOp acc p && judge (if removes p.1 then [] else acc ++ newlyAccepted p) rest

/-- the statement on one case -/
def holdsOn (tr : List (Op × Obs)) : Bool :=
  !(tr.all fun p => opInDomain p.1) || judge [] tr

end Influx.Spec.C18
