/-
  Spec.C16 — the statement of C16, written from the property text:

  "For any delete predicate over tag equality/inequality and _measurement,
   combined with AND/OR, and any series (including names and tag values
   containing escaped spaces, commas and equals signs), the storage engine's
   compiled predicate matches the series if and only if the predicate is true of
   that series' measurement and tags."

  `evalPred` is the reference truth value: plain recursion over the predicate
  with the series as a finite map; it knows nothing of keys, escaping, slots,
  caches or evaluation order.  Reading of "true of that series": a comparison
  on a tag the series does not have is not true (neither `=` nor `!=`), the
  reading under which a delete never touches series the predicate cannot speak
  about (SQL/Flux null semantics; with AND/OR only and no negation the
  three-valued and this two-valued reading select the same series,
  `Props.C16.evalPred_eq_kleene`).  A tag with an empty value is no tag.

  Only the types `Bytes`, `Pred`, `DNode` and the constant `measurementKey` are
  taken from the model file.
-/
import Influx.Proto
import Influx.Model.DelPred

namespace Influx.Spec.C16
open Influx.Model.DelPred (Bytes Pred DNode measurementKey fieldKey)

abbrev Tags := List (Bytes × Bytes)

/-- What a predicate key denotes on a series: `_measurement` is the name, anything else the
    (non-empty) value of the tag with that key, if the series has one. -/
def keyValue (name : Bytes) (tags : Tags) (k : Bytes) : Option Bytes :=
  if k = measurementKey then some name
  else (tags.find? fun t => t.1 = k ∧ t.2 ≠ []).map (·.2)

/-- The predicate is true of the series. -/
def evalPred (name : Bytes) (tags : Tags) : Pred → Bool
  | .rule k neq v =>
    match keyValue name tags k with
    | none => false
    | some x => if neq then x ≠ v else x = v
  | .and l r => evalPred name tags l && evalPred name tags r
  | .or l r => evalPred name tags l || evalPred name tags r

/-! ### the domain -/

/-- A series as the storage layer can hold one: non-empty name, distinct tag keys, no tag named
    `\x00` (the reserved key under which the name itself is stored). -/
def SeriesWF (name : Bytes) (tags : Tags) : Bool :=
  name ≠ [] && (tags.map (·.1)).Nodup && tags.all (fun t => t.1 ≠ [0])

/-- A predicate of the property's scope: keys are tag names or `_measurement`
    (not `_field`, not the raw reserved key `\x00`). -/
def PredWF : Pred → Bool
  | .rule k _ _ => k ≠ [0] && k ≠ fieldKey
  | .and l r => PredWF l && PredWF r
  | .or l r => PredWF l && PredWF r

/-! ### one case = one compiled predicate used on many series -/

inductive Op where
  /-- compile a predicate AST (answers `ok`) -/
  | setPred (p : Pred)
  /-- compile a raw protobuf tree (outside the property: only "no panic" is observed) -/
  | setRaw (d : DNode)
  /-- `Matches` on the key of a series, optionally with a field appended (`series#!~#field`) -/
  | matchSeries (name : Bytes) (tags : Tags) (field : Option Bytes)
  | clone
deriving Repr

inductive Ans where
  | ok | err | noPred | bool (b : Bool) | other (s : String)
deriving Repr, DecidableEq

/-- verdict on one observation -/
inductive Judg where
  | pass            -- in the domain, answer as the statement demands
  | outOfDomain     -- not judged
  | fail            -- the statement is violated
deriving Repr, DecidableEq

/-- the statement on one `Matches` observation under the predicate in force -/
def judgeMatch (p : Pred) (name : Bytes) (tags : Tags) (ans : Ans) : Judg :=
  if !(PredWF p && SeriesWF name tags) then
    (match ans with | .bool _ => .outOfDomain | _ => .fail)     -- still: it must answer
  else if ans = .bool (evalPred name tags p) then .pass else .fail

/-- Walk one case: `cur` is the predicate in force (`none` after a raw tree or a failed compile). -/
def judgeCase : Option Pred → List (Op × Ans) → List Judg
  | _, [] => []
  | _, (.setPred p, a) :: rest =>
    -- compiling a predicate of the AST never fails
    (if a = .ok then Judg.pass else .fail) :: judgeCase (if a = .ok then some p else none) rest
  | _, (.setRaw _, a) :: rest =>
    (match a with | .ok | .err => Judg.outOfDomain | _ => .fail) :: judgeCase none rest
  | cur, (.clone, a) :: rest =>
    (match a with | .ok | .noPred => Judg.outOfDomain | _ => .fail) :: judgeCase cur rest
  | cur, (.matchSeries name tags _, a) :: rest =>
    (match cur with
     | some p => judgeMatch p name tags a
     | none => (match a with | .bool _ | .noPred => .outOfDomain | _ => .fail)) :: judgeCase cur rest

/-- **The statement on one case.** -/
def holdsOn (obs : List (Op × Ans)) : Bool :=
  (judgeCase none obs).all (· ≠ .fail)

end Influx.Spec.C16
