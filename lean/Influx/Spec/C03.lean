/-
  Spec.C03 — the statement of C03, written from the property text:

  "Once a range delete for a set of series returns success, no point of those series with a
   timestamp in the deleted range that was written before the delete began is ever returned by
   a read again, including after later snapshots, compactions and restarts; points outside the
   range or of other series are unaffected."

  The checker keeps the history of acknowledged writes and deletes (nothing else) and judges
  every read: a returned row must be justified by a write that is not followed by a covering
  delete ("never returned again"), and every cell whose latest event is a write must be returned
  with that value ("unaffected").  Independent of the model's algorithms: the history is scanned
  from its end.
-/
import Influx.Proto
import Influx.Model.Engine

namespace Influx.Spec.C03
open Influx.Model.Engine

/-- acknowledged events, oldest first -/
inductive Ev where
  | put (e : Entry)
  | del (ss : List Nat) (lo hi : Int)
deriving Repr, DecidableEq

def Ev.touches (k : Key) (t : Int) : Ev → Bool
  | .put e => decide (e.key = k) && decide (e.ts = t)
  | .del ss lo hi => ss.contains k.series && decide (lo ≤ t) && decide (t ≤ hi)

/-- the latest event that touches (k, t) decides the cell: a write gives its value, a delete nothing -/
def cell (h : List Ev) (k : Key) (t : Int) : Option Int :=
  match h.reverse.find? (Ev.touches k t) with
  | some (.put e) => some e.val
  | _ => none

/-- has (k,t) been deleted after having been written with value v, and not re-written with v since? -/
def deletedAfterWrite (h : List Ev) (k : Key) (t : Int) (v : Int) : Bool :=
  match h.reverse.find? (Ev.touches k t) with
  | some (.del ..) => h.any fun | .put e => decide (e.key = k) && decide (e.ts = t) && decide (e.val = v) | _ => false
  | _ => false

def ordered (asc : Bool) : List Pt → Bool
  | p :: q :: l => (if asc then decide (p.1 < q.1) else decide (q.1 < p.1)) && ordered asc (q :: l)
  | _ => true

def rowsSound (h : List Ev) (k : Key) (lo hi : Int) (rows : List Pt) : Bool :=
  rows.all fun p => decide (lo ≤ p.1) && decide (p.1 ≤ hi) && (cell h k p.1 == some p.2)

def rowsComplete (h : List Ev) (k : Key) (lo hi : Int) (rows : List Pt) : Bool :=
  h.all fun
    | .put e => !(decide (e.key = k) && decide (lo ≤ e.ts) && decide (e.ts ≤ hi) && (cell h k e.ts).isSome)
                || rows.any fun p => p.1 == e.ts
    | _ => true

def rowsOK (h : List Ev) (k : Key) (lo hi : Int) (asc : Bool) (rows : List Pt) : Bool :=
  ordered asc rows && rowsSound h k lo hi rows && rowsComplete h k lo hi rows

/-- bookkeeping for the failure signature only (never for pass/fail): `hotPuts` = cells put
    since the last successful `snapBegin`; `snapPuts` = the cells that moved to the snapshot store
    at that `snapBegin` (while it is in flight); `victims` = the cells of `snapPuts` that a delete
    covered while the snapshot was in flight -/
structure Window where
  isOpen : Bool := false
  hotPuts : List (Key × Int) := []
  snapPuts : List (Key × Int) := []
  victims : List (Key × Int) := []
  /-- a snapshot attempt has failed and not yet been retried -/
  failed : Bool := false
  /-- cells put between a failed attempt and its retry: the retry commits only the old snapshot
      store but removes every closed WAL segment (DESIGN-level finding F18, see Spec.C02) -/
  retryVictims : List (Key × Int) := []
deriving Repr

/-- why a read fails; the signature `delete-overlaps-inflight-snapshot` is DESIGN §6 F1 -/
def readReason (h : List Ev) (w : Window) (k : Key) (lo hi : Int) (asc : Bool) (rows : List Pt) : String :=
  if !ordered asc rows then "not-in-time-order:"
  else match rows.find? fun p => !(decide (lo ≤ p.1) && decide (p.1 ≤ hi) && (cell h k p.1 == some p.2)) with
    | some p =>
      if deletedAfterWrite h k p.1 p.2 then
        if w.victims.contains (k, p.1) then s!"delete-overlaps-inflight-snapshot:s{k.series}f{k.field}t{p.1}"
        else s!"deleted-point-returned:s{k.series}f{k.field}t{p.1}"
      else if w.retryVictims.contains (k, p.1) then s!"write-after-failed-snapshot-lost:s{k.series}f{k.field}t{p.1}"
      else s!"wrong-value:s{k.series}f{k.field}t{p.1}"
    | none =>
      match h.find? fun
        | .put e => decide (e.key = k) && decide (lo ≤ e.ts) && decide (e.ts ≤ hi) && (cell h k e.ts).isSome
                    && !(rows.any fun p => p.1 == e.ts)
        | _ => false with
      | some (.put e) =>
        if w.retryVictims.contains (k, e.ts) then s!"write-after-failed-snapshot-lost:s{k.series}f{k.field}t{e.ts}"
        else s!"unaffected-point-missing:s{k.series}f{k.field}t{e.ts}"
      | _ => "unaffected-point-missing:"

def inScope : Op → Bool
  | .write _ | .read .. | .delete .. | .snapBegin | .snapFail | .snapStep | .snapTo _ | .compact .. | .files
  | .crash false | .compactCrash .. => true
  | _ => false

def closesWindow : Phase → Bool
  | .replaced | .cleared | .idle => true
  | _ => false

/-- the snapshot reached phase `p`: from `replaced` on deletes wait for it (window closed); its
    cells stay replayable from the WAL until the segments are removed (`idle`) -/
def Window.snapTo (w : Window) (p : Phase) : Window :=
  { w with isOpen := w.isOpen && !closesWindow p, snapPuts := if p = .idle then [] else w.snapPuts }

/-- `Cache.Snapshot` happened: what was put so far moves to the snapshot store — unless this is
    the retry of a failed attempt, which returns the old snapshot store as it is -/
def Window.begin (w : Window) : Window :=
  if w.failed then { w with isOpen := true, failed := false, retryVictims := w.retryVictims ++ w.hotPuts }
  else { w with isOpen := true, snapPuts := w.snapPuts ++ w.hotPuts, hotPuts := [] }

/-- the attempt failed after `Cache.Snapshot`: the snapshot store stays pending -/
def Window.fail (w : Window) : Window := { w.begin with failed := true }

/-- restart: whatever was in the snapshot store comes back into the hot store from the WAL -/
def Window.crash (w : Window) : Window :=
  { w with isOpen := false, failed := false, hotPuts := w.snapPuts ++ w.hotPuts, snapPuts := [] }

/-- `none` = the statement holds on this trace; `some reason` = where it fails. -/
def checkFrom (h : List Ev) (w : Window) : List (Op × Obs) → Option String
  | [] => none
  | (.write es, o) :: tr =>
    if o = .ok then checkFrom (h ++ es.map .put) { w with hotPuts := w.hotPuts ++ es.map fun e => (e.key, e.ts) } tr
    else some "write-not-acknowledged:"
  | (.delete ss lo hi, o) :: tr =>
    if o = .ok then
      let vs := if w.isOpen then w.snapPuts.filter fun c => covered ss lo hi c.1 c.2 else []
      checkFrom (h ++ [.del ss lo hi]) { w with victims := w.victims ++ vs } tr
    else if o = .blocked then checkFrom h w tr
    else some "delete-failed:"
  | (.read k lo hi asc, o) :: tr =>
    match o with
    | .rows r => if rowsOK h k lo hi asc r then checkFrom h w tr else some (readReason h w k lo hi asc r)
    | _ => some "read-failed:"
  | (.snapBegin, o) :: tr =>
    -- the cells put so far move to the snapshot store; later puts go to the new hot store
    if o = .ok then checkFrom h w.begin tr
    else checkFrom h w tr
  | (.snapFail, o) :: tr =>
    -- a failed attempt keeps its snapshot store (and the window) until a retry succeeds
    if o = .failed then checkFrom h w.fail tr
    else checkFrom h w tr
  | (.snapTo p, _) :: tr => checkFrom h (w.snapTo p) tr
  | (.crash false, o) :: tr => if o = .ok then checkFrom h w.crash tr else some "reopen-failed:"
  | (.compactCrash .., o) :: tr => if o = .ok then checkFrom h w.crash tr else some "reopen-failed:"
  | (op, _) :: tr => if inScope op then checkFrom h w tr else some "op-outside-C03:"

def check (tr : List (Op × Obs)) : Option String := checkFrom [] {} tr

/-- The statement of C03 on one trace. -/
def holdsOn (tr : List (Op × Obs)) : Bool := (check tr).isNone

end Influx.Spec.C03
