/-
  Spec.C29 — the statement of C29, written from the property text:

    "For any caller permission set, services wrapped by the authorizer return only
     resources the caller may read, mutating calls succeed only when the caller may
     write the target (and, for tokens, only when the caller already holds every
     permission being granted), and a denied call leaves stored state unchanged."

  "May" is C28's statement-level relation `Spec.C28.Justified` (not the code's
  `Matches`): the caller may perform a request iff it presents an active token one of
  whose permissions justifies the request.  What a read/write of each resource kind
  *requests* is the documented policy of authorizer/authorize.go: a bucket is read
  with a buckets permission on (id, org) — a system bucket with a read permission on
  its organization —, an organization / user with an orgs / users permission on its id,
  an authorization with an authorizations permission on (id, org) AND a users permission
  on its user; creating needs write on the resource type in the organization (buckets,
  authorizations) or globally (orgs, users).

  Evaluated per (operation, observed answer) pair: each wrapped call carries its
  caller, and the answer carries the attributes of the returned / targeted resources
  and, for failed calls, whether any stored byte changed.
-/
import Influx.Proto
import Influx.Spec.C28
import Influx.Model.AuthorizerTypes

namespace Influx.Spec.C29
open Influx Influx.Authzr Influx.Spec.C28

def req (a : Action) (rt : ResourceType) (rid oid : Option Nat) : Permission := ⟨a, ⟨rt, rid, oid⟩⟩

/-- the caller may perform the request -/
def may (c : Caller) (r : Permission) : Bool :=
  c.present && c.active && c.perms.any fun p => decide (Justified p r)

def mayReadBucket (c : Caller) (id org : Nat) (sys : Bool) : Bool :=
  if sys then may c (req "read" "orgs" (some org) none)
  else may c (req "read" "buckets" (some id) (some org))

def mayReadOrg (c : Caller) (id : Nat) : Bool := may c (req "read" "orgs" (some id) none)
def mayReadUser (c : Caller) (id : Nat) : Bool := may c (req "read" "users" (some id) none)
def mayReadAuth (c : Caller) (id org user : Nat) : Bool :=
  may c (req "read" "authorizations" (some id) (some org)) && mayReadUser c user

def mayWriteAuth (c : Caller) (id org user : Nat) : Bool :=
  may c (req "write" "authorizations" (some id) (some org)) && may c (req "write" "users" (some user) none)

def denied : Err → Bool
  | .unauth | .forbidden => true
  | _ => false

/-- the statement on one wrapped call -/
def callOK (c : Caller) : WOp → Ans → Bool
  -- a denied call leaves stored state unchanged
  | _, .err e chg => !(denied e && chg)
  -- only readable resources are returned
  | _, .bucket id org sys => mayReadBucket c id org sys
  | _, .buckets l => l.all fun (id, org, sys) => mayReadBucket c id org sys
  | _, .org id => mayReadOrg c id
  | _, .orgs l => l.all (mayReadOrg c)
  | _, .user id => mayReadUser c id
  | _, .users l => l.all (mayReadUser c)
  | _, .auth id org user => mayReadAuth c id org user
  | _, .auths l => l.all fun (id, org, user) => mayReadAuth c id org user
  -- mutations succeed only with write access to the target
  | .cb org _ _, .okMut _ _ => may c (req "write" "buckets" none (some org))
  | .ub id _, .okMut _ (some (org, _)) => may c (req "write" "buckets" (some id) (some org))
  | .db id, .okMut _ (some (org, _)) => may c (req "write" "buckets" (some id) (some org))
  | .co _, .okMut _ _ => may c (req "write" "orgs" none none)
  | .uo id _, .okMut _ _ => may c (req "write" "orgs" (some id) none)
  | .dO id, .okMut _ _ => may c (req "write" "orgs" (some id) none)
  | .cu _ _, .okMut _ _ => may c (req "write" "users" none none)
  | .uu id _, .okMut _ _ => may c (req "write" "users" (some id) none)
  | .du id, .okMut _ _ => may c (req "write" "users" (some id) none)
  -- tokens: write access, and every granted permission is already held
  | .ca a, .okMut _ _ =>
      may c (req "write" "authorizations" none (some a.org)) && may c (req "write" "users" (some a.user) none) &&
      a.perms.all (may c)
  | .ca2 a, .okMut _ _ =>
      may c (req "write" "authorizations" none (some a.org)) && may c (req "write" "users" (some a.user) none) &&
      a.perms.all (may c)
  | .ua id _, .okMut _ (some (org, user)) => mayWriteAuth c id org user
  | .da id, .okMut _ (some (org, user)) => mayWriteAuth c id org user
  -- anything else (a success without the target's attributes, a read answered like a mutation…) is not accepted
  | _, _ => false

def pairOK : Op × Ans → Bool
  | (.w c op, a) => callOK c op a
  | _ => true

/-- **the statement** on one case -/
def holdsOn (tr : List (Op × Ans)) : Bool := tr.all pairOK

end Influx.Spec.C29
