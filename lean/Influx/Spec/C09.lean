/-
  Spec.C09 — the statement of C09 (sequential part), written from the property text:

    "reading a key from the cache returns the deduplicated union of snapshot and
     hot values with hot values winning, the reported size equals the accounted
     size of the values and keys actually held, and a write that would exceed
     the configured limit is rejected without storing any of its values.  A write
     whose type conflicts with a key's existing type is rejected for that key only."

  The checker keeps an abstract cache: for the hot store and for the snapshot, per
  key the list of values *actually held* (arrival order).  "Deduplicated … newest
  wins" is `canon`: ascending distinct timestamps, for each the value that arrived
  last.  A read of a key and a range delete over a key compact that key's held
  list to its canonical form (that is what "actually held" means afterwards).
  Nothing here sorts stably, collapses runs, swaps stores or does size deltas.
-/
import Influx.Proto
import Influx.Model.Cache

namespace Influx.Spec.C09
open Influx.Cache (Key Value Op Obs)

/-! ### newest-wins canonical form -/

/-- the value with timestamp `t` that arrived last -/
def lastAt (l : List Value) (t : Int) : Option Value := (l.filter (fun v => v.t = t)).getLast?

/-- insert into an ascending list of distinct timestamps -/
def insertTime (t : Int) : List Int → List Int
  | [] => [t]
  | x :: xs => if t < x then t :: x :: xs else if t = x then x :: xs else x :: insertTime t xs

/-- the distinct timestamps of `l`, ascending -/
def times (l : List Value) : List Int := l.foldr (fun v acc => insertTime v.t acc) []

/-- deduplicated, newest wins -/
def canon (l : List Value) : List Value := (times l).filterMap (lastAt l)

/-! ### the abstract cache -/

abbrev Held := List (Key × List Value)

def Held.get (h : Held) (k : Key) : List Value := (h.lookup k).getD []

def Held.set (h : Held) (k : Key) (vs : List Value) : Held :=
  match h with
  | [] => [(k, vs)]
  | (k', vs') :: rest => if k' = k then (k, vs) :: rest else (k', vs') :: Held.set rest k vs

def Held.remove (h : Held) (k : Key) : Held := h.filter (fun x => x.1 ≠ k)

/-- accounted size of what is held: keys and values -/
def acct (h : Held) : Nat := (h.map fun (k, vs) => k.length + Influx.Cache.valuesSize vs).sum

/-- keys that hold at least one value -/
def liveKeys (h : Held) : Nat := (h.filter fun x => !x.2.isEmpty).length

structure St where
  maxSize : Nat := 0
  hot : Held := []
  snap : Held := []
  /-- a snapshot object exists (some `Snapshot` has been taken) -/
  snapExists : Bool := false
  /-- the size the pending snapshot was reported with when it was taken (0 = none pending) -/
  snapSize : Nat := 0
  snapshotting : Bool := false
  /-- a read or `Deduplicate` has compacted a held list that contained superseded values -/
  compacted : Bool := false

inductive Fail where
  | valuesWrong (i : Nat)
  | conflictWrong (i : Nat)
  | limitNotEnforced (i : Nat)
  | rejectedWrong (i : Nat)
  | snapshotWrong (i : Nat)
  | sizeWrong (i : Nat)
  /-- the reported size is larger than what is held, after a read compacted a held list
      (DESIGN §6 F4) -/
  | sizeStaleAfterDedup (i : Nat)
  | badAnswer (i : Nat)
deriving Repr, DecidableEq

/-- failures of the size clause only (the content clauses are all other kinds) -/
def Fail.sizeOnly : Fail → Bool
  | .sizeWrong _ => true
  | .sizeStaleAfterDedup _ => true
  | _ => false

def Fail.isStale : Fail → Bool
  | .sizeStaleAfterDedup _ => true
  | _ => false

/-- does the batch for `k` conflict with the type of the values the hot store holds for `k`
    (a batch for a key without values must be of one type) -/
def conflicts (h : Held) (k : Key) (vs : List Value) : Bool :=
  match h.get k with
  | v :: _ => vs.any (fun x => x.ty ≠ v.ty)
  | [] =>
    match vs with
    | [] => false
    | v :: _ => vs.any (fun x => x.ty ≠ v.ty)

/-- store the non-conflicting keys of a batch -/
def storeBatch : List (Key × List Value) → Held → Held
  | [], h => h
  | (k, vs) :: rest, h =>
    if conflicts h k vs then storeBatch rest h else storeBatch rest (h.set k (h.get k ++ vs))

def anyConflict : List (Key × List Value) → Held → Bool
  | [], _ => false
  | (k, vs) :: rest, h =>
    if conflicts h k vs then true else anyConflict rest (h.set k (h.get k ++ vs))

def batchSize (b : List (Key × List Value)) : Nat := (b.map fun kv => Influx.Cache.valuesSize kv.2).sum

/-- a range delete over the hot store -/
def deleteKeys (min max : Int) : List Key → Held → Held
  | [], h => h
  | k :: rest, h =>
    match h.lookup k with
    | none => deleteKeys min max rest h
    | some vs =>
      if min = Influx.Cache.minInt64 && max = Influx.Cache.maxInt64 then deleteKeys min max rest (h.remove k)
      else
        let vs' := (canon vs).filter fun v => !(decide (min ≤ v.t) && decide (v.t ≤ max))
        if vs'.isEmpty then deleteKeys min max rest (h.remove k) else deleteKeys min max rest (h.set k vs')

/-- compact the held list of `k`, if there is one -/
def Held.compact (h : Held) (k : Key) : Held :=
  match h.lookup k with
  | some vs => h.set k (canon vs)
  | none => h

def sizeFail (st : St) (i : Nat) (observed expected : Nat) : List Fail :=
  if observed = expected then []
  else if st.compacted && decide (observed > expected) then [.sizeStaleAfterDedup i]
  else [.sizeWrong i]

def stepSt (st : St) (i : Nat) : Op × Obs → St × List Fail
  | (.new m, .ok) => ({ maxSize := m }, [])
  | (.write batch, o) =>
    let mustReject := st.maxSize > 0 && acct st.hot + acct st.snap + batchSize batch > st.maxSize
    match o with
    | .errLimit n =>
      -- rejected: nothing is stored; `n` is the size the write would have led to
      (st, if st.maxSize > 0 && n > st.maxSize then sizeFail st i n (acct st.hot + acct st.snap + batchSize batch)
           else [.rejectedWrong i])
    | .ok =>
      if mustReject then (st, [.limitNotEnforced i])
      else if anyConflict batch st.hot then (st, [.conflictWrong i])
      else ({ st with hot := storeBatch batch st.hot }, [])
    | .errConflict =>
      if mustReject then (st, [.limitNotEnforced i])
      else if anyConflict batch st.hot then ({ st with hot := storeBatch batch st.hot }, [])
      else (st, [.conflictWrong i])
    | _ => (st, [.badAnswer i])
  | (.snapshot, o) =>
    if st.snapshotting then
      (st, if o = .errInProgress then [] else [.snapshotWrong i])
    else
      match o with
      | .snap size cnt =>
        if st.snapSize > 0 then
          -- a snapshot that was not cleared successfully is handed out again
          ({ st with snapshotting := true, snapExists := true },
            if size = st.snapSize && cnt = liveKeys st.snap then [] else [.snapshotWrong i])
        else
          ({ st with snapshotting := true, snapExists := true, snap := st.hot, hot := [], snapSize := size },
            if cnt = liveKeys st.hot then sizeFail st i size (acct st.hot + acct st.snap) else [.snapshotWrong i])
      | _ => (st, [.snapshotWrong i])
  | (.clear success, o) =>
    if !st.snapExists then (st, if o = .refused then [] else [.badAnswer i])
    else if o = .ok then
      if success then ({ st with snapshotting := false, snap := [], snapSize := 0 }, [])
      else ({ st with snapshotting := false }, [])
    else (st, [.badAnswer i])
  | (.delrange keys min max, .ok) => ({ st with hot := deleteKeys min max keys st.hot }, [])
  | (.values k, .vals out) =>
    let hot' := st.hot.compact k
    let snap' := st.snap.compact k
    let shrunk := (hot'.get k).length < (st.hot.get k).length || (snap'.get k).length < (st.snap.get k).length
    ({ st with hot := hot', snap := snap', compacted := st.compacted || shrunk },
      if out = canon (st.snap.get k ++ st.hot.get k) then [] else [.valuesWrong i])
  | (.size, .num n) => (st, sizeFail st i n (acct st.hot + acct st.snap))
  | (.count, .num n) => (st, if n = liveKeys st.hot then [] else [.sizeWrong i])
  | (.dedup, .ok) =>
    let hot' : Held := st.hot.map fun (k, vs) => (k, canon vs)
    ({ st with hot := hot', compacted := st.compacted || decide (acct hot' < acct st.hot) }, [])
  | _ => (st, [.badAnswer i])

/-- the failures of the statement on a case.  A stale-size failure leaves the
    abstract cache in step with the implementation (only the reported number is
    off), so checking continues; after any other failure it stops. -/
def checkFrom (st : St) (i : Nat) : List (Op × Obs) → List Fail
  | [] => []
  | x :: rest =>
    let (st', fs) := stepSt st i x
    if fs.all Fail.isStale then fs ++ checkFrom st' (i + 1) rest else fs

def check (tr : List (Op × Obs)) : List Fail := checkFrom {} 0 tr

/-- **the statement** on one (sequential) case -/
def holdsOn (tr : List (Op × Obs)) : Bool := (check tr).isEmpty

/-- the statement with the size clause waived once a read has compacted superseded values -/
def holdsOnExceptStale (tr : List (Op × Obs)) : Bool := (check tr).all Fail.isStale

/-! ### concurrent histories: linearizability against this very checker -/

/-- the abstract cache after a sequential prefix (`none` if the prefix fails other than by a stale size) -/
def finalSt (st : St) (i : Nat) : List (Op × Obs) → Option St
  | [] => some st
  | x :: rest =>
    let (st', fs) := stepSt st i x
    if fs.all Fail.isStale then finalSt st' (i + 1) rest else none

/-- one completed operation of a recorded history: invocation and response
    positions in the global order of events, and the observed answer -/
structure Call where
  thread : Nat
  index : Nat
  /-- number of the per-key part of a multi-key call (see `Call.parts`) -/
  sub : Nat := 0
  op : Op
  inv : Nat
  ret : Nat
  obs : Obs
deriving Repr

def Call.same (a b : Call) : Bool := a.thread == b.thread && a.index == b.index && a.sub == b.sub

/-- `WriteMulti` and `DeleteRange` lock every key separately and promise no
    atomicity across the keys of one call (the statement is per key): an accepted
    multi-key write and a multi-key range delete take effect key by key, each part
    somewhere between the call's invocation and its response. -/
def Call.parts (c : Call) : List Call :=
  match c.op, c.obs with
  | .write batch, .ok =>
    if batch.length ≤ 1 then [c] else batch.zipIdx.map fun (kv, j) => { c with sub := j, op := .write [kv] }
  | .delrange keys mn mx, .ok =>
    if keys.length ≤ 1 then [c] else keys.zipIdx.map fun (k, j) => { c with sub := j, op := .delrange [k] mn mx }
  | _, _ => [c]

/-- `c` may be linearized next: no other pending call responded before `c` was invoked -/
def minimal (pending : List Call) (c : Call) : Bool :=
  pending.all fun p => p.same c || !(decide (p.ret < c.inv))

/-- is there an order of the pending calls that respects real time (a call that
    responded before another was invoked comes first) and on which the sequential
    statement holds with the observed answers?  (`fuel` ≥ number of pending calls) -/
def linearizableWith (tol : Fail → Bool) : Nat → St → List Call → Bool
  | 0, _, pending => pending.isEmpty
  | fuel + 1, st, pending =>
    pending.isEmpty ||
    pending.any fun c =>
      minimal pending c &&
        (let (st', fs) := stepSt st 0 (c.op, c.obs)
         fs.all tol && linearizableWith tol fuel st' (pending.filter fun p => !p.same c))

/-- The size counters are updated by separate atomic adds that are not atomic with the
    content they account for (`WriteMulti` adds optimistically before storing;
    `DeleteRange` measures an entry, filters it and subtracts the difference while a
    concurrent `entry.add` may land in between), so a size reported DURING a concurrent
    block (the `Snapshot` answer) may deviate from what is held.  The size clause is
    therefore decided on sequential histories and at quiescence only: inside a
    concurrent block failures of the size clause alone do not reject an order; every
    content clause does. -/
def linearizable : Nat → St → List Call → Bool := linearizableWith Fail.sizeOnly

/-- the same decision with exact sizes (only the known stale size tolerated) -/
def linearizableExactSize : Nat → St → List Call → Bool := linearizableWith Fail.isStale

/-- **the statement on a case that ends in a concurrent history**: the prefix
    satisfies the sequential statement and the history, taken key by key
    (`Call.parts`), is linearizable after it -/
def holdsOnConc (pre : List (Op × Obs)) (hist : List Call) : Bool :=
  match finalSt {} 0 pre with
  | none => false
  | some st =>
    let calls := hist.flatMap Call.parts
    linearizable calls.length st calls

/-! ### classification of a non-linearizable history (for the known-finding signature only) -/

/-- a single-key accepted write that overlaps in time a range delete of the same key -/
def racesDelete (all : List Call) (c : Call) : Bool :=
  match c.op, c.obs with
  | .write [(k, _)], .ok =>
    all.any fun d =>
      match d.op with
      | .delrange [k'] _ _ => k' == k && decide (d.inv < c.ret) && decide (c.inv < d.ret)
      | _ => false
  | _, _ => false

/-- like `linearizable`, but a call satisfying `lose` may be linearized as having had no
    effect (its values are lost) -/
def linearizableLossy (lose : Call → Bool) : Nat → St → List Call → Bool
  | 0, _, pending => pending.isEmpty
  | fuel + 1, st, pending =>
    pending.isEmpty ||
    pending.any fun c =>
      minimal pending c &&
        ((let (st', fs) := stepSt st 0 (c.op, c.obs)
          fs.all Fail.sizeOnly && linearizableLossy lose fuel st' (pending.filter fun p => !p.same c)) ||
         (lose c && linearizableLossy lose fuel st (pending.filter fun p => !p.same c)))

/-- the history is NOT linearizable, but it would be if writes racing a range delete of
    their key could be lost: the signature of the known finding `lost-write-racing-delete` -/
def lostWriteRacingDelete (pre : List (Op × Obs)) (hist : List Call) : Bool :=
  match finalSt {} 0 pre with
  | none => false
  | some st =>
    let calls := hist.flatMap Call.parts
    !linearizable calls.length st calls && linearizableLossy (racesDelete calls) calls.length st calls

/-- the history is linearizable only because sizes reported inside the concurrent block
    are not held to the size clause (evidence tag `conc:size-racy`) -/
def sizeRacy (pre : List (Op × Obs)) (hist : List Call) : Bool :=
  match finalSt {} 0 pre with
  | none => false
  | some st =>
    let calls := hist.flatMap Call.parts
    linearizable calls.length st calls && !linearizableExactSize calls.length st calls

/-- some accepted single-key write overlaps in time a range delete of the same key -/
def hasWriteRacingDelete (hist : List Call) : Bool :=
  let calls := hist.flatMap Call.parts
  calls.any (racesDelete calls)

/-- signature of the known finding `size-residue-racing-delete`: the contents are
    linearizable, the sizes reported inside the block are not, and a write raced a range
    delete of its key (DeleteRange measures the entry, a concurrent entry.add lands, the
    difference that is subtracted no longer matches) -/
def sizeResidueRacingDelete (pre : List (Op × Obs)) (hist : List Call) : Bool :=
  sizeRacy pre hist && hasWriteRacingDelete hist

/-- some read (`Values`, `Deduplicate`) overlaps another call of the block in time: the
    read compacts the entry in place (without adjusting the size, finding
    `size-stale-after-dedup`) at a moment that need not be its linearization point -/
def hasReadOverlap (hist : List Call) : Bool :=
  hist.any fun c =>
    (match c.op with
     | .values _ => true
     | .dedup => true
     | _ => false) &&
    hist.any fun d => !c.same d && decide (d.inv < c.ret) && decide (c.inv < d.ret)

/-- the stale size of a compacting read, seen inside a concurrent block -/
def sizeStaleRacingRead (pre : List (Op × Obs)) (hist : List Call) : Bool :=
  sizeRacy pre hist && !hasWriteRacingDelete hist && hasReadOverlap hist

/-- does the operation call `Cache.init()` (lazy creation of the store)? -/
def initializes : Op → Bool
  | .write _ => true
  | .snapshot => true
  | .clear _ => true
  | .delrange _ _ _ => true
  | _ => false

/-- an accepted single-key write that overlaps in time another call that also runs `init()` -/
def racesInit (all : List Call) (c : Call) : Bool :=
  match c.op, c.obs with
  | .write _, .ok =>
    all.any fun d => !(d.thread == c.thread && d.index == c.index) && initializes d.op &&
      decide (d.inv < c.ret) && decide (c.inv < d.ret)
  | _, _ => false

/-- signature of the known finding `lost-write-racing-init`: nothing before the block
    initialised the cache, the history is not linearizable, but it would be if writes
    overlapping another initialising call could be lost (`Cache.init` lets the loser of
    its CAS proceed while `c.store` is still the `emptyStore`, whose `write` drops the
    values and reports success) -/
def lostWriteRacingInit (pre : List (Op × Obs)) (hist : List Call) : Bool :=
  match finalSt {} 0 pre with
  | none => false
  | some st =>
    let calls := hist.flatMap Call.parts
    !(pre.any fun x => initializes x.1 && x.2 != .refused) &&
    !linearizable calls.length st calls && linearizableLossy (racesInit calls) calls.length st calls

/-! ### budgeted search (run-time only)

  `linearizableWith` / `linearizableLossy` explore all real-time-respecting orders when
  the answer is "no", which is exponential in the number of overlapping calls.  The
  driver therefore runs the same search with a node budget; `none` = budget exhausted
  (the case is then reported as undecided, never as failing). -/

def linB (tol : Fail → Bool) (lose : St → Call → Bool) : Nat → Nat → St → List Call → Nat × Option Bool
  | 0, b, _, pending => (b, some pending.isEmpty)
  | fuel + 1, b, st, pending =>
    if pending.isEmpty then (b, some true)
    else if b = 0 then (0, none)
    else
      pending.foldl (fun (acc : Nat × Option Bool) c =>
        match acc with
        | (b, some false) =>
          if b = 0 then (0, none)
          else if !minimal pending c then (b, some false)
          else
            let r := stepSt st 0 (c.op, c.obs)
            let rest := pending.filter fun p => !p.same c
            let r1 := if r.2.all tol then linB tol lose fuel (b - 1) r.1 rest else (b - 1, some false)
            match r1 with
            | (b1, some false) => if lose st c then linB tol lose fuel b1 st rest else (b1, some false)
            | other => other
        | done => done) (b - 1, some false)

def searchBudget : Nat := 200000

inductive ConcVerdict where
  | ok
  | undecided
  | sizeUndecided
  | sizeResidueRacingDelete
  | sizeStaleRacingRead
  | sizeWrongConcurrent
  | lostWriteRacingDelete
  | lostWriteRacingInit
  | readTruncatedRacingWrite
  | nonLinearizable
  | prefixFails
deriving Repr, DecidableEq

/-- a `Values(k)` call that overlaps a write to `k` which itself races a range delete of
    `k`: the read may have fetched the entry pointer before the delete removed the entry
    and then sees the value the write appended to the orphan (same defect as
    `lost-write-racing-delete`, observed by a reader) -/
def orphanRead (all : List Call) (st : St) (c : Call) : Bool :=
  match c.op, c.obs with
  | .values k, .vals out =>
    all.any fun w =>
      racesDelete all w && decide (w.inv < c.ret) && decide (c.inv < w.ret) &&
        (match w.op with
         | .write [(k', vs)] => k' == k && out == canon (st.snap.get k ++ st.hot.get k ++ vs)
         | _ => false)
  | _, _ => false

/-- a `Values(k)` call that overlaps in time a write to `k` and answered a strict prefix
    (lowest timestamps) of what is held at this point: `Cache.Values` sizes its copy
    buffer from `e.count()` and copies later; when the entry grew in between (and another
    reader's in-place `deduplicate` re-sorted it) `copy` cuts off the highest timestamps -/
def truncatedRead (all : List Call) (st : St) (c : Call) : Bool :=
  match c.op, c.obs with
  | .values k, .vals out =>
    (all.any fun d =>
      (match d.op with
       | .write [(k', _)] => k' == k
       | _ => false) && decide (d.inv < c.ret) && decide (c.inv < d.ret)) &&
    (let hot := canon (st.hot.get k)
     let full := canon (st.snap.get k ++ st.hot.get k)
     out != full &&
       (List.range hot.length).any fun j => out == canon (st.snap.get k ++ hot.take j))
  | _, _ => false

/-- the driver's decision on a concurrent block (same searches as `holdsOnConc`,
    `sizeRacy`, `lostWriteRacingDelete`, `lostWriteRacingInit`, with the node budget) -/
def judgeConc (pre : List (Op × Obs)) (hist : List Call) : ConcVerdict :=
  match finalSt {} 0 pre with
  | none => .prefixFails
  | some st =>
    let calls := hist.flatMap Call.parts
    let n := calls.length
    match (linB Fail.sizeOnly (fun _ _ => false) n searchBudget st calls).2 with
    | none => .undecided
    | some true =>
      match (linB Fail.isStale (fun _ _ => false) n searchBudget st calls).2 with
      | some true => .ok
      | none => .sizeUndecided
      | some false =>
        if hasWriteRacingDelete hist then .sizeResidueRacingDelete
        else if hasReadOverlap hist then .sizeStaleRacingRead
        else .sizeWrongConcurrent
    | some false =>
      -- classification: would the history be linearizable under one of the known defects?
      let rDel := (linB Fail.sizeOnly (fun st c => racesDelete calls c || orphanRead calls st c) n searchBudget st calls).2
      let rInit := if pre.any fun x => initializes x.1 && x.2 != .refused then some false
        else (linB Fail.sizeOnly (fun _ => racesInit calls) n searchBudget st calls).2
      let rTrunc := (linB Fail.sizeOnly (truncatedRead calls) n searchBudget st calls).2
      if rDel == some true then .lostWriteRacingDelete
      else if rInit == some true then .lostWriteRacingInit
      else if rTrunc == some true then .readTruncatedRacingWrite
      else if rDel.isNone || rInit.isNone || rTrunc.isNone then .undecided
      else .nonLinearizable

end Influx.Spec.C09
