/-
  Spec.C17 — the statement of C17, written from the property text:

  "A bucket delete with a time range and predicate removes, across all shards of the
   bucket, exactly the points of matching series inside the range, and leaves every other
   point readable. A series (and a measurement) stops being listed by metadata queries
   exactly when it has no remaining data, and writes that do not conflict with a running
   delete are never blocked by it."

  Reference: an abstract content `shard ↦ series ↦ time ↦ value` built from the acknowledged
  writes (last write wins) minus, for every acknowledged delete, the points (k, t) with
  `evalPred pred k` (Spec.C16) and `lo ≤ t ≤ hi` — plain list comprehension, no keys, no
  engine.  Observations judged: `read` (all points of a shard), `ls` (series listed by the
  shard's index), `mn - -` (measurements listed for the bucket).  The third clause is
  observed on the epoch tracker itself (`ep*` ops, see `Spec.C17.EpochOK`).
-/
import Influx.Model.StoreDelProto
import Influx.Spec.C16

namespace Influx.Spec.C17
open Influx.Model.DelPred (Bytes Pred)
open Influx.Model.StoreDel (Tags Op cmpBytes)

/-- the points of one series in one shard: time ↦ value as an association list -/
structure Entry where
  shard : Nat
  name : Bytes
  tags : Tags
  pts : List (Int × Int)
deriving Repr

abbrev Abs := List Entry

def setPt (pts : List (Int × Int)) (p : Int × Int) : List (Int × Int) :=
  pts.filter (fun q => q.1 ≠ p.1) ++ [p]

def Abs.write (a : Abs) (shard : Nat) (name : Bytes) (tags : Tags) (pts : List (Int × Int)) : Abs :=
  if a.any (fun e => e.shard = shard ∧ e.name = name ∧ e.tags = tags) then
    a.map fun e => if e.shard = shard ∧ e.name = name ∧ e.tags = tags then { e with pts := pts.foldl setPt e.pts } else e
  else a ++ [⟨shard, name, tags, pts.foldl setPt []⟩]

/-- abs' = abs minus {(k, t) | pred k ∧ lo ≤ t ≤ hi}, on every shard -/
def Abs.delete (a : Abs) (lo hi : Int) (pred : Option Pred) : Abs :=
  a.map fun e =>
    if (match pred with | none => true | some p => Spec.C16.evalPred e.name e.tags p) then
      { e with pts := e.pts.filter fun q => !(lo ≤ q.1 ∧ q.1 ≤ hi) }
    else e

/-! ### observations -/

/-- what a `read` returned: series (name, tags given by the op history are not needed: the key
    identifies the series) with their points -/
inductive Ans where
  | ok
  | points (l : List (Bytes × List (Int × Int)))     -- series key ↦ points in returned order
  | keys (l : List Bytes)                             -- series keys / measurement names
  | other (s : String)
deriving Repr

def samePts (a b : List (Int × Int)) : Bool := a.all b.contains && b.all a.contains && a.length = b.length

def ascTimes : List (Int × Int) → Bool
  | [] => true
  | [_] => true
  | a :: b :: rest => a.1 < b.1 && ascTimes (b :: rest)

inductive Verd where
  | ok | pointsWrong | listingWrong | noAnswer
deriving Repr, DecidableEq

/-- series key as the read / ls ops print it (`models.MakeKey`; only used to match answers) -/
def keyOf (e : Entry) : Bytes := Influx.Model.DelPred.makeKey e.name e.tags

def judgeObs (a : Abs) (op : Op) (ans : Ans) : Verd :=
  match op, ans with
  | .read sh, .points l =>
    let live := a.filter fun e => e.shard = sh ∧ !e.pts.isEmpty
    -- exactly the remaining points of every series, each series once, times ascending
    if l.all (fun x => ascTimes x.2 &&
          (live.filter fun e => keyOf e = x.1).length = 1 &&
          live.any fun e => keyOf e = x.1 && samePts e.pts x.2) &&
       live.all (fun e => l.any fun x => x.1 = keyOf e) &&
       l.length = live.length
    then .ok else .pointsWrong
  | .ls sh, .keys l =>
    let live := (a.filter fun e => e.shard = sh ∧ !e.pts.isEmpty).map keyOf
    if l.all live.contains && live.all l.contains && l.length = live.length then .ok else .listingWrong
  | .mn .nil_ none, .keys l =>
    let live := (a.filter fun e => !e.pts.isEmpty).map (·.name)
    if l.all live.contains && live.all l.contains && (l.eraseDups).length = l.length then .ok else .listingWrong
  | .read _, _ | .ls _, _ | .mn .nil_ none, _ => .noAnswer
  | _, _ => .ok

def judgeCase : Abs → List (Op × Ans) → List Verd
  | _, [] => []
  | a, (op, ans) :: rest =>
    match op, ans with
    | .write sh name tags pts, .ok => judgeCase (a.write sh name tags pts) rest
    | .del lo hi pred _, .ok => judgeCase (a.delete lo hi pred) rest
    -- a delete that is not acknowledged leaves the content unspecified: it must not happen
    | .del .., _ => Verd.noAnswer :: judgeCase a rest
    | _, _ => judgeObs a op ans :: judgeCase a rest

/-- **The statement on one case** (clauses 1 and 2). -/
def holdsOn (obs : List (Op × Ans)) : Bool :=
  (judgeCase [] obs).all (· = .ok)

end Influx.Spec.C17
