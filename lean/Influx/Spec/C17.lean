/-
  Spec.C17 — the statement of C17, written from the property text:

  "A bucket delete with a time range and predicate removes, across all shards of the
   bucket, exactly the points of matching series inside the range, and leaves every other
   point readable. A series (and a measurement) stops being listed by metadata queries
   exactly when it has no remaining data, and writes that do not conflict with a running
   delete are never blocked by it."

  Reference: an abstract content `shard ↦ series ↦ time ↦ value` built from the acknowledged
  writes (last write wins) minus, for every acknowledged delete, the points (k, t) with
  `evalPred pred k` (Spec.C16) and `lo ≤ t ≤ hi` — plain list comprehension, no keys, no
  engine.  Observations judged: `read` (all points of a shard), `ls` (series listed by the
  shard's index), `mn - -` (measurements listed for the bucket).  The third clause is
  observed on the epoch tracker itself (`ep*` ops, see `Spec.C17.EpochOK`).
-/
import Influx.Model.StoreDelProto
import Influx.Model.Epoch
import Influx.Spec.C16

namespace Influx.Spec.C17
open Influx.Model.DelPred (Bytes Pred)
open Influx.Model.StoreDel (Tags Op cmpBytes)

/-- the points of one series in one shard: time ↦ value as an association list -/
structure Entry where
  shard : Nat
  name : Bytes
  tags : Tags
  pts : List (Int × Int)
deriving Repr

abbrev Abs := List Entry

def setPt (pts : List (Int × Int)) (p : Int × Int) : List (Int × Int) :=
  pts.filter (fun q => q.1 ≠ p.1) ++ [p]

def Abs.write (a : Abs) (shard : Nat) (name : Bytes) (tags : Tags) (pts : List (Int × Int)) : Abs :=
  if a.any (fun e => e.shard = shard ∧ e.name = name ∧ e.tags = tags) then
    a.map fun e => if e.shard = shard ∧ e.name = name ∧ e.tags = tags then { e with pts := pts.foldl setPt e.pts } else e
  else a ++ [⟨shard, name, tags, pts.foldl setPt []⟩]

/-- is the predicate of the delete true of the series (`none` = no predicate: every series) -/
def predTrue (pred : Option Pred) (name : Bytes) (tags : Tags) : Bool :=
  match pred with
  | none => true
  | some p => Spec.C16.evalPred name tags p

/-- the points outside `[lo, hi]` -/
def outside (lo hi : Int) (pts : List (Int × Int)) : List (Int × Int) :=
  pts.filter fun q => !(decide (lo ≤ q.1 ∧ q.1 ≤ hi))

def cutEntry (lo hi : Int) (pred : Option Pred) (e : Entry) : Entry :=
  if predTrue pred e.name e.tags then { e with pts := outside lo hi e.pts } else e

/-- abs' = abs minus {(k, t) | pred k ∧ lo ≤ t ≤ hi}, on every shard -/
def Abs.delete (a : Abs) (lo hi : Int) (pred : Option Pred) : Abs := a.map (cutEntry lo hi pred)

/-! ### observations -/

/-- what a `read` returned: series (name, tags given by the op history are not needed: the key
    identifies the series) with their points -/
inductive Ans where
  | ok
  | points (l : List ((Bytes × Tags) × List (Int × Int)))   -- series ↦ points in returned order
  | ids (l : List (Bytes × Tags))                            -- series listed
  | keys (l : List Bytes)                                    -- measurement names
  | other (s : String)
deriving Repr

def keyOf (e : Entry) : Bytes × Tags := (e.name, e.tags)

/-- the remaining points of a series in a shard, by the history (`Abs.write` keeps one entry per
    shard and series) -/
def absPts (a : Abs) (sh : Nat) (k : Bytes × Tags) : List (Int × Int) :=
  match a.find? (fun e => e.shard = sh ∧ keyOf e = k) with
  | some e => e.pts
  | none => []

/-- the series of a shard that have data left -/
def liveKeys (a : Abs) (sh : Nat) : List (Bytes × Tags) :=
  (a.filter fun e => e.shard = sh ∧ !e.pts.isEmpty).map keyOf

def sameSet (x y : List (Int × Int)) : Bool := x.all y.contains && y.all x.contains

def ascTimes : List (Int × Int) → Bool
  | [] => true
  | [_] => true
  | a :: b :: rest => a.1 < b.1 && ascTimes (b :: rest)

inductive Verd where
  | ok | pointsWrong | listingWrong | noAnswer
deriving Repr, DecidableEq

def judgeObs (a : Abs) (op : Op) (ans : Ans) : Verd :=
  match op, ans with
  | .read sh, .points l =>
    -- every series with data exactly once, with exactly its remaining points, times ascending
    if decide (l.map (·.1)).Nodup &&
       l.all (fun x => !x.2.isEmpty && ascTimes x.2 && sameSet (absPts a sh x.1) x.2) &&
       (liveKeys a sh).all (fun k => (l.map (·.1)).contains k)
    then .ok else .pointsWrong
  | .ls sh, .ids l =>
    -- listed exactly the series with data
    if decide l.Nodup && l.all (fun k => !(absPts a sh k).isEmpty) && (liveKeys a sh).all l.contains
    then .ok else .listingWrong
  | .mn .nil_ none, .keys l =>
    if decide l.Nodup && l.all (fun m => a.any fun e => e.name = m ∧ !e.pts.isEmpty) &&
       (a.filter fun e => !e.pts.isEmpty).all (fun e => l.contains e.name)
    then .ok else .listingWrong
  | .read _, _ | .ls _, _ | .mn .nil_ none, _ => .noAnswer
  | _, _ => .ok

/-- `n` = number of shards opened (reads of other shards are refused) -/
def judgeCase (n : Nat) : Abs → List (Op × Ans) → List Verd
  | _, [] => []
  | a, (op, ans) :: rest =>
    match op, ans with
    | .write sh name tags pts, .ok => judgeCase n (a.write sh name tags pts) rest
    | .del lo hi pred _, .ok => judgeCase n (a.delete lo hi pred) rest
    -- a delete that is not acknowledged leaves the content unspecified: it must not happen
    | .del .., _ => Verd.noAnswer :: judgeCase n a rest
    | .read sh, .other s =>
      (if (sh < 1 ∨ n < sh) ∧ s = "bad-op" then Verd.ok else .noAnswer) :: judgeCase n a rest
    | .ls sh, .other s =>
      (if (sh < 1 ∨ n < sh) ∧ s = "bad-op" then Verd.ok else .noAnswer) :: judgeCase n a rest
    | _, _ => judgeObs a op ans :: judgeCase n a rest

/-- **The statement on one case** (clauses 1 and 2); the case starts with `open n`. -/
def holdsOn (obs : List (Op × Ans)) : Bool :=
  match obs with
  | (.open_ n, .ok) :: rest => (judgeCase n [] rest).all (· = .ok)
  | _ => (judgeCase 0 [] obs).all (· = .ok)

/-! ### clause 3 (non-blocking writes), from the history of the epoch ops alone -/

section Epoch
open Influx.Model.Epoch (EOp EAns)


/-- history: writes in flight and deletes running, each with the position at which it entered -/
structure EHist where
  pos : Nat := 0
  writes : List (Int × Nat) := []
  deletes : List (Int × Nat × Int × Int) := []
deriving Repr

/-- "writes that do not conflict with a running delete are never blocked by it": a write waits for
    exactly the running deletes whose time range contains one of its points; and a delete waits
    for exactly the writes that entered before it and have not left. -/
def judgeEpoch (h : EHist) (op : EOp) (ans : EAns) : EHist × Bool :=
  match op, ans with
  | .startWrite id times, .started _ wait =>
    let conflicting := (h.deletes.filter fun d => times.any fun t => d.2.2.1 ≤ t ∧ t ≤ d.2.2.2).map (·.1)
    ({ h with pos := h.pos + 1, writes := h.writes ++ [(id, h.pos)] },
      wait.all conflicting.contains && conflicting.all wait.contains)
  | .endWrite id, .ok => ({ h with writes := h.writes.filter (·.1 ≠ id) }, true)
  | .waitDelete id lo hi, .installed _ p =>
    ({ h with pos := h.pos + 1, deletes := h.deletes ++ [(id, h.pos, lo, hi)] }, p = h.writes.length)
  | .pending id, .pending p =>
    match h.deletes.find? (·.1 = id) with
    | some d => (h, p = (h.writes.filter fun w => w.2 < d.2.1).length)
    | none => (h, false)
  | .done id, .ok => ({ h with deletes := h.deletes.filter (·.1 ≠ id) }, true)
  -- ops on unknown / duplicate ids are refused
  | .startWrite id _, .badOp => (h, h.writes.any (·.1 = id))
  | .endWrite id, .badOp => (h, !h.writes.any (·.1 = id))
  | .waitDelete id _ _, .badOp => (h, h.deletes.any (·.1 = id))
  | .pending id, .badOp => (h, !h.deletes.any (·.1 = id))
  | .done id, .badOp => (h, !h.deletes.any (·.1 = id))
  | _, _ => (h, false)

def judgeAll : EHist → List (EOp × EAns) → Bool
  | _, [] => true
  | h, (op, ans) :: rest => (judgeEpoch h op ans).2 && judgeAll (judgeEpoch h op ans).1 rest

/-- the clause on one case -/
def EpochOK (obs : List (EOp × EAns)) : Bool := judgeAll {} obs


end Epoch

end Influx.Spec.C17
