/-
  Spec.C13 — the STATEMENT of C13, written from the property text:

    "Creating series returns the same ID for the same key every time, distinct IDs for
     distinct keys, and after a series is deleted a later re-creation gets a new ID that was
     never used before. These mappings survive reopen and index compaction, and a crash while
     series are being created never changes the key or ID of a series that had already been
     created."

  `holdsOn` replays a case against two lists: `live` (key ↦ id of every acknowledged,
  not deleted series) and `used` (every id ever handed out).  Nothing here knows about
  partitions, segments, offsets, sequences or indexes.

  Failure reasons are `<what>[-after-<context>]:`; the context names what happened earlier in
  the case that the property's crash clause or an offline tool is about (a tear inside the
  8-byte id, a tear inside the key, a torn delete, a segment compaction).
-/
import Influx.Proto
import Influx.Model.C13

namespace Influx.Spec.C13
open Influx.SF Influx.C13

structure SpecState where
  live : List (Bytes × Nat) := []
  used : List Nat := []
  tornInID : Bool := false
  tornInKey : Bool := false
  tornDelete : Bool := false
  segCompacted : Bool := false

abbrev Check := Option String

def SpecState.ctx (st : SpecState) : String :=
  if st.segCompacted then "-after-segment-compaction"
  else if st.tornInID then "-after-tear-in-id"
  else if st.tornInKey then "-after-tear-in-key"
  else if st.tornDelete then "-after-torn-delete"
  else ""

def SpecState.crashed (st : SpecState) : Bool := st.tornInID || st.tornInKey || st.tornDelete

def SpecState.idOf (st : SpecState) (k : Bytes) : Option Nat := (st.live.find? (·.1 = k)).map (·.2)
def SpecState.keyOf (st : SpecState) (id : Nat) : Option Bytes := (st.live.find? (·.2 = id)).map (·.1)

def hexDigit (n : Nat) : Char :=
  if n < 10 then Char.ofNat (48 + n) else Char.ofNat (87 + n)
/-- detail text of a failure reason (no spaces) -/
def hexOf (k : Bytes) : String := String.ofList (k.flatMap fun b => [hexDigit ((b / 16) % 16), hexDigit (b % 16)])

/-- one observation "key `k` has id `x`" (`x = 0`: absent); `creating`: made by a create -/
def observe (st : SpecState) (k : Bytes) (x : Nat) (creating : Bool) : SpecState × Check :=
  match st.idOf k with
  | some y =>
    -- an acknowledged live series: same id every time
    if x = y then (st, none)
    else if x = 0 then (st, some ("series-lost" ++ st.ctx ++ s!":key={hexOf k},id={y}"))
    else (st, some ("id-not-stable" ++ st.ctx ++ s!":key={hexOf k},id={y},now={x}"))
  | none =>
    if x = 0 then
      (st, if creating then some ("create-returned-zero" ++ st.ctx ++ s!":key={hexOf k}") else none)
    else if st.used.contains x then
      -- a new (or re-created) series must get an id never used before
      (st, some ("id-reused" ++ st.ctx ++ s!":key={hexOf k},id={x}"))
    else if creating || st.crashed then
      -- after a crash an unacknowledged creation may have survived: it counts from now on
      ({ st with live := (k, x) :: st.live, used := x :: st.used }, none)
    else (st, some ("phantom-series" ++ st.ctx ++ s!":key={hexOf k},id={x}"))

def observeAll (st : SpecState) (creating : Bool) : List (Bytes × Nat) → SpecState × Check
  | [] => (st, none)
  | (k, x) :: rest =>
    match observe st k x creating with
    | (st', none) => observeAll st' creating rest
    | (st', some why) => (st', some why)

/-- "id `id` has key `k`" -/
def observeKey (st : SpecState) (id : Nat) (k : Option Bytes) : Check :=
  match st.keyOf id with
  | some k0 =>
    if k = some k0 then none
    else some ("key-changed" ++ st.ctx ++ s!":id={id},key={hexOf k0},now={match k with | some k' => hexOf k' | none => "nil"}")
  | none => none

def check (st : SpecState) : Op → Obs → SpecState × Check
  | .create keys, a =>
    match a with
    | .ids xs =>
      if xs.length ≠ keys.length then (st, some "create-arity:")
      else observeAll st true ((keys.map (·.1)).zip xs)
    | _ => (st, some "create-failed:")
  | .delete id, a =>
    ({ st with live := st.live.filter (·.2 ≠ id) }, if a == .ok then none else some "delete-failed:")
  | .delKey k, a =>
    match a with
    | .id x =>
      match observe st k.1 x false with
      | (st', none) => ({ st' with live := st'.live.filter (·.1 ≠ k.1) }, none)
      | r => r
    | _ => (st, some "delete-failed:")
  | .id k, a =>
    match a with
    | .id x => observe st k.1 x false
    | _ => (st, some "id-failed:")
  | .key id, a =>
    match a with
    | .key k => (st, observeKey st id k)
    | _ => (st, some "key-failed:")
  | .torn k cut, a =>
    -- entry = flag, 8 id bytes, key
    let st1 :=
      if st.idOf k.1 |>.isSome then st
      else if 1 ≤ cut ∧ cut ≤ 8 then { st with tornInID := true }
      else if 9 ≤ cut ∧ cut < 9 + k.1.length then { st with tornInKey := true }
      else st
    match a with
    | .id x =>
      -- the creation was not acknowledged: the key may or may not exist afterwards
      match st1.idOf k.1 with
      | some _ => observe st1 k.1 x false
      | none =>
        if x = 0 then (st1, none)
        else if st1.used.contains x then (st1, some ("id-reused" ++ st1.ctx ++ s!":key={hexOf k.1},id={x}"))
        else ({ st1 with live := (k.1, x) :: st1.live, used := x :: st1.used }, none)
    | _ => (st1, some "torn-failed:")
  | .tornDel id cut, a =>
    let st1 := if cut < 9 then { st with tornDelete := true } else st
    match a with
    | .bool deleted =>
      -- the delete was not acknowledged: it may or may not have happened
      (if deleted then { st1 with live := st1.live.filter (·.2 ≠ id) } else st1, none)
    | _ => (st1, some "torndel-failed:")
  | .allIDs, a =>
    match a with
    | .keyIDs ps => observeAll st false ps
    | _ => (st, some "allids-failed:")
  | .allKeys, a =>
    match a with
    | .idKeys ps =>
      (st, (ps.filterMap fun (id, k) => observeKey st id k).head?)
    | _ => (st, some "allkeys-failed:")
  | .segCompact, _ => ({ st with segCompacted := true }, none)
  | .reopen, _ | .compact _, _ | .threshold _, _ | .state _, _ | .dump _, _ => (st, none)
  | .smallSeg _, _ | .hdrSeg _, _ => (st, none)

def firstFailure : SpecState → List (Op × Obs) → Check
  | _, [] => none
  | st, (o, a) :: rest =>
    match check st o a with
    | (_, some why) => some why
    | (st', none) => firstFailure st' rest

/-- **The statement of C13 on one case.** -/
def holdsOn (tr : List (Op × Obs)) : Bool := (firstFailure {} tr).isNone

end Influx.Spec.C13
