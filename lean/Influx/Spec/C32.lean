/-
  Spec.C32 — the statement of C32, written from the property text:

  "A write request whose body contains any malformed line stores nothing and is
   answered with 400 naming the bad lines. A body larger than the configured
   limit, measured after gzip decoding, is answered with 413 and stores nothing,
   while a body at or under the limit is accepted. A well-formed request is
   answered with 204 only after every point was stored, or with an error that
   states how many points were dropped."

  A case is described by what the property talks about — the decoded size, the
  limit, which lines are malformed, which points the batch holds, what the
  points writer answers — not by how the handler gets there.  Points and lines
  are identified by numbers (their index in the generated body).
-/
import Influx.Model.WriteAPI

namespace Influx.Spec.C32
open Influx.WriteAPI

/-- one write request, as the property sees it -/
structure Case where
  /-- the request gets as far as its body: authorizer present, valid precision,
      bucket named, gzip header readable, organization and bucket found, write permitted -/
  valid : Bool
  /-- the (decoded) body can be read to its end and closed without an I/O error -/
  clean : Bool
  /-- configured maximum batch size; ≤ 0 = unlimited -/
  limit : Int
  /-- size of the body after gzip decoding -/
  size : Nat
  /-- the points of the batch, in order (meaningful when no line is malformed) -/
  points : List Nat
  /-- the malformed lines, in order -/
  bad : List Nat
  writer : WriterRes

/-- what was observed of the implementation -/
structure Obs where
  status : Nat
  named : List Nat
  dropped : Option Nat
  writes : List (List Nat)

def overLimit (c : Case) : Bool := decide (0 < c.limit ∧ c.limit < (c.size : Int))

def holdsOn (c : Case) (o : Obs) : Bool :=
  -- all of the batch or nothing reaches the points writer; nothing when a line
  -- is malformed or the body is too large
  (o.writes == [] || (o.writes == [c.points] && c.bad.isEmpty && !overLimit c)) &&
  -- 204 only after every point was stored
  (o.status != 204 || (o.writes == [c.points] && c.writer == .ok)) &&
  -- a body at or under the limit is never answered 413 (by a request that gets as far as its body)
  (!c.valid || overLimit c || o.status != 413) &&
  -- requests that reach a readable body
  (!(c.valid && c.clean) ||
    (if overLimit c then o.status == 413 && o.writes == []
     else if !c.bad.isEmpty then o.status == 400 && o.named == c.bad && o.writes == []
     else match c.writer with
       | .ok => o.status == 204
       | .partialWrite k => o.status != 204 && decide (400 ≤ o.status) && o.dropped == some k
       | .fail => o.status != 204 && decide (400 ≤ o.status)))

/-- the bucket named by the request exists: by ID, else by name -/
def bucketFound (r : Req) : Bool :=
  if r.bucketIsID then
    r.bucketByID == none || (r.bucketByID.map Code.wire == some .notFound && r.bucketByName == none)
  else r.bucketByName == none

/-- the case a request description stands for -/
def caseOf (P : Parser Nat Nat) (r : Req) : Case :=
  { valid := r.hasAuth && r.precisionOK && r.bucketGiven && !(r.gzip && r.gzipOpen.isSome) &&
             r.org == none && bucketFound r && r.permitted
    clean := r.src.term == .eof && !r.src.closeErr
    limit := r.limit
    size := r.src.data.length
    points := P.points r.src.data
    bad := P.bad r.src.data
    writer := r.writer }

def obsOf (x : Resp Nat Nat) : Obs :=
  { status := x.status, named := x.named, dropped := x.dropped, writes := x.writes }

/-! ### LimitedReadCloser on its own (the mechanism behind the 413 clause) -/

/-- what a call answered: bytes delivered and "returned a non-nil error";
    for Close: whether the error is ErrReadLimitExceeded -/
structure StepObs where
  n : Nat
  isErr : Bool
  isLimit : Bool
deriving Repr

/-- the observation a call's result gives -/
def obsOfRes : StepRes → StepObs
  | .rd bs e => ⟨bs.length, e.isSome, false⟩
  | .cl e => ⟨0, e.isSome, e == some .limit⟩

/-- the calls up to the first Close are Reads, at least one of which reported
    an error (the stream was read to its end — the protocol of io.ReadAll + Close):
    total bytes delivered and what that Close answered -/
def readsThenClose : List Step → List StepObs → Nat → Bool → Option (Nat × StepObs)
  | .read _ :: ss, o :: os, acc, e => readsThenClose ss os (acc + o.n) (e || o.isErr)
  | .close :: _, c :: _, acc, e => if e then some (acc, c) else none
  | _, _, _, _ => none

/-- A reader limited to `limit ≥ 0` bytes around a clean stream of `size` bytes,
    read to its end and closed: delivers min(size, limit) bytes and Close reports
    the limit error exactly when size > limit. -/
def holdsOnL (limit : Int) (size : Nat) (clean : Bool) (steps : List Step) (obs : List StepObs) : Bool :=
  if limit < 0 || !clean then true else
  match readsThenClose steps obs 0 false with
  | none => true
  | some (n, c) => n == min size limit.toNat && (c.isLimit == decide (limit < (size : Int)))

end Influx.Spec.C32
