/-
  Spec.C06 — the statement of C06, written from the property text and not from the cursor code:

    "For any set of TSM files containing one key with arbitrarily overlapping blocks and
     tombstones, and any seek time, repeatedly reading blocks through a key cursor (ascending or
     descending, scalar or array form) yields every live point at or after (before, if
     descending) the seek time exactly once, in order, with the value from the newest file that
     holds that timestamp."

  A file is given by what was written to it (blocks of timestamps; the payload of a point is
  the index of its file, so "the value from the newest file" is visible) and the time ranges
  deleted from it.  A point of a file is live when no deleted range of THAT file covers it.
-/
import Influx.Proto
import Influx.Model.KCTypes

namespace Influx.Spec.C06
open Influx.KC

structure FileSpec where
  blocks : List (List Int)
  deletes : List TimeRange
deriving Inhabited

/-- the file holds a point at `ts` -/
def FileSpec.holds (f : FileSpec) (ts : Int) : Bool := f.blocks.any fun b => b.contains ts
/-- `ts` lies in a range deleted from the file -/
def FileSpec.deleted (f : FileSpec) (ts : Int) : Bool :=
  f.deletes.any fun d => decide (d.Min ≤ ts) && decide (ts ≤ d.Max)
def FileSpec.live (f : FileSpec) (ts : Int) : Bool := f.holds ts && !f.deleted ts

/-- index of the newest file (files are listed oldest first, starting at index `i`) that holds
    `ts` live -/
def newestFrom (i : Nat) : List FileSpec → Int → Option Nat
  | [], _ => none
  | f :: fs, ts =>
    match newestFrom (i + 1) fs ts with
    | some j => some j
    | none => if f.live ts then some i else none

def newest (files : List FileSpec) (ts : Int) : Option Nat := newestFrom 0 files ts

def insertU (x : Int) : List Int → List Int
  | [] => [x]
  | y :: ys => if x < y then x :: y :: ys else if x = y then y :: ys else y :: insertU x ys

/-- sorted, duplicate-free -/
def sortDedup (l : List Int) : List Int := l.foldr insertU []

/-- every timestamp written to any file, ascending, once -/
def allTimes (files : List FileSpec) : List Int :=
  sortDedup (files.flatMap fun f => f.blocks.flatten)

/-- all live points, ascending, each timestamp once, with the newest file's payload -/
def merged (files : List FileSpec) : List (Int × Nat) :=
  (allTimes files).filterMap fun ts => (newest files ts).map fun i => (ts, i)

/-- what the cursor has to deliver, as one ascending list -/
def expectedAsc (files : List FileSpec) (t : Int) (asc : Bool) : List (Int × Nat) :=
  (merged files).filter fun p => if asc then decide (t ≤ p.1) else decide (p.1 ≤ t)

/-- what the cursor has to deliver, in delivery order -/
def expected (files : List FileSpec) (t : Int) (asc : Bool) : List (Int × Nat) :=
  if asc then expectedAsc files t asc else (expectedAsc files t asc).reverse

/-- the points in delivery order: blocks in call order; a block is an ascending array that a
    descending cursor walks backwards -/
def delivered (asc : Bool) (obs : List (List (Int × Nat))) : List (Int × Nat) :=
  if asc then obs.flatten else (obs.map List.reverse).flatten

/-- The statement on one read: the blocks `obs` returned by Read…Block (in call order, up to
    the first empty one) for seek time `t`.  `proj` is how the value type shows the payload
    (identity, or parity for booleans). -/
def holdsOn (proj : Nat → Nat) (files : List FileSpec) (t : Int) (asc : Bool)
    (obs : List (List (Int × Nat))) : Bool :=
  delivered asc obs == (expected files t asc).map fun p => (p.1, proj p.2)

end Influx.Spec.C06
