/-
  Spec.C40 — the statement of C40, written from the property text:

    "When a write is rejected because of a field type conflict, an invalid tag or
     field, a too-long field value or a missing field, the data of the rejected
     points is not stored, the accepted points of the same batch are stored, and
     the reported dropped count equals the number of rejected points."

  It is evaluated on observations only: for every write its result and
  everything readable afterwards.  Which points the implementation accepted is
  *read off the stored data* (it is not recomputed from any validation rule):

    * a point whose every datum is readable afterwards with the written value was
      stored; a point none of whose data changed anything was not stored; a point
      in neither class is partially stored — never allowed;
    * a point without data (all its fields are named `time`: "a missing field")
      cannot have been stored: it counts as rejected;
    * where both readings are possible (the datum was already there with the same
      value) the point may count either way;
    * the reported dropped count must be the number of rejected points for some
      admissible reading; a write may not fail in any other way;
    * every other datum is unchanged by the write, and what was stored stays
      readable (later reads return exactly the same data);
    * nothing is stored for a field named `time` (the invalid field is reported as
      stripped: its data is rejected data).

  Batches in which two points carry the same (series, field, timestamp) are not
  judged (which value wins is C01's subject).
-/
import Influx.Proto
import Influx.Model.FieldTypes

namespace Influx.Spec.C40
open Influx.Fields

/-- keys of a store are pairwise different -/
def functional (a : Store) : Bool := decide (a.map (·.1)).Nodup

/-- two stores hold the same data -/
def sameStore (a b : Store) : Bool :=
  a.all (fun e => b.lookup e.1 == some e.2) && b.all (fun e => a.lookup e.1 == some e.2)

inductive Cls | acc | rej | amb | bad
  deriving DecidableEq, Repr

/-- how a point of the batch looks in the data readable after the write
    (`B` before, `A` after) -/
def classify (B A : Store) (p : Point) : Cls :=
  let es := pointEntries p
  if es.isEmpty then .rej else
  let stored := es.all (fun e => A.lookup e.1 == some e.2)
  let untouched := es.all (fun e => A.lookup e.1 == B.lookup e.1)
  match stored, untouched with
  | true, false => .acc
  | false, true => .rej
  | true, true => .amb
  | false, false => .bad

def batchKeys (batch : List Point) : List EKey := (batch.flatMap pointEntries).map (·.1)

/-- the batch is judged: no two data of the batch have the same key -/
def distinctBatch (batch : List Point) : Bool := decide (batchKeys batch).Nodup

/-- the statement for one write that reported `dropped` rejected points;
    `none` = holds, `some reason` otherwise -/
def judge (B : Store) (batch : List Point) (dropped : Nat) (A : Store) : Option String :=
  if !distinctBatch batch then none else
  if !functional A then some "stored-not-functional:" else
  if batch.any (fun p => classify B A p == .bad) then some "point-partially-stored:" else
  let nRej := batch.countP (fun p => classify B A p == .rej)
  let nRejAmb := batch.countP (fun p => classify B A p == .rej || classify B A p == .amb)
  if !(decide (nRej ≤ dropped) && decide (dropped ≤ nRejAmb)) then
    some s!"dropped-count:reported={dropped},rejected-between={nRej}..{nRejAmb}" else
  if !(A.all (fun e => (batchKeys batch).contains e.1 || B.lookup e.1 == some e.2)
       && B.all (fun e => (batchKeys batch).contains e.1 || A.lookup e.1 == some e.2)) then
    some "other-data-changed:" else
  none

/-- the statement for one write: it may only succeed or be a partial write -/
def writeFails (B : Store) (batch : List Point) (res : WriteRes) (A : Store) : Option String :=
  match res with
  | .hardError e => some ("write-hard-error:" ++ e)
  | .ok => judge B batch 0 A
  | .partialWrite n _ => judge B batch n A

/-- One step of the statement: `B` = the data known to be stored so far. -/
def stepFails (B : Store) : WStep → Option String × Store
  | .write batch res A => (writeFails B batch res A, A)
  | .read R => (if sameStore B R then none else some "read-differs:", B)
  | .keys ks => (if ks.any (fun k => k.1.2.2 == timeName) then some "time-field-stored:" else none, B)
  | .other => (none, B)

/-- first failure of a case, if any -/
def firstFailure : Store → List WStep → Option String
  | _, [] => none
  | B, s :: rest =>
    match stepFails B s with
    | (some r, _) => some r
    | (none, B') => firstFailure B' rest

/-- **The statement**: the case (starting from an empty shard) has no failure. -/
def holdsOn (steps : List WStep) : Bool := (firstFailure [] steps).isNone

end Influx.Spec.C40
