/-
  Spec.C20 — the statement of C20, written from the property text:

    "For any series data, any window (every, period, offset) and any aggregate among
     count, sum, min, max, first, last and mean, the storage layer's windowed aggregate
     returns the same windows, timestamps and values as grouping the raw points into
     those windows and aggregating them, irrespective of how the raw data is split into
     arrays and of output block boundaries."

  `aggSpec` is "group the raw points by window, aggregate each group": it never
  looks at arrays, blocks, carry-over or a running `windowEnd`.  The window of a
  point is given by floor division (not by Go's truncated division + adjustment).
  Output timestamps are the ones the storage layer documents: the window's stop for
  count/sum/mean, the selected point's own time for min/max/first/last.
  The value arithmetic (`Ops`) is shared with the model: float `+` is whatever the
  hardware does; the sum of a window is the left fold in time order starting from 0.
-/
import Influx.Proto
import Influx.Model.WindowAgg

namespace Influx.Spec.C20
open Influx.WindowAgg

/-- the window of the request: the whole range, or tumbling windows `[offset + k·every, offset + (k+1)·every)`. -/
inductive W where
  | all
  | every (every offset : Int)
  /-- explicit boundaries (calendar windows): for every raw timestamp the stop of its window,
      computed by the harness with the real flux `interval` package and sent along as trusted
      input; timestamps not listed (none is ever asked for) get a window of their own -/
  | table (stops : List (Int × Int))
deriving Repr, DecidableEq

/-- stop of the window containing `t` (`math.MaxInt64` for the whole range). -/
def W.stopOf : W → Int → Int
  | .all, _ => 9223372036854775807
  | .every e o, t => o + ((t - o) / e + 1) * e
  | .table tbl, t => match tbl.lookup t with | some s => s | none => t + 1

/-- the window a ReadWindowAggregate request (WindowEvery = every, Offset = offset) asks for:
    `every = MaxInt64` means "the whole range"; only `every > 0` is a valid request. -/
def reqW (every offset : Int) : W :=
  if every = 9223372036854775807 then .all else .every every offset

variable {α : Type}

/-- aggregate of one non-empty group whose window stops at `stop`. -/
def aggregate (o : Ops α) (agg : Agg) (stop : Int) : List (Pt α) → Option (Pt α)
  | [] => none
  | p :: ps => some <|
    match agg with
    | .count => (stop, o.ofCount (ps.length + 1))
    | .sum => (stop, (p :: ps).foldl (fun a q => o.add a q.2) o.zero)
    | .mean => (stop, o.mean ((p :: ps).foldl (fun a q => o.add a q.2) o.zero) (ps.length + 1))
    | .min => ps.foldl (fun m q => if o.lt q.2 m.2 then q else m) p    -- earliest minimal point
    | .max => ps.foldl (fun m q => if o.lt m.2 q.2 then q else m) p    -- earliest maximal point
    | .first => p
    | .last => (p :: ps).getLast (List.cons_ne_nil _ _)

set_option wf.preprocess false in
/-- group by window (groups in order of first appearance), aggregate each group. -/
def aggSpec (o : Ops α) (agg : Agg) (stopOf : Int → Int) : List (Pt α) → List (Pt α)
  | [] => []
  | p :: ps =>
    let s := stopOf p.1
    (aggregate o agg s (p :: ps.filter (fun q => stopOf q.1 == s))).toList ++
      aggSpec o agg stopOf (ps.filter (fun q => !(stopOf q.1 == s)))
termination_by l => l.length
decreasing_by
  simp only [List.length_cons]
  exact Nat.lt_succ_of_le (List.length_filter_le _ _)

/-- one evaluation: the request, the raw points (in storage order), and what the
    implementation returned (`none` = panic / error / no cursor). -/
structure Case (α : Type) where
  agg : Agg
  w : W
  pts : List (Pt α)
  observed : Option (List (List (Pt α)))

/-- The statement on one case: the concatenation of the returned arrays is the grouped aggregate. -/
def holdsOn [DecidableEq α] (o : Ops α) (c : Case α) : Bool :=
  match c.observed with
  | none => false
  | some arrs => decide (arrs.flatten = aggSpec o c.agg c.w.stopOf c.pts)

end Influx.Spec.C20
