/-
  Spec.C30 — the statement of C30, written from the property text:

    "After any sequence of organization, bucket, user and membership operations,
     organization names and user names are unique, bucket names are unique within an
     organization, every name lookup agrees with the record it indexes, deleting an
     organization removes its buckets and memberships, and system buckets cannot be
     deleted or renamed."

  It is evaluated on one case = the list of (operation, observed answer) pairs,
  where the answer of a `dump` operation is the raw content of the kv buckets of
  the tenant store and the answers of `fo`/`fb`/`fu` are name lookups through the
  service API.  It does not use the model: only list membership on the dumps.
-/
import Influx.Proto
import Influx.Model.TenantTypes

namespace Influx.Spec.C30
open Influx.Tenant

/-- ASCII white space as `strings.TrimSpace` sees it: organization names are indexed
    with surrounding white space removed, so "agrees with the record it indexes" is
    read modulo that normalisation for organizations. -/
def isSp (c : Char) : Bool := c.toNat = 32 || (9 ≤ c.toNat && c.toNat ≤ 13)

def trim (s : String) : String :=
  String.ofList ((s.toList.dropWhile isSp).reverse.dropWhile isSp).reverse

/-- no two entries of a list agree under `f` (names unique) -/
def uniqueBy {α β : Type} [DecidableEq β] (f : α → β) : List α → Bool
  | [] => true
  | x :: xs => xs.all (fun y => f x ≠ f y) && uniqueBy f xs

/-- every record of the dump is stored under its own id -/
def keysAgree (d : Dump) : Bool :=
  d.orgs.all (fun e => e.1 = e.2.1) && d.bkts.all (fun e => e.1 = e.2.1) &&
  d.users.all (fun e => e.1 = e.2.1)

/-- names unique: organizations and users globally, buckets within their organization -/
def namesUnique (d : Dump) : Bool :=
  uniqueBy (fun e : Nat × Nat × String => e.2.2) d.orgs &&
  uniqueBy (fun e : Nat × Nat × String => e.2.2) d.users &&
  uniqueBy (fun e : Nat × Nat × BucketRec => (e.2.2.org, e.2.2.name)) d.bkts

/-- every name lookup agrees with the record it indexes: each index entry points to an
    existing record carrying that name, and each record is found under its name -/
def indexesAgree (d : Dump) : Bool :=
  d.orgIdx.all (fun (k, id) => d.orgs.any (fun e => e.1 = id && trim e.2.2 = k)) &&
  d.orgs.all (fun e => d.orgIdx.any (fun (k, id) => k = trim e.2.2 && id = e.1)) &&
  d.userIdx.all (fun (k, id) => d.users.any (fun e => e.1 = id && e.2.2 = k)) &&
  d.users.all (fun e => d.userIdx.any (fun (k, id) => k = e.2.2 && id = e.1)) &&
  d.bktIdx.all (fun (k, id) => d.bkts.any (fun e => e.1 = id && e.2.2.org = k.1 && e.2.2.name = k.2)) &&
  d.bkts.all (fun e => d.bktIdx.any (fun (k, id) => k = (e.2.2.org, e.2.2.name) && id = e.1))

def dumpOK (d : Dump) : Bool := keysAgree d && namesUnique d && indexesAgree d

/-- the organization `org` was deleted: none of its buckets and memberships is left -/
def cascaded (d : Dump) (org : Nat) : Bool :=
  d.bkts.all (fun e => e.2.2.org ≠ org) && d.urms.all (fun e => e.1.1 ≠ org && e.2.1.1 ≠ org)

def isDeleteOrgOf (org : Nat) : Op × Ans → Bool
  | (.dO id, _) => id = org
  | _ => false

/-- system buckets of `before` are still there, with the same name, in `after` — unless
    one of the operations in between deleted their organization -/
def systemKept (before after : Dump) (between : List (Op × Ans)) : Bool :=
  before.bkts.all fun e =>
    !e.2.2.sys || between.any (isDeleteOrgOf e.2.2.org) || after.bkts.contains e

def isLookup : Op → Bool
  | .fo _ | .fb _ _ | .fu _ | .lb _ | .dump => true
  | _ => false

/-- a name lookup through the service API agrees with the records of the dump -/
def lookupOK (d : Dump) : Op → Ans → Bool
  | .fo n, .foundOrg id nm => d.orgs.any (fun e => e.1 = id && e.2.2 = nm) && trim nm = trim n
  | .fo n, .err .nf => d.orgs.all (fun e => e.2.2 ≠ n)
  | .fo _, _ => false
  | .fu n, .foundUser id nm => d.users.any (fun e => e.1 = id && e.2.2 = nm) && nm = n
  | .fu n, .err .nf => d.users.all (fun e => e.2.2 ≠ n)
  | .fu _, _ => false
  | .fb o n, .foundBkt id o' nm =>
      d.bkts.any (fun e => e.1 = id && e.2.2.org = o' && e.2.2.name = nm) && o' = o && nm = n
  | .fb o n, .err .nf => d.bkts.all (fun e => !(e.2.2.org = o && e.2.2.name = n))
  | .fb o _, .err .inv => o = 0
  | .fb _ _, _ => false
  | _, _ => true

/-- scanning state: the last dump seen and the operations answered since (newest first) -/
structure Scan where
  last : Option Dump := none
  since : List (Op × Ans) := []
  ok : Bool := true
  why : String := ""

def Scan.fail (sc : Scan) (why : String) : Scan :=
  if sc.ok then { sc with ok := false, why := why } else sc

/-- names unique and indexes in agreement in a dump -/
def checkDump (sc : Scan) (d : Dump) : Scan :=
  if dumpOK d then sc else
    sc.fail (if !keysAgree d then "record-key-mismatch" else if !namesUnique d then "name-not-unique" else "index-disagrees")

/-- a dump right after a successful organization delete shows no dependents -/
def checkCascade (sc : Scan) (d : Dump) : Scan :=
  match sc.since with
  | (.dO id, .okId _) :: _ => if cascaded d id then sc else sc.fail "delete-org-leaves-dependents"
  | _ => sc

/-- system buckets of the previous dump are still there -/
def checkSystem (sc : Scan) (d : Dump) : Scan :=
  match sc.last with
  | some b => if systemKept b d sc.since then sc else sc.fail "system-bucket-changed"
  | none => sc

/-- a lookup answered while the raw state is known (only lookups since the last dump) agrees with it -/
def checkLookup (sc : Scan) (op : Op) (a : Ans) : Scan :=
  match sc.last with
  | some d => if sc.since.all (fun p => isLookup p.1) && !lookupOK d op a then sc.fail "lookup-disagrees" else sc
  | none => sc

def scanStep (sc : Scan) (oa : Op × Ans) : Scan :=
  match oa with
  | (.dump, .dump d) =>
    { checkSystem (checkCascade (checkDump sc d) d) d with last := some d, since := [] }
  | (.dump, _) => sc.fail "dump-unreadable"
  | (op, a) => { checkLookup sc op a with since := (op, a) :: sc.since }

def scan (tr : List (Op × Ans)) : Scan := tr.foldl scanStep {}

/-- **the statement** on one case -/
def holdsOn (tr : List (Op × Ans)) : Bool := (scan tr).ok

end Influx.Spec.C30
