/-
  Spec.C37 — the STATEMENT of C37, written from the property text, not from the code:

  "For sorted, deduplicated timestamp arrays of every value type, merging two
   arrays yields their union with the second array winning on equal timestamps,
   excluding a closed range removes exactly the points in it, including keeps
   exactly those points, and range search returns the correct insertion positions."

  An array denotes the finite map `toMap` (last write wins).  Nothing here
  mentions binary search, slice arithmetic or merge loops: merge is judged by the
  map it denotes plus strict ascending order (which together determine the array),
  exclude/include by a list comprehension, positions by counting.
-/
import Influx.Proto

namespace Influx.Spec.C37

variable {V : Type}

/-- the map an array denotes: the LAST entry for a timestamp wins. -/
def toMap : List (Int × V) → Int → Option V
  | [], _ => none
  | (t', v) :: r, t =>
    match toMap r t with
    | some w => some w
    | none => if t' = t then some v else none

/-- sorted and deduplicated: timestamps strictly ascending. -/
def sortedDedup : List (Int × V) → Bool
  | [] => true
  | [_] => true
  | x :: y :: r => decide (x.1 < y.1) && sortedDedup (y :: r)

def inRange (lo hi t : Int) : Bool := decide (lo ≤ t) && decide (t ≤ hi)

/-- number of points with a timestamp below `t` = the insertion position of `t`. -/
def insertionPos (a : List (Int × V)) (t : Int) : Nat := a.countP (fun p => decide (p.1 < t))

/-- which family of the code an operation was run on: `tsm1.*Values` deduplicate
    their arguments in `Merge`, so their merge is also judged on arbitrary input. -/
inductive Fam | tsm1 | cursors
deriving DecidableEq, Repr

inductive Op (V : Type)
  | merge (f : Fam) (a b : List (Int × V))
  | exclude (a : List (Int × V)) (lo hi : Int)
  | incl (a : List (Int × V)) (lo hi : Int)
  | findRange (a : List (Int × V)) (lo hi : Int)
  | search (a : List (Int × V)) (t : Int)
  | dedup (a : List (Int × V))

inductive Res (V : Type)
  | arr (l : List (Int × V))
  /-- `none` is the code's `(-1, -1)`: "the array is outside [min, max]" -/
  | range (r : Option (Nat × Nat))
  | pos (n : Nat)
  | panic
deriving DecidableEq

/-- `out` denotes `b` overlaid on `a`, checked at every timestamp that occurs anywhere
    (at all other timestamps all three maps are `none`, see `Props.C37.toMap_none_of_not_mem`). -/
def unionRightWins [DecidableEq V] (a b out : List (Int × V)) : Bool :=
  (a ++ b ++ out).all fun p =>
    toMap out p.1 == (match toMap b p.1 with | some w => some w | none => toMap a p.1)

def sameMap [DecidableEq V] (a out : List (Int × V)) : Bool :=
  (a ++ out).all fun p => toMap out p.1 == toMap a p.1

/-- does the property text say anything about this operation on these arguments? -/
def inScope : Op V → Bool
  | .merge .cursors a b => sortedDedup a && sortedDedup b
  | .merge .tsm1 _ _ => true
  | .exclude a _ _ => sortedDedup a
  | .incl a _ _ => sortedDedup a
  | .findRange a _ _ => sortedDedup a
  | .search a _ => sortedDedup a
  | .dedup _ => true

/-- The statement on one observation. -/
def holdsOn [DecidableEq V] (op : Op V) (res : Res V) : Bool :=
  if !inScope op then true else
  match op, res with
  | .merge _ a b, .arr out =>
    unionRightWins a b out && (if sortedDedup a && sortedDedup b then sortedDedup out else true)
  | .exclude a lo hi, .arr out => out == a.filter (fun p => !inRange lo hi p.1)
  | .incl a lo hi, .arr out => out == a.filter (fun p => inRange lo hi p.1)
  | .findRange a lo hi, .range r =>
    let outside := a.isEmpty || decide (lo > hi) ||
      a.all (fun p => decide (p.1 < lo)) || a.all (fun p => decide (p.1 > hi))
    r == (if outside then none else some (insertionPos a lo, insertionPos a hi))
  | .search a t, .pos n => n == insertionPos a t
  | .dedup a, .arr out => sortedDedup out && sameMap a out
  | _, _ => false

end Influx.Spec.C37
