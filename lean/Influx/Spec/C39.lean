/-
  Spec.C39 — the statement of C39 (its decidable part), written from the property text:

    "Any concurrent mix of writes, reads, deletes, snapshots, compactions … completes
     without … deadlocks …, and every read returns a state that some serial order of
     the completed operations could have produced."

  One case is either
   * the lock-order case: the nested acquisition pairs extracted from the Go source;
     the statement is that the relation is acyclic (then no deadlock state exists in
     the lock model, Props.C39.C39_lock_order) and that the two step orders the
     consistency proof rests on are the ones the source has; or
   * a schedule case: a sequence of operations of the schedule harness, where
     snapshots, compactions, deletes and reads can be held at their lock boundaries
     while other operations run.  The statement is judged per point: the value a
     read returns for (key, time) must be one that some serial order of the
     operations completed before the read ended — containing all operations
     completed before it began — produces.  Snapshots and compactions are not
     operations of that order (they must be invisible).  An operation that overlaps
     the read, or a delete that is still in flight, may be ordered either way.

  Only the types of the operations/observations are shared with the model.
-/
import Influx.Model.EngineSteps
import Influx.Model.LockOrder

namespace Influx.Spec.C39
open Influx.Conc

/-- admissible values of one point -/
structure PInfo where
  k : Key
  t : TS
  adm : List (Option Val)
  /-- written while the in-flight delete covered it -/
  racing : Bool
deriving Repr

/-- a two-phase read in flight: everything that became admissible since it began -/
structure RInfo where
  id : Nat
  k : Key
  acc : List (TS × List (Option Val))
deriving Repr

structure SpecSt where
  pts : List PInfo
  inflight : Option (Key × TS × TS)
  readers : List RInfo
deriving Repr

def SpecSt.init : SpecSt := { pts := [], inflight := none, readers := [] }

def covers (d : Key × TS × TS) (k : Key) (t : TS) : Bool :=
  d.1 == k && decide (d.2.1 ≤ t) && decide (t ≤ d.2.2)

def union (a b : List (Option Val)) : List (Option Val) :=
  b.foldl (fun acc x => if acc.contains x then acc else acc ++ [x]) a

def SpecSt.adm (s : SpecSt) (k : Key) (t : TS) : List (Option Val) :=
  match s.pts.find? (fun p => p.k == k && p.t == t) with
  | some p => p.adm
  | none => [none]

/-- record for every reader of key k that `vals` became admissible for time t -/
def noteReaders (rs : List RInfo) (k : Key) (t : TS) (vals : List (Option Val)) : List RInfo :=
  rs.map fun r =>
    if r.k != k then r else
    match r.acc.find? (fun e => e.1 == t) with
    | some _ => { r with acc := r.acc.map (fun e => if e.1 == t then (e.1, union e.2 vals) else e) }
    | none => { r with acc := (t, union [none] vals) :: r.acc }

def setPoint (s : SpecSt) (k : Key) (t : TS) (adm : List (Option Val)) (racing : Bool) : SpecSt :=
  let pts := if s.pts.any (fun p => p.k == k && p.t == t)
    then s.pts.map (fun p => if p.k == k && p.t == t then { p with adm := adm, racing := racing } else p)
    else { k := k, t := t, adm := adm, racing := racing } :: s.pts
  { s with pts := pts, readers := noteReaders s.readers k t adm }

/-- apply `f` to the admissible set of every known point of key k in [lo,hi] -/
def mapRange (s : SpecSt) (k : Key) (lo hi : TS) (f : PInfo → PInfo) : SpecSt :=
  let pts := s.pts.map (fun p => if covers (k, lo, hi) p.k p.t then f p else p)
  let rs := pts.foldl (fun rs p => if covers (k, lo, hi) p.k p.t then noteReaders rs p.k p.t p.adm else rs) s.readers
  { s with pts := pts, readers := rs }

def observed (l : List (TS × Val)) (t : TS) : Option Val := l.lookup t

inductive Sig
  | readUnexplained      -- a read returned a value no admissible serial order produces
  | badObservation
deriving Repr, DecidableEq

def Sig.name : Sig → String
  | .readUnexplained => "read-unexplained"
  | .badObservation => "bad-observation"

/-- an atomic read of key k: every known point and every returned point is admissible -/
def readOK (s : SpecSt) (k : Key) (l : List (TS × Val)) : Bool :=
  (s.pts.all fun p => p.k != k || (s.adm k p.t).contains (observed l p.t)) &&
  (l.all fun e => (s.adm k e.1).contains (some e.2))

def readerOK (r : RInfo) (l : List (TS × Val)) : Bool :=
  (r.acc.all fun e => e.2.contains (observed l e.1)) &&
  (l.all fun e => match r.acc.find? (fun a => a.1 == e.1) with
    | some a => a.2.contains (some e.2)
    | none => false)

/-- judge one (operation, observation) pair -/
def judge (s : SpecSt) : Op → Ans → List Sig × SpecSt
  | .write k t v, .ok =>
    let racing := match s.inflight with | some d => covers d k t | none => false
    ([], setPoint s k t (if racing then [some v, none] else [some v]) racing)
  | .delete k lo hi, .ok =>
    ([], mapRange s k lo hi (fun p => { p with adm := [none], racing := false }))
  | .delBegin k lo hi, .done =>
    -- the delete ran to its end at once
    ([], mapRange s k lo hi (fun p => { p with adm := [none], racing := false }))
  | .delBegin k lo hi, .ok =>
    let s' := mapRange s k lo hi (fun p => { p with adm := union p.adm [none], racing := false })
    ([], { s' with inflight := some (k, lo, hi) })
  | .delEnd, .ok =>
    match s.inflight with
    | some (k, lo, hi) =>
      let s' := mapRange s k lo hi (fun p => if p.racing then { p with racing := false } else { p with adm := [none] })
      ([], { s' with inflight := none })
    | none => ([.badObservation], s)
  | .read k, .pts l => ((if readOK s k l then [] else [.readUnexplained]), s)
  | .readBegin r k, .ok =>
    let ri : RInfo := { id := r, k := k, acc := (s.pts.filter (fun p => p.k == k)).map (fun p => (p.t, p.adm)) }
    ([], { s with readers := ri :: s.readers })
  | .readEnd r, .pts l =>
    match s.readers.find? (fun x => x.id == r) with
    | some ri => ((if readerOK ri l then [] else [.readUnexplained]),
                  { s with readers := s.readers.filter (fun x => x.id != r) })
    | none => ([.badObservation], s)
  -- maintenance: no effect on what reads may return
  | .snapBegin, .ok | .snapReplace, .ok | .snapClear, .ok | .compactBegin, .ok | .compactCommit, .ok => ([], s)
  -- refused by the harness (would overlap a snapshot / compaction / delete): nothing happened
  | .snapBegin, .busy | .snapReplace, .busy | .snapClear, .busy | .compactBegin, .busy | .compactCommit, .busy
  | .delete .., .busy | .delBegin .., .busy | .delEnd, .busy => ([], s)
  | .write .., .badOp | .delete .., .badOp | .delBegin .., .badOp | .read _, .badOp
  | .readBegin .., .badOp | .readEnd _, .badOp => ([], s)
  | _, _ => ([.badObservation], s)

def failuresFrom (s : SpecSt) : List (Op × Ans) → List Sig
  | [] => []
  | (op, a) :: rest => let (fs, s') := judge s op a; fs ++ failuresFrom s' rest

/-- the consistency clause on one schedule case -/
def holdsOn (c : List (Op × Ans)) : Bool := (failuresFrom SpecSt.init c).isEmpty

/-! ### free-running concurrent histories (supporting evidence, thorough tier)

  The harness runs real goroutines (writers, readers, a snapshotter, background
  compactions) against one real shard and records every write and read with logical
  start / end stamps taken from one atomic counter.  No deletes.  A read is explained
  per point (regularity): the value it returns for (key, time) was written by a write
  that began before the read ended and is not superseded by a write of the same
  point that lies entirely between that write and the read; and every point whose
  write completed before the read began is returned. -/

structure WEv where
  k : Key
  t : TS
  v : Val
  s : Nat
  e : Nat
deriving Repr

structure REv where
  k : Key
  s : Nat
  e : Nat
  pts : List (TS × Val)
deriving Repr

def readExplained (ws : List WEv) (r : REv) : Bool :=
  (r.pts.all fun p => ws.any fun w =>
      w.k == r.k && w.t == p.1 && w.v == p.2 && decide (w.s < r.e) &&
      !(ws.any fun w' => w'.k == r.k && w'.t == p.1 && decide (w.e < w'.s) && decide (w'.e < r.s))) &&
  (ws.all fun w => w.k != r.k || !(decide (w.e < r.s)) || (r.pts.lookup w.t).isSome)

def stressOK (ws : List WEv) (rs : List REv) : Bool := rs.all (readExplained ws)

/-- the two step orders the consistency proof rests on -/
def expectedStepOrder : List (String × List String) :=
  [("read", ["cache", "files"]), ("commit", ["replace", "clear"])]

/-- the lock modes the atomicity of write batches with respect to a snapshot's start rests
    on (Props.C39.C39_batch_atomicity): Cache.Snapshot under Engine.mu exclusive, a write
    batch under Engine.mu shared -/
def expectedLockModes : String := "snapshot=W write=R"

/-- free-running write batches against a WriteSnapshot loop, then a quiescent full read:
    every acknowledged point is readable -/
def batchesOK (expected acked readable : Nat) : Bool := acked == expected && readable == acked

/-- the lock-order clause on the extracted relation -/
def lockOrderHolds (edges : List (String × String)) : Bool := LockOrder.isAcyclic edges

end Influx.Spec.C39
