/-
  Spec.C11 — the statement of C11, written from the property text:

  "For every valid point (measurement, tags, typed fields, timestamp), rendering it as
   line protocol and parsing it back yields the same measurement, the same tag set in
   sorted order, the same field names with identical types and values, and the same
   timestamp at every supported precision.  Building a series key from a name and tags
   and parsing it back returns that name and tag set."

  `holdsOn*` compare what came back with the point that went in; they do not use any
  scanner of the model.  `Valid` / `ValidKey` say which points the property is about:
  their exact shape was found by the proof (Props/C11.lean) — every class they exclude
  is classified by `classify` and reported by the check when the real code accepts such
  a point and does not give it back.
-/
import Influx.Proto
import Influx.Model.LineProtocolPoint

namespace Influx.Spec.C11
open Influx Influx.LP Influx.Generated.LineProto

/-! ### what the point should come back as -/

/-- observed / expected typed value (a float is its IEEE-754 bit pattern) -/
inductive OVal
  | float (bits : Nat) | int (v : Int) | uint (v : Nat) | bool (b : Bool) | str (s : Bytes)
deriving DecidableEq, Repr

def ovalOf : FV → OVal
  | .float b _ => .float b
  | .int v => .int v
  | .uint v => .uint v
  | .bool b => .bool b
  | .str s => .str s

/-- lexicographic `≤` on byte strings (the order of `bytes.Compare` / Go string `<`) -/
def bytesLe : Bytes → Bytes → Bool
  | [], _ => true
  | _ :: _, [] => false
  | a :: as, b :: bs => a < b || (a == b && bytesLe as bs)

def insertSorted (key : α → Bytes) (x : α) : List α → List α
  | [] => [x]
  | y :: ys => if bytesLe (key x) (key y) then x :: y :: ys else y :: insertSorted key x ys

/-- stable sort by key -/
def sortByKey (key : α → Bytes) (l : List α) : List α := l.foldr (insertSorted key) []

def expectedTags (p : PointIn) : List Tag := sortByKey (·.key) p.tags
def expectedFields (p : PointIn) : List (Bytes × OVal) :=
  sortByKey (·.1) (p.fields.map fun f => (f.1, ovalOf f.2))

def precMult (prec : String) : Int :=
  if prec = "us" then 1000 else if prec = "ms" then 1000000 else if prec = "s" then 1000000000 else 1

/-- the timestamp read back: the same when it is representable at the precision; otherwise
    a multiple of the precision less than one unit away.  A point without a timestamp gets
    the default time cut to the precision. -/
def timeOK (prec : String) (dt : Int) (t : Option Int) (t' : Int) : Bool :=
  match t with
  | some t =>
    if t % precMult prec = 0 then t' = t
    else t' % precMult prec = 0 ∧ (t' - t).natAbs < (precMult prec).natAbs
  | none => t' % precMult prec = 0 ∧ t' ≤ dt ∧ dt - t' < precMult prec

structure ParsedObs where
  name : Bytes
  tags : List Tag
  time : Int
  fields : List (Bytes × OVal)
deriving DecidableEq, Repr

inductive PtRes
  | rejected                 -- NewPoint returned an error
  | parsed (q : ParsedObs)   -- exactly one point, no error
  | failed                   -- a parse error, ≠ 1 point, or a panicking accessor
deriving DecidableEq, Repr

structure PtObs where
  prec : String
  dt : Int
  p : PointIn
  res : PtRes
deriving Repr

def sameBack (o : PtObs) (q : ParsedObs) : Bool :=
  q.name = o.p.name ∧ q.tags = expectedTags o.p ∧ q.fields = expectedFields o.p ∧
    timeOK o.prec o.dt o.p.time q.time

/-! ### which points the property is about -/

def noTrailingBS (s : Bytes) : Bool := s.getLast? ≠ some cBS

/-- some backslash is immediately followed by a byte of `S` -/
def bsBefore (S : Nat → Bool) : Bytes → Bool
  | [] => false
  | [_] => false
  | a :: b :: rest => (a == cBS && S b) || bsBefore S (b :: rest)

def isTagSpecial (c : Nat) : Bool := c == cComma || c == cSpace || c == cEq
def isMeasSpecial (c : Nat) : Bool := c == cComma || c == cSpace

/-- the escaped form compared by the parser when it sorts tags -/
def escKey (s : Bytes) : Bytes := s.flatMap fun b => if isTagSpecial b then [cBS, b] else [b]

def reservedKeys : List Bytes :=
  [[255], [0], str reservedFieldTagKey, str reservedMeasurementTagKey, str reservedTimeTagKey]

def strictlySorted (key : α → Bytes) : List α → Bool
  | [] => true
  | [_] => true
  | a :: b :: rest => (bytesLe (key a) (key b) && key a != key b) && strictlySorted key (b :: rest)

def nameOK (n : Bytes) : Bool :=
  !n.isEmpty && noTrailingBS n && !bsBefore isEscapeChar n && !n.contains cNL &&
    n.head? != some 35 && n.head? != some 9 && n.head? != some 0

def tagOK (t : Tag) : Bool :=
  !t.key.isEmpty && !t.value.isEmpty && noTrailingBS t.key && noTrailingBS t.value &&
    !t.key.contains cNL && !t.value.contains cNL && !reservedKeys.contains t.key

/-- in the rendered key every backslash run in front of `,` ` ` `=` is read in pairs by
    scanFields: an odd run leaves the escaped byte bare -/
def fieldKeyPairsOK : Bytes → Bool
  | [] => true
  | [b] => b != cBS
  | a :: b :: rest =>
    if a = cBS then (if isTagSpecial b then false else fieldKeyPairsOK rest)
    else fieldKeyPairsOK (b :: rest)

def fieldKeyOK (k : Bytes) : Bool :=
  !k.isEmpty && noTrailingBS k && fieldKeyPairsOK k && !k.contains cNL &&
    k.head? != some 9 && k.head? != some 0

/-- Go's `strconv.FormatFloat(v,'f',-1,64)` of a finite float: optional '-', digits, optional
    fraction — and the parser's number scanner accepts it -/
def floatTextOK (text : Bytes) : Bool :=
  !text.isEmpty && text.all (fun b => isDigit b || b == 46 || b == 45) &&
    (match checkNumber text with | .ok _ => true | .error _ => false) && parseFloatOk text

/-- `strconv.FormatFloat` is a function of the value and is injective: equal texts, equal bits
    (this is what lets the harness read a float back with `strconv.ParseFloat`) -/
def floatsConsistent (fs : List (Bytes × FV)) : Bool :=
  fs.all fun f => fs.all fun g =>
    match f.2, g.2 with
    | .float b1 t1, .float b2 t2 => t1 != t2 || b1 == b2
    | _, _ => true

def fieldValOK : FV → Bool
  | .float bits text => !floatNotFinite bits && floatTextOK text
  | .int v => -(2 ^ 63 : Int) ≤ v && v < 2 ^ 63
  | .uint v => v < 2 ^ 64
  | .bool _ => true
  | .str s => !s.contains cNL

def distinct : List Bytes → Bool
  | [] => true
  | a :: rest => !rest.contains a && distinct rest

def timeValid (prec : String) : Option Int → Bool
  | none => true
  | some t => MinNanoTime ≤ t && t ≤ MaxNanoTime && t % precMult prec == 0

/-- length of the escaped field key as written to the line -/
def escFieldKeyLen (k : Bytes) : Nat := k.length + (k.filter isEscapeChar).length
def escNameLen (n : Bytes) : Nat := n.length + (n.filter isMeasSpecial).length
def escTagLen (s : Bytes) : Nat := s.length + (s.filter isTagSpecial).length
def keyLen (p : PointIn) : Nat :=
  escNameLen p.name + (p.tags.map fun t => 2 + escTagLen t.key + escTagLen t.value).sum

/-- the points the round-trip theorem is about -/
def Valid (p : PointIn) (prec : String) : Bool :=
  nameOK p.name &&
  p.tags.all tagOK && strictlySorted (·.key) p.tags && strictlySorted (fun t => escKey t.key) p.tags &&
  !p.fields.isEmpty && p.fields.all (fun f => fieldKeyOK f.1 && fieldValOK f.2) &&
  distinct (p.fields.map (·.1)) && floatsConsistent p.fields &&
  timeValid prec p.time &&
  p.fields.all (fun f => keyLen p + 4 + escFieldKeyLen f.1 ≤ MaxKeyLength)

/-- the default time is far enough inside the int64 range to be cut to a second -/
def dtSane (dt : Int) : Bool := -(2 ^ 63 : Int) + 1000000000 ≤ dt && dt < 2 ^ 63

/-- the precisions of the write API -/
def precOK (prec : String) : Bool := prec == "ns" || prec == "us" || prec == "ms" || prec == "s"

/-- a valid observation: a valid point, a supported precision, and a usable default time when
    the point has no timestamp -/
def ValidObs (o : PtObs) : Bool := Valid o.p o.prec && precOK o.prec && (o.p.time.isSome || dtSane o.dt)

/-- the statement on one `NewPoint → String → Parse` observation -/
def holdsOnPt (o : PtObs) : Bool :=
  match o.res with
  | .rejected => !Valid o.p o.prec       -- a valid point must be accepted
  | .failed => false
  | .parsed q => sameBack o q

/-! ### series keys -/

structure KeyObs where
  name : Bytes
  tags : List Tag
  res : Option (Bytes × List Tag)    -- `ParseKeyBytes(MakeKey(name, tags))`; `none` = panic
deriving Repr

/-- the statement on one `MakeKey → ParseKeyBytes` observation (tags come back in the
    order given: neither function sorts) -/
def holdsOnKey (o : KeyObs) : Bool :=
  match o.res with
  | none => false
  | some (n, ts) => n = o.name ∧ ts = o.tags

/-- the names and tags the key theorem is about -/
def ValidKey (name : Bytes) (tags : List Tag) : Bool :=
  !name.isEmpty && noTrailingBS name && !bsBefore isMeasSpecial name &&
  tags.all fun t => !t.value.isEmpty && noTrailingBS t.key && noTrailingBS t.value

/-! ### classes outside `Valid`, for the report (first that applies) -/

def classifyPt (p : PointIn) (prec : String) : String :=
  if p.name.isEmpty then "empty-measurement"
  else if p.name.head? == some 35 || p.name.head? == some 9 || p.name.head? == some 0 then "measurement-starts-comment-or-blank"
  else if p.name.contains cNL || p.tags.any (fun t => t.key.contains cNL || t.value.contains cNL) ||
      p.fields.any (fun f => f.1.contains cNL) then "newline-in-key"
  else if !noTrailingBS p.name || p.tags.any (fun t => !noTrailingBS t.key || !noTrailingBS t.value) ||
      p.fields.any (fun f => !noTrailingBS f.1) then "trailing-backslash"
  else if bsBefore isEscapeChar p.name then "measurement-backslash-before-special"
  else if p.tags.any (fun t => t.key.isEmpty || t.value.isEmpty) then "empty-tag-key-or-value"
  else if p.tags.any (fun t => reservedKeys.contains t.key) then "reserved-tag-key"
  else if !distinct (p.tags.map (·.key)) then "duplicate-tag-keys"
  else if sortByKey (·.key) p.tags != sortByKey (fun t => escKey t.key) p.tags then "tag-order-escaped"
  else if p.fields.any (fun f => !fieldKeyPairsOK f.1) then "field-key-backslash-before-special"
  else if p.fields.any (fun f => f.1.head? == some 9 || f.1.head? == some 0) then "field-key-starts-blank"
  else if p.fields.any (fun f => match f.2 with | .str s => s.contains cNL | _ => false) then "newline-in-string"
  else if !timeValid prec p.time then "time"
  else if !p.fields.all (fun f => keyLen p + 4 + escFieldKeyLen f.1 ≤ MaxKeyLength) then "key-length-escaped"
  else if !strictlySorted (·.key) p.tags then "unsorted-tags"
  else if Valid p prec then "valid" else "other"

def classifyKey (name : Bytes) (tags : List Tag) : String :=
  if name.isEmpty then "empty-name"
  else if !noTrailingBS name || tags.any (fun t => !noTrailingBS t.key || !noTrailingBS t.value) then "trailing-backslash"
  else if bsBefore isMeasSpecial name then "name-holds-escape-sequence"
  else if tags.any (fun t => t.value.isEmpty) then "empty-tag-value"
  else if ValidKey name tags then "valid" else "other"

end Influx.Spec.C11
