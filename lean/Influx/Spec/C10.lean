/-
  Spec.C10 — the statement of C10, written from the property text:

    "Within a shard each measurement field has exactly one type: a write carrying a
     different type for an existing field is rejected as a partial write with an
     accurate dropped count and is never stored. The recorded field types survive
     restarts, including unclean ones, and a field schema removed by dropping its
     measurement stays removed after any restart."

  Evaluated on observations only.  After every operation the case observes the
  field schema and everything a read returns (`Seen`).

    * every observed schema gives each (measurement, field) one type;
    * a write never changes or removes a recorded type; the points of the batch
      that carry another type for a field that was on record before the write are
      all rejected: the write is a partial write reporting at least that many
      dropped points; a write never fails in another way;
    * every stored value that is read back has the type the schema records for
      its field (so a value of another type is never stored), and reads do not fail;
    * a clean restart, a process kill, and a crash at any point inside the
      rewrite of fields.idx leave the schema (and the readable data) exactly as
      it was; the shard opens again;
    * a crash in the middle of the last append to fields.idxl (that operation is
      then not acknowledged) keeps every type that was on record before that
      operation — except the fields of the measurement that operation was
      dropping — and invents nothing: every recorded type afterwards was on record
      before or after that operation;
    * after `drop m` was acknowledged no field of `m` is on record, other
      measurements are untouched, and no restart brings a field of `m` back (until
      a later write mentions `m` again);
    * operations that only look (schema dump, read, snapshot) change nothing.
-/
import Influx.Proto
import Influx.Model.FieldTypes

namespace Influx.Spec.C10
open Influx.Fields

def functional (s : Schema) : Bool := decide (s.map (·.1)).Nodup

/-- every recorded type of `a` is recorded in `b` -/
def subSchema (a b : Schema) : Bool := a.all (fun e => b.lookup e.1 == some e.2)
def sameSchema (a b : Schema) : Bool := subSchema a b && subSchema b a

def sameStore (a b : Store) : Bool :=
  a.all (fun e => b.lookup e.1 == some e.2) && b.all (fun e => a.lookup e.1 == some e.2)

/-- the point carries, for a field on record in `s`, another type -/
def conflictsWith (s : Schema) (p : Point) : Bool :=
  p.fields.any (fun f => f.name != timeName &&
    match s.lookup (p.meas, f.name) with
    | some t => t != f.ty
    | none => false)

/-- every value read back has the type on record for its field -/
def typedBy (s : Schema) (d : Store) : Bool :=
  d.all (fun e => s.lookup (e.1.1, e.1.2.2.1) == some e.2.1)

def hasMeas (s : Schema) (m : String) : Bool := s.any (fun e => e.1.1 == m)

/-- what the checker remembers between operations -/
structure Mem where
  /-- observed after the last operation -/
  cur : Seen := { sch := [], store := some [] }
  /-- observed before the last operation -/
  prev : Seen := { sch := [], store := some [] }
  /-- measurements dropped (acknowledged) and not mentioned by a write since -/
  dropped : List String := []
  /-- the last operation was `drop m` -/
  lastDrop : Option String := none

/-- checks common to every observation -/
def seenFails (a : Seen) : Option String :=
  if !functional a.sch then some "schema-not-functional:" else
  match a.store with
  | none => some "read-failed:"
  | some d => if typedBy a.sch d then none else some "stored-type-differs:"

def restartName : Restart → String
  | .clean => "clean" | .kill => "kill" | .torn => "torn" | .inSnapshot p => p

def stepFails (M : Mem) : Step10 → Option String × Mem
  | .write batch res after =>
    let M' : Mem := { cur := after, prev := M.cur, lastDrop := none,
                      dropped := M.dropped.filter (fun m => !batch.any (fun p => p.meas == m)) }
    let nConf := batch.countP (conflictsWith M.cur.sch)
    let r :=
      match res with
      | .hardError e => some ("write-hard-error:" ++ e)
      | .ok => if nConf > 0 then some s!"conflict-not-rejected:conflicting={nConf}" else none
      | .partialWrite n _ =>
        if n < nConf then some s!"dropped-count-low:reported={n},conflicting={nConf}" else none
    let r := r.or (seenFails after)
    let r := r.or (if subSchema M.cur.sch after.sch then none else some "field-type-changed:")
    (r, M')
  | .drop m ok after =>
    if !ok then (some "drop-failed:", { M with cur := after, prev := M.cur, lastDrop := none }) else
    let M' : Mem := { cur := after, prev := M.cur, lastDrop := some m,
                      dropped := if M.dropped.contains m then M.dropped else m :: M.dropped }
    let r := seenFails after
    let r := r.or (if hasMeas after.sch m then some "dropped-measurement-present:" else none)
    let others := M.cur.sch.filter (fun e => e.1.1 != m)
    let r := r.or (if sameSchema others after.sch then none else some "drop-changed-others:")
    (r, M')
  | .restart kind opened after =>
    let M' : Mem := { M with cur := after, prev := M.cur, lastDrop := none }
    if !opened then (some ("shard-does-not-open:" ++ restartName kind), M') else
    let unack : Option String := if kind == .torn then M.lastDrop else none
    let back := M.dropped.filter (fun m => some m != unack && hasMeas after.sch m)
    let r := seenFails after
    let r := r.or (if back.isEmpty then none else some ("dropped-measurement-back:" ++ restartName kind))
    let r := r.or (
      if kind == .torn then
        let keep := M.prev.sch.filter (fun e => some e.1.1 != unack)
        if !subSchema keep after.sch then some "torn-restart-lost-type:"
        else if !after.sch.all (fun e => M.prev.sch.lookup e.1 == some e.2 || M.cur.sch.lookup e.1 == some e.2)
          then some "torn-restart-invented-type:" else none
      else if !sameSchema M.cur.sch after.sch then some ("restart-schema-changed:" ++ restartName kind)
      else match M.cur.store, after.store with
        | some b, some a => if sameStore b a then none else some ("restart-data-changed:" ++ restartName kind)
        | _, _ => none)
    -- after a torn restart the unacknowledged operation may or may not have happened
    let M'' : Mem := if kind == .torn then { M' with dropped := M.dropped.filter (fun m => some m != unack || !hasMeas after.sch m) } else M'
    (r, M'')
  | .look after =>
    let r := seenFails after
    let r := r.or (if sameSchema M.cur.sch after.sch then none else some "look-changed-schema:")
    let r := r.or (match M.cur.store, after.store with
      | some b, some a => if sameStore b a then none else some "look-changed-data:"
      | _, _ => none)
    (r, { M with cur := after, lastDrop := M.lastDrop })

def firstFailure : Mem → List Step10 → Option String
  | _, [] => none
  | M, s :: rest =>
    match stepFails M s with
    | (some r, _) => some r
    | (none, M') => firstFailure M' rest

/-- **The statement**: the case (starting from an empty shard) has no failure. -/
def holdsOn (steps : List Step10) : Bool := (firstFailure {} steps).isNone

end Influx.Spec.C10
