/-
  Spec.C10 — the statement of C10, written from the property text:

    "Within a shard each measurement field has exactly one type: a write carrying a
     different type for an existing field is rejected as a partial write with an
     accurate dropped count and is never stored. The recorded field types survive
     restarts, including unclean ones, and a field schema removed by dropping its
     measurement stays removed after any restart."

  Evaluated on observations only.  After every operation the case observes the
  field schema and everything a read returns (`Seen`).

    * every observed schema gives each (measurement, field) one type;
    * a write never changes or removes a recorded type; the points of the batch
      that carry another type for a field that was on record before the write are
      all rejected: the write is a partial write reporting at least that many
      dropped points; a write never fails in another way;
    * every stored value that is read back has the type the schema records for
      its field (so a value of another type is never stored), and reads do not fail;
    * a clean restart, a process kill, and a crash at any point inside the
      rewrite of fields.idx leave the schema (and the readable data) exactly as
      it was; the shard opens again;
    * a crash in the middle of the append to fields.idxl of a write or of a drop
      (that operation is then never acknowledged), at any byte, keeps every type
      that was on record — except, for a drop, the fields of the measurement
      being dropped — and invents nothing: every type on record afterwards was on
      record before or is carried by a point of the interrupted write; the data
      readable afterwards is the data readable before (minus the data of the
      measurement being dropped);
    * an acknowledged drop of a measurement `m` that had readable data removes every
      field of `m` from the record (so its fields may be re-created with other types);
    * a drop of `m` leaves the other measurements untouched and adds nothing; once
      it has removed the fields of `m` from the record, no restart brings a field of
      `m` back (until a later write mentions `m` again);
    * two writers racing (on a new field, say): neither fails hard, no recorded type
      changes, and every writer that is told `ok` finds all its field types on record
      afterwards — so racing writers with different types cannot both succeed;
    * operations that only look (schema dump, read, snapshot) change nothing.
-/
import Influx.Proto
import Influx.Model.FieldTypes

namespace Influx.Spec.C10
open Influx.Fields

def functional (s : Schema) : Bool := decide (s.map (·.1)).Nodup

/-- every recorded type of `a` is recorded in `b` -/
def subSchema (a b : Schema) : Bool := a.all (fun e => b.lookup e.1 == some e.2)
def sameSchema (a b : Schema) : Bool := subSchema a b && subSchema b a

def sameStore (a b : Store) : Bool :=
  a.all (fun e => b.lookup e.1 == some e.2) && b.all (fun e => a.lookup e.1 == some e.2)

/-- the point carries, for a field on record in `s`, another type -/
def conflictsWith (s : Schema) (p : Point) : Bool :=
  p.fields.any (fun f => f.name != timeName &&
    match s.lookup (p.meas, f.name) with
    | some t => t != f.ty
    | none => false)

/-- every value read back has the type on record for its field -/
def typedBy (s : Schema) (d : Store) : Bool :=
  d.all (fun e => s.lookup (e.1.1, e.1.2.2.1) == some e.2.1)

def hasMeas (s : Schema) (m : String) : Bool := s.any (fun e => e.1.1 == m)

/-- what the checker remembers between operations -/
structure Mem where
  /-- observed after the last operation -/
  cur : Seen := { sch := [], store := some [] }
  /-- measurements dropped (acknowledged) and not mentioned by a write since -/
  dropped : List String := []

/-- checks common to every observation -/
def seenFails (a : Seen) : Option String :=
  if !functional a.sch then some "schema-not-functional:" else
  match a.store with
  | none => some "read-failed:"
  | some d => if typedBy a.sch d then none else some "stored-type-differs:"

def restartName : Restart → String
  | .clean => "clean" | .kill => "kill" | .inSnapshot p => p

/-- a point of the batch carries field `k` with type `t` -/
def carries (batch : List Point) (k : FKey) (t : FType) : Bool :=
  batch.any (fun p => p.meas == k.1 && p.fields.any (fun f => f.name == k.2 && f.ty == t && f.name != timeName))

def storeOf (a : Seen) : Store := a.store.getD []

/-- all (non-`time`) field types of the batch are on record in `s` -/
def allOnRecord (s : Schema) (batch : List Point) : Bool :=
  batch.all (fun p => p.fields.all (fun f => f.name == timeName || s.lookup (p.meas, f.name) == some f.ty))

def hardErrorOf : WriteRes → Option String
  | .hardError e => some ("write-hard-error:" ++ e)
  | _ => none

def stepFails (M : Mem) : Step10 → Option String × Mem
  | .write batch res after =>
    let M' : Mem := { cur := after,
                      dropped := M.dropped.filter (fun m => !batch.any (fun p => p.meas == m)) }
    let nConf := batch.countP (conflictsWith M.cur.sch)
    let r :=
      match res with
      | .hardError e => some ("write-hard-error:" ++ e)
      | .ok => if nConf > 0 then some s!"conflict-not-rejected:conflicting={nConf}" else none
      | .partialWrite n _ =>
        if n < nConf then some s!"dropped-count-low:reported={n},conflicting={nConf}" else none
    let r := r.or (seenFails after)
    let r := r.or (if subSchema M.cur.sch after.sch then none else some "field-type-changed:")
    (r, M')
  | .drop m ok after =>
    if !ok then (some "drop-failed:", { M with cur := after }) else
    -- the schema of `m` counts as removed by this drop iff no field of `m` is on record now
    let removed := !hasMeas after.sch m
    let M' : Mem := { cur := after,
                      dropped := if removed then (if M.dropped.contains m then M.dropped else m :: M.dropped)
                                 else M.dropped.filter (· != m) }
    let r := seenFails after
    -- dropping a measurement that had data removes its field schema
    let r := r.or (if (storeOf M.cur).any (fun e => e.1.1 == m) && hasMeas after.sch m
                   then some "dropped-measurement-present:" else none)
    let r := r.or (if sameSchema (M.cur.sch.filter (fun e => e.1.1 != m)) (after.sch.filter (fun e => e.1.1 != m))
                   then none else some "drop-changed-others:")
    let r := r.or (if subSchema after.sch M.cur.sch then none else some "drop-invented-type:")
    (r, M')
  | .restart kind opened after =>
    let M' : Mem := { M with cur := after }
    if !opened then (some ("shard-does-not-open:" ++ restartName kind), M') else
    let r := seenFails after
    let r := r.or (if M.dropped.any (hasMeas after.sch) then some ("dropped-measurement-back:" ++ restartName kind) else none)
    let r := r.or (if sameSchema M.cur.sch after.sch then none else some ("restart-schema-changed:" ++ restartName kind))
    let r := r.or (if sameStore (storeOf M.cur) (storeOf after) then none else some ("restart-data-changed:" ++ restartName kind))
    (r, M')
  | .tornWrite batch opened after =>
    let dropped' := M.dropped.filter (fun m => !batch.any (fun p => p.meas == m))
    let M' : Mem := { cur := after, dropped := dropped' }
    if !opened then (some "shard-does-not-open:torn-write", M') else
    let r := seenFails after
    let r := r.or (if dropped'.any (hasMeas after.sch) then some "dropped-measurement-back:torn-write" else none)
    let r := r.or (if subSchema M.cur.sch after.sch then none else some "torn-restart-lost-type:write")
    let r := r.or (if after.sch.all (fun e => M.cur.sch.lookup e.1 == some e.2 || carries batch e.1 e.2) then none
                   else some "torn-restart-invented-type:write")
    let r := r.or (if sameStore (storeOf M.cur) (storeOf after) then none else some "restart-data-changed:torn-write")
    (r, M')
  | .tornDrop m opened after =>
    -- the drop may or may not have taken effect: `m` counts as dropped iff no field of it is left
    let dropped' := if hasMeas after.sch m then M.dropped.filter (· != m)
                    else if M.dropped.contains m then M.dropped else m :: M.dropped
    let M' : Mem := { cur := after, dropped := dropped' }
    if !opened then (some "shard-does-not-open:torn-drop", M') else
    let r := seenFails after
    let r := r.or (if (M.dropped.filter (· != m)).any (hasMeas after.sch) then some "dropped-measurement-back:torn-drop" else none)
    let r := r.or (if subSchema (M.cur.sch.filter (fun e => e.1.1 != m)) after.sch then none else some "torn-restart-lost-type:drop")
    let r := r.or (if subSchema after.sch M.cur.sch then none else some "torn-restart-invented-type:drop")
    let r := r.or (if sameStore ((storeOf M.cur).filter (fun e => e.1.1 != m)) (storeOf after) then none
                   else some "restart-data-changed:torn-drop")
    (r, M')
  | .race a b ra rb after =>
    let M' : Mem := { cur := after,
                      dropped := M.dropped.filter (fun m => !(a ++ b).any (fun p => p.meas == m)) }
    let r := (hardErrorOf ra).or (hardErrorOf rb)
    let r := r.or (seenFails after)
    let r := r.or (if subSchema M.cur.sch after.sch then none else some "field-type-changed:race")
    let r := r.or (if (ra == .ok && !allOnRecord after.sch a) || (rb == .ok && !allOnRecord after.sch b)
                   then some "race-ok-writer-not-on-record:" else none)
    (r, M')
  | .look after =>
    let r := seenFails after
    let r := r.or (if sameSchema M.cur.sch after.sch then none else some "look-changed-schema:")
    let r := r.or (if sameStore (storeOf M.cur) (storeOf after) then none else some "look-changed-data:")
    (r, { M with cur := after })

def firstFailure : Mem → List Step10 → Option String
  | _, [] => none
  | M, s :: rest =>
    match stepFails M s with
    | (some r, _) => some r
    | (none, M') => firstFailure M' rest

/-- **The statement**: the case (starting from an empty shard) has no failure. -/
def holdsOn (steps : List Step10) : Bool := (firstFailure {} steps).isNone

end Influx.Spec.C10
