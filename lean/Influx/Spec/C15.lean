/-
  Spec.C15 — the statement of C15, written from the property text and not from
  the code: "For any boolean tag expression built from =, !=, =~, !~, AND, OR
  and parentheses, the series the index selects for a measurement are exactly
  those whose tags satisfy the expression under InfluxQL semantics, where an
  absent tag compares as the empty string."

  The checker walks one case (operations with the answers observed), keeps the
  set of series put into the index set, and for every query whose expression is
  in the property's grammar compares the ids returned with the live series of
  the measurement that satisfy `sem`.

  Outside the grammar (not judged): tag-to-tag comparisons, references to
  fields, boolean/number literals, other operators, a regex on the left.
-/
import Influx.Proto
import Influx.Model.TagExprTypes

namespace Influx.Spec.C15
open Influx.Model.TagExpr

/-- the value a tag reads as: an absent tag is the empty string. -/
def tagVal (tags : List (String × String)) (k : String) : String :=
  match lookupTag tags k with
  | some v => v
  | none => ""

/-- what a reference denotes for a series: `_name` is the measurement name,
    anything else the tag of that name. -/
def refVal (name : String) (tags : List (String × String)) (k : String) : String :=
  if k = "_name" then name else tagVal tags k

/-- a reference that denotes a tag (or `_name`), not a field: typed `::tag`, or
    untyped and not a field of the measurement. -/
def isTagRef (hasField : String → Bool) (k : String) (t : VType) : Bool :=
  k = "_name" ∨ t = .tag ∨ (t = .unknown ∧ hasField k = false)

/-- the property's grammar. -/
def inGrammar (hasField : String → Bool) : Expr → Bool
  | .bin .and l r => inGrammar hasField l && inGrammar hasField r
  | .bin .or l r => inGrammar hasField l && inGrammar hasField r
  | .paren e => inGrammar hasField e
  | .bin .eq (.ref k t) (.str _) => isTagRef hasField k t
  | .bin .neq (.ref k t) (.str _) => isTagRef hasField k t
  | .bin .eq (.str _) (.ref k t) => isTagRef hasField k t
  | .bin .neq (.str _) (.ref k t) => isTagRef hasField k t
  | .bin .eqregex (.ref k t) (.regex _) => isTagRef hasField k t
  | .bin .neqregex (.ref k t) (.regex _) => isTagRef hasField k t
  | _ => false

/-- InfluxQL semantics of a tag expression on one series. -/
def sem (name : String) (tags : List (String × String)) : Expr → Bool
  | .bin .and l r => sem name tags l && sem name tags r
  | .bin .or l r => sem name tags l || sem name tags r
  | .paren e => sem name tags e
  | .bin .eq (.ref k _) (.str v) => refVal name tags k == v
  | .bin .neq (.ref k _) (.str v) => refVal name tags k != v
  | .bin .eq (.str v) (.ref k _) => v == refVal name tags k
  | .bin .neq (.str v) (.ref k _) => v != refVal name tags k
  | .bin .eqregex (.ref k _) (.regex re) => re (refVal name tags k)
  | .bin .neqregex (.ref k _) (.regex re) => !re (refVal name tags k)
  | _ => false

/-- what the checker knows after a prefix of the case. -/
structure World where
  series : List Series := []
  deleted : List Nat := []
  fields : List (String × String) := []

/-- ids of the live series of `name` that satisfy `e`. -/
def expected (w : World) (name : String) (e : Expr) : List Nat :=
  (w.series.filter (fun s => s.name = name ∧ !w.deleted.contains s.id ∧ sem name s.tags e)).map (·.id)

/-- one query: judged only inside the grammar; then the ids returned must be
    exactly the expected ones (as sets). -/
def checkQuery (w : World) (name : String) (e : Expr) (o : Obs) : Bool :=
  if inGrammar (fun f => w.fields.contains (name, f)) e then
    match o with
    | .ids l => l.all (fun i => (expected w name e).contains i) && (expected w name e).all (fun i => l.contains i)
    | _ => false
  else true

def advance (w : World) : Op × Obs → World
  | (.addSeries _ s, .ok) => { w with series := s :: w.series }
  | (.delSeries id, .ok) => { w with deleted := id :: w.deleted }
  | (.addField n f, .ok) => { w with fields := (n, f) :: w.fields }
  | _ => w

def checkOne (w : World) : Op × Obs → Bool
  | (.query name e, o) => checkQuery w name e o
  | _ => true

/-- the statement on one case. -/
def holdsFrom : World → List (Op × Obs) → Bool
  | _, [] => true
  | w, x :: rest => checkOne w x && holdsFrom (advance w x) rest

def holdsOn (tr : List (Op × Obs)) : Bool := holdsFrom {} tr

end Influx.Spec.C15
