/-
  Spec.C05 — the statement of C05, written from the property text and not from
  the planner's algorithm:

    "For any set of TSM generations and any set of files already held by running
     compactions, every compaction group the planner hands out is disjoint from
     all other held groups and consists of generations that are contiguous in
     generation order."

  One case = the list of (operation, observed answer) pairs of one planner.
  The checker keeps only what the statement talks about:
    * the file store (path ↦ generation) as the environment last set it, and as
      it was when the client last listed the generations (the argument of the
      planning calls);
    * the groups handed out so far and which of them are still held.
  It never groups, levels, sorts or sizes anything.
-/
import Influx.Proto
import Influx.Model.Planner

namespace Influx.Spec.C05
open Influx.Planner (Op Obs File)

structure St where
  /-- the file store now: path ↦ generation -/
  store : List (String × Int) := []
  /-- the file store when the client last called `FindGenerations` -/
  atFind : List (String × Int) := []
  /-- groups handed out, with "still held" -/
  handed : List (List String × Bool) := []
  /-- `ForceFull` was called and no `Plan` has consumed it yet -/
  forcePending : Bool := false
  /-- the planner has a positive cold duration -/
  durPos : Bool := true

/-- the groups currently held by running compactions -/
def heldOf (handed : List (List String × Bool)) : List (List String) :=
  (handed.filter (·.2)).map (·.1)

/-- *Disjoint*: no file occurs twice among the held groups and the new groups
    (so the new groups are disjoint from every held group and from each other,
    and none lists a file twice). -/
def disjointOK (held new : List (List String)) : Bool :=
  decide ((held.flatten ++ new.flatten).Nodup)

def genOf (m : List (String × Int)) (p : String) : Option Int := m.lookup p

/-- *Contiguous in generation order*: every file of the group is a file of the
    store, and every generation of the store that lies between two generations
    of the group is itself a generation of the group. -/
def contiguousIn (m : List (String × Int)) (g : List String) : Bool :=
  g.all fun pa => g.all fun pb =>
    match genOf m pa, genOf m pb with
    | some a, some b =>
      m.all fun e => !(decide (a ≤ e.2) && decide (e.2 ≤ b)) || g.any fun p => genOf m p == some e.2
    | _, _ => false

inductive Fail where
  /-- a handed-out group shares a file with a held group / another new group -/
  | doubleBooked (opIndex : Nat)
  /-- a handed-out group is not contiguous; `full` = the call was a `Plan` on the
      full-compaction path (ForceFull pending, or a cold shard) -/
  | noncontiguous (opIndex : Nat) (full : Bool)
  /-- the answer is not an answer to this operation -/
  | badAnswer (opIndex : Nat)
deriving Repr, DecidableEq

def Fail.isFullNoncontiguous : Fail → Bool
  | .noncontiguous _ true => true
  | _ => false

/-- judge the groups returned by one planning call -/
def judge (st : St) (i : Nat) (full : Bool) (groups : List (List String)) : St × List Fail :=
  let f1 := if disjointOK (heldOf st.handed) groups then [] else [Fail.doubleBooked i]
  let f2 := if groups.all (contiguousIn st.atFind) then [] else [Fail.noncontiguous i full]
  ({ st with handed := st.handed ++ groups.map (·, true) }, f1 ++ f2)

def stepSt (st : St) (i : Nat) : Op × Obs → St × List Fail
  | (.new d, .ok) => ({ durPos := d }, [])
  | (.setfs _ files, .ok) => ({ st with store := files.map fun f => (f.path, f.gen) }, [])
  | (.setfs _ _, .rejected) => (st, [])
  | (.add f, .ok) => ({ st with store := st.store ++ [(f.path, f.gen)] }, [])
  | (.add _, .rejected) => (st, [])
  | (.find, .gens _) => ({ st with atFind := st.store }, [])
  | (.force, .ok) => ({ st with forcePending := true }, [])
  | (.plan cold, .plan groups _ _) =>
    judge { st with forcePending := false } i (st.forcePending || (st.durPos && cold)) groups
  | (.level _, .plan groups _ _) => judge st i false groups
  | (.opt _, .plan groups _ _) => judge st i false groups
  | (.fully, .fully _ _) => (st, [])
  | (.inuse, .inuse _) => (st, [])
  | (.release k, .released) =>
    match st.handed[k]? with
    | some (g, _) => ({ st with handed := st.handed.set k (g, false) }, [])
    | none => (st, [Fail.badAnswer i])
  | (.release _, .notHeld) => (st, [])
  | (.done k _ _, .done path gen _) =>
    match st.handed[k]? with
    | some (g, _) =>
      ({ st with handed := st.handed.set k (g, false),
                 store := st.store.filter (fun e => !g.contains e.1) ++ [(path, gen)] }, [])
    | none => (st, [Fail.badAnswer i])
  | (.done _ _ _, .notHeld) => (st, [])
  | (.done _ _ _, .rejected) => (st, [])
  | _ => (st, [Fail.badAnswer i])

def checkFrom (st : St) (i : Nat) : List (Op × Obs) → List Fail
  | [] => []
  | x :: rest => let (st', fs) := stepSt st i x; fs ++ checkFrom st' (i + 1) rest

/-- every failure of the statement on one case -/
def check (tr : List (Op × Obs)) : List Fail := checkFrom {} 0 tr

/-- **the statement** on one case -/
def holdsOn (tr : List (Op × Obs)) : Bool := (check tr).isEmpty

/-- the statement with the contiguity clause waived for `Plan` calls on the
    full-compaction path (what is provable of the code, see `Props.C05`) -/
def holdsOnExceptFull (tr : List (Op × Obs)) : Bool := (check tr).all Fail.isFullNoncontiguous

end Influx.Spec.C05
