/-
  Spec.C38 — the statement of C38, written from the property text:

    "Backing up a shard and restoring the archive into an empty shard yields the
     same readable points and series; an incremental backup taken since time t
     contains every file changed after t; an export of a time range contains
     exactly the points in that range."

  It is an executable check over ONE case = the list of (operation, observed
  answer) pairs, and uses only the observations (never the model's algorithms):
  the dump of the source shard taken with the backup/export, the names in the
  archive, the listing of the shard directory with modification times, the
  block listing, and the dump of the shard the archive was restored/imported into.

  Only the types of the observations are shared with the model.
-/
import Influx.Model.Backup

namespace Influx.Spec.C38
open Influx.Backup

/-- Failure signatures.  The first four are how the unchanged code is known to
    break the statement (findings.d/C38.json); any other one is a violation. -/
inductive Sig
  | restoreLostTombstone     -- restored ≠ source, and the backed-up shard had a tombstone file
  | exportExtraPoints        -- an exported point lies outside the range (or is not a current source point)
  | exportErrorTombstone     -- Export failed and the shard had a tombstone file
  | exportErrorGap           -- Export failed: a file overlaps the range but none of its blocks does
  | restoreDiffers           -- restored ≠ source without any tombstone file
  | incrementalMissingFile   -- a file changed after `since` is not in the archive
  | chainRestoreDiffers      -- full + incremental restore ≠ source although nothing older was needed
  | exportMissingPoint       -- a source point inside the range is not in the export
  | exportOutsideBlocks      -- an exported point belongs to no source block that overlaps the range
  | exportErrorOther         -- Export failed for no known reason
  | bigRestoreDiffers        -- many-keys case: the restored shard reads / types its keys differently
  | badObservation           -- an answer that is no observation of its operation
deriving Repr, DecidableEq

def Sig.known : Sig → Bool
  | .restoreLostTombstone | .exportExtraPoints | .exportErrorTombstone | .exportErrorGap => true
  | _ => false

def Sig.name : Sig → String
  | .restoreLostTombstone => "restore-lost-tombstone"
  | .exportExtraPoints => "export-extra-points"
  | .exportErrorTombstone => "export-error-tombstone"
  | .exportErrorGap => "export-error-gap"
  | .restoreDiffers => "restore-differs"
  | .incrementalMissingFile => "incremental-missing-file"
  | .chainRestoreDiffers => "chain-restore-differs"
  | .exportMissingPoint => "export-missing-point"
  | .exportOutsideBlocks => "export-outside-blocks"
  | .exportErrorOther => "export-error-other"
  | .bigRestoreDiffers => "big-restore-differs"
  | .badObservation => "bad-observation"

/-- "changed after t": modification time strictly later than `since`
    (`none` = no lower bound, a full backup) -/
def changedAfter (m : MTime) (since : Option Int) : Bool :=
  match since, m with
  | none, _ => true
  | some _, .fresh => true
  | some t, .at s => decide (s > t)

/-- how a recorded archive was made -/
inductive Made
  | backup (since : Option Int)
  | export (a e : TS)
deriving Repr, DecidableEq

/-- what the case has observed about one archive id -/
structure Rec where
  id : String
  made : Made
  arch : List FName
  files : List (FName × MTime)
  blocks : List (FName × Key × TS × TS)
  d : Dump
deriving Repr

def hasTombstone (files : List (FName × MTime)) : Bool := files.any (fun f => f.1.tomb)

def dumpHas (d : Dump) (k : Key) (t : TS) (v : Val) : Bool :=
  d.pts.any (fun e => e.1 == k && e.2.contains (t, v))

def dumpFlat (d : Dump) : List (Key × TS × Val) :=
  d.pts.flatMap (fun e => e.2.map (fun p => (e.1, p.1, p.2)))

/-- same series: the restored shard lists no series the source did not list, and
    lists every series of which the source had a readable point.  (A source may
    list a series that has no readable point left — an index entry that a
    compaction made stale; such an entry need not, and cannot, come back.) -/
def sameSeries (src tgt : Dump) : Bool :=
  tgt.series.all (fun k => src.series.contains k) && src.pts.all (fun e => tgt.series.contains e.1)

/-- same readable points and series -/
def sameContent (src tgt : Dump) : Bool := src.pts == tgt.pts && sameSeries src tgt

/-- incremental clause: every listed file changed after `since` is in the archive -/
def incrementalOK (since : Option Int) (arch : List FName) (files : List (FName × MTime)) : Bool :=
  files.all (fun f => !changedAfter f.2 since || arch.contains f.1)

/-- true interval overlap -/
def overlaps (lo hi a e : TS) : Bool := decide (lo ≤ e) && decide (hi ≥ a)

/-- every source point inside [a,e] is in the imported export -/
def exportLower (a e : TS) (src tgt : Dump) : Bool :=
  (dumpFlat src).all (fun p => !(decide (a ≤ p.2.1) && decide (p.2.1 ≤ e)) || dumpHas tgt p.1 p.2.1 p.2.2)

/-- every imported point lies in a source block (of its key) that overlaps [a,e] -/
def exportWithinBlocks (a e : TS) (blocks : List (FName × Key × TS × TS)) (tgt : Dump) : Bool :=
  (dumpFlat tgt).all (fun p => blocks.any (fun b =>
    b.2.1 == p.1 && decide (b.2.2.1 ≤ p.2.1) && decide (p.2.1 ≤ b.2.2.2) && overlaps b.2.2.1 b.2.2.2 a e))

/-- "exactly the points in that range": every imported point is a current source
    point inside [a,e] -/
def exportExact (a e : TS) (src tgt : Dump) : Bool :=
  (dumpFlat tgt).all (fun p => decide (a ≤ p.2.1) && decide (p.2.1 ≤ e) && dumpHas src p.1 p.2.1 p.2.2)

def minOf (x : TS) (l : List TS) : TS := l.foldl min x
def maxOf (x : TS) (l : List TS) : TS := l.foldl max x

/-- a file (by its block listing) overlaps [a,e] although none of its blocks does -/
def gapFile (a e : TS) (blocks : List (FName × Key × TS × TS)) : Bool :=
  blocks.any (fun b =>
    let mine := blocks.filter (fun c => c.1 == b.1)
    overlaps (minOf b.2.2.1 (mine.map (·.2.2.1))) (maxOf b.2.2.2 (mine.map (·.2.2.2))) a e &&
      mine.all (fun c => !overlaps c.2.2.1 c.2.2.2 a e))

/-- "nothing older is needed given a previous backup": from the two listings,
    every file of the second backup's shard is in the incremental archive, or was
    in the full archive and has not been touched since; no file of the first has
    disappeared; no tombstone file anywhere. -/
def chainApplies (full incr : Rec) : Bool :=
  !hasTombstone full.files && !hasTombstone incr.files &&
  incr.files.all (fun f => incr.arch.contains f.1 ||
    (full.arch.contains f.1 && full.files.contains f)) &&
  full.arch.all (fun n => incr.files.any (fun f => f.1 == n))

def findRec (recs : List Rec) (id : String) : Option Rec := recs.find? (fun r => r.id == id)

/-- judge one (operation, observation) pair; returns the failures and the updated records -/
def judge (recs : List Rec) : Op → Obs → List Sig × List Rec
  | .backup id since, .snapshot arch files blocks d =>
    ((if incrementalOK since arch files then [] else [.incrementalMissingFile]),
     { id := id, made := .backup since, arch := arch, files := files, blocks := blocks, d := d } :: recs)
  | .export id a e, .snapshot arch files blocks d =>
    ([], { id := id, made := .export a e, arch := arch, files := files, blocks := blocks, d := d } :: recs)
  | .export _ a e, .exportErr _ files blocks =>
    ([if hasTombstone files then .exportErrorTombstone
      else if gapFile a e blocks then .exportErrorGap else .exportErrorOther], recs)
  | .restore [id], .target _ d =>
    match findRec recs id with
    | some r =>
      match r.made with
      | .backup none =>
        ((if sameContent r.d d then [] else
          [if hasTombstone r.files then .restoreLostTombstone else .restoreDiffers]), recs)
      | _ => ([], recs)
    | none => ([.badObservation], recs)
  | .importA [id], .target _ d =>
    match findRec recs id with
    | some r =>
      match r.made with
      | .backup none =>
        ((if sameContent r.d d then [] else
          [if hasTombstone r.files then .restoreLostTombstone else .restoreDiffers]), recs)
      | .backup (some _) => ([], recs)
      | .export a e =>
        ((if exportLower a e r.d d then [] else [.exportMissingPoint]) ++
         (if exportWithinBlocks a e r.blocks d then [] else [.exportOutsideBlocks]) ++
         (if exportExact a e r.d d then [] else [.exportExtraPoints]), recs)
    | none => ([.badObservation], recs)
  -- a restore / import that names an archive the case never made
  | .restore _, .noArchive => ([], recs)
  | .importA _, .noArchive => ([], recs)
  | .restore _, .target _ _ => ([], recs)
  | .importA _, .target _ _ => ([], recs)
  | .restore _, .badOp => ([], recs)
  | .export .., .badOp => ([], recs)
  | .write .., .ok => ([], recs)
  | .write .., .badOp => ([], recs)
  | .delete .., .ok => ([], recs)
  | .delete .., .badOp => ([], recs)
  | .snap, .ok => ([], recs)
  | .compact, .ok => ([], recs)
  | .age _, .ok => ([], recs)
  | .age _, .badOp => ([], recs)
  | .dump, .dumped _ => ([], recs)
  | .bigcase .., .big src dst => ((if src == dst then [] else [.bigRestoreDiffers]), recs)
  | .bigcase .., .badOp => ([], recs)
  | _, _ => ([.badObservation], recs)

/-- the chain check (full + incremental restore), a corollary clause that is not
    part of the property's text: judged separately -/
def judgeChain (recs : List Rec) : Op → Obs → List Sig
  | .restore [i1, i2], .target _ d =>
    match findRec recs i1, findRec recs i2 with
    | some r1, some r2 =>
      match r1.made, r2.made with
      | .backup none, .backup (some _) =>
        if sameContent r2.d d then [] else
        if hasTombstone r1.files || hasTombstone r2.files then [.restoreLostTombstone]
        else if chainApplies r1 r2 then [.chainRestoreDiffers] else []
      | _, _ => []
    | _, _ => []
  | _, _ => []

def chainFailuresFrom (recs : List Rec) : List (Op × Obs) → List Sig
  | [] => []
  | (op, o) :: rest => judgeChain recs op o ++ chainFailuresFrom (judge recs op o).2 rest

def chainFailures (c : List (Op × Obs)) : List Sig := chainFailuresFrom [] c

/-- all failures of a case, in order -/
def failuresFrom (recs : List Rec) : List (Op × Obs) → List Sig
  | [] => []
  | (op, o) :: rest =>
    let (fs, recs') := judge recs op o
    fs ++ failuresFrom recs' rest

def failures (c : List (Op × Obs)) : List Sig := failuresFrom [] c

/-- the property statement on one case -/
def holdsOn (c : List (Op × Obs)) : Bool := (failures c).isEmpty

/-- the statement weakened by exactly the known findings -/
def holdsModuloKnown (c : List (Op × Obs)) : Bool := (failures c).all Sig.known

end Influx.Spec.C38
