/-
  Spec.C33 — the statement of C33, written from the property text:

  "/ready answers 200 exactly when every registered readiness gate has been
   signaled ready and not since un-signaled, and otherwise 503 listing exactly
   the gates that are not ready; /health answers 200 exactly when every health
   check passes, otherwise 503 with the first failing check's message. These
   hold under concurrent registration, signaling and requests."

  Sequential part: the checker replays the registration / signalling ops on the
  list of registered checkers (what each currently answers) and compares each
  /ready and /health answer with the aggregate of that list.  For checks
  whose status is neither "pass" nor "fail" (the Status type is a string) the
  text — and HEALTH_READY.md: "any single fail makes the aggregate fail" — fixes
  only: all pass ⇒ 200, any fail ⇒ 503.

  Concurrent part: a history of operations with invocation / response stamps
  from one global counter; each /ready answer must be explainable by reading
  every gate at some instant inside the request's interval, over the set of
  gates registered at some instant inside it.
-/
import Influx.Model.Check

namespace Influx.Spec.C33
open Influx.CheckM

/-! ### sequential -/

structure ReadyObs where
  code : Nat
  checks : List Res

structure HealthObs where
  code : Nat
  message : String
  checks : List Res

def allPass (rs : List Res) : Bool := rs.all (·.status == pass)
def anyFail (rs : List Res) : Bool := rs.any (·.status == fail)

/-- /ready: 200 when every gate is ready, 503 listing exactly the not-ready ones otherwise -/
def readyOK (rs : List Res) (o : ReadyObs) : Bool :=
  (!allPass rs || (o.code == 200 && o.checks.isEmpty)) &&
  (!anyFail rs || (o.code == 503 && o.checks.isPerm (rs.filter (·.status == fail))))

/-- the message of the first failing check in the reported order ("fail" when it has none) -/
def firstFailing : List Res → Option String
  | [] => none
  | r :: rs => if r.status == fail then some (if r.msg == "" then "fail" else r.msg) else firstFailing rs

/-- /health: 200 when every check passes, 503 with the first failing check's message otherwise;
    always reports exactly the registered checks with their current answers -/
def healthOK (rs : List Res) (o : HealthObs) : Bool :=
  o.checks.isPerm rs &&
  (!allPass rs || o.code == 200) &&
  (!anyFail rs || (o.code == 503 && firstFailing o.checks == some o.message))

inductive Obs where
  | ready (o : ReadyObs)
  | health (o : HealthObs)
  | names (ns : List String)
  /-- `Finish(err)` racing with requests: the answers to the /ready requests issued
      while the call was in flight, and the answer to the one issued after it returned -/
  | race (mids : List ReadyObs) (after : ReadyObs)
  | other

/-- what the registered checks currently answer, in registration order -/
def answers (cs : List Cell) : List Res := cs.map (·.res)

/-- the statement on one sequential case: ops paired with what was observed.
    The registered checkers and what each currently answers are tracked by
    replaying the ops (`St.apply`: registration appends, a gate flips between
    pass and fail "not ready", a fixed answer is replaced); every /ready and
    /health answer is judged against that. -/
def holdsOn : St → List (Op × Obs) → Bool
  | _, [] => true
  | s, (op, ob) :: rest =>
    (match op, ob with
     | .ready, .ready o => readyOK (answers s.ready) o
     | .health, .health o => healthOK (answers s.health) o
     | .names, .names ns => ns == (answers s.ready).map (·.name)
     -- a request that overlaps `Finish(err)` may see the startup gate as it was before or
     -- as it is after the call — a gate that was not ready before stays not ready
     -- throughout (both states fail), so no 200 may slip through; after the call: the new state
     | .finishRace _ _ _, .race mids after =>
       let s' := (s.apply op).getD s
       mids.all (fun o => readyOK (answers s.ready) o || readyOK (answers s'.ready) o) &&
       readyOK (answers s'.ready) after
     | .ready, _ | .health, _ | .names, _ | .finishRace _ _ _, _ => false
     | _, _ => true) && holdsOn ((s.apply op).getD s) rest

/-! ### concurrent histories -/

inductive HKind where
  | reg (name : String)
  | sig (name : String) (ready : Bool)
  | ready
deriving Repr, DecidableEq

/-- one completed operation of a history; `inv < res` are stamps of one global counter -/
structure HOp where
  kind : HKind
  inv : Nat
  res : Nat
  code : Nat := 0
  failing : List String := []
deriving Repr

/-- a write to a gate's flag: interval and value -/
structure W where
  inv : Nat
  res : Nat
  val : Bool

/-- the writes to gate `g`: its initial value (stamp 0) or its registration (value false), and its signals -/
def writesOf (init : List (String × Bool)) (h : List HOp) (g : String) : List W :=
  (init.filter (·.1 == g)).map (fun p => ⟨0, 0, p.2⟩) ++
  h.filterMap fun o =>
    match o.kind with
    | .reg n => if n == g then some ⟨o.inv, o.res, false⟩ else none
    | .sig n b => if n == g then some ⟨o.inv, o.res, b⟩ else none
    | .ready => none

/-- the interval in which `g` got registered -/
def regOf (init : List (String × Bool)) (h : List HOp) (g : String) : Option (Nat × Nat) :=
  if init.any (·.1 == g) then some (0, 0) else
  (h.find? fun o => o.kind == .reg g).map fun o => (o.inv, o.res)

/-- the latest start among the writes that were over before `rinv`: a write that
    finished before this instant was overwritten for sure before `rinv` -/
def lastDone (ws : List W) (rinv : Nat) : Nat :=
  ws.foldl (fun m w => if w.res < rinv then max m w.inv else m) 0

/-- value `v` is the gate's value at some instant inside [rinv, rres]: some write of
    `v` began before the interval ended and is not overwritten for sure before it began
    (no other write started after it finished and was itself over before `rinv`) -/
def mayBe (ws : List W) (rinv rres : Nat) (v : Bool) : Bool :=
  let m := lastDone ws rinv
  ws.any fun w => w.val == v && decide (w.inv < rres) && !(decide (w.res < m))

def strictlySorted : List String → Bool
  | a :: b :: rest => decide (a < b) && strictlySorted (b :: rest)
  | _ => true

def gateNames (init : List (String × Bool)) (h : List HOp) : List String :=
  init.map (·.1) ++ h.filterMap fun o => match o.kind with | .reg n => some n | _ => none

/-- one /ready answer against the history -/
def readyOpOK (init : List (String × Bool)) (h : List HOp) (r : HOp) : Bool :=
  ((r.code == 200 && r.failing.isEmpty) || (r.code == 503 && !r.failing.isEmpty)) &&
  strictlySorted r.failing &&
  r.failing.all (fun g => (gateNames init h).contains g) &&
  (gateNames init h).all fun g =>
    match regOf init h g with
    | none => true
    | some (ri, rr) =>
      let ws := writesOf init h g
      if r.failing.contains g then !(decide (r.res < ri)) && mayBe ws r.inv r.res false
      else !(decide (rr < r.inv)) || mayBe ws r.inv r.res true

/-- the statement on a concurrent history (gate names distinct) -/
def holdsOnConc (init : List (String × Bool)) (h : List HOp) : Bool :=
  h.all fun r => match r.kind with
    | .ready => readyOpOK init h r
    | _ => true

end Influx.Spec.C33
