/-
  Spec.C31 — the statement of C31, written from the property text:

    "Every valid ID encodes to a 16-character lowercase hex string that decodes
     back to the same ID, and every other string is rejected.  IDs handed out by
     the ID generators are non-zero and pairwise distinct, including under
     concurrent use."

  A valid ID is a non-zero 64-bit value (`ID.Valid`).  The statement is
  implementation-relative — "the encoding" is whatever `Encode` returns — so the
  checker needs no reference encoder:

  * `rt`  : `Encode(i)` of a valid `i` must succeed with 16 characters from
            `0-9a-f`, and `Decode` of exactly that output must give back `i`;
  * `dec` : a string that `Decode` accepts (as ID `i`) must be *the* encoding of
            `i` (`Encode(i)` = that string) and `i` must be valid — otherwise it is
            one of the "other strings" and should have been rejected;
  * `ids` : the IDs handed out by one generator are all non-zero and pairwise distinct.
-/
import Influx.Proto

namespace Influx.Spec.C31

/-- `0-9a-f` -/
def lowerHexChar (c : UInt8) : Bool :=
  (48 ≤ c.toNat && c.toNat ≤ 57) || (97 ≤ c.toNat && c.toNat ≤ 102)

/-- ASCII lower-casing, used only to *classify* a failure (which signature it gets). -/
def lowerChar (c : UInt8) : UInt8 := if 65 ≤ c.toNat ∧ c.toNat ≤ 90 then c + 32 else c

inductive Obs where
  /-- `Encode(i)` (`none` = error) and, if it succeeded, `Decode` of its output (`none` = error) -/
  | rt (i : Nat) (enc : Option (List UInt8)) (dec : Option Nat)
  /-- `Decode(s)` (`none` = rejected) and, if accepted as `i`, `Encode(i)` (`none` = error) -/
  | dec (s : List UInt8) (res : Option Nat) (reenc : Option (List UInt8))
  /-- every ID handed out by one generator so far -/
  | ids (vals : List Nat)
deriving Repr

def validID (i : Nat) : Bool := i ≠ 0 && i < 2 ^ 64

/-- adjacent elements strictly increase -/
def strictAsc : List Nat → Bool
  | [] => true
  | [_] => true
  | a :: b :: r => a < b && strictAsc (b :: r)

/-- "pairwise distinct", decided in O(n log n): sort, then no two neighbours are equal.
    (`Influx.Lemmas.IDSpec.distinctB_iff` proves `distinctB l = true ↔ l.Nodup`.) -/
def distinctB (l : List Nat) : Bool := strictAsc (l.mergeSort (fun a b => decide (a ≤ b)))

inductive Fail where
  | encodeRejectsValid | notSixteenLowerHex | roundTripLost
  | uppercaseHexAccepted | nonEncodingAccepted | invalidIDDecoded
  | zeroID | duplicateID
deriving Repr, DecidableEq

/-- the statement on one observation; `none` = holds. -/
def check : Obs → Option Fail
  | .rt i enc dec =>
    if !validID i then none
    else match enc with
      | none => some .encodeRejectsValid
      | some s =>
        if !(s.length == 16 && s.all lowerHexChar) then some .notSixteenLowerHex
        else if dec != some i then some .roundTripLost
        else none
  | .dec s res reenc =>
    match res with
    | none => none
    | some i =>
      if !validID i then some .invalidIDDecoded
      else if reenc == some s then none
      else if reenc == some (s.map lowerChar) then some .uppercaseHexAccepted
      else some .nonEncodingAccepted
  | .ids vals =>
    if vals.any (· == 0) then some .zeroID
    else if distinctB vals then none
    else some .duplicateID

def holdsOn (o : Obs) : Bool := (check o).isNone

def Fail.signature : Fail → String
  | .encodeRejectsValid => "encode-rejects-valid-id"
  | .notSixteenLowerHex => "encoding-not-16-lowercase-hex"
  | .roundTripLost => "encode-decode-roundtrip-lost"
  | .uppercaseHexAccepted => "uppercase-hex-accepted"
  | .nonEncodingAccepted => "non-encoding-accepted"
  | .invalidIDDecoded => "invalid-id-decoded"
  | .zeroID => "generator-returned-zero"
  | .duplicateID => "generator-duplicate-id"

end Influx.Spec.C31
