/-
  Spec.C24 — the statement of C24, written from the property text:

    "For any set of scheduled tasks (cron or every, with offsets) and any clock
     progression, each task's executor is invoked once for every scheduled time
     that has come due since its last scheduled time, in increasing order and
     never concurrently with itself; after Release returns no new run of that
     task starts. The scheduler reports the earliest pending due time and does
     not spin while nothing is due."

  One case is a history of operations on one scheduler (Schedule / Release /
  clock advance / the environment holding or releasing an executor), each with
  what was observed once the scheduler had gone quiescent: the executor calls
  that STARTED during the operation (per task in call order), `When()`, and two
  flags raised by the executor itself (overlapping calls of one task, a
  checkpoint that does not follow its run).

  The checker keeps, per scheduled task, the cron, the offset and the last
  scheduled time, and demands

    order/once   every started run of a task is for exactly the cron's next time
                 after the task's last scheduled time (no skip, no duplicate, increasing),
                 with runAt = scheduledFor + offset, and not before it is due;
    release      a task that was released (or never scheduled) starts no run;
    exclusive    no run of a task starts while an earlier run of it is still executing;
    complete     at quiescence every task whose worker is not held by the environment
                 has no due time left (its next time + offset is in the future);
    when         at quiescence, if no worker is held: When() is in the future and not
                 later than the earliest pending due time (zero/future if nothing is scheduled);
    no-spin      (real-clock operation) between A's and B's time the loop iterates a bounded
                 number of times, When() reports B's time, the pulse check passes, B runs once.

  The worker of a task is `hash id % nworkers` (shared leaf definition `xxhash64ofID`).
-/
import Influx.Proto
import Influx.Model.Sched

namespace Influx.Spec.C24
open Influx.Model.Sched

inductive Op
  | new (n : Nat)
  | sched (id : Nat) (isEvery : Bool) (p : Nat) (offset : Int) (last : Nat)
  | rel (id : Nat)
  | adv (d : Nat)
  | block (id : Nat)
  | unblock (id : Nat)
  | spin (resched : Bool) (a b : Nat)
deriving DecidableEq, Repr

inductive Res
  | ok
  | okAligned (last : Nat)     -- Schedule accepted; the LastScheduled that was passed (after NewSchedule's alignment)
  | err
deriving DecidableEq, Repr

structure SpinObs where
  spin : Bool
  when_ : String       -- B | A | zero | other
  pulse : Bool
  runsA : Nat
  runsB : Nat
deriving DecidableEq, Repr

structure Obs where
  res : Res
  runs : List Run
  when_ : Option Int
  conc : Bool
  ckBad : Bool
deriving DecidableEq, Repr

inductive Ans
  | logic (o : Obs)
  | spin (o : SpinObs)
deriving DecidableEq, Repr

def cronOf (isEvery : Bool) (p : Nat) : Cron := if isEvery then cronEvery p else cronSec p

/-- what the checker knows about one scheduled task -/
structure Entry where
  id : Nat
  cron : Cron
  offset : Int
  last : Nat          -- last scheduled time (seconds): LastScheduled, then the latest run

structure St where
  n : Nat := 0
  now : Int := 0
  entries : List Entry := []
  blocked : List Nat := []      -- executors the environment holds
  running : List Nat := []      -- ids with a held execution in flight

def findEntry (id : Nat) (es : List Entry) : Option Entry := es.find? (fun e => e.id == id)
def dropEntry (id : Nat) (es : List Entry) : List Entry := es.filter (fun e => e.id ≠ id)
def setEntry (e : Entry) (es : List Entry) : List Entry := e :: dropEntry e.id es

/-- the pending due time of an entry (ms), if its cron has a next time -/
def Entry.due (e : Entry) : Option Int := (e.cron e.last).map fun n => 1000 * (n : Int) + e.offset

/-- check one run that started: it must be the next one of its task -/
def checkRun (st : St) (r : Run) : Except String St :=
  match findEntry r.id st.entries with
  | none => .error s!"run-after-release:id={r.id}"
  | some e =>
    match e.cron e.last with
    | none => .error s!"run-beyond-schedule:id={r.id}"
    | some n =>
      if r.sf ≠ n then
        (if r.sf ≤ e.last then .error s!"run-duplicate-or-reordered:id={r.id}"
         else if r.sf < n then .error s!"run-off-schedule:id={r.id}"
         else .error s!"run-skipped:id={r.id}")
      else if r.runAt ≠ 1000 * (r.sf : Int) + e.offset then .error s!"wrong-runat:id={r.id}"
      else if r.runAt > st.now then .error s!"run-early:id={r.id}"
      else if st.running.contains r.id then .error s!"concurrent-runs:id={r.id}"
      else
        .ok { st with entries := setEntry { e with last := r.sf } st.entries,
                      running := if st.blocked.contains r.id then r.id :: st.running else st.running }

/-- check the runs that started during one operation, in order -/
def checkRuns : St → List Run → Except String St
  | st, [] => .ok st
  | st, r :: rest =>
    match checkRun st r with
    | .error e => .error e
    | .ok st' => checkRuns st' rest

def wk (st : St) (id : Nat) : Nat := xxhash64ofID id % st.n

/-- at quiescence -/
def checkQuiescent (st : St) (when_ : Option Int) : Except String Unit :=
  let held := st.running.map (wk st)
  match st.entries.find? (fun e => !held.contains (wk st e.id) &&
      (match e.due with | some d => d ≤ st.now | none => false)) with
  | some e => .error s!"due-run-not-dispatched:id={e.id}"
  | none =>
    if !st.running.isEmpty then .ok ()
    else
      let dues := st.entries.filterMap Entry.due
      match when_ with
      | none => if dues.isEmpty then .ok () else .error "when-zero-but-pending:"
      | some w =>
        if w ≤ st.now then .error "when-stale:"
        else if dues.any (fun d => d < w) then .error "when-after-earliest-pending:"
        else .ok ()

def applyOp (st : St) (op : Op) (res : Res) : Except String St :=
  match op, res with
  | .new n, .ok => .ok { st with n := n }
  | .sched id isEvery p off _, .okAligned last' =>
    .ok { st with entries := setEntry { id := id, cron := cronOf isEvery p, offset := off, last := last' } st.entries }
  | .sched _ _ _ _ _, .err => .ok st
  | .rel id, .ok => .ok { st with entries := dropEntry id st.entries }
  | .adv d, .ok => .ok { st with now := st.now + d }
  | .block id, .ok => .ok { st with blocked := if st.blocked.contains id then st.blocked else id :: st.blocked }
  | .unblock id, .ok =>
    .ok { st with blocked := st.blocked.filter (· ≠ id), running := st.running.filter (· ≠ id) }
  | _, _ => .error "result-impossible:"

def checkSpin (o : SpinObs) : Except String Unit :=
  if o.spin then .error "spin-while-nothing-due:"
  else if o.when_ ≠ "B" then .error s!"when-stale:real-clock-{o.when_}"
  else if !o.pulse then .error "pulse-check-fails-on-healthy-scheduler:"
  else if o.runsA ≠ 0 then .error "run-after-release:real-clock"
  else if o.runsB ≠ 1 then .error "due-run-not-dispatched:real-clock"
  else .ok ()

def check : St → List (Op × Ans) → Except String Unit
  | _, [] => .ok ()
  | st, (.spin _ _ _, .spin o) :: rest => do
    checkSpin o
    check st rest
  | _, (.spin _ _ _, .logic _) :: _ => .error "result-impossible:"
  | _, (_, .spin _) :: _ => .error "result-impossible:"
  | st, (op, .logic o) :: rest => do
    let st1 ← applyOp st op o.res
    let st2 ← checkRuns st1 o.runs
    if o.conc then .error "concurrent-runs:flag"
    if o.ckBad then .error "checkpoint-mismatch:"
    checkQuiescent st2 o.when_
    check st2 rest

def holdsOn (h : List (Op × Ans)) : Bool :=
  match check {} h with
  | .ok _ => true
  | .error _ => false

end Influx.Spec.C24
