/-
  Spec.C04 — the statement of C04, written from the property text, not from the
  compaction algorithm:

    "Compacting any set of TSM files (full, fast/level, optimize, or a cache
     snapshot write) produces files whose logical content equals that of the
     inputs, where a later file overrides an earlier one on equal timestamps and
     tombstoned ranges are removed.  Output files are sorted by key, blocks of
     one key do not overlap in time, and no block exceeds the requested
     points-per-block."

  A case is the list of (operation, observed answer) pairs.  For every
  `compact` / `snap` operation the observed output files are judged against the
  abstract content `Key → Time → Option Value` of the inputs described by the
  accepted `blk` / `del` / `cw` operations before it:

    expectedAt k t = the value at (k, t) in the highest-numbered file that has a
                     point there which no delete addressed to that file covers.
-/
import Influx.Proto
import Influx.Model.CompactCase

namespace Influx.Spec.C04
open Influx.Model.Compact

/-- accepted operations before position `i` (oldest first) -/
def accepted (tr : List (Op × Obs)) : List Op :=
  tr.filterMap fun (op, o) => if o == Obs.ok then some op else none

/-! ### abstract content of the inputs -/

/-- is the point (file f, key k, time t) covered by a delete addressed to file `f`? -/
def deleted (ops : List Op) (f : Nat) (k : Key) (t : Int) : Bool :=
  ops.any fun op => match op with
    | Op.del f' keys lo hi => f' == f && keys.contains k && decide (lo ≤ t) && decide (t ≤ hi)
    | _ => false

/-- every (file, value) the inputs hold at (k, t) and that survives the deletes -/
def candidates (ops : List Op) (k : Key) (t : Int) : List (Nat × Int) :=
  ops.flatMap fun op => match op with
    | Op.blk f k' pts =>
      if k' == k && !deleted ops f k t then (pts.filter (fun p => p.1 == t)).map (fun p => (f, p.2)) else []
    | _ => []

/-- newest file wins -/
def newest : List (Nat × Int) → Option (Nat × Int)
  | [] => none
  | c :: cs => match newest cs with
    | none => some c
    | some d => if c.1 > d.1 then some c else some d

/-- the content of the inputs of a compaction: Key → Time → Option Value -/
def expectedAt (ops : List Op) (k : Key) (t : Int) : Option Int :=
  (newest (candidates ops k t)).map (·.2)

/-- the content of the cache: last write wins -/
def cacheAt (ops : List Op) (k : Key) (t : Int) : Option Int :=
  ((ops.flatMap fun op => match op with
    | Op.cw k' pts => if k' == k then (pts.filter (fun p => p.1 == t)).map (·.2) else []
    | _ => []).getLast?)

/-! ### content of the outputs -/

def outBlocks (files : List OutFile) : List (Key × OBlk Int) := files.flatten

/-- every value the output files hold at (k, t) -/
def outAt (files : List OutFile) (k : Key) (t : Int) : List Int :=
  (outBlocks files).flatMap fun (k', b) =>
    if k' == k then (b.pts.filter (fun p => p.1 == t)).map (·.2) else []

/-- the (key, time) pairs to compare on: everything in the inputs and in the outputs -/
def inputPoints (ops : List Op) (cache : Bool) : List (Key × Int) :=
  ops.flatMap fun op => match op with
    | Op.blk _ k pts => if cache then [] else pts.map (fun p => (k, p.1))
    | Op.cw k pts => if cache then pts.map (fun p => (k, p.1)) else []
    | _ => []

def outputPoints (files : List OutFile) : List (Key × Int) :=
  (outBlocks files).flatMap fun (k, b) => b.pts.map (fun p => (k, p.1))

/-- content clause: at every (k, t) the outputs hold exactly the expected value, once -/
def contentOK (expect : Key → Int → Option Int) (files : List OutFile) (dom : List (Key × Int)) : Bool :=
  dom.all fun (k, t) => outAt files k t == (expect k t).toList

/-! ### structure of the outputs -/

def strictAscT : Pts Int → Bool
  | [] => true
  | [_] => true
  | p :: q :: rest => decide (p.1 < q.1) && strictAscT (q :: rest)

/-- a block is well formed: non-empty, ascending, index entry = first / last timestamp -/
def blockOK (b : OBlk Int) : Bool :=
  match b.pts.head?, b.pts.getLast? with
  | some p, some q => b.minTime == p.1 && b.maxTime == q.1 && strictAscT b.pts
  | _, _ => false

/-- keys never decrease along the written sequence (inside a file and from file to file) -/
def keysSorted : List (Key × OBlk Int) → Bool
  | [] => true
  | [_] => true
  | a :: b :: rest => !keyLt b.1 a.1 && keysSorted (b :: rest)

/-- consecutive blocks of one key: the earlier one ends before the later one starts -/
def noOverlap : List (Key × OBlk Int) → Bool
  | [] => true
  | [_] => true
  | a :: b :: rest => (a.1 != b.1 || decide (a.2.maxTime < b.2.minTime)) && noOverlap (b :: rest)

/-- is this output block one of the input blocks, forwarded unchanged? -/
def isInputBlock (ops : List Op) (k : Key) (b : OBlk Int) : Bool :=
  ops.any fun op => match op with
    | Op.blk _ k' pts => k' == k && pts == b.pts
    | _ => false

inductive SizeVerdict where
  | ok | passthrough | oversize
deriving BEq

def sizeCheck (ops : List Op) (size : Nat) (files : List OutFile) : SizeVerdict :=
  let big := (outBlocks files).filter fun (_, b) => decide (b.pts.length > size)
  if big.isEmpty then .ok
  else if big.all (fun (k, b) => isInputBlock ops k b) then .passthrough
  else .oversize

/-! ### the verdict on one compaction -/

/-- `none` = holds; `some reason` = the clause that fails (`<signature>:<detail>`) -/
def judge (ops : List Op) (cache : Bool) (size : Nat) (files : List OutFile) : Option String :=
  let seq := outBlocks files
  let expect := if cache then cacheAt ops else expectedAt ops
  if !(seq.all fun (_, b) => blockOK b) then some "bad-block:empty-unsorted-or-index-mismatch"
  else if files.any (fun f => f.isEmpty) then some "empty-file:"
  else if !keysSorted seq then some "keys-unsorted:"
  else if !noOverlap seq then some "blocks-overlap:"
  else if !contentOK expect files (inputPoints ops cache ++ outputPoints files) then
    some "content:output-differs-from-newest-wins-merge"
  else match sizeCheck ops size files with
    | .ok => none
    | .passthrough => some "oversize-passthrough:input-block-larger-than-size-forwarded"
    | .oversize => some "oversize:reencoded-block-exceeds-size"

/-- walk the case; `acc` = accepted ops so far, oldest first -/
def judgeAll : List Op → List (Op × Obs) → Option String
  | _, [] => none
  | acc, (op, o) :: rest =>
    match op, o with
    | Op.compact _ size _, Obs.out files =>
      (match judge acc false size files with
       | some r => some r
       | none => judgeAll acc rest)
    | Op.snap size, Obs.out files =>
      (match judge acc true (if size = 0 then 1000 else size) files with
       | some r => some r
       | none => judgeAll acc rest)
    | Op.compact _ _ _, Obs.err e => some ("no-output:" ++ e)
    | Op.snap _, Obs.err e => some ("no-output:" ++ e)
    | Op.compact _ _ _, Obs.badOp => judgeAll acc rest
    | Op.snap _, Obs.badOp => judgeAll acc rest
    | Op.compact _ _ _, Obs.ok => some "no-output:ok"
    | Op.snap _, Obs.ok => some "no-output:ok"
    | _, Obs.ok => judgeAll (acc ++ [op]) rest
    | _, _ => judgeAll acc rest

/-- The statement on one case. -/
def holdsOn (tr : List (Op × Obs)) : Bool := (judgeAll [] tr).isNone

end Influx.Spec.C04
