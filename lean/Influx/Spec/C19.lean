/-
  Spec.C19 — the statement of C19, written from the property text:

  "A write is rejected as outside retention exactly when its timestamp is older
   than now minus the bucket's retention period, and the rejection is reported
   with the dropped count.  Retention enforcement deletes a shard group, and
   removes its shards from disk, only when the group's entire time range is older
   than now minus the retention period; no other shard is touched."

  One case = the list of (operation, observed answer) of the harness.  In every
  clock-dependent operation the line carries the *cutoff* `now − retention period`
  (`none` = infinite retention), see `Influx.Model.MetaSM`.
-/
import Influx.Model.MetaSM

namespace Influx.Spec.C19
open Influx.Meta
open Influx.Generated.Meta (MinNanoTime MaxNanoTime Deleted)

/-- timestamps a point can carry (`models.CheckTime`) -/
def inRange (t : Int) : Bool := decide (MinNanoTime ≤ t) && decide (t ≤ MaxNanoTime)

/-- the quantifier domain, per operation: in-range timestamps, positive shard group durations,
    deletion marks at wall-clock times, and cutoffs `now − retention period` that lie in the past
    (before the clock `modelNow` of the model; the harness uses cutoffs before its own clock) -/
def opInDomain : Op → Bool
  | .rp _ _ sgd raw => !raw || decide (sgd > 0)
  | .sgd _ _ d => decide (d > 0)
  | .csg _ _ t => inRange t
  | .ms _ _ cutoff ts => ts.all inRange && (match cutoff with
      | some a => decide (a < modelNow)
      | none => true)
  | .setdel _ _ _ a => decide (0 < a) && decide (a ≤ MaxNanoTime)
  | .pre _ to => decide (to ≤ MaxNanoTime)
  /- truncation (`TruncateShardGroups`, no production caller) leaves the domain of the history
     theorems: truncated groups overlap their successors in raw bounds -/
  | .trunc _ => false
  | _ => true

/-- "older than now minus the retention period" for one timestamp -/
def tooOld (cutoff : Option Int) (t : Int) : Bool :=
  match cutoff with
  | some a => decide (t < a)
  | none => false

/-- a group's entire time range `[start, end)` is older than the cutoff -/
def rangeOlder (g : ShardGroupInfo) (a : Int) : Bool :=
  decide (g.EndTime ≤ a) || decide (g.EndTime ≤ g.StartTime)

/-- clause 1 on one `MapShards` call: rejected exactly when too old; dropped count reported -/
def writeOK (cutoff : Option Int) (ts : List Int) (m : ShardMapping) : Bool :=
  m.placements.length == ts.length &&
  (ts.zip m.placements).all (fun (t, p) => (p == Placement.dropped) == tooOld cutoff t) &&
  m.retentionDropped == (ts.filter (tooOld cutoff)).length

/-- clause 2 on `ExpiredShardGroups(t)` with retention period `D`: every group selected for
    deletion lies entirely before `t − D`; with no retention period nothing is selected -/
def expiredOK (D : Int) (t : Int) (ids : List Nat) (gs : List ShardGroupInfo) : Bool :=
  ids.all fun id => D != 0 && gs.any fun g => g.ID == id && rangeOlder g (t - D)

/-- the cutoff of policy `(db, rp)` in a `dc` operation (last entry wins) -/
def cutoffOf (cs : List (String × String × Int)) (db rp : String) : Option Int :=
  (cs.reverse.find? fun (d, r, _) => d == db && r == rp).map (·.2.2)

/-- the group is already deleted, or its whole range is older than its policy's cutoff -/
def removable (cs : List (String × String × Int)) (db rp : String) (g : ShardGroupInfo) : Bool :=
  Deleted g || match cutoffOf cs db rp with
    | some a => rangeOlder g a
    | none => false

/-- the shard belongs to a removable group of the metadata the check started from -/
def shardRemovable (cs : List (String × String × Int)) (pre : List (String × String × List ShardGroupInfo))
    (id : Nat) : Bool :=
  pre.any fun (db, rp, gs) => gs.any fun g => g.Shards.any (·.ID == id) && removable cs db rp g

/-- clause 2 on one `DeletionCheck`: judged per call the service made -/
def evOK (cs : List (String × String × Int)) (pre : List (String × String × List ShardGroupInfo))
    (loc : List Nat) : Ev → Bool
  | .dsg db rp id ok =>
    -- a shard group deleted by retention enforcement was entirely older than the cutoff
    !ok || pre.any fun (d, r, gs) => d == db && r == rp && gs.any fun g => g.ID == id &&
      match cutoffOf cs db rp with
      | some a => rangeOlder g a
      | none => false
  | .block id _ | .unblock id | .inUse id _ _ | .delete id _ =>
    -- the store is only touched for local shards of removable groups
    loc.contains id && shardRemovable cs pre id
  | .dropRef id _ _ => shardRemovable cs pre id
  | .prune => true

def deletionOK (cs : List (String × String × Int)) (log : List Ev)
    (pre : List (String × String × List ShardGroupInfo)) (loc : List Nat) : Bool :=
  log.all (evOK cs pre loc)

/-- the statement on one (operation, answer) pair -/
def holdsOp : Op × Obs → Bool
  | (.ms _ _ cutoff ts, .mapping m) => writeOK cutoff ts m
  | (.exp _ _ D t, .expired ids gs) => expiredOK D t ids gs
  | (.dc cs, .dc log pre loc) => deletionOK cs log pre loc
  | _ => true

/-- the expiry clause alone: it speaks about one `ExpiredShardGroups` answer and the groups it was
    computed from, whatever happened before (also after truncations) -/
def holdsExp : Op × Obs → Bool
  | (.exp _ _ D t, .expired ids gs) => expiredOK D t ids gs
  | _ => true

/-- the statement on one case: the expiry clause always; the write and deletion clauses when the
    history stays inside the quantifier domain -/
def holdsOn (tr : List (Op × Obs)) : Bool :=
  tr.all holdsExp && (!(tr.all fun p => opInDomain p.1) || tr.all holdsOp)

end Influx.Spec.C19
