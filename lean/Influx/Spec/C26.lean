/-
  Spec.C26 — the statement of C26, written from the property text and not from
  the code:

    "Entries appended to the durable queue are returned in append order; an
     entry that has been appended successfully and not yet advanced past is
     still delivered after a reopen, even if the process crashed at any point of
     a later append or advance.  Recovery never yields bytes that were not
     appended as an entry, and size limits reject appends without changing the
     queue."

  The checker explains the observations of one case by an abstract queue: the
  list `log` of entries appended so far, a read cursor `cur` into it, and `lo`,
  the number of entries that have been advanced past.  Without a reopen the
  cursor is determined; a reopen (clean or after a crash) may move the cursor
  back to any position `≤ lo` (at-least-once: replays are allowed, losing an
  entry that was not advanced past is not), a crash inside an append may or may
  not have added the entry, a crash inside an advance may or may not have
  advanced.  `holdsOn` keeps every abstract queue (`World`) that is still
  consistent with the answers; the case satisfies the property iff one is left.
  Nothing here knows about segments, footers or files.
-/
import Influx.Model.DurableQueueTypes

namespace Influx.Spec.C26
open Influx.DQ

structure World where
  log : List (List Nat)
  cur : Nat
  lo : Nat
deriving DecidableEq, Repr

/-- the cursor moved past `n` more entries -/
def World.advBy (w : World) (n : Nat) : World :=
  { w with cur := w.cur + n, lo := max w.lo (w.cur + n) }

/-- after a reopen the cursor may stand anywhere up to `bound` -/
def reopenAt (log : List (List Nat)) (lo bound : Nat) : List World :=
  (List.range (bound + 1)).map fun c => { log := log, cur := c, lo := max lo c }

/-- the abstract queues consistent with answer `a` to operation `op` from `w` -/
def wstep (w : World) : Op → Ans → List World
  | .append b, .ok => [{ w with log := w.log ++ [b] }]
  | .append _, .full => [w]                       -- rejected: nothing changes
  | .append _, .err => [w]                        -- an append that returns an error changes nothing either
  | .cur, .val y => if w.log[w.cur]? = some y then [w] else []
  | .cur, .eof => if w.cur = w.log.length then [w] else []
  | .adv, .ok => [if w.cur < w.log.length then w.advBy 1 else w]
  | .scan n, .scanned ys true =>
    if ys.length ≤ n ∧ (w.log.drop w.cur).take ys.length = ys ∧
       (ys ≠ [] ∨ n = 0 ∨ w.cur = w.log.length)
    then [w.advBy ys.length] else []
  | .scan _, .eof => if w.cur = w.log.length then [w] else []
  | .reopen, .ok => reopenAt w.log w.lo w.lo
  | .crashAppend b _, .crashed true _ _ _ =>
    reopenAt w.log w.lo w.lo ++ reopenAt (w.log ++ [b]) w.lo w.lo
  | .crashAdv _, .crashed true _ _ _ =>
    reopenAt w.log w.lo (if w.cur < w.log.length then max w.lo (w.cur + 1) else w.lo)
  | .crashSeg _ _, .crashed true _ _ _ => reopenAt w.log w.lo w.lo   -- the entry itself was never written
  | .stat, .stat _ _ _ _ => [w]
  | _, _ => []

/-- `none`: no queue is open; `some ws`: the abstract queues still consistent. -/
abbrev SpecState := Option (List World)

def initWorld : World := { log := [], cur := 0, lo := 0 }

def sstep : SpecState → Op × Ans → SpecState
  | none, (.openQ _ _, .ok) => some [initWorld]
  | none, (.openQ _ _, .err) => none           -- NewQueue/Open refused (max size < 2 × segment size)
  | none, (.openQ _ _, _) => some []
  | none, (_, .notOpen) => none
  | none, _ => some []
  | some ws, (.openQ _ _, .err) => some ws     -- a second open is refused
  | some ws, (op, a) => some (ws.flatMap (fun w => wstep w op a))

def run (obs : List (Op × Ans)) : SpecState := obs.foldl sstep none

/-- The statement on one case (a list of operations with the answers observed). -/
def holdsOn (obs : List (Op × Ans)) : Bool :=
  match run obs with
  | none => true
  | some ws => !ws.isEmpty

/-- index of the first operation no abstract queue explains -/
def firstFail (st : SpecState) : List (Op × Ans) → Nat → Option Nat
  | [], _ => none
  | oa :: rest, i =>
    match sstep st oa with
    | some [] => some i
    | st' => firstFail st' rest (i + 1)

end Influx.Spec.C26
