/-
  Spec.C35 — the statement of C35, written from the property text:

    "Merging HyperLogLog sketches is commutative, associative and idempotent, a
     merged sketch estimates the cardinality of the union within the sketch's
     error bound, and marshaling then unmarshaling a sketch preserves its estimate."

  A sketch is observed through its register vector after normalisation (the
  dense form every `Merge` produces) and through `Count()`.  Each law is an
  observation of the two sides:

  * `comm`  : a⊔b vs b⊔a                  * `assoc` : (a⊔b)⊔c vs a⊔(b⊔c)
  * `idem`  : a⊔a vs a                    * `union` : sketch(A)⊔sketch(B) vs sketch(A∪B)
  * `mrt`   : unmarshal(marshal a) vs a

  The statement demands equal registers (`regs`) and equal estimates (`count`) of the
  two sides.  "Within the error bound" is a probabilistic statement about the
  hash function; it is NOT decided here: for `estimate` observations the measured
  relative error is only classified (in units of σ = 1.04/√m) for the evidence.
  One consequence of the clause is independent of the hash function and is checked:
  the sketch's error bound is below 100 % (σ ≤ 26 % already at the smallest precision),
  so the estimate of a non-empty set is never 0.
-/
import Influx.Proto

namespace Influx.Spec.C35

inductive Law where
  | comm | assoc | idem | union | mrt
deriving Repr, DecidableEq

def Law.name : Law → String
  | .comm => "comm" | .assoc => "assoc" | .idem => "idem" | .union => "union" | .mrt => "marshal"

inductive Obs where
  /-- the register vectors (or their digests) of the two sides of a law -/
  | regs (law : Law) (l r : String)
  /-- the estimates of the two sides -/
  | count (law : Law) (l r : Nat)
  /-- supporting data: precision, true number of distinct hashes, estimate -/
  | estimate (p n est : Nat)
deriving Repr

def holdsOn : Obs → Bool
  | .regs _ l r => l == r
  | .count _ l r => l == r
  | .estimate _ n est => !(decide (n > 0) && est == 0)

def signature : Obs → String
  | .regs law _ _ => "merge-law-registers-differ-" ++ law.name
  | .count law _ _ => "merge-law-estimates-differ-" ++ law.name
  | .estimate _ _ _ => "estimate-zero-for-nonempty-set"

/-- relative error in units of σ = 1.04/√(2^p), as a coarse class (supporting data only).
    |est - n| / n ≤ kσ  ⇔  (est-n)² · 2^p · 10^4 ≤ k² · 104² · n². -/
def errorClass (p n est : Nat) : String :=
  if n = 0 then (if est = 0 then "err=0" else "err-n0")
  else
    let d := if est ≥ n then est - n else n - est
    let lhs := d * d * 2 ^ p * 10000
    let unit := 104 * 104 * n * n
    if d = 0 then "err=0"
    else if lhs ≤ unit then "err<=1sigma"
    else if lhs ≤ 4 * unit then "err<=2sigma"
    else if lhs ≤ 9 * unit then "err<=3sigma"
    else if lhs ≤ 25 * unit then "err<=5sigma"
    else "err>5sigma"

end Influx.Spec.C35
