/-
  Spec.C21 — the statement of C21, written from the property text:

    "A filter read over a bucket, time range and tag/field predicate returns each
     matching series once with exactly its points in range in order, and a group read
     partitions the same series by the requested group keys with every series in exactly
     one group, ordered by group key; reads spanning several shards neither drop nor
     duplicate points."

  Stored data = the rows the series cursor yields (one per matching series+field; which
  series match a tag predicate is the index's business, C15) with, per shard, the points
  the shard holds.  The statement is evaluated on what the implementation returned; it
  looks at neither arrays nor shard boundaries:

  * filter: the returned series are exactly the rows, in order, each once; the points of
    a series are its stored points with `start ≤ t < stop` that satisfy the value
    condition, ascending in time, nothing dropped, nothing twice, no error;
  * group by: every series that has a point in range is in exactly one group, nothing
    else is returned; the members of a group agree on the values of the group keys
    (missing/empty = nil), the group reports those values, different groups have
    different values and the groups are ascending in the order of the value tuples (nil
    highest, or lowest with the nil-sort-lo option); points per series as for filter;
  * group none: one group with all of it.

  Preconditions under which a row's points are constrained (otherwise only its identity
  is checked): all shards of the row hold the same field type (C10), and the stored
  points, shard after shard, are strictly ascending in time (shards cover disjoint,
  ascending time ranges — C18).  A value condition on a string/boolean field against a
  numeric literal has no agreed meaning and is not constrained.
-/
import Influx.Proto
import Influx.Model.Reads

namespace Influx.Spec.C21
open Influx.Reads
open Influx.WindowAgg (Val Typ Pt)

abbrev Tags := List (String × String)

/-- the points a row stores, shard after shard -/
def stored (r : Row) : List (Pt Val) :=
  (r.shards.filter (·.hasCursor)).flatMap (·.chunks.flatten)

def strictlyAscending : List (Pt Val) → Bool
  | a :: b :: rest => decide (a.1 < b.1) && strictlyAscending (b :: rest)
  | _ => true

def sameType (r : Row) : Bool :=
  match r.shards.filter (·.hasCursor) with
  | [] => true
  | s :: rest => rest.all (·.typ == s.typ)

def u2f (x : Nat) : Float := (UInt64.ofNat x).toFloat

/-- mathematical meaning of `value <op> literal` (`none`: no agreed meaning) -/
def condMeaning (c : Cond) (v : Val) : Option Bool :=
  match v, c.lit with
  | .f x, .f y => some (cmpF c.op (Float.ofBits x) (Float.ofBits y))
  | .f x, .i y => some (cmpF c.op (Float.ofBits x) (i2f y))
  | .i x, .f y => some (cmpF c.op (i2f x) (Float.ofBits y))
  | .i x, .i y => some (cmpI c.op x y)
  | .u x, .i y => some (cmpI c.op x y)
  | .u x, .f y => some (cmpF c.op (u2f x) (Float.ofBits y))
  | _, _ => none

/-- the points the read must return for the row; `none` = not constrained -/
def expected (start stop : Int) (r : Row) : Option (List (Pt Val)) :=
  if !(sameType r && strictlyAscending (stored r)) then none
  else
    let inr := (stored r).filter fun p => decide (start ≤ p.1) && decide (p.1 < stop)
    match r.cond with
    | none => some inr
    | some c =>
      if inr.all (fun p => (condMeaning c p.2).isSome) then
        some (inr.filter fun p => condMeaning c p.2 == some true)
      else none

/-- what was observed for one series: `none` = nil cursor -/
structure SeriesObs where
  tags : Tags
  read : Option RowRead

/-- `exempt r`: the points of row `r` are not judged (always `fun _ => false` in the
    statement; the driver uses it only to attribute a failure to a known finding) -/
def pointsOK (exempt : Row → Bool) (start stop : Int) (r : Row) (o : SeriesObs) : Bool :=
  if exempt r then true else
  match expected start stop r with
  | none => true
  | some pts =>
    match o.read with
    | none => pts.isEmpty
    | some rr => decide (rr.arrays.flatten = pts) && !rr.typeErr

/-- filter read: the rows, in order, each once, with their points -/
def holdsFilterX (exempt : Row → Bool) (start stop : Int) (rows : List Row) (obs : List SeriesObs) : Bool :=
  obs.length == rows.length &&
    (rows.zip obs).all fun (r, o) => decide (o.tags = r.tags) && pointsOK exempt start stop r o

def holdsFilter (start stop : Int) (rows : List Row) (obs : List SeriesObs) : Bool :=
  holdsFilterX (fun _ => false) start stop rows obs

/-- value of a group key for a series: missing or empty = nil -/
def keyVal (tags : Tags) (k : String) : Option String :=
  match tagGet tags k with
  | some v => if v.isEmpty then none else some v
  | none => none

def tuple (keys : List String) (tags : Tags) : List (Option String) := keys.map (keyVal tags)

/-- order of group key values: byte order, nil highest (lowest with `nilLo`) -/
def optLt (nilLo : Bool) : Option String → Option String → Bool
  | none, none => false
  | none, some _ => nilLo
  | some _, none => !nilLo
  | some a, some b => decide (a < b)

def tupleLt (nilLo : Bool) : List (Option String) → List (Option String) → Bool
  | a :: as, b :: bs => optLt nilLo a b || (a == b && tupleLt nilLo as bs)
  | _, _ => false

structure GroupObs where
  vals : List (Option String)
  series : List SeriesObs

def norm (v : Option String) : Option String :=
  match v with
  | some s => if s.isEmpty then none else some s
  | none => none

def ascending (nilLo : Bool) : List (List (Option String)) → Bool
  | a :: b :: rest => tupleLt nilLo a b && ascending nilLo (b :: rest)
  | _ => true

def hasData (exempt : Row → Bool) (start stop : Int) (r : Row) : Option Bool :=
  if exempt r then none else (expected start stop r).map (!·.isEmpty)

/-- group read -/
def holdsGroupX (exempt : Row → Bool) (q : GroupReq) (rows : List Row) (gs : List GroupObs) : Bool :=
  let all := gs.flatMap (·.series)
  -- nothing invented, nothing twice
  let noInvent := all.all fun o => rows.any (·.tags == o.tags)
  let noDup := all.all fun o => (all.filter (·.tags == o.tags)).length == 1
  -- every series with data is there (in exactly one group, by noDup)
  let complete := rows.all fun r =>
    match hasData exempt q.start q.stop r with
    | some true => all.any (·.tags == r.tags)
    | _ => true
  -- points
  let points := all.all fun o =>
    match rows.find? (·.tags == o.tags) with
    | some r => pointsOK exempt q.start q.stop r o
    | none => false
  let shape :=
    if q.by_ then
      gs.all (fun g => !g.series.isEmpty &&
        g.series.all (fun o => tuple q.keys o.tags == g.vals.map norm)) &&
      ascending q.nilLo (gs.map fun g => g.vals.map norm)
    else gs.length ≤ 1
  noInvent && noDup && complete && points && shape

def holdsGroup (q : GroupReq) (rows : List Row) (gs : List GroupObs) : Bool :=
  holdsGroupX (fun _ => false) q rows gs

end Influx.Spec.C21
