/-
  Spec.C14 — the statement of C14, written from the property text and not from the
  code: "For any history of series creations, series drops and measurement drops in a
  shard, the index's measurement names, tag keys, tag values and the series set of each
  measurement/tag/value equal those of the live series, before and after log-file
  compaction, reopen, and a crash that truncates the index log anywhere."

  The checker keeps the set of live series (created and not dropped) — nothing about
  files — and compares every answer with the views of that set. Log rolls, compactions
  and reopen must not change any answer, so they do not touch the checker's world.
  A crash happens while the last mutating operation was in flight (everything before it
  was synced): afterwards the index must look as if that operation had happened entirely
  or not at all; the checker carries both candidates and drops the ones an answer refutes.

  Three grades per answer: `exact` (what the property demands); `stale` — a tag-key or
  tag-value LISTING that contains everything it must plus entries no live series has;
  `wrong` — anything else. `holdsOn` demands `exact` everywhere; `holdsWeakly` tolerates
  `stale` listings (the known behaviour recorded in findings.d/C14.json).
-/
import Influx.Proto
import Influx.Model.TSITypes

namespace Influx.Spec.C14
open Influx.Model.TSI

structure Series where
  id : Nat
  name : String
  tags : Tags
deriving DecidableEq, Repr

/-- the live series of the shard's index. -/
structure World where
  live : List Series := []
deriving Repr

def lookupTag (tags : Tags) (k : String) : Option String :=
  match tags with
  | [] => none
  | (k', v) :: rest => if k' = k then some v else lookupTag rest k

def World.drop (w : World) (p : Series → Bool) : World := { live := w.live.filter (fun s => !p s) }

/-- effect of a mutating operation on the live set (`none`: not a mutating operation). -/
def apply (w : World) : Op → Option World
  | .create id _ name tags =>
    some (if w.live.any (·.id = id) then w else { live := ⟨id, name, tags⟩ :: w.live })
  | .dropSeries id => some (w.drop (·.id = id))
  | .dropSeriesIndexOnly id => some (w.drop (·.id = id))
  | .dropMeasurement name => some (w.drop (·.name = name))
  | .dropMeasurementIndexOnly name => some (w.drop (·.name = name))
  | _ => none

inductive Expect
  | names (l : List String)
  | ids (l : List Nat)

/-- the views of the live series. -/
def expected (w : World) : Op → Option Expect
  | .measurements => some (.names (w.live.map (·.name)))
  | .tagKeys name => some (.names ((w.live.filter (·.name = name)).flatMap (fun s => s.tags.map (·.1))))
  | .tagValues name key =>
    some (.names ((w.live.filter (·.name = name)).filterMap (fun s => lookupTag s.tags key)))
  | .measurementSeries name => some (.ids ((w.live.filter (·.name = name)).map (·.id)))
  | .tagKeySeries name key =>
    some (.ids ((w.live.filter (fun s => s.name = name ∧ (lookupTag s.tags key).isSome)).map (·.id)))
  | .tagValueSeries name key value =>
    some (.ids ((w.live.filter (fun s => s.name = name ∧ lookupTag s.tags key = some value)).map (·.id)))
  | _ => none

inductive Grade | exact | stale | wrong
deriving DecidableEq, Repr

def subset [BEq α] (a b : List α) : Bool := a.all (fun x => b.contains x)

/-- is this a listing of tag keys / tag values (where staleness is the known behaviour)? -/
def isTagListing : Op → Bool
  | .tagKeys _ => true
  | .tagValues _ _ => true
  | _ => false

def grade (w : World) (op : Op) (o : Obs) : Grade :=
  match expected w op, o with
  | some (.names e), .names l =>
    if subset e l && subset l e then .exact
    else if isTagListing op && subset e l then .stale
    else .wrong
  | some (.ids e), .ids l => if subset e l && subset l e then .exact else .wrong
  | some _, _ => .wrong
  | none, _ => .exact

def Grade.worse : Grade → Grade → Grade
  | .wrong, _ => .wrong
  | _, .wrong => .wrong
  | .stale, _ => .stale
  | _, .stale => .stale
  | .exact, .exact => .exact

/-- best grade an answer gets among the candidate worlds. -/
def bestGrade (cands : List World) (op : Op) (o : Obs) : Grade :=
  if cands.any (fun w => grade w op o = .exact) then .exact
  else if cands.any (fun w => grade w op o = .stale) then .stale
  else .wrong

/-- the checker's state: candidate worlds, each with the world before the last mutating
    operation (for a crash). -/
structure Cands where
  ws : List (World × World) := [({}, {})]

def isQuery (op : Op) : Bool := (expected {} op).isSome

/-- one step: new candidates and the grade of the answer. -/
def stepCheck (c : Cands) (op : Op) (o : Obs) : Cands × Grade :=
  if isQuery op then
    let g := bestGrade (c.ws.map (·.1)) op o
    -- keep the candidates that explain the answer at the best grade reached
    let keep := c.ws.filter (fun w => grade w.1 op o = g)
    ({ ws := if keep.isEmpty then c.ws else keep }, g)
  else
    match op, o with
    | .crash _ _ _, .ok =>
      -- the in-flight operation happened entirely, or not at all
      ({ ws := c.ws.flatMap (fun w => [(w.1, w.1), (w.2, w.2)]) }, .exact)
    | _, .ok =>
      ({ ws := c.ws.map (fun w => match apply w.1 op with
          | some w' => (w', w.1)
          | none => w) }, .exact)
    | _, _ => (c, .exact)     -- refused / failed operations change nothing

def gradeFrom : Cands → List (Op × Obs) → Grade
  | _, [] => .exact
  | c, (op, o) :: rest =>
    let (c', g) := stepCheck c op o
    g.worse (gradeFrom c' rest)

/-- the property's statement on one case. -/
def holdsOn (tr : List (Op × Obs)) : Bool := gradeFrom {} tr = .exact

/-- the statement with stale tag-key / tag-value listings tolerated. -/
def holdsWeakly (tr : List (Op × Obs)) : Bool := gradeFrom {} tr ≠ .wrong

end Influx.Spec.C14
