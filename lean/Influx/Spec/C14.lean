/-
  Spec.C14 — the statement of C14, written from the property text and not from the
  code: "For any history of series creations, series drops and measurement drops in a
  shard, the index's measurement names, tag keys, tag values and the series set of each
  measurement/tag/value equal those of the live series, before and after log-file
  compaction, reopen, and a crash that truncates the index log anywhere."

  The checker keeps the set of live series (created and not dropped) — nothing about
  files — and compares every answer with the views of that set. Log rolls, compactions
  and reopen must not change any answer, so they do not touch the checker's world.
  A crash happens while the last mutating operation was in flight (everything before it
  was synced): afterwards the index must look as if that operation had not started, or had
  stopped after any of the series it drops (a measurement drop is a sequence of series
  drops); the checker carries every such candidate and judges a case by the candidate that
  explains all its answers best.

  Grades per answer: `exact` (what the property demands); `stale` — a tag-key or tag-value
  LISTING that contains everything it must plus entries no live series has; `phantom` — a
  series-id set or the measurement names contain everything they must plus more; `missing` —
  something a live series requires is absent (or the call failed). `holdsOn` demands `exact`
  everywhere; `holdsWeakly` tolerates `stale` listings (findings.d/C14.json).
-/
import Influx.Proto
import Influx.Model.TSITypes

namespace Influx.Spec.C14
open Influx.Model.TSI

structure Series where
  id : Nat
  name : String
  tags : Tags
deriving DecidableEq, Repr

/-- the live series of the shard's index. -/
structure World where
  live : List Series := []
deriving Repr

def lookupTag (tags : Tags) (k : String) : Option String :=
  match tags with
  | [] => none
  | (k', v) :: rest => if k' = k then some v else lookupTag rest k

def World.drop (w : World) (p : Series → Bool) : World := { live := w.live.filter (fun s => !p s) }

def insertById (s : Series) : List Series → List Series
  | [] => [s]
  | t :: rest => if s.id ≤ t.id then s :: t :: rest else t :: insertById s rest

/-- the successive live sets while a mutating operation runs, the last one being its result
    (`none`: not a mutating operation). Dropping a measurement drops its series one at a time,
    in ascending id order (the order of the harness's flow); everything else is one step. -/
def stages (w : World) : Op → Option (List World)
  | .create id _ name tags =>
    some [if w.live.any (·.id = id) then w else { live := ⟨id, name, tags⟩ :: w.live }]
  | .dropSeries id => some [w.drop (·.id = id)]
  | .dropSeriesIndexOnly id => some [w.drop (·.id = id)]
  | .dropMeasurement name =>
    let victims := (w.live.filter (·.name = name)).foldr insertById []
    some ((victims.foldl (fun (acc : World × List World) v =>
      let w' := acc.1.drop (·.id = v.id); (w', acc.2 ++ [w'])) (w, [w])).2)
  | .dropMeasurementIndexOnly name =>
    let victims := (w.live.filter (·.name = name)).foldr insertById []
    some ((victims.foldl (fun (acc : World × List World) v =>
      let w' := acc.1.drop (·.id = v.id); (w', acc.2 ++ [w'])) (w, [w])).2)
  | _ => none

inductive Expect
  | names (l : List String)
  | ids (l : List Nat)

/-- the views of the live series. -/
def expected (w : World) : Op → Option Expect
  | .measurements => some (.names (w.live.map (·.name)))
  | .tagKeys name => some (.names ((w.live.filter (·.name = name)).flatMap (fun s => s.tags.map (·.1))))
  | .tagValues name key =>
    some (.names ((w.live.filter (·.name = name)).filterMap (fun s => lookupTag s.tags key)))
  | .measurementSeries name => some (.ids ((w.live.filter (·.name = name)).map (·.id)))
  | .tagKeySeries name key =>
    some (.ids ((w.live.filter (fun s => s.name = name ∧ (lookupTag s.tags key).isSome)).map (·.id)))
  | .tagValueSeries name key value =>
    some (.ids ((w.live.filter (fun s => s.name = name ∧ lookupTag s.tags key = some value)).map (·.id)))
  | _ => none

inductive Grade | exact | stale | phantom | missing
deriving DecidableEq, Repr

def Grade.rank : Grade → Nat
  | .exact => 0 | .stale => 1 | .phantom => 2 | .missing => 3

def subset [BEq α] (a b : List α) : Bool := a.all (fun x => b.contains x)

/-- is this a listing of tag keys / tag values (where staleness is the known behaviour)? -/
def isTagListing : Op → Bool
  | .tagKeys _ => true
  | .tagValues _ _ => true
  | _ => false

def grade (w : World) (op : Op) (o : Obs) : Grade :=
  match expected w op, o with
  | some (.names e), .names l =>
    if !subset e l then .missing
    else if subset l e then .exact
    else if isTagListing op then .stale
    else .phantom
  | some (.ids e), .ids l =>
    if !subset e l then .missing else if subset l e then .exact else .phantom
  | some _, _ => .missing
  | none, _ => .exact

def Grade.worse (a b : Grade) : Grade := if a.rank ≥ b.rank then a else b

/-- one candidate explanation of the answers so far: the live set, the live sets the last
    mutating operation went through (a crash may have stopped it at any of them, or before
    it: the first element), and the worst grade this candidate has given. -/
structure Cand where
  w : World := {}
  during : List World := [{}]
  worst : Grade := .exact

structure Cands where
  ws : List Cand := [{}]

def isQuery (op : Op) : Bool := (expected {} op).isSome

/-- one step of the checker. -/
def stepCheck (c : Cands) (op : Op) (o : Obs) : Cands :=
  if isQuery op then
    { ws := c.ws.map (fun k => { k with worst := k.worst.worse (grade k.w op o) }) }
  else
    match op, o with
    | .crash _ _ _, .ok =>
      -- the in-flight operation stopped before it, or at any of its stages
      { ws := c.ws.flatMap (fun k => k.during.map (fun w => { w := w, during := [w], worst := k.worst })) }
    | _, .ok =>
      { ws := c.ws.map (fun k => match stages k.w op with
          | some ws => { k with w := ws.getLastD k.w, during := k.w :: ws }
          | none => k) }
    | _, _ => c     -- refused / failed operations change nothing

def finalCands : Cands → List (Op × Obs) → Cands
  | c, [] => c
  | c, (op, o) :: rest => finalCands (stepCheck c op o) rest

/-- the grade of a case: that of the candidate that explains it best. -/
def gradeOf (tr : List (Op × Obs)) : Grade :=
  (finalCands {} tr).ws.foldl (fun g k => if k.worst.rank < g.rank then k.worst else g) .missing

/-- the property's statement on one case. -/
def holdsOn (tr : List (Op × Obs)) : Bool := gradeOf tr = .exact

/-- the statement with stale tag-key / tag-value listings tolerated. -/
def holdsWeakly (tr : List (Op × Obs)) : Bool := (gradeOf tr).rank ≤ 1

end Influx.Spec.C14
