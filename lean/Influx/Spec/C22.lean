/-
  Spec.C22 — the STATEMENT of C22: a denotational reference evaluator for the
  supported InfluxQL subset over an abstract series map, written from the language
  semantics (InfluxQL documentation), with no iterators, heaps, buffers or
  per-series partial aggregates:

    SELECT v | f1(v), f2(v), …         f ∈ count sum mean min max first last
    FROM m
    [WHERE time ≥ a AND time ≤ b]      (bounds as the parser's ConditionExpr reports them)
    [GROUP BY time(d [, off])] [, host]
    [fill(none | null | previous | k)]
    [ORDER BY time DESC] [LIMIT n] [OFFSET k]

  over a database = list of series (tag `host`, strictly increasing timestamps) of
  one measurement `m` with one field `v` (all integer or all float).

  `holdsOn` compares the rows the real query engine returned with `eval`.
  Arithmetic is a parameter (`Arith22`): integers exact, floats IEEE in the driver.
-/
import Influx.Model.ReducersTypes

namespace Influx.Spec.C22
open Influx.Reducers

inductive Agg | count | sum | mean | min | max | first | last
deriving DecidableEq, Repr

inductive Fill | none | null | previous | value (n : Int)
deriving DecidableEq, Repr

structure Query where
  /-- the calls of the field list, in order; `[]` = the raw query `SELECT v` -/
  calls : List Agg
  /-- inclusive time bounds of the WHERE clause -/
  tmin : Option Int
  tmax : Option Int
  /-- GROUP BY time(dur, off); `dur = 0`: no time grouping; `0 ≤ off < dur` -/
  dur : Int
  off : Int
  byHost : Bool
  fill : Fill
  desc : Bool
  /-- `0` = no LIMIT -/
  limit : Nat
  offset : Nat
deriving Repr

structure Series (V : Type) where
  host : String
  pts : List (Pt V)

inductive Val (V F : Type)
  | v (x : V)
  | f (x : F)
  | i (n : Int)
  | null

structure Row (V F : Type) where
  /-- `none`: the statement does not group by host -/
  host : Option String
  time : Int
  vals : List (Val V F)

inductive Result (V F : Type)
  | rows (l : List (Row V F))
  | err (kind : String)

structure Arith22 (V F : Type) extends Arith V F where
  /-- the fill value `k` as a value of the field's type -/
  ofIntV : Int → V

def minTime : Int := -9223372036854775806
def maxTime : Int := 9223372036854775806
/-- `now()` of the run (CompileOptions.Now): the upper bound of a GROUP BY time query
    that gives none -/
def now : Int := 1000000

section
variable {V F : Type}

def Query.isRaw (q : Query) : Bool := q.calls.isEmpty

def startOf (q : Query) : Int := q.tmin.getD minTime
def endOf (q : Query) : Int :=
  match q.tmax with
  | some t => t
  | none => if q.dur > 0 then now else maxTime

/-- statements the compiler rejects (compile.go validateFields), in its order -/
def compileError (q : Query) : Option String :=
  if q.isRaw then
    if q.fill = Fill.none then some "err:fill-none-needs-function"
    else if q.dur > 0 then some "err:group-by-needs-aggregate"
    else none
  else none

/-- filled GROUP BY time queries need a lower time bound to have a first window -/
def supported (q : Query) : Bool :=
  decide (0 ≤ q.dur) && decide (0 ≤ q.off) && (q.dur = 0 || decide (q.off < q.dur)) &&
  (q.isRaw || q.dur = 0 || q.fill = Fill.none || q.tmin.isSome)

/-- insertion into a list ordered by `le` -/
def insertBy {α : Type} (le : α → α → Bool) (x : α) : List α → List α
  | [] => [x]
  | y :: ys => if le x y then x :: y :: ys else y :: insertBy le x ys

def sortBy {α : Type} (le : α → α → Bool) (l : List α) : List α := l.foldr (insertBy le) []

/-- series in the order of their keys; descending statements walk them backwards -/
def orderedSeries (q : Query) (db : List (Series V)) : List (Series V) :=
  let s := sortBy (fun a b => decide (a.host ≤ b.host)) db
  if q.desc then s.reverse else s

/-- output groups: one per series when grouping by host, otherwise one holding all -/
def groups (q : Query) (db : List (Series V)) : List (Option String × List (Series V)) :=
  let s := orderedSeries q db
  if q.byHost then s.map fun x => (some x.host, [x])
  else if s.isEmpty then [] else [(none, s)]

def inRange (q : Query) (p : Pt V) : Bool := decide (startOf q ≤ p.t) && decide (p.t ≤ endOf q)

/-- the points of a series the statement looks at, in the statement's time order -/
def seriesPoints (q : Query) (s : Series V) : List (Pt V) :=
  let l := s.pts.filter (inRange q)
  if q.desc then l.reverse else l

/-- LIMIT / OFFSET of one output group -/
def limitOffset {α : Type} (q : Query) (l : List α) : List α :=
  let l := l.drop q.offset
  if q.limit = 0 then l else l.take q.limit

/-- time order of the statement -/
def timeLe (q : Query) (a b : Int) : Bool := if q.desc then decide (b ≤ a) else decide (a ≤ b)

/-! ### raw queries -/

def rawGroup (q : Query) (g : Option String × List (Series V)) : List (Row V F) :=
  let pts := sortBy (fun a b => timeLe q a.t b.t) (g.2.flatMap (seriesPoints q))
  limitOffset q (pts.map fun p => ⟨g.1, p.t, [Val.v p.v]⟩)

/-! ### aggregates -/

/-- start of the GROUP BY time window holding `t` -/
def winStart (q : Query) (t : Int) : Int := t - (t - q.off) % q.dur

/-- left fold without a zero: `x₁ ⊕ x₂ ⊕ …` -/
def fold1 {α : Type} (f : α → α → α) : List α → Option α
  | [] => none
  | x :: xs => some (xs.foldl f x)

/-- the point the selector `a` picks among `pts` (order independent):
    min / max: extreme value, among equals the earliest; first / last: extreme time,
    among equals the larger value -/
def better (A : Arith22 V F) : Agg → Pt V → Pt V → Bool
  | .min, c, p => A.vo.lt c.v p.v || (A.vo.eq c.v p.v && decide (c.t < p.t))
  | .max, c, p => A.vo.lt p.v c.v || (A.vo.eq c.v p.v && decide (c.t < p.t))
  | .first, c, p => decide (c.t < p.t) || (decide (c.t = p.t) && A.vo.lt p.v c.v)
  | .last, c, p => decide (c.t > p.t) || (decide (c.t = p.t) && A.vo.lt p.v c.v)
  | _, _, _ => false

def select (A : Arith22 V F) (a : Agg) (pts : List (Pt V)) : Option (Pt V) :=
  fold1 (fun p c => if better A a c p then c else p) pts

/-- value of the call `a` over the points of one window of one group; `members`:
    the points of each member series (those with none left out), in statement order -/
def aggVal (A : Arith22 V F) (a : Agg) (members : List (List (Pt V))) : Val V F :=
  let all := members.flatMap id
  match a with
  | .count => .i all.length
  | .sum =>
    -- Σ over the series of (Σ over the series' points)
    match fold1 A.vo.add (members.filterMap fun m => fold1 A.vo.add (m.map (·.v))) with
    | some s => .v s
    | none => .null
  | .mean =>
    match fold1 A.vo.add (members.filterMap fun m => fold1 A.vo.add (m.map (·.v))) with
    | some s => .f (A.fo.div (A.vo.toF s) (A.fo.ofInt all.length))
    | none => .null
  | sel =>
    match select A sel all with
    | some p => .v p.v
    | none => .null

def isSelector : Agg → Bool
  | .min | .max | .first | .last => true
  | _ => false

/-- the fill value of a call in an empty window; `prev`: the call's previous
    non-filled value in this group -/
def fillVal (A : Arith22 V F) (q : Query) (a : Agg) (prev : Val V F) : Val V F :=
  match q.fill with
  | .none => .null
  | .null => if a = .count then .i 0 else .null
  | .previous => prev
  | .value k =>
    match a with
    | .count => .i k
    | .mean => .f (A.fo.ofInt k)
    | _ => .v (A.ofIntV k)

/-- window starts to report, in statement order, given the starts that hold points -/
def windowStarts (q : Query) (holding : List Int) : List Int :=
  if q.fill = Fill.none then holding
  else if holding.isEmpty then []
  else
    let lo := winStart q (startOf q)
    let hi := winStart q (endOf q)
    if hi < lo then [] else
    let n := ((hi - lo) / q.dur).toNat + 1
    let asc := (List.range n).map fun (i : Nat) => lo + (i : Int) * q.dur
    if q.desc then asc.reverse else asc

def dedupAdj [DecidableEq α] : List α → List α
  | [] => []
  | [x] => [x]
  | x :: y :: r => if x = y then dedupAdj (y :: r) else x :: dedupAdj (y :: r)

/-- rows of one group of a GROUP BY time statement (before LIMIT/OFFSET) -/
def windowRows (A : Arith22 V F) (q : Query) (g : Option String × List (Series V)) : List (Row V F) :=
  let members := g.2.map (seriesPoints q)
  let times := sortBy (timeLe q) ((members.flatMap id).map fun p => winStart q p.t)
  let starts := windowStarts q (dedupAdj times)
  -- walk the windows carrying each call's previous real value
  let step (acc : List (Row V F) × List (Val V F)) (w : Int) : List (Row V F) × List (Val V F) :=
    let inW := (members.map fun m => m.filter fun p => decide (winStart q p.t = w)).filter (!·.isEmpty)
    if inW.isEmpty then
      let vals := (q.calls.zip acc.2).map fun (a, pv) => fillVal A q a pv
      (acc.1 ++ [⟨g.1, w, vals⟩], acc.2)
    else
      let vals := q.calls.map fun a => aggVal A a inW
      (acc.1 ++ [⟨g.1, w, vals⟩], vals)
  (starts.foldl step ([], q.calls.map fun _ => Val.null)).1

/-- the single row of one group of an aggregate statement without GROUP BY time -/
def plainRow (A : Arith22 V F) (q : Query) (g : Option String × List (Series V)) : List (Row V F) :=
  let members := (g.2.map (seriesPoints q)).filter (!·.isEmpty)
  if members.isEmpty then [] else
  let vals := q.calls.map fun a => aggVal A a members
  let t0 := if startOf q = minTime then 0 else startOf q
  let time :=
    match q.calls.eraseDups with
    | [a] => if isSelector a then
        match select A a (members.flatMap id) with
        | some p => p.t
        | none => t0
      else t0
    | _ => t0
  [⟨g.1, time, vals⟩]

def aggGroup (A : Arith22 V F) (q : Query) (g : Option String × List (Series V)) : List (Row V F) :=
  limitOffset q (if q.dur = 0 then plainRow A q g else windowRows A q g)

/-- **the reference evaluator** -/
def eval (A : Arith22 V F) (q : Query) (db : List (Series V)) : Result V F :=
  if !supported q then .err "unsupported" else
  match compileError q with
  | some e => .err e
  | none =>
    if q.isRaw then .rows ((groups q db).flatMap (rawGroup q))
    else .rows ((groups q db).flatMap (aggGroup A q))

/-! ### comparing an observation with the reference -/

def valEq (A : Arith22 V F) : Val V F → Val V F → Bool
  | .v a, .v b => A.eqvV a b
  | .f a, .f b => A.eqvF a b
  | .i a, .i b => decide (a = b)
  | .null, .null => true
  | _, _ => false

def valsEq (A : Arith22 V F) : List (Val V F) → List (Val V F) → Bool
  | [], [] => true
  | a :: as, b :: bs => valEq A a b && valsEq A as bs
  | _, _ => false

def rowsEq (A : Arith22 V F) : List (Row V F) → List (Row V F) → Bool
  | [], [] => true
  | a :: as, b :: bs => decide (a.host = b.host) && decide (a.time = b.time) && valsEq A a.vals b.vals && rowsEq A as bs
  | _, _ => false

def resultEq (A : Arith22 V F) : Result V F → Result V F → Bool
  | .rows a, .rows b => rowsEq A a b
  | .err a, .err b => decide (a = b)
  | _, _ => false

/-- the statement on one observation: the engine's answer is the reference answer -/
def holdsOn (A : Arith22 V F) (q : Query) (db : List (Series V)) (obs : Result V F) : Bool :=
  resultEq A obs (eval A q db)

/-! ### a second field: WHERE conditions on it, and its value next to a selector

  Series of the real storage engine may be SPARSE: a point carries `v`, `u`, or both.
  `WHERE u ⋈ c` keeps the rows whose `u` at that timestamp exists and satisfies the
  comparison (a missing value compares false); `SELECT sel(v), u` reports `u` of the
  selected point (null when that point has none).  Both reduce to `eval` above. -/

structure Pt2 (V : Type) where
  t : Int
  v : Option V
  u : Option V

structure Series2 (V : Type) where
  host : String
  pts : List (Pt2 V)

inductive Cmp | gt | ge | lt | le
deriving DecidableEq, Repr

structure Query2 where
  q : Query
  /-- `WHERE u ⋈ c` -/
  cond : Option (Cmp × Int)
  /-- `SELECT sel(v), u` -/
  aux : Bool

def cmpHolds (A : Arith22 V F) (c : Cmp) (u k : V) : Bool :=
  match c with
  | .gt => A.vo.lt k u
  | .ge => !A.vo.lt u k
  | .lt => A.vo.lt u k
  | .le => !A.vo.lt k u

def condHolds (A : Arith22 V F) (cond : Option (Cmp × Int)) (u : Option V) : Bool :=
  match cond, u with
  | none, _ => true
  | some _, none => false
  | some (c, k), some x => cmpHolds A c x (A.ofIntV k)

/-- the points of a sparse series a statement on field `v` sees -/
def project (A : Arith22 V F) (q : Query2) (s : Series2 V) : Series V :=
  ⟨s.host, s.pts.filterMap fun p =>
    match p.v with
    | some x => if condHolds A q.cond p.u then some ⟨p.t, x⟩ else none
    | none => none⟩

/-- `u` of the point at time `t` in the output group `host` (`none` = all series) -/
def auxAt (db : List (Series2 V)) (host : Option String) (t : Int) : Val V F :=
  let cands := (db.filter fun s => host = none || host = some s.host).flatMap fun s =>
    s.pts.filter fun p => decide (p.t = t) && p.v.isSome
  match cands with
  | p :: _ => match p.u with | some x => .v x | none => .null
  | [] => .null

/-- aux columns are stated for a sole selector without GROUP BY time -/
def supported2 (q : Query2) : Bool :=
  !q.aux || (decide (q.q.dur = 0) && (match q.q.calls.eraseDups with | [a] => isSelector a | _ => false) &&
    decide (q.q.calls.length = 1))

def eval2 (A : Arith22 V F) (q : Query2) (db : List (Series2 V)) : Result V F :=
  if !supported2 q then .err "unsupported" else
  match eval A q.q (db.map (project A q)) with
  | .rows l => if q.aux then .rows (l.map fun r => { r with vals := r.vals ++ [auxAt db r.host r.time] }) else .rows l
  | e => e

def holdsOn2 (A : Arith22 V F) (q : Query2) (db : List (Series2 V)) (obs : Result V F) : Bool :=
  resultEq A obs (eval2 A q db)

end
end Influx.Spec.C22
