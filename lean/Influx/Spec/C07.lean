/-
  Spec.C07 — the STATEMENT of C07, written from the property text:

  "For every sequence of timestamps and values of each field type (float, integer,
   unsigned, boolean, string), encoding a block and decoding it returns the identical
   timestamps and values (bit-identical floats), and the scalar and batch codecs accept
   each other's output with the same result.  The same holds for the simple8b integer
   packing used underneath, which rejects inputs it cannot pack."

  One observation = one input together with what every encoder produced and what
  every decoder returned on every encoder's output.  Nothing here knows how bytes
  are laid out: the statement is "every decoder returns the input".
  Floats, integers, unsigneds, timestamps are 64-bit patterns (`Nat`).
-/
import Influx.Proto

namespace Influx.Spec.C07

abbrev Bytes := List Nat

/-- values of one field type -/
inductive Vals
  | f (l : List Nat) | i (l : List Nat) | u (l : List Nat) | b (l : List Bool) | s (l : List Bytes)
deriving DecidableEq, Repr

def Vals.length : Vals → Nat
  | .f l | .i l | .u l => l.length
  | .b l => l.length
  | .s l => l.length

inductive Op
  /-- zigzag of one 64-bit pattern -/
  | zz (x : Nat)
  /-- simple8b on a list of uint64 -/
  | s8b (vs : List Nat)
  /-- the value codec of one field type -/
  | codec (v : Vals)
  /-- the timestamp codec -/
  | time (ts : List Nat)
  /-- a whole block -/
  | block (ts : List Nat) (v : Vals)

/-- scalar (S) and batch (B) encoder outputs (`none` = the encoder returned an error) and the
    four decodes XY = decoder Y on encoder X's bytes (`none` = error, or nothing to decode) -/
structure RT (α : Type) where
  encS : Option Bytes
  encB : Option Bytes
  ss : Option α
  sb : Option α
  bs : Option α
  bb : Option α

inductive Obs
  | zz (enc dec : Nat)
  /-- influxdb EncodeAll, jwilder EncodeAll, jwilder streaming Encoder (words); then the decodes
      by the influxdb (I) and jwilder (J) decoders: II IJ JI JJ TI TJ -/
  | s8b (i j t : Option (List Nat)) (decs : List (Option (List Nat)))
  /-- `ds`/`db`: both decoders on the batch encoder's output when it was handed a dirty, oversized
      buffer to reuse (the result of an encoder must not depend on the buffer it is given) -/
  | codec (r : RT Vals) (ds db : Option Vals)
  | time (r : RT (List Nat)) (ds db : Option (List Nat))
  /-- `g`: the interface-typed `Values.Encode` produced the same block as the typed encoder;
      `sg`/`bg`: the interface-typed `DecodeBlock` on both blocks -/
  | block (r : RT (List Nat × Vals)) (g : Bool) (sg bg : Option (List Nat × Vals))
  | unparsable

def maxPackable : Nat := 2 ^ 60 - 1

def roundTrips {α : Type} [DecidableEq α] (x : α) (r : RT α) : Bool :=
  r.encS.isSome && r.encB.isSome && r.ss == some x && r.sb == some x && r.bs == some x && r.bb == some x

/-- The statement on one observation. -/
def holdsOn (op : Op) (o : Obs) : Bool :=
  match op, o with
  | .zz x, .zz _ dec => dec == x
  | .s8b vs, .s8b i j t decs =>
    if vs.any (fun v => decide (v > maxPackable)) then
      -- "rejects inputs it cannot pack"
      i.isNone && j.isNone && t.isNone
    else
      i.isSome && j.isSome && t.isSome && decs.length == 6 && decs.all (· == some vs)
  | .codec v, .codec r ds db => roundTrips v r && ds == some v && db == some v
  | .time ts, .time r ds db => roundTrips ts r && ds == some ts && db == some ts
  | .block ts v, .block r g sg bg =>
    if ts.length != v.length then true      -- not a sequence of points
    else if ts.isEmpty then
      -- nothing to encode: no block is produced, by either encoder
      r.encS == some [] && r.encB == some []
    else roundTrips (ts, v) r && g && sg == some (ts, v) && bg == some (ts, v)
  | _, _ => false

end Influx.Spec.C07
