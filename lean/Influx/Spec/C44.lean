/-
  Spec.C44 — the statement of C44, written from the property text:

    "A user's password check succeeds only for the password most recently set, including
     after a compare-and-set change, and stored hashes in every supported format verify
     exactly their own password.  A request is authenticated only with a token that exists
     and is active, or with an unexpired session, and never on behalf of an inactive user."

  Evaluated on one case = a history of (operation, observed answer) pairs.  The checker keeps
  what the *acknowledged* operations established — the password last set per user, which users
  are active, which tokens exist (and whether they are active), which unexpired sessions exist
  — in plain finite maps, and judges

   * every successful ComparePassword: the candidate is the password last set for that user;
   * every successful CompareAndSetPassword: the old password verifies against the password last
     set — i.e. its first 72 bytes are that password: bcrypt ignores anything beyond 72 bytes, and
     no longer password can be set — and from then on the new one is "last set";
   * every authenticated request (the wrapped handler ran AND the authorizer it received yields a
     permission set — `Authorization.PermissionSet` is where an inactive token is refused,
     `Session.PermissionSet` where an expired session is): the request presented, in an
     `Authorization: Token|Bearer <t>` header, an existing active token of that user, or, as the
     session cookie, the key of an existing session of that user that is not expired; and that
     user exists and is active.

  A session exists from its creation until it is ended (ExpireSession); RenewSession — even when it is
  handed a session object obtained while the session was still alive — never makes an ended (or a
  born-expired) session exist again, so a request carrying such a key is never authenticated.

  The hash formats (bcrypt for passwords, influxdb2-sha256 and influxdb2-sha512 PHC strings for tokens when
  the token store is configured to hash) are exercised through these same clauses: a lookup
  that went through a stored hash must still single out exactly the right password / token.
-/
import Influx.Proto
import Influx.Model.Tenant
import Influx.Model.CredsTypes

namespace Influx.Spec.C44
open Influx.Creds
open Influx.Tenant (KV.get KV.put KV.del)

/-- what the acknowledged operations of the history established -/
structure Track where
  pw : List (Nat × String) := []                      -- password most recently set
  users : List (Nat × Bool) := []                     -- existing users: active?
  toks : List (Nat × (String × Bool × Nat)) := []     -- existing tokens: token, active?, user
  sess : List (String × Nat) := []                    -- existing, unexpired sessions: key ↦ user
  ok : Bool := true
  why : String := ""

def Track.fail (t : Track) (why : String) : Track := if t.ok then { t with ok := false, why := why } else t

/-- the request presents token `t`: `Authorization: <scheme> <t>`, scheme Token or Bearer in any case -/
def presents (hdr : Option String) (t : String) : Bool :=
  match hdr with
  | none => false
  | some h =>
    let cs := h.toList
    ((cs.take 6).map Char.toLower = "token ".toList && String.ofList (cs.drop 6) = t) ||
    ((cs.take 7).map Char.toLower = "bearer ".toList && String.ofList (cs.drop 7) = t)

def first72 (s : String) : String := String.ofList (s.toList.take 72)

/-- an authenticated request on behalf of `uid` is backed by a current credential -/
def justified (t : Track) (hdr cookie : Option String) (uid : Nat) : Bool :=
  (t.toks.any (fun e => presents hdr e.2.1 && e.2.2.1 && e.2.2.2 = uid) ||
   (match cookie with
    | some k => KV.get t.sess k = some uid
    | none => false)) &&
  -- never on behalf of an inactive (or deleted) user; id 0 means "no user" (JWT-style authorizers)
  (uid = 0 || KV.get t.users uid = some true)

def trackStep (t : Track) : Op × Ans → Track
  | (.cfg .., .ok) => {}
  | (.cu _, .okId id) => { t with users := KV.put t.users id true }
  | (.us uid a, .ok) => { t with users := KV.put t.users uid a }
  | (.du uid, .ok) => { t with users := KV.del t.users uid, pw := KV.del t.pw uid }
  | (.sp uid p, .pw r) => if r.ok then { t with pw := KV.put t.pw uid p } else t
  | (.cp uid p, .pw r) =>
    if r.ok then (if KV.get t.pw uid = some p then t else t.fail "stale-password-accepted") else t
  | (.cas uid old new, .pw r) =>
    if r.ok then
      let t := if KV.get t.pw uid = some (first72 old) then t else t.fail "cas-with-wrong-old-password"
      { t with pw := KV.put t.pw uid new }
    else t
  | (.ct uid tok a, .okId id) => { t with toks := KV.put t.toks id (tok, a, uid) }
  | (.ut id a, .ok) =>
    match KV.get t.toks id with
    | some (tok, _, u) => { t with toks := KV.put t.toks id (tok, a, u) }
    | none => t
  | (.dt id, .ok) => { t with toks := KV.del t.toks id }
  | (.cs _ long, .okKey k u) => if long then { t with sess := KV.put t.sess k u } else t   -- `exp`: born expired
  | (.xs k, .ok) => { t with sess := KV.del t.sess k }
  -- renewing never brings a session into existence: an ended session stays ended, whatever the answer
  | (.renew _ _, _) => t
  | (.req h c, .http _ reached pset uid) =>
    if reached && pset = some true then
      (if justified t h c uid then t else t.fail "unbacked-authentication")
    else t
  -- stored hashes in every supported format verify exactly their own password
  | (.phc ds v m p q, .phc r) =>
    let t := if r = .matched true && q ≠ p then t.fail "hash-verifies-foreign-password" else t
    if m = .none && ds.contains v && r ≠ .matched (q = p) then t.fail "hash-does-not-verify-exactly-its-password" else t
  | _ => t

def track (tr : List (Op × Ans)) : Track := tr.foldl trackStep {}

/-- **the statement** on one case -/
def holdsOn (tr : List (Op × Ans)) : Bool := (track tr).ok

end Influx.Spec.C44
