/-
  Spec.C34 — the statement of C34, written from the property text:

    "Every size and duration value written out by the configuration layer parses
     back to the identical value, size suffixes mean what the documentation says
     (1.x bare k/m/g are binary, explicit kb/kib as named), and inputs whose
     value overflows the target type are rejected rather than wrapped."

  Independent of the model's algorithms: the checker has its own tiny reader for
  the documented input shapes (`[-]digits [spaces] suffix` for sizes,
  `[+-](digits unit)+` for durations) and computes the exact integer the text
  denotes.  Texts outside those shapes are not judged.

  * clause 1 (`rtSize`, `rtDur`): the value read back equals the value written;
  * clause 2 (`parseSize`): an accepted size equals digits × documented multiplier.
    `humanize` computes in float64; above 2^53 its result may be the correctly
    rounded neighbour (relative error ≤ 2^-52), which is tolerated and tagged —
    a value further off is a failure;
  * clause 3: a text whose exact value does not fit the target type must be rejected.
-/
import Influx.Proto

namespace Influx.Spec.C34

abbrev Bytes := List UInt8

/-- the four size types: `SizeV1`, `SSizeV1` (1.x), `Size`, `SSize` (2.x aliases of `SizeV2`/`SSizeV2`) -/
inductive Kind where
  | v1u | v1s | v2u | v2s
deriving Repr, DecidableEq

def Kind.signed : Kind → Bool
  | .v1s | .v2s => true
  | _ => false
def Kind.v1 : Kind → Bool
  | .v1u | .v1s => true
  | _ => false

def inRange (signed : Bool) (x : Int) : Bool :=
  if signed then decide (-(2 ^ 63 : Int) ≤ x ∧ x < 2 ^ 63) else decide (0 ≤ x ∧ x < 2 ^ 64)

inductive Obs where
  /-- a value written (directly by `MarshalText`, or through the TOML encoder) and read back -/
  | rtSize (k : Kind) (x : Int) (res : Option Int)
  | rtDur (x : Int) (res : Option Int)
  /-- a text handed to `UnmarshalText` of a zero value (`none` = rejected) -/
  | parseSize (k : Kind) (text : Bytes) (res : Option Int)
  | parseDur (text : Bytes) (res : Option Int)
deriving Repr

inductive Fail where
  | sizeRoundTripLost | sizeRoundTripRejected | durRoundTripLost | durRoundTripRejected
  | suffixMeaning | validSizeRejected | sizeOverflowAccepted | sizeWrongValue
  | durOverflowWrapped | durWrongValue | validDurRejected
deriving Repr, DecidableEq

def Fail.signature : Fail → String
  | .sizeRoundTripLost => "size-roundtrip-lost"
  | .sizeRoundTripRejected => "size-roundtrip-rejected"
  | .durRoundTripLost => "duration-roundtrip-lost"
  | .durRoundTripRejected => "duration-roundtrip-rejected"
  | .suffixMeaning => "suffix-meaning"
  | .validSizeRejected => "valid-size-rejected"
  | .sizeOverflowAccepted => "size-overflow-accepted"
  | .sizeWrongValue => "size-wrong-value"
  | .durOverflowWrapped => "duration-overflow-wrapped"
  | .durWrongValue => "duration-wrong-value"
  | .validDurRejected => "valid-duration-rejected"

/-! the checker's own reader -/

def isDig (c : UInt8) : Bool := 48 ≤ c.toNat && c.toNat ≤ 57
def isLetter (c : UInt8) : Bool := (65 ≤ c.toNat && c.toNat ≤ 90) || (97 ≤ c.toNat && c.toNat ≤ 122)
def lowerC (c : UInt8) : UInt8 := if 65 ≤ c.toNat ∧ c.toNat ≤ 90 then c + 32 else c
def natOfDigits (ds : Bytes) : Nat := ds.foldl (fun a c => a * 10 + (c.toNat - 48)) 0
def bytesOf (s : String) : Bytes := s.toList.map fun c => UInt8.ofNat c.toNat

/-- documented multipliers.  Bare `k/m/g`: binary for the 1.x types, SI decimal for the 2.x types. -/
def multiplier (k : Kind) (suffix : Bytes) : Option Nat :=
  let named : List (String × Nat) :=
    [("", 1), ("b", 1),
     ("kb", 10 ^ 3), ("mb", 10 ^ 6), ("gb", 10 ^ 9), ("tb", 10 ^ 12), ("pb", 10 ^ 15), ("eb", 10 ^ 18),
     ("kib", 2 ^ 10), ("mib", 2 ^ 20), ("gib", 2 ^ 30), ("tib", 2 ^ 40), ("pib", 2 ^ 50), ("eib", 2 ^ 60)]
  let bare : List (String × Nat) :=
    if k.v1 then [("k", 2 ^ 10), ("m", 2 ^ 20), ("g", 2 ^ 30)]
    else [("k", 10 ^ 3), ("m", 10 ^ 6), ("g", 10 ^ 9)]
  ((named ++ bare).find? fun (n, _) => bytesOf n == suffix).map (·.2)

/-- `[-]digits [spaces] letters*` ↦ the exact integer it denotes (`none`: not of that shape, or an
    undocumented suffix, or a sign on an unsigned type: not judged) -/
def refSize (k : Kind) (text : Bytes) : Option Int :=
  let (neg, body) : Bool × Bytes := match text with
    | 45 :: rest => (true, rest)
    | _ => (false, text)
  if neg && !k.signed then none else
  let ds := body.takeWhile isDig
  let rest := (body.dropWhile isDig).dropWhile (· == 32)
  if ds.isEmpty || !rest.all isLetter then none else
  match multiplier k (rest.map lowerC) with
  | none => none
  | some m =>
    let v : Int := (natOfDigits ds * m : Nat)
    some (if neg then -v else v)

def unitNanos (u : Bytes) : Option Nat :=
  let tbl : List (String × Nat) :=
    [("ns", 1), ("us", 10 ^ 3), ("ms", 10 ^ 6), ("s", 10 ^ 9), ("m", 60 * 10 ^ 9), ("h", 3600 * 10 ^ 9)]
  ((tbl.find? fun (n, _) => bytesOf n == u).map (·.2))

/-- `(digits letters+)+` ↦ the sum; `fuel` bounds the components -/
def refDurComponents : Nat → Bytes → Nat → Option Nat
  | 0, _, _ => none
  | fuel + 1, s, acc =>
    if s.isEmpty then some acc else
    let ds := s.takeWhile isDig
    let r1 := s.dropWhile isDig
    let u := r1.takeWhile isLetter
    let r2 := r1.dropWhile isLetter
    if ds.isEmpty || u.isEmpty then none else
    match unitNanos u with
    | none => none
    | some n => refDurComponents fuel r2 (acc + natOfDigits ds * n)

/-- `[+-](digits unit)+` with integer components ↦ exact nanoseconds -/
def refDur (text : Bytes) : Option Int :=
  let (neg, body) : Bool × Bytes := match text with
    | 45 :: rest => (true, rest)
    | 43 :: rest => (false, rest)
    | _ => (false, text)
  if body.isEmpty then none else
  match refDurComponents (body.length + 1) body 0 with
  | none => none
  | some v => some (if neg then -(v : Int) else (v : Int))

/-- `|v - exact| ≤ |exact| / 2^52`: what two correct float64 roundings can do -/
def floatClose (v exact : Int) : Bool := (v - exact).natAbs * 2 ^ 52 ≤ exact.natAbs

/-- the statement on one observation; `none` = holds.  The `Bool` is "the float tolerance was used". -/
def check : Obs → Option Fail × Bool
  | .rtSize k x res =>
    if !inRange k.signed x then (none, false)
    else match res with
      | none => (some .sizeRoundTripRejected, false)
      | some y => if y = x then (none, false) else (some .sizeRoundTripLost, false)
  | .rtDur x res =>
    if !inRange true x then (none, false)
    else match res with
      | none => (some .durRoundTripRejected, false)
      | some y => if y = x then (none, false) else (some .durRoundTripLost, false)
  | .parseSize k text res =>
    match refSize k text with
    | none => (none, false)
    | some exact =>
      if !inRange k.signed exact then
        (match res with | some _ => (some .sizeOverflowAccepted, false) | none => (none, false))
      else match res with
        | none => if exact.natAbs < 2 ^ 53 then (some .validSizeRejected, false) else (none, true)
        | some v =>
          if v = exact then (none, false)
          else if exact.natAbs < 2 ^ 53 then (some .suffixMeaning, false)
          else if floatClose v exact then (none, true)
          else (some .sizeWrongValue, false)
  | .parseDur text res =>
    match refDur text with
    | none => (none, false)
    | some exact =>
      if !inRange true exact then
        (match res with | some _ => (some .durOverflowWrapped, false) | none => (none, false))
      else match res with
        | none => (some .validDurRejected, false)
        | some v => if v = exact then (none, false) else (some .durWrongValue, false)

def holdsOn (o : Obs) : Bool := (check o).1.isNone

end Influx.Spec.C34
