/-
  Spec.C01 — the statement of C01, written from the property text:

  "After any sequence of acknowledged point writes to a shard (… out-of-order timestamps,
   overwrites of the same series/field/timestamp), a read of a series field over any time
   range, in ascending or descending order, returns exactly one value per written timestamp
   in range, namely the most recently written one, in time order. This holds no matter when
   cache snapshots and level, full or optimize compactions ran relative to the writes and
   the read."

  The checker looks only at the acknowledged writes and at the rows a read returned; snapshot
  and compaction operations are ignored (that is the point of the property).  It does not use
  any of the model's algorithms: "most recently written" is a search from the end of the write
  history, "exactly one value per written timestamp in range, in time order" is three
  first-order conditions on the returned rows.
-/
import Influx.Proto
import Influx.Model.Engine

namespace Influx.Spec.C01
open Influx.Model.Engine

/-- the most recently written value of (key, time) in the write history `w` (oldest first) -/
def lastWritten (w : List Entry) (k : Key) (t : Int) : Option Int :=
  (w.reverse.find? fun e => e.key = k ∧ e.ts = t).map (·.val)

/-- strictly increasing (ascending read) or strictly decreasing (descending read) timestamps -/
def ordered (asc : Bool) : List Pt → Bool
  | p :: q :: l => (if asc then decide (p.1 < q.1) else decide (q.1 < p.1)) && ordered asc (q :: l)
  | _ => true

/-- every returned row is in range and carries the most recently written value -/
def rowsSound (w : List Entry) (k : Key) (lo hi : Int) (rows : List Pt) : Bool :=
  rows.all fun p => decide (lo ≤ p.1) && decide (p.1 ≤ hi) && (lastWritten w k p.1 == some p.2)

/-- every written timestamp in range is returned -/
def rowsComplete (w : List Entry) (k : Key) (lo hi : Int) (rows : List Pt) : Bool :=
  w.all fun e => !(decide (e.key = k) && decide (lo ≤ e.ts) && decide (e.ts ≤ hi)) || rows.any fun p => p.1 == e.ts

def rowsOK (w : List Entry) (k : Key) (lo hi : Int) (asc : Bool) (rows : List Pt) : Bool :=
  ordered asc rows && rowsSound w k lo hi rows && rowsComplete w k lo hi rows

def readReason (w : List Entry) (k : Key) (lo hi : Int) (asc : Bool) (rows : List Pt) : String :=
  if !ordered asc rows then "not-in-time-order"
  else if !rowsSound w k lo hi rows then "wrong-value"
  else "missing-timestamp"

/-- operations C01 speaks about: writes, reads, snapshot sub-steps (also failing snapshot attempts
    and their retries), compactions of adjacent files -/
def inScope : Op → Bool
  | .write _ | .read .. | .snapBegin | .snapFail | .snapStep | .snapTo _ | .compact .. | .files => true
  | _ => false

/-- `none` = the statement holds on this trace; `some reason` = where it fails.
    `w` = the writes acknowledged so far. -/
def checkFrom (w : List Entry) : List (Op × Obs) → Option String
  | [] => none
  | (.write es, o) :: tr => if o = .ok then checkFrom (w ++ es) tr else some "write-not-acknowledged"
  | (.read k lo hi asc, o) :: tr =>
    match o with
    | .rows r => if rowsOK w k lo hi asc r then checkFrom w tr else some (readReason w k lo hi asc r)
    | _ => some "read-failed"
  | (op, _) :: tr => if inScope op then checkFrom w tr else some "op-outside-C01"

def check (tr : List (Op × Obs)) : Option String := checkFrom [] tr

/-- The statement of C01 on one trace. -/
def holdsOn (tr : List (Op × Obs)) : Bool := (check tr).isNone

end Influx.Spec.C01
