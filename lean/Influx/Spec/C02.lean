/-
  Spec.C02 — the statement of C02, written from the property text:

  "If the process dies at any point (including mid-write of a WAL segment, TSM file, tombstone
   or fields index) and the shard is reopened, every write and delete that returned success
   before the crash is reflected in reads, nothing that was never written appears, and the
   shard accepts further writes. A torn WAL tail is discarded without losing earlier entries."

  The checker keeps the acknowledged write/delete events.  An operation that was IN FLIGHT when
  the process died (the write/delete whose WAL record is torn, the delete interrupted after its
  tombstones) never returned, so it may or may not have taken effect — cell by cell.  The
  checker therefore keeps the finite set of histories that are possible (`worlds`: with and
  without each in-flight operation) and requires of every read:
    * sound     every returned row carries the value some possible history gives that cell
                (nothing that was never written, nothing deleted by an acknowledged delete);
    * complete  a cell that has a value in EVERY possible history is returned
                (acknowledged writes are not lost);
    * ordered.
  Operations after a restart are applied to every world ("accepts further writes").
-/
import Influx.Spec.C03

namespace Influx.Spec.C02
open Influx.Model.Engine Influx.Spec.C03

abbrev Worlds := List (List Ev)

def rowsSound (ws : Worlds) (k : Key) (lo hi : Int) (rows : List Pt) : Bool :=
  rows.all fun p => decide (lo ≤ p.1) && decide (p.1 ≤ hi) && ws.any fun h => cell h k p.1 == some p.2

/-- every cell that is alive in all worlds (it suffices to look at the puts of each world) is returned -/
def rowsComplete (ws : Worlds) (k : Key) (lo hi : Int) (rows : List Pt) : Bool :=
  ws.all fun h0 => h0.all fun
    | .put e => !(decide (e.key = k) && decide (lo ≤ e.ts) && decide (e.ts ≤ hi) &&
                  ws.all fun h => (cell h k e.ts).isSome)
                || rows.any fun p => p.1 == e.ts
    | _ => true

def rowsOK (ws : Worlds) (k : Key) (lo hi : Int) (asc : Bool) (rows : List Pt) : Bool :=
  ordered asc rows && rowsSound ws k lo hi rows && rowsComplete ws k lo hi rows

structure St where
  worlds : Worlds := [[]]
  /-- the worlds before the immediately preceding acknowledged write/delete (the op a torn crash may lose) -/
  prev : Option Worlds := none
  win : Window := {}
deriving Repr

def readReason (st : St) (k : Key) (lo hi : Int) (asc : Bool) (rows : List Pt) : String :=
  if !ordered asc rows then "not-in-time-order:"
  else match rows.find? fun p => !(decide (lo ≤ p.1) && decide (p.1 ≤ hi) && st.worlds.any fun h => cell h k p.1 == some p.2) with
    | some p =>
      if st.worlds.all fun h => deletedAfterWrite h k p.1 p.2 then
        if st.win.victims.contains (k, p.1) then s!"delete-overlaps-inflight-snapshot:s{k.series}f{k.field}t{p.1}"
        else s!"acknowledged-delete-lost:s{k.series}f{k.field}t{p.1}"
      else if st.win.retryVictims.contains (k, p.1) then
        s!"write-after-failed-snapshot-lost:s{k.series}f{k.field}t{p.1}"
      else s!"value-never-written-or-stale:s{k.series}f{k.field}t{p.1}"
    | none =>
      -- which acknowledged cell is missing?
      let missing := st.worlds.findSome? fun h0 => h0.findSome? fun
        | .put e =>
          if decide (e.key = k) && decide (lo ≤ e.ts) && decide (e.ts ≤ hi)
              && (st.worlds.all fun h => (cell h k e.ts).isSome) && !(rows.any fun p => p.1 == e.ts)
          then some e.ts else none
        | _ => none
      match missing with
      | some t =>
        if st.win.retryVictims.contains (k, t) then s!"write-after-failed-snapshot-lost:s{k.series}f{k.field}t{t}"
        else s!"acknowledged-write-lost:s{k.series}f{k.field}t{t}"
      | none => "acknowledged-write-lost:"

def closeWin (w : Window) : Window := w.crash

/-- `none` = the statement holds on this trace; `some reason` = where it fails. -/
def checkFrom (st : St) : List (Op × Obs) → Option String
  | [] => none
  | (.write es, o) :: tr =>
    if o = .ok then
      checkFrom { worlds := st.worlds.map (· ++ es.map .put), prev := some st.worlds,
                  win := { st.win with hotPuts := st.win.hotPuts ++ es.map fun e => (e.key, e.ts) } } tr
    else some "write-not-acknowledged:"
  | (.delete ss lo hi, o) :: tr =>
    if o = .ok then
      let vs := if st.win.isOpen then st.win.snapPuts.filter fun c => covered ss lo hi c.1 c.2 else []
      checkFrom { worlds := st.worlds.map (· ++ [.del ss lo hi]), prev := some st.worlds,
                  win := { st.win with victims := st.win.victims ++ vs } } tr
    else if o = .blocked then checkFrom { st with prev := none } tr
    else some "delete-failed:"
  | (.read k lo hi asc, o) :: tr =>
    match o with
    | .rows r => if rowsOK st.worlds k lo hi asc r then checkFrom { st with prev := none } tr
                 else some (readReason st k lo hi asc r)
    | _ => some "read-failed:"
  | (.snapBegin, o) :: tr =>
    if o = .ok then checkFrom { st with prev := none, win := st.win.begin } tr
    else checkFrom { st with prev := none } tr
  | (.snapFail, o) :: tr =>
    if o = .failed then checkFrom { st with prev := none, win := st.win.fail } tr
    else checkFrom { st with prev := none } tr
  | (.snapTo p, _) :: tr =>
    checkFrom { st with prev := none, win := st.win.snapTo p } tr
  | (.crash tear, o) :: tr =>
    if o = .ok then
      -- a torn tail: the preceding write/delete was in flight
      let ws := if tear then (match st.prev with | some p => st.worlds ++ p | none => st.worlds) else st.worlds
      checkFrom { worlds := ws, prev := none, win := closeWin st.win } tr
    else some "reopen-failed:"
  | (.compactCrash .., o) :: tr =>
    if o = .ok then checkFrom { st with prev := none, win := closeWin st.win } tr
    else some "reopen-failed:"
  | (.deleteCrash ss lo hi, o) :: tr =>
    -- the delete never returned: with and without it
    if o = .ok then
      checkFrom { worlds := st.worlds ++ st.worlds.map (· ++ [.del ss lo hi]), prev := none, win := closeWin st.win } tr
    else if o = .blocked then checkFrom { st with prev := none } tr
    else some "reopen-failed:"
  | (.compactSet _, _) :: _ => some "op-outside-C02:"
  | (_, _) :: tr => checkFrom { st with prev := none } tr

def check (tr : List (Op × Obs)) : Option String := checkFrom {} tr

/-- The statement of C02 on one trace. -/
def holdsOn (tr : List (Op × Obs)) : Bool := (check tr).isNone

end Influx.Spec.C02
