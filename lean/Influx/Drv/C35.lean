import Influx.Proto
import Influx.Model.HLL
import Influx.Spec.C35

open Influx Influx.Proto

namespace Influx.Drv.C35
open Influx.Model.HLL

/-! helpers shared with the Go harness: splitmix64 stream, FNV-1a digest -/

def splitmixNext (s : UInt64) : UInt64 × UInt64 :=
  let s := s + 0x9E3779B97F4A7C15
  let z := s
  let z := (z ^^^ (z >>> 30)) * 0xBF58476D1CE4E5B9
  let z := (z ^^^ (z >>> 27)) * 0x94D049BB133111EB
  (s, z ^^^ (z >>> 31))

def fnv (bs : List Nat) : UInt64 :=
  bs.foldl (fun h b => (h ^^^ UInt64.ofNat b) * 1099511628211) 14695981039346656037

def renderBytes (bs : List Nat) : String :=
  if bs.length ≤ 4096 then hexEncode bs else s!"d{toHex64 (fnv bs).toNat}.{bs.length}"

def renderRegs (r : Array Nat) : String := renderBytes r.toList

abbrev Env := List (Nat × Plus)

def get (e : Env) (v : Nat) : Option Plus := (e.find? (·.1 == v)).map (·.2)
def put (e : Env) (v : Nat) (h : Plus) : Env := (v, h) :: e.filter (·.1 != v)

def addStream (h : Plus) (seed : Nat) (n : Nat) : Plus := Id.run do
  let mut s : UInt64 := UInt64.ofNat seed
  let mut h := h
  for _ in [0:n] do
    let (s', z) := splitmixNext s
    s := s'
    h := add h z.toNat
  return h

def mergeOk (a b : Plus) : Option Plus :=
  match merge a b with
  | .ok h => some h
  | .error _ => none

/-- `NewPlus(p)` then `Merge(h)`: the normalised (dense) copy -/
def normalised (h : Plus) : Option Plus := (newPlus h.p).bind fun e => mergeOk e h

def dumpStr (h : Plus) : String :=
  s!"p={h.p} sparse={boolStr h.sparse} tmp={showNats h.tmpSet} sl={renderBytes (h.sparseVals.flatMap be32)} n={h.sparseVals.length} bytes={h.sparseBytes} dense={renderRegs h.dense}"

def two (l r : Option Plus) : String :=
  match l, r with
  | some l, some r => renderRegs l.dense ++ " " ++ renderRegs r.dense
  | _, _ => "err"

def unionSketches (p seedA nA ov seedB nB : Nat) : Option (Plus × Plus × Plus) := do
  let e ← newPlus p
  let sa := addStream e seedA nA
  let sb := addStream (addStream e seedA ov) seedB nB
  let su := addStream (addStream e seedA nA) seedB nB
  let su := addStream su seedA ov       -- the overlap again: duplicates must not matter
  pure (sa, sb, su)

def step (e : Env) (toks : List String) : Env × String :=
  let nat := fun (s : String) => s.toNat?
  match toks with
  | ["new", v, p] =>
    match nat v, nat p with
    | some v, some p =>
      (match newPlus p with
       | some h => (put e v h, "ok")
       | none => (e, "err"))
    | _, _ => (e, "bad-op")
  | ["add", v, xs] =>
    match nat v, parseNats xs with
    | some v, some xs =>
      (match get e v with
       | some h => (put e v (addAll h xs), "ok")
       | none => (e, "bad-op"))
    | _, _ => (e, "bad-op")
  | ["addr", v, seed, n] =>
    match nat v, nat seed, nat n with
    | some v, some seed, some n =>
      (match get e v with
       | some h => (put e v (addStream h seed n), "ok")
       | none => (e, "bad-op"))
    | _, _, _ => (e, "bad-op")
  | ["merge", d, s] =>
    match nat d, nat s with
    | some d, some s =>
      (match get e d, get e s with
       | some hd, some hs =>
         (match merge hd hs with
          | .ok h => (put e d h, "ok")
          | .error .precision => (e, "err")
          | .error .size => (e, "*"))
       | _, _ => (e, "bad-op"))
    | _, _ => (e, "bad-op")
  | ["clone", d, s] =>
    match nat d, nat s with
    | some d, some s =>
      (match get e s with
       | some hs => (put e d hs, "ok")
       | none => (e, "bad-op"))
    | _, _ => (e, "bad-op")
  | ["count", v] =>
    match nat v with
    | some v =>
      (match get e v with
       | some h => (put e v (countEffect h), "*")
       | none => (e, "bad-op"))
    | none => (e, "bad-op")
  | ["dump", v] =>
    match nat v with
    | some v => (match get e v with | some h => (e, dumpStr h) | none => (e, "bad-op"))
    | none => (e, "bad-op")
  | ["marshal", v] =>
    match nat v with
    | some v =>
      (match get e v with
       | some h => let (h', bs) := marshal h; (put e v h', renderBytes bs)
       | none => (e, "bad-op"))
    | none => (e, "bad-op")
  | ["unm", d, s] =>
    match nat d, nat s with
    | some d, some s =>
      (match get e s with
       | some hs =>
         let (hs', bs) := marshal hs
         (match unmarshal bs with
          | .ok h => (put (put e s hs') d h, "ok")
          | .error .short => (put e s hs', "err-short")
          | .error .precision => (put e s hs', "err-prec")
          | .error .malformed => (put e s hs', "*"))
       | none => (e, "bad-op"))
    | _, _ => (e, "bad-op")
  | ["unmraw", d, hex] =>
    match nat d, hexDecode hex with
    | some d, some bs =>
      (match unmarshal bs with
       | .ok h => (put e d h, "ok")
       | .error .short => (e, "err-short")
       | .error .precision => (e, "err-prec")
       | .error .malformed => (e, "*"))
    | _, _ => (e, "bad-op")
  | ["regs", v] =>
    match nat v with
    | some v =>
      (match (get e v).bind normalised with
       | some h => (e, renderRegs h.dense)
       | none => (e, "bad-op"))
    | none => (e, "bad-op")
  | ["comm", a, b] =>
    match (nat a).bind (get e), (nat b).bind (get e) with
    | some a, some b => (e, two (mergeOk a b) (mergeOk b a))
    | _, _ => (e, "bad-op")
  | ["assoc", a, b, c] =>
    match (nat a).bind (get e), (nat b).bind (get e), (nat c).bind (get e) with
    | some a, some b, some c =>
      (e, two ((mergeOk a b).bind fun ab => mergeOk ab c) ((mergeOk b c).bind fun bc => mergeOk a bc))
    | _, _, _ => (e, "bad-op")
  | ["idem", a] =>
    match (nat a).bind (get e) with
    | some a => (e, two (mergeOk a a) (normalised a))
    | none => (e, "bad-op")
  | ["mrt", a] =>
    match (nat a).bind (get e) with
    | some a =>
      let (a', bs) := marshal a
      (match unmarshal bs with
       | .ok b => (e, two (normalised b) (normalised a'))
       | .error _ => (e, "err"))
    | none => (e, "bad-op")
  | ["union", p, seedA, nA, ov, seedB, nB] =>
    match nat p, nat seedA, nat nA, nat ov, nat seedB, nat nB with
    | some p, some seedA, some nA, some ov, some seedB, some nB =>
      (match unionSketches p seedA nA ov seedB nB with
       | some (sa, sb, su) => (e, two (mergeOk sa sb) (normalised su))
       | none => (e, "err"))
    | _, _, _, _, _, _ => (e, "bad-op")
  | "realx" :: _ => (e, "*")
  | "commc" :: _ => (e, "*")
  | "assocc" :: _ => (e, "*")
  | "idemc" :: _ => (e, "*")
  | "mrtc" :: _ => (e, "*")
  | "unionc" :: _ => (e, "*")
  | _ => (e, "bad-op")

/-! oracle -/
open Influx.Spec.C35 in
def judge (o : Obs) (toks : List String) (tags : List String) : Verdict :=
  if holdsOn o then Verdict.pass true tags
  else { (Verdict.fail (signature o ++ ":" ++ "_".intercalate toks)) with tags := tags }

open Influx.Spec.C35 in
def lawOf (op : String) : Option (Law × Bool) :=
  if op = "comm" then some (.comm, false) else if op = "commc" then some (.comm, true)
  else if op = "assoc" then some (.assoc, false) else if op = "assocc" then some (.assoc, true)
  else if op = "idem" then some (.idem, false) else if op = "idemc" then some (.idem, true)
  else if op = "mrt" then some (.mrt, false) else if op = "mrtc" then some (.mrt, true)
  else if op = "union" then some (.union, false) else if op = "unionc" then some (.union, true)
  else none

open Influx.Spec.C35 in
def oracleStep (toks : List String) (ans : String) : Verdict :=
  let bad := Verdict.fail ("unparsable-answer:" ++ "_".intercalate toks ++ "=" ++ ((ans.take 40).toString.replace " " "_"))
  match toks with
  | op :: args =>
    match lawOf op with
    | some (law, false) =>
      (match tokens ans with
       | [l, r] => judge (.regs law l r) toks ["regs-" ++ law.name]
       | ["err"] => Verdict.pass false ["law-refused"]     -- a Merge of different precisions was refused
       | _ => bad)
    | some (law, true) =>
      if ans = "err" then Verdict.pass false ["law-refused"] else
      (match (tokens ans).map String.toNat? with
       | [some l, some r] => judge (.count law l r) toks ["count-" ++ law.name]
       | [some l, some r, some n] =>
         -- unionc: both estimates and the true number of distinct hashes
         let p := (args.head?.bind String.toNat?).getD 0
         ((judge (.count law l r) toks ["count-" ++ law.name]).and
           (judge (.estimate p n l) toks [errorClass p n l])).and (judge (.estimate p n r) toks [])
       | _ => bad)
    | none =>
      if op = "count" then
        -- estimate, number of distinct hashes that went into the sketch, precision
        (match (tokens ans).map String.toNat? with
         | [some est, some n, some p] => judge (.estimate p n est) toks ["count", errorClass p n est]
         | _ => bad)
      else if op = "realx" then
        (match (tokens ans).map String.toNat? with
         | [some c1, some n1, some c2, some n2] =>
           (judge (.estimate 16 n1 c1) toks ["real-xxhash", errorClass 16 n1 c1]).and
             (judge (.estimate 16 n2 c2) toks [errorClass 16 n2 c2])
         | _ => bad)
      else if ans.startsWith "panic" ∨ ans = "timeout" ∨ ans = "crash" then bad
      else Verdict.pass false [op]
  | _ => Verdict.fail "bad-line"

def oracle (obs : List (List String × String)) : Verdict :=
  obs.foldl (fun v (t, a) => v.and (oracleStep t a)) (Verdict.pass false)

def driver : Driver Env := { init := [], step := step, oracle := oracle }

end Influx.Drv.C35

def main (args : List String) : IO UInt32 := Influx.Drv.C35.driver.main args
