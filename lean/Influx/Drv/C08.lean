import Influx.Proto
import Influx.Model.TsmOps
import Influx.Spec.C08

open Influx Influx.Proto Influx.Tsm

namespace Influx.Drv.C08

/-! ## tokens → operations -/

def pKey (s : String) : Option Key := if s = "." then some [] else if s = "-" then none else hexDecode s
def pKeys (s : String) : Option (List Key) := if s = "-" then some [] else (s.splitOn ",").mapM pKey
def pInt (s : String) : Option Int := do
  let v ← s.toInt?
  if minInt64 ≤ v ∧ v ≤ maxInt64 then some v else none
def pBytes (s : String) : Option Bytes := hexDecode s

def pPts (ts vs : String) : Option (List Pt) := do
  let ts ← parseInts ts
  let vs ← parseInts vs
  if ts.length ≠ vs.length then none else
  if ts.all (fun t => decide (minInt64 ≤ t ∧ t ≤ maxInt64)) then some (ts.zip vs) else none

def parseOp : List String → Option Op
  | ["wb", k, lo, hi, b] => do some (.wb (← pKey k) (← pInt lo) (← pInt hi) (← pBytes b) none)
  | ["w", k, b, ts, vs] => do
    let ps ← pPts ts vs
    match ps.head?, ps.getLast? with
    | some p0, some pN => some (.wb (← pKey k) p0.1 pN.1 (← pBytes b) (some ps))
    | _, _ => some (.wb (← pKey k) 0 0 [] (some []))
  | ["wbv", k, b, ts, vs] => do
    let ps ← pPts ts vs
    match ps.head?, ps.getLast? with
    | some p0, some pN => some (.wb (← pKey k) p0.1 pN.1 (← pBytes b) (some ps))
    | _, _ => none
  | ["wbn", k, n, t0, st, b] => do some (.wbn (← pKey k) (← n.toNat?) (← pInt t0) (← pInt st) (← pBytes b))
  | ["wsize"] => some .wsize | ["wi"] => some .wi | ["file"] => some .file | ["index"] => some .index
  | ["filelen"] => some .filelen | ["open"] => some .open_ | ["close"] => some .close | ["reopen"] => some .reopen
  | ["keycount"] => some .keycount
  | ["keyat", i] => do some (.keyat (← pInt i))
  | ["key", i] => do some (.key (← pInt i))
  | ["seek", k] => do some (.seek (← pKey k))
  | ["contains", k] => do some (.contains (← pKey k))
  | ["containsvalue", k, t] => do some (.containsvalue (← pKey k) (← pInt t))
  | ["entries", k] => do some (.entries (← pKey k))
  | ["entry", k, t] => do some (.entry (← pKey k) (← pInt t))
  | ["type", k] => do some (.typ (← pKey k))
  | ["timerange"] => some .timerange | ["keyrange"] => some .keyrange
  | ["overlapstime", a, b] => do some (.overlapstime (← pInt a) (← pInt b))
  | ["overlapskey", a, b] => do some (.overlapskey (← pKey a) (← pKey b))
  | ["tombrange", k] => do some (.tombrange (← pKey k))
  | ["hastomb"] => some .hastomb
  | ["readbytes", k, i] => do some (.readbytes (← pKey k) (← pInt i))
  | ["readall", k] => do some (.readall (← pKey k))
  | ["read", k, t] => do some (.read (← pKey k) (← pInt t))
  | ["iter"] => some .iter
  | ["del", ks] => do some (.del (← pKeys ks))
  | ["delrange", ks, a, b] => do some (.delrange (← pKeys ks) (← pInt a) (← pInt b))
  | ["bd.begin"] => some .bdBegin
  | ["bd.range", ks, a, b] => do some (.bdRange (← pKeys ks) (← pInt a) (← pInt b))
  | ["bd.commit"] => some .bdCommit | ["bd.rollback"] => some .bdRollback
  | ["walk"] => some .walk
  | ["crash", ks, a, b, st] => do
    let n ← st.toNat?
    if n < 1 then none else some (.crash (← pKeys ks) (← pInt a) (← pInt b) n)
  | ["ts.new"] => some .tsNew
  | ["ts.add", ks] => do some (.tsAdd (← pKeys ks))
  | ["ts.addrange", ks, a, b] => do some (.tsAddRange (← pKeys ks) (← pInt a) (← pInt b))
  | ["ts.flush"] => some .tsFlush | ["ts.rollback"] => some .tsRollback | ["ts.delete"] => some .tsDelete
  | ["ts.has"] => some .tsHas | ["ts.walk"] => some .tsWalk | ["ts.walkfresh"] => some .tsWalkFresh
  | _ => none

/-! ## answers ↔ text -/

def rKey (k : Key) : String := if k.isEmpty then "." else hexEncode k
def rEntry (e : IndexEntry) : String := s!"{e.MinTime}:{e.MaxTime}:{e.Offset}:{e.Size}"
def rEntries (es : List IndexEntry) : String := joinComma (es.map rEntry)
def rRanges (rs : List TimeRange) : String := joinComma (rs.map fun r => s!"{r.Min}:{r.Max}")
def rTombs (ts : List Tombstone) : String := joinComma (ts.map fun t => s!"{rKey t.key}:{t.min}:{t.max}")
def rPts (ps : List Pt) : String := joinComma (ps.map fun p => s!"{p.1}:{p.2}")
def rBlock (b : BlockObs) : String := s!"{rKey b.key}/{b.minT}/{b.maxT}/{b.typ}/{b.crc}/{hexEncode b.data}"
def rOut : Option (List Tombstone) → String
  | some ts => rTombs ts
  | none => "err"

def render : Ans → String
  | .ok => "ok" | .dead => "dead" | .nil => "nil" | .star => "*" | .bad => "bad-op"
  | .err e => if e.startsWith "panic:" then e else "err:" ++ e
  | .num n => toString n
  | .bool b => boolStr b
  | .keyTyp k t => s!"{rKey k} {t}"
  | .keyFull k t es => s!"{rKey k} {t} {rEntries es}"
  | .entries es => rEntries es
  | .times a b => s!"{a} {b}"
  | .keys2 a b => s!"{rKey a} {rKey b}"
  | .ranges rs => rRanges rs
  | .bytes b => hexEncode b
  | .crcBytes c b => s!"{c} {hexEncode b}"
  | .points ps => rPts ps
  | .tombs ts => rTombs ts
  | .blocks bs => if bs.isEmpty then "-" else ";".intercalate (bs.map rBlock)
  | .runs rs => joinComma (rs.map fun r => s!"{r.1}*{r.2}")
  | .crash pfx old new outs => s!"pfx={boolStr pfx} old={rTombs old} new={rTombs new} outs={"|".intercalate (outs.map rOut)}"

def pEntry (s : String) : Option IndexEntry :=
  match s.splitOn ":" with
  | [a, b, c, d] => do some ⟨← a.toInt?, ← b.toInt?, ← c.toInt?, ← d.toNat?⟩
  | _ => none
def pEntries (s : String) : Option (List IndexEntry) := (splitComma s).mapM pEntry
def pRanges (s : String) : Option (List TimeRange) :=
  (splitComma s).mapM fun x => match x.splitOn ":" with
    | [a, b] => do some ⟨← a.toInt?, ← b.toInt?⟩
    | _ => none
def pTombs (s : String) : Option (List Tombstone) :=
  (splitComma s).mapM fun x => match x.splitOn ":" with
    | [k, a, b] => do some ⟨← pKey k, ← a.toInt?, ← b.toInt?⟩
    | _ => none
def pPoints (s : String) : Option (List Pt) :=
  (splitComma s).mapM fun x => match x.splitOn ":" with
    | [a, b] => do some (← a.toInt?, ← b.toInt?)
    | _ => none
def pBlock (s : String) : Option BlockObs :=
  match s.splitOn "/" with
  | [k, a, b, t, c, d] => do some ⟨← pKey k, ← a.toInt?, ← b.toInt?, ← t.toNat?, ← c.toNat?, ← pBytes d⟩
  | _ => none
def pErr (s : String) : Option Ans :=
  if s.startsWith "err:" then some (.err (s.drop 4).toString)
  else if s.startsWith "panic:" then some (.err s) else none

def dropPrefix? (s p : String) : Option String :=
  if s.startsWith p then some (s.drop p.length).toString else none

/-- the implementation's answer to `op`, parsed (`bad` when it has no reading) -/
def parseAns (op : Op) (s : String) : Ans :=
  if s = "ok" then .ok else if s = "dead" then .dead else if s = "nil" then .nil else
  match pErr s with
  | some e => e
  | none =>
  let o (x : Option Ans) : Ans := x.getD .bad
  match op with
  | .wbn .. => o do
      let rs ← (splitComma s).mapM fun x => match x.splitOn "*" with
        | [a, n] => do some (a, ← n.toNat?)
        | _ => none
      some (.runs rs)
  | .wsize | .filelen | .keycount | .seek _ | .typ _ => o (s.toInt?.map .num)
  | .file | .index => o ((pBytes s).map .bytes)
  | .keyat _ => o (match tokens s with
      | [k, t] => do some (.keyTyp (← pKey k) (← t.toNat?))
      | _ => none)
  | .key _ => o (match tokens s with
      | [k, t, es] => do some (.keyFull (← pKey k) (← t.toNat?) (← pEntries es))
      | _ => none)
  | .contains _ | .containsvalue .. | .overlapstime .. | .overlapskey .. | .hastomb | .tsHas => o ((parseBool s).map .bool)
  | .entries _ | .entry .. => o ((pEntries s).map .entries)
  | .timerange => o (match tokens s with
      | [a, b] => do some (.times (← a.toInt?) (← b.toInt?))
      | _ => none)
  | .keyrange => o (match tokens s with
      | [a, b] => do some (.keys2 (← pKey a) (← pKey b))
      | _ => none)
  | .tombrange _ => o ((pRanges s).map .ranges)
  | .readbytes .. => o (match tokens s with
      | [c, b] => do some (.crcBytes (← c.toNat?) (← pBytes b))
      | _ => none)
  | .readall _ | .read .. => o ((pPoints s).map .points)
  | .iter => o (if s = "-" then some (.blocks []) else ((s.splitOn ";").mapM pBlock).map .blocks)
  | .walk | .tsWalk | .tsWalkFresh => o ((pTombs s).map .tombs)
  | .crash .. => o (match tokens s with
      | [p, a, b, c] => do
        let p ← dropPrefix? p "pfx="
        let a ← dropPrefix? a "old="
        let b ← dropPrefix? b "new="
        let c ← dropPrefix? c "outs="
        some (.crash (← parseBool p) (← pTombs a) (← pTombs b) ((c.splitOn "|").map pTombs))
      | _ => none)
  | _ => .bad

/-! ## the driver -/

structure DState where
  s : State

def init : DState := ⟨State.init crc32⟩

def stepTok (d : DState) (toks : List String) : DState × String :=
  match parseOp toks with
  | none => (d, "bad-op")
  | some op =>
    let (s, a) := step d.s op
    (⟨s⟩, render a)

def knownSigs : List String := ["seek-past-end", "timerange-max-clamped", "empty-key-merged"]

def oracle (obs : List (List String × String)) : Verdict :=
  let parsed := obs.map fun (toks, ans) => (parseOp toks).map fun op => (op, parseAns op ans)
  if parsed.any (·.isNone) then Verdict.fail "bad-line" else
  let tr := parsed.filterMap id
  let r := Spec.C08.check tr
  match r.fails with
  | [] => { ok := true, nontrivial := r.nontrivial, tags := r.tags }
  | f :: _ =>
    -- a failure with a signature that is not a recorded one is reported first
    let pick := (r.fails.find? fun x => !knownSigs.contains ((x.splitOn ":").headD "")).getD f
    { ok := false, nontrivial := true, tags := r.tags, reason := pick.replace " " "_" }

def driver : Driver DState := { init := init, step := stepTok, oracle := oracle }

end Influx.Drv.C08

def main (args : List String) : IO UInt32 := Influx.Drv.C08.driver.main args
