import Influx.Proto
import Influx.Model.StoreDelProto
import Influx.Spec.C42

open Influx Influx.Proto
open Influx.Model.DelPred (Bytes)
open Influx.Model.StoreDel
open Influx.Spec.C42 (Ans Verd Hist)

namespace Influx.Drv.C42

def parseNames (s : String) : Option (List Bytes) := (splitComma s).mapM hexDecode

def parseGroups (s : String) : Option (List (Bytes × List Bytes)) :=
  if s = "-" then some [] else
  (s.splitOn ";").mapM fun g =>
    match g.splitOn "=" with
    | [m, ks] => match hexDecode m, parseNames ks with
      | some mb, some l => some (mb, l)
      | _, _ => none
    | _ => none

def parsePairs (s : String) : Option (List (Bytes × List (Bytes × Bytes))) :=
  if s = "-" then some [] else
  (s.splitOn ";").mapM fun g =>
    match g.splitOn "=" with
    | [m, kvs] =>
      match hexDecode m, (splitComma kvs).mapM (fun kv => match kv.splitOn ":" with
          | [k, v] => match hexDecode k, hexDecode v with
            | some kb, some vb => some (kb, vb)
            | _, _ => none
          | _ => none) with
      | some mb, some l => some (mb, l)
      | _, _ => none
    | _ => none

def parseAns (op : Op) (s : String) : Ans :=
  if s.startsWith "err" ∨ s.startsWith "panic" ∨ s = "timeout" ∨ s = "skipped" ∨ s = "bad-op" ∨ s = "ok" then .other s else
  match op with
  | .mn .. => (parseNames s).elim (.other s) .names
  | .tk .. => (parseGroups s).elim (.other s) .groups
  | .tv .. => (parsePairs s).elim (.other s) .pairs
  | _ => .other s

def sigOf (h : Hist) (op : Op) (ans : Ans) (v : Verd) : String :=
  match v with
  | .ok => ""
  | .unsorted => "unsorted"
  | .wrongSet =>
    match ans with
    | .other _ => "no-answer"
    | _ =>
      let ret := Spec.C42.returned ans
      let lo := Spec.C42.expected h.live op
      let hi := Spec.C42.expected (h.live ++ h.dead) op
      -- explained by index entries of deleted series that linger while their measurement lives on
      if Spec.C42.subset lo ret && Spec.C42.subset ret hi then "stale-tag-entry"
      else match op with
        | .mn _ (some c) => if condOK c then "mismatch" else "measurement-level-condition"
        | _ => "mismatch"

def oracle (obs : List (List String × String)) : Verdict :=
  let parsed := obs.map fun (toks, ans) => (toks, parseOp toks, ans)
  let badLines := parsed.filter fun (_, op, ans) => op.isNone && ans ≠ "bad-op"
  let goodT : List (List String × Op × Ans) := parsed.filterMap fun (toks, op, ans) => op.map fun o => (toks, o, parseAns o ans)
  let good : List (Op × Ans) := goodT.map (·.2)
  let ok := Spec.C42.holdsOn good && badLines.isEmpty
  -- replay the history to attach a signature to every failing observation
  let rec walk (h : Hist) : List (List String × Op × Ans) → List (String × List String)
    | [] => []
    | (toks, op, ans) :: rest =>
      match op with
      | .write sh name tags pts =>
        walk (match ans with | .other "ok" => h.write sh name tags (pts.map (·.1)) | _ => h) rest
      | .del lo hi pred _ =>
        walk (match ans with | .other "ok" => h.delete lo hi pred | _ => h) rest
      | .mn .. | .tk .. | .tv .. =>
        let v := Spec.C42.judgeQuery h.live op ans
        (if v = .ok then [] else [(sigOf h op ans v, toks)]) ++ walk h rest
      | _ => walk h rest
  let ss := walk ⟨[], []⟩ goodT
  let pick (s : String) := ss.find? (·.1 = s)
  let chosen : String × List String :=
    if !badLines.isEmpty then ("bad-line", (badLines.head?.map (·.1)).getD [])
    else match pick "mismatch" with
      | some x => x
      | none => match pick "unsorted" with
        | some x => x
        | none => match pick "no-answer" with
          | some x => x
          | none => ss.headD ("unknown", [])
  let nq := good.filter fun (op, _) => match op with | .mn .. | .tk .. | .tv .. => true | _ => false
  let has (p : Op → Bool) := good.any fun (op, _) => p op
  let tags :=
    (if has (fun o => match o with | .mn .. => true | _ => false) then ["mn"] else []) ++
    (if has (fun o => match o with | .tk .. => true | _ => false) then ["tk"] else []) ++
    (if has (fun o => match o with | .tv .. => true | _ => false) then ["tv"] else []) ++
    (if has (fun o => match o with | .del .. => true | _ => false) then ["with-delete"] else []) ++
    (if has (fun o => match o with | .mn (.deny ..) _ | .tk (.deny ..) .. | .tv (.deny ..) .. => true | _ => false) then ["fine-auth"] else []) ++
    (if nq.any (fun (_, a) => match a with | .names (_ :: _) | .groups (_ :: _) | .pairs (_ :: _) => true | _ => false) then ["nonempty-answer"] else [])
  { ok := ok, nontrivial := !nq.isEmpty, tags := tags,
    reason := if ok then "" else chosen.1 ++ ":" ++ "_".intercalate chosen.2 }

def driver : Driver (Option State) := { init := none, step := step, oracle := oracle }

end Influx.Drv.C42

def main (args : List String) : IO UInt32 := Influx.Drv.C42.driver.main args
