import Influx.Proto
import Influx.Model.MetaProto
import Influx.Spec.C19

open Influx Influx.Proto Influx.Meta

namespace Influx.Drv.C19

def step (s : State) (toks : List String) : State × String :=
  match parseOp toks with
  | some op => let r := Meta.step s op; (r.1, render r.2)
  | none => (s, "bad-op")

def opTag : Op → String
  | .ms _ _ (some _) _ => "ms:cutoff"
  | .ms _ _ none _ => "ms:infinite"
  | .exp .. => "exp"
  | .dc .. => "dc"
  | _ => "other"

/-- failure signature of one judged pair -/
def failSig : Op × Obs → String
  | (.ms _ _ cutoff ts, .mapping m) =>
    if (ts.zip m.placements).any (fun (t, p) => p != Placement.dropped && Spec.C19.tooOld cutoff t) then "old-point-accepted"
    else if (ts.zip m.placements).any (fun (t, p) => p == Placement.dropped && !Spec.C19.tooOld cutoff t) then "live-point-dropped"
    else "dropped-count"
  | (.exp .., _) => "expired-not-older"
  | (.dc .., _) => "deletion-touches-live-shard"
  | _ => "?"

def oracle (obs : List (List String × String)) : Verdict :=
  let parsed := obs.map fun (toks, ans) =>
    match parseOp toks with
    | some op => (some op, parseObs op ans, toks, ans)
    | none => (none, none, toks, ans)
  -- an op line the protocol does not know must be answered `bad-op`
  match parsed.find? (fun (op, o, _, ans) => (op.isNone && ans != "bad-op") || (op.isSome && o.isNone)) with
  | some (_, _, toks, ans) => Verdict.fail ("bad-line:" ++ "_".intercalate toks ++ "=>" ++ ans.replace " " "_")
  | none =>
    let tr : List (Op × Obs) := parsed.filterMap fun (op, o, _, _) =>
      match op, o with
      | some op, some o => some (op, o)
      | _, _ => none
    let judged := tr.filter fun (op, o) => match op, o with
      | .ms .., .mapping _ => true
      | .exp .., .expired .. => true
      | .dc .., .dc .. => true
      | _, _ => false
    let inDom := tr.all fun p => Spec.C19.opInDomain p.1
    let tags := (judged.map (opTag ·.1)).eraseDups ++ (if inDom then [] else ["out-of-domain"])
    if Spec.C19.holdsOn tr then
      { ok := true, nontrivial := !(judged.filter fun p => inDom || opTag p.1 == "exp").isEmpty, tags := tags }
    else
      match tr.find? (fun p => !Spec.C19.holdsExp p || (inDom && !Spec.C19.holdsOp p)) with
      | some p => { ok := false, nontrivial := true, tags := tags,
                    reason := failSig p ++ ":" ++ (render p.2).replace " " "_" }
      | none => Verdict.fail "holdsOn-false"

def driver : Driver State := { init := State.init, step := step, oracle := oracle }

end Influx.Drv.C19

def main (args : List String) : IO UInt32 := Influx.Drv.C19.driver.main args
