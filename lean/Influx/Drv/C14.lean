/-
  Drv.C14 — string shell around Model.TSI / Spec.C14 (ops: see go/cmd/c14/main.go).
-/
import Influx.Proto
import Influx.Model.TSI
import Influx.Spec.C14

open Influx Influx.Proto Influx.Model.TSI

namespace Influx.Drv.C14

def okName (s : String) : Bool :=
  s ≠ "" && s.toList.all (fun c => ('a' ≤ c ∧ c ≤ 'z') ∨ ('0' ≤ c ∧ c ≤ '9'))

def parseTags (s : String) : Option Tags :=
  (splitComma s).mapM fun p =>
    match p.splitOn "=" with
    | [k, v] => if okName k && okName v then some (k, v) else none
    | _ => none

def parseOp : List String → Option Op
  | ["cfg", n] => n.toNat?.map .cfg
  | ["c", id, part, name, tags] => do
    let id ← id.toNat?
    let part ← part.toNat?
    if !okName name then none
    let tags ← parseTags tags
    some (.create id part name tags)
  | ["x", id] => id.toNat?.map .dropSeries
  | ["xi", id] => id.toNat?.map .dropSeriesIndexOnly
  | ["xm", name] => if okName name then some (.dropMeasurement name) else none
  | ["xmi", name] => if okName name then some (.dropMeasurementIndexOnly name) else none
  | ["roll", p] => p.toNat?.map .roll
  | ["clog", p] => p.toNat?.map .compactLog
  | ["clvl", p, l] => do some (.compactLevel (← p.toNat?) (← l.toNat?))
  | ["reopen"] => some .reopen
  | ["crash", p, k, e] => do some (.crash (← p.toNat?) (← k.toNat?) (← e.toNat?))
  | ["ms"] => some .measurements
  | ["tk", n] => if okName n then some (.tagKeys n) else none
  | ["tv", n, k] => if okName n && okName k then some (.tagValues n k) else none
  | ["sm", n] => if okName n then some (.measurementSeries n) else none
  | ["sk", n, k] => if okName n && okName k then some (.tagKeySeries n k) else none
  | ["sv", n, k, v] => if okName n && okName k && okName v then some (.tagValueSeries n k v) else none
  | _ => none

def renderObs : Obs → String
  | .ok => "ok"
  | .names l => "names " ++ joinComma l
  | .ids l => "ids " ++ showNats l
  | .rejected => "bad-op"
  | .err => "err"

def parseObs (s : String) : Option Obs :=
  match tokens s with
  | ["ok"] => some .ok
  | ["bad-op"] => some .rejected
  | ["names", l] => some (.names (splitComma l))
  | ["ids", l] => (parseNats l).map .ids
  | _ => if s.startsWith "err" then some .err else none

def step (st : State) (toks : List String) : State × String :=
  match parseOp toks with
  | none => (st, "bad-op")
  | some op => let (st', o) := Model.TSI.step st op; (st', renderObs o)

def opTag : Op → String
  | .cfg _ => "cfg" | .create .. => "create" | .dropSeries _ => "drop-series"
  | .dropSeriesIndexOnly _ => "drop-series-index-only" | .dropMeasurement _ => "drop-measurement"
  | .dropMeasurementIndexOnly _ => "drop-measurement-index-only"
  | .roll _ => "roll" | .compactLog _ => "compact-log" | .compactLevel .. => "compact-level"
  | .reopen => "reopen" | .crash .. => "crash" | .measurements => "q-measurements"
  | .tagKeys _ => "q-tag-keys" | .tagValues .. => "q-tag-values" | .measurementSeries _ => "q-series"
  | .tagKeySeries .. => "q-key-series" | .tagValueSeries .. => "q-value-series"

def addTag (l : List String) (t : String) : List String := if l.contains t then l else l ++ [t]

/-- per candidate: the first answer at each non-exact grade (for the failure text). -/
structure Expl where
  stale : String := ""
  phantom : String := ""
  missing : String := ""

def Expl.note (e : Expl) (g : Spec.C14.Grade) (line : String) : Expl :=
  match g with
  | .exact => e
  | .stale => if e.stale = "" then { e with stale := line } else e
  | .phantom => if e.phantom = "" then { e with phantom := line } else e
  | .missing => if e.missing = "" then { e with missing := line } else e

structure Acc where
  c : Spec.C14.Cands := {}
  /-- explanations, parallel to `c.ws` -/
  ex : List Expl := [{}]
  tags : List String := []
  nonEmptyAnswers : Nat := 0
  mutations : Nat := 0

/-- answers the harness library gives when an operation ran out of time (machine load) or
    the rest of a case was skipped after that: the case is judged up to there only. -/
def harnessNoise (ans : String) : Bool := ans = "timeout" || ans = "skipped"

def oracle (obs0 : List (List String × String)) : Verdict :=
  let obs := obs0.takeWhile (fun x => !harnessNoise x.2)
  let parsed := obs.map fun (toks, ans) => (toks, parseOp toks, parseObs ans)
  if parsed.any (fun (_, p, o) => p.isNone || o.isNone) then Verdict.fail "bad-line" else
  let tr : List (List String × Op × Obs) := parsed.filterMap fun (t, p, o) =>
    match p, o with
    | some p, some o => some (t, p, o)
    | _, _ => none
  let acc := tr.foldl (fun (a : Acc) (x : List String × Op × Obs) =>
    let (toks, op, o) := x
    let line := "_".intercalate toks ++ ":got=" ++ (renderObs o).replace " " "="
    let c' := Spec.C14.stepCheck a.c op o
    -- explanations follow the candidates: queries keep them aligned, a crash multiplies them
    let ex' :=
      if Spec.C14.isQuery op then
        (a.c.ws.zip a.ex).map (fun (k, e) => e.note (Spec.C14.grade k.w op o) line)
      else
        match op, o with
        | .crash _ _ _, .ok => (a.c.ws.zip a.ex).flatMap (fun (k, e) => k.during.map (fun _ => e))
        | _, _ => a.ex
    let a := { a with c := c', ex := ex', tags := addTag a.tags (opTag op) }
    if Spec.C14.isQuery op then
      (match o with
       | .names (_ :: _) => { a with nonEmptyAnswers := a.nonEmptyAnswers + 1 }
       | .ids (_ :: _) => { a with nonEmptyAnswers := a.nonEmptyAnswers + 1 }
       | _ => a)
    else { a with mutations := a.mutations + 1 }) ({} : Acc)
  let trace := tr.map fun (_, p, o) => (p, o)
  let g := Spec.C14.gradeOf trace
  let ok := Spec.C14.holdsOn trace
  -- the explanation of the best candidate
  let best := (acc.c.ws.zip acc.ex).foldl (fun (b : Option (Spec.C14.Cand × Expl)) ke =>
    match b with
    | none => some ke
    | some (k0, e0) => if ke.1.worst.rank < k0.worst.rank then some ke else some (k0, e0)) none
  match best with
  | none => Verdict.fail "oracle-inconsistent"
  | some (k, e) =>
    if k.worst != g || acc.c.ws.length != acc.ex.length then Verdict.fail "oracle-inconsistent" else
    let tags := match g with
      | .exact => acc.tags
      | .stale => addTag acc.tags "stale-listing"
      | .phantom => addTag acc.tags "phantom"
      | .missing => addTag acc.tags "missing"
    { ok := ok, nontrivial := acc.nonEmptyAnswers > 0 && acc.mutations > 1, tags := tags,
      reason := match g with
        | .exact => ""
        | .stale => "stale-tag-listing:" ++ e.stale
        | .phantom => "phantom-in-view:" ++ e.phantom
        | .missing => "missing-in-view:" ++ e.missing }

def driver : Driver State := { init := {}, step := step, oracle := oracle }

end Influx.Drv.C14

def main (args : List String) : IO UInt32 := Influx.Drv.C14.driver.main args
