/-
  Drv.C14 — string shell around Model.TSI / Spec.C14 (ops: see go/cmd/c14/main.go).
-/
import Influx.Proto
import Influx.Model.TSI
import Influx.Spec.C14

open Influx Influx.Proto Influx.Model.TSI

namespace Influx.Drv.C14

def okName (s : String) : Bool :=
  s ≠ "" && s.toList.all (fun c => ('a' ≤ c ∧ c ≤ 'z') ∨ ('0' ≤ c ∧ c ≤ '9'))

def parseTags (s : String) : Option Tags :=
  (splitComma s).mapM fun p =>
    match p.splitOn "=" with
    | [k, v] => if okName k && okName v then some (k, v) else none
    | _ => none

def parseOp : List String → Option Op
  | ["cfg", n] => n.toNat?.map .cfg
  | ["c", id, part, name, tags] => do
    let id ← id.toNat?
    let part ← part.toNat?
    if !okName name then none
    let tags ← parseTags tags
    some (.create id part name tags)
  | ["x", id] => id.toNat?.map .dropSeries
  | ["xi", id] => id.toNat?.map .dropSeriesIndexOnly
  | ["xm", name] => if okName name then some (.dropMeasurement name) else none
  | ["xmi", name] => if okName name then some (.dropMeasurementIndexOnly name) else none
  | ["roll", p] => p.toNat?.map .roll
  | ["clog", p] => p.toNat?.map .compactLog
  | ["clvl", p, l] => do some (.compactLevel (← p.toNat?) (← l.toNat?))
  | ["reopen"] => some .reopen
  | ["crash", p, k, e] => do some (.crash (← p.toNat?) (← k.toNat?) (← e.toNat?))
  | ["ms"] => some .measurements
  | ["tk", n] => if okName n then some (.tagKeys n) else none
  | ["tv", n, k] => if okName n && okName k then some (.tagValues n k) else none
  | ["sm", n] => if okName n then some (.measurementSeries n) else none
  | ["sk", n, k] => if okName n && okName k then some (.tagKeySeries n k) else none
  | ["sv", n, k, v] => if okName n && okName k && okName v then some (.tagValueSeries n k v) else none
  | _ => none

def renderObs : Obs → String
  | .ok => "ok"
  | .names l => "names " ++ joinComma l
  | .ids l => "ids " ++ showNats l
  | .rejected => "bad-op"
  | .err => "err"

def parseObs (s : String) : Option Obs :=
  match tokens s with
  | ["ok"] => some .ok
  | ["bad-op"] => some .rejected
  | ["names", l] => some (.names (splitComma l))
  | ["ids", l] => (parseNats l).map .ids
  | _ => if s.startsWith "err" then some .err else none

def step (st : State) (toks : List String) : State × String :=
  match parseOp toks with
  | none => (st, "bad-op")
  | some op => let (st', o) := Model.TSI.step st op; (st', renderObs o)

def opTag : Op → String
  | .cfg _ => "cfg" | .create .. => "create" | .dropSeries _ => "drop-series"
  | .dropSeriesIndexOnly _ => "drop-series-index-only" | .dropMeasurement _ => "drop-measurement"
  | .dropMeasurementIndexOnly _ => "drop-measurement-index-only"
  | .roll _ => "roll" | .compactLog _ => "compact-log" | .compactLevel .. => "compact-level"
  | .reopen => "reopen" | .crash .. => "crash" | .measurements => "q-measurements"
  | .tagKeys _ => "q-tag-keys" | .tagValues .. => "q-tag-values" | .measurementSeries _ => "q-series"
  | .tagKeySeries .. => "q-key-series" | .tagValueSeries .. => "q-value-series"

def addTag (l : List String) (t : String) : List String := if l.contains t then l else l ++ [t]

structure Acc where
  c : Spec.C14.Cands := {}
  tags : List String := []
  firstStale : String := ""
  firstWrong : String := ""
  nonEmptyAnswers : Nat := 0
  mutations : Nat := 0

def oracle (obs : List (List String × String)) : Verdict :=
  let parsed := obs.map fun (toks, ans) => (toks, parseOp toks, parseObs ans)
  if parsed.any (fun (_, p, o) => p.isNone || o.isNone) then Verdict.fail "bad-line" else
  let tr : List (List String × Op × Obs) := parsed.filterMap fun (t, p, o) =>
    match p, o with
    | some p, some o => some (t, p, o)
    | _, _ => none
  let acc := tr.foldl (fun (a : Acc) (x : List String × Op × Obs) =>
    let (toks, op, o) := x
    let (c', g) := Spec.C14.stepCheck a.c op o
    let line := "_".intercalate toks ++ ":got=" ++ (renderObs o).replace " " "="
    let a := { a with c := c', tags := addTag a.tags (opTag op) }
    let a := if Spec.C14.isQuery op then
        (match o with
         | .names (_ :: _) => { a with nonEmptyAnswers := a.nonEmptyAnswers + 1 }
         | .ids (_ :: _) => { a with nonEmptyAnswers := a.nonEmptyAnswers + 1 }
         | _ => a)
      else { a with mutations := a.mutations + 1 }
    match g with
    | .exact => a
    | .stale => { a with tags := addTag a.tags "stale-listing",
                         firstStale := if a.firstStale = "" then line else a.firstStale }
    | .wrong => { a with firstWrong := if a.firstWrong = "" then line else a.firstWrong }) ({} : Acc)
  let trace := tr.map fun (_, p, o) => (p, o)
  let ok := Spec.C14.holdsOn trace
  let weak := Spec.C14.holdsWeakly trace
  -- consistency of the explanation with the Spec's verdicts
  if ok != (acc.firstStale = "" && acc.firstWrong = "") || weak != (acc.firstWrong = "") then
    Verdict.fail "oracle-inconsistent"
  else
    { ok := ok, nontrivial := acc.nonEmptyAnswers > 0 && acc.mutations > 1, tags := acc.tags,
      reason := if ok then "" else if !weak then "wrong-view:" ++ acc.firstWrong
                else "stale-tag-listing:" ++ acc.firstStale }

def driver : Driver State := { init := {}, step := step, oracle := oracle }

end Influx.Drv.C14

def main (args : List String) : IO UInt32 := Influx.Drv.C14.driver.main args
