/-
  Drv.C20 — string shell around Model.WindowAgg / Model.Window / Spec.C20.

  ops:
    agg <count|sum|min|max|mean|first|last> <f|i|u|s|b> <every> <offset> <shape> <ts> <vals>
        shape : shards separated by `/`, each a comma list of array lengths (`-` = a shard without data)
        ts    : comma list of timestamps (ascending), vals: comma list of tagged values
                (`f<16 hex>` float bits, `i<dec>`, `u<dec>`, `x<hex>` string, `b0|b1`)
        one ReadWindowAggregate request (WindowEvery = every, Offset = offset) over one series
    cal <agg> <typ> <months> <shape> <ts> <vals> <stops>
        the same over a CALENDAR window: ReadWindowAggregateRequest.Window = {Every: {Months: months}};
        stops[i] = stop of the window of ts[i], computed by the harness with the real flux interval
        package (trusted input, re-checked by the harness when it executes the op)
    win <every> <period> <offset> <t> <k>
        interval.NewWindow(every, period, offset).GetLatestBounds(t), then k× NextBounds (k<0: PrevBounds)
  answers:
    ok <array>|<array>|…      array = `<ts>:<val>,…`   (`ok -` = no array)
    err:window | err:unsupported | err:panic
    b <start> <stop>
-/
import Influx.Proto
import Influx.Model.WindowAggWire
import Influx.Model.WindowAggReq
import Influx.Spec.C20

open Influx Influx.Proto Influx.WindowAgg Influx.WindowAgg.Wire

namespace Influx.Drv.C20

def parseAgg : String → Option Agg
  | "count" => some .count | "sum" => some .sum | "min" => some .min | "max" => some .max
  | "mean" => some .mean | "first" => some .first | "last" => some .last | _ => none

def Agg.name : Agg → String
  | .count => "count" | .sum => "sum" | .min => "min" | .max => "max"
  | .mean => "mean" | .first => "first" | .last => "last"

def parseTyp : String → Option Typ
  | "f" => some .f | "i" => some .i | "u" => some .u | "s" => some .s | "b" => some .b | _ => none

structure AggOp where
  agg : Agg
  typ : Typ
  every : Int
  offset : Int
  shards : List (List (List (Pt Val)))
  /-- every shard's iterator returns a nil cursor: `multiShardArrayCursors.createCursor` returns nil -/
  allNil : Bool

structure CalOp where
  agg : Agg
  typ : Typ
  months : Int
  shards : List (List (List (Pt Val)))
  allNil : Bool
  /-- (timestamp, stop of its window) -/
  stops : List (Int × Int)

inductive Op where
  | agg (o : AggOp)
  | cal (o : CalOp)
  | win (every period offset t k : Int)

def parseOp : List String → Option Op
  | ["agg", a, ty, e, off, shape, ts, vs] => do
    let a ← parseAgg a
    let ty ← parseTyp ty
    let e ← e.toInt?
    let off ← off.toInt?
    let shape ← parseShape shape
    let ts ← parseInts ts
    let vs ← (splitComma vs).mapM parseVal
    if ts.length ≠ vs.length then none
    else if !(vs.all fun v => typOf v == ty) then none
    else if !sortedTs ts then none
    else
      let shards ← cutShards shape (ts.zip vs)
      some (.agg ⟨a, ty, e, off, shards, shape.all (·.isEmpty)⟩)
  | ["cal", a, ty, m, shape, ts, vs, stops] => do
    let a ← parseAgg a
    let ty ← parseTyp ty
    let m ← m.toInt?
    let shape ← parseShape shape
    let ts ← parseInts ts
    let vs ← (splitComma vs).mapM parseVal
    let stops ← parseInts stops
    if ts.length ≠ vs.length ∨ ts.length ≠ stops.length ∨ m ≤ 0 then none
    else if !(vs.all fun v => typOf v == ty) then none
    else if !sortedTs ts then none
    else
      let shards ← cutShards shape (ts.zip vs)
      some (.cal ⟨a, ty, m, shards, shape.all (·.isEmpty), ts.zip stops⟩)
  | ["win", e, p, off, t, k] => do
    let e ← e.toInt?
    let p ← p.toInt?
    let off ← off.toInt?
    let t ← t.toInt?
    let k ← k.toInt?
    if p < 0 then none else some (.win e p off t k)
  | _ => none

def blockSize : Nat := Influx.Generated.WAReq.MaxPointsPerBlock   -- storage/reads MaxPointsPerBlock (translated)

/-- the window function of a calendar request: the explicit boundaries -/
def calWin (o : CalOp) : Win := { isZero := false, stop := (Spec.C20.W.table o.stops).stopOf }

/-- what the model answers for a calendar request: direction from the TRANSLATED
    `IsLastDescendingAggregateOptimization`, cursor kind from the (non-zero) window -/
def runCal (o : CalOp) : String :=
  if o.allNil then "ok -"
  else
  match support o.agg o.typ with
  | .unsupported => "err:unsupported"
  | .panics => "err:panic"
  | .ok =>
    let desc := Influx.Generated.WAReq.IsLastDescendingAggregateOptimization (reqWindowMsg o.agg 0 o.months)
    let n := (o.shards.flatten.flatten).length
    match drain (Cursor.next blockSize o.typ.ops (calWin o)) (n + 2) (Cursor.newReqD desc o.agg (calWin o) o.shards) with
    | none => "err:panic"
    | some arrs => showArrs arrs

/-- the trusted boundaries must look like tumbling windows: every point before the stop of its
    window, and a later point before that stop iff it has the same stop -/
def boundariesOK : List (Int × Int) → Bool
  | [] => true
  | (t, s) :: rest => decide (t < s) && rest.all (fun (u, s') => (decide (u < s)) == (s' == s)) && boundariesOK rest

/-- what the model answers for one request -/
def runAgg (o : AggOp) : String :=
  match reqWin o.every o.offset with
  | none => "err:window"
  | some w =>
    -- no shard has a cursor: `newWindowAggregateArrayCursor(nil)` is nil (no data), but
    -- `newAggregateArrayCursor` hands nil to `newLimitArrayCursor` for first/last: panic
    if o.allNil then
      (if w.isZero ∧ (o.agg = .first ∨ o.agg = .last) then "err:panic-nil" else "ok -")
    else
    match support o.agg o.typ with
    | .unsupported => "err:unsupported"
    | .panics => "err:panic"
    | .ok =>
      let n := (o.shards.flatten.flatten).length
      match drain (Cursor.next blockSize o.typ.ops w) (n + 2) (Cursor.newReq o.agg w o.shards) with
      | none => "err:panic"
      | some arrs => showArrs arrs

def step (_ : Unit) (toks : List String) : Unit × String :=
  match parseOp toks with
  | some (.agg o) => ((), runAgg o)
  | some (.cal o) => ((), runCal o)
  | some (.win e p off t k) =>
    let w : Window.Window := ⟨e, p, off⟩
    if !w.valid then ((), "err:window")
    else
      let b := w.shift (w.getLatestBounds t) k
      ((), s!"b {b.start} {b.stop}")
  | none => ((), "bad-op")

def sizeTag (n : Nat) : String :=
  if n = 0 then "out:0" else if n < blockSize then "out:<B" else if n = blockSize then "out:=B"
  else if n ≤ 2 * blockSize then "out:B..2B" else "out:>2B"

def oracle1 (toks : List String) (ans : String) : Verdict :=
  match parseOp toks with
  | none => if ans == "bad-op" then { ok := true, nontrivial := false, tags := ["malformed"] } else Verdict.fail "bad-line"
  | some (.win e p off t k) =>
    if e ≤ 0 then { ok := true, nontrivial := false, tags := ["win:invalid"] }
    else
      -- floor-division statement of the window containing t, shifted by k
      let start := off + ((t - off) / e + k) * e
      let want := s!"b {start} {start + p}"
      { ok := ans == want, nontrivial := true, tags := ["win"],
        reason := if ans == want then "" else "interval-bounds:" ++ "_".intercalate toks }
  | some (.cal o) =>
    if o.allNil then { ok := true, nontrivial := false, tags := ["req:no-cursor"] }
    else if support o.agg o.typ ≠ .ok then { ok := true, nontrivial := false, tags := ["req:unsupported-type"] }
    else if !boundariesOK o.stops then Verdict.fail "bad-boundaries"
    else
      let pts := o.shards.flatten.flatten
      let obs := parseArrs ans
      let c : Spec.C20.Case Val := ⟨o.agg, .table o.stops, pts, obs⟩
      let ok := Spec.C20.holdsOn o.typ.ops c
      let nt : Bool := !pts.isEmpty
      let why : String := "window-aggregate-differs:" ++ Agg.name o.agg ++ "_calendar_months=" ++ toString o.months ++
        "_n=" ++ toString pts.length ++ "_got=" ++ ((ans.take 60).replace " " "_")
      { ok := ok, nontrivial := nt, tags := ["agg:" ++ Agg.name o.agg, "w:calendar"],
        reason := if ok then "" else why }
  | some (.agg o) =>
    if o.every ≤ 0 then { ok := true, nontrivial := false, tags := ["req:bad-every"] }
    else if o.allNil then
      -- no shard knows the field: not reachable through a real store (the series cursor lists
      -- only fields some shard has); the property does not speak about it
      { ok := true, nontrivial := false, tags := ["req:no-cursor"] }
    else if support o.agg o.typ ≠ .ok then { ok := true, nontrivial := false, tags := ["req:unsupported-type"] }
    else
      let pts := o.shards.flatten.flatten
      let obs := parseArrs ans
      let c : Spec.C20.Case Val := ⟨o.agg, Spec.C20.reqW o.every o.offset, pts, obs⟩
      let ok := Spec.C20.holdsOn o.typ.ops c
      let nOut := (obs.getD []).flatten.length
      let tags := ["agg:" ++ Agg.name o.agg,
                   (if o.every = maxInt64 then "w:all" else "w:every"),
                   sizeTag nOut,
                   (if (obs.getD []).length > 1 then "blocks:>1" else "blocks:1"),
                   (if o.shards.length > 1 then "shards:>1" else "shards:1")]
      { ok := ok, nontrivial := !pts.isEmpty, tags := tags,
        reason := if ok then "" else
          "window-aggregate-differs:" ++ Agg.name o.agg ++ "_every=" ++ toString o.every ++ "_offset=" ++ toString o.offset ++
            "_n=" ++ toString pts.length ++ "_got=" ++ ((ans.take 60).replace " " "_") }

def oracle (obs : List (List String × String)) : Verdict :=
  obs.foldl (fun v (toks, ans) => v.and (oracle1 toks ans)) (Verdict.pass false)

def driver : Driver Unit := { init := (), step := step, oracle := oracle }

end Influx.Drv.C20

def main (args : List String) : IO UInt32 := Influx.Drv.C20.driver.main args
