/-
  Drv.C41 — string shell around Model.FluxTable (+ Model.WindowAgg for the storage cursor) / Spec.C41.

  op:
    wa <agg> <typ> <every> <offset> <bstart> <bstop> <createEmpty> <timecol> <force> <shape> <ts> <vals>
       timecol: a dash | start | stop ; shape / ts / vals as in Drv.C20 (one series)
       = storageflux reader ReadWindowAggregate with a ReadWindowAggregateSpec
  answer:
    ok <table>|<table>…   table = `<keyStart>,<keyStop>:<row>;<row>…` (a dash for no row),
                          row = `<_start>,<_stop>,<_time>,<_value>` (a dash: no such column, `~`: null)
    ok -                  no table
    err:window | err:unsupported | err:panic
-/
import Influx.Proto
import Influx.Model.WindowAggWire
import Influx.Model.FluxTable
import Influx.Spec.C41

open Influx Influx.Proto Influx.WindowAgg Influx.WindowAgg.Wire Influx.FluxTable

namespace Influx.Drv.C41

def blockSize : Nat := 1000

def parseAgg : String → Option Agg
  | "count" => some .count | "sum" => some .sum | "min" => some .min | "max" => some .max
  | "mean" => some .mean | "first" => some .first | "last" => some .last | _ => none

def aggName : Agg → String
  | .count => "count" | .sum => "sum" | .min => "min" | .max => "max"
  | .mean => "mean" | .first => "first" | .last => "last"

def parseTyp : String → Option Typ
  | "f" => some .f | "i" => some .i | "u" => some .u | "s" => some .s | "b" => some .b | _ => none

structure Op where
  q : Req
  typ : Typ
  shards : List (List (List (Pt Val)))
  allNil : Bool

def parseOp : List String → Option Op
  | ["wa", a, ty, e, off, bs, be, ce, tc, fo, shape, ts, vs] => do
    let a ← parseAgg a
    let ty ← parseTyp ty
    let e ← e.toInt?
    let off ← off.toInt?
    let bs ← bs.toInt?
    let be ← be.toInt?
    let ce ← parseBool ce
    let tc ← (if tc = "-" then some TimeCol.none else if tc = "start" then some .start
              else if tc = "stop" then some .stop else none)
    let fo ← parseBool fo
    let shape ← parseShape shape
    let ts ← parseInts ts
    let vs ← (splitComma vs).mapM parseVal
    if ts.length ≠ vs.length then none
    else if !(vs.all fun v => typOf v == ty) then none
    else if !sortedTs ts then none
    else
      let shards ← cutShards shape (ts.zip vs)
      some ⟨⟨a, e, off, bs, be, ce, tc, fo⟩, ty, shards, shape.all (·.isEmpty)⟩
  | _ => none

def showCell : Cell → String
  | .absent => "-"
  | .null => "~"
  | .val t => toString t

def showRow (r : Row) : String :=
  s!"{r.start},{r.stop},{showCell r.time}," ++ (match r.value with | none => "~" | some v => showVal v)

def showTable (t : Table) : String :=
  s!"{t.keyStart},{t.keyStop}:" ++ (if t.rows.isEmpty then "-" else ";".intercalate (t.rows.map showRow))

def showTables (ts : List Table) : String :=
  if ts.isEmpty then "ok -" else "ok " ++ "|".intercalate (ts.map showTable)

/-- what the storage engine's cursors return for the request range `[bstart, bstop-1]` -/
def restrict (q : Req) (shards : List (List (List (Pt Val)))) : List (List (List (Pt Val))) :=
  shards.map fun sh => (sh.map fun a => a.filter fun p => decide (q.bstart ≤ p.1) && decide (p.1 ≤ q.bstop - 1))

def run (o : Op) : String :=
  if o.q.every ≤ 0 then "err:window"
  else if o.q.every = maxInt64 then "*"            -- bare aggregate: not a windowed read
  else if o.allNil then "ok -"
  else
    match support o.q.agg o.typ with
    | .unsupported => "err:unsupported"
    | .panics => "err:panic"
    | .ok =>
      let w := Win.ofWindow o.q.win
      let shards := restrict o.q o.shards
      let n := shards.flatten.flatten.length
      match drain (Cursor.next blockSize o.typ.ops w) (n + 2) (Cursor.newReq o.q.agg w shards) with
      | none => "err:panic"
      | some arrs => showTables (seriesTables blockSize o.q arrs)

def step (_ : Unit) (toks : List String) : Unit × String :=
  match parseOp toks with
  | some o => ((), run o)
  | none => ((), "bad-op")

/-! parsing the implementation's answer -/

def parseCell (s : String) : Option Cell :=
  if s = "-" then some .absent else if s = "~" then some .null else s.toInt?.map .val

def parseRow (s : String) : Option Row :=
  match s.splitOn "," with
  | [a, b, t, v] => do
    let a ← a.toInt?
    let b ← b.toInt?
    let t ← parseCell t
    let v ← (if v = "~" then some none else (parseVal v).map some)
    some ⟨a, b, t, v⟩
  | _ => none

def parseTable (s : String) : Option Table :=
  match s.splitOn ":" with
  | [k, rows] =>
    match k.splitOn "," with
    | [a, b] => do
      let a ← a.toInt?
      let b ← b.toInt?
      let rows ← (if rows = "-" then some [] else (rows.splitOn ";").mapM parseRow)
      some ⟨a, b, rows⟩
    | _ => none
  | _ => none

def parseTables (s : String) : Option (List Table) :=
  if s = "ok -" then some []
  else match s.splitOn " " with
    | ["ok", body] => (body.splitOn "|").mapM parseTable
    | _ => none

def oracle1 (toks : List String) (ans : String) : Verdict :=
  match parseOp toks with
  | none => if ans == "bad-op" then { ok := true, nontrivial := false, tags := ["malformed"] } else Verdict.fail "bad-line"
  | some o =>
    if o.q.every ≤ 0 ∨ o.q.every = maxInt64 then { ok := true, nontrivial := false, tags := ["req:not-windowed"] }
    else if o.allNil then { ok := true, nontrivial := false, tags := ["req:no-cursor"] }
    else if support o.q.agg o.typ ≠ .ok then { ok := true, nontrivial := false, tags := ["req:unsupported-type"] }
    else
      let pts := (restrict o.q o.shards).flatten.flatten
      let obs := parseTables ans
      let ok := Spec.C41.holdsOn o.typ.ops ⟨o.q, pts, obs⟩
      let kind : String :=
        if !isSelector o.q.agg || o.q.force then "table:window"
        else if o.q.createEmpty && o.q.timeCol == .none then "table:empty-selector" else "table:selector"
      let nt : Bool := !pts.isEmpty
      let tags := ["agg:" ++ aggName o.q.agg, kind,
        (if o.q.createEmpty then "createEmpty" else "nonEmpty"),
        (match o.q.timeCol with | .none => "time:-" | .start => "time:start" | .stop => "time:stop")] ++
        (if o.q.force then ["force"] else []) ++
        (if (obs.getD []).length > blockSize then ["tables>B"] else [])
      let why : String := "window-tables-differ:" ++ aggName o.q.agg ++ "_every=" ++ toString o.q.every ++ "_offset=" ++
        toString o.q.offset ++ "_bounds=" ++ toString o.q.bstart ++ ".." ++ toString o.q.bstop ++
        "_createEmpty=" ++ boolStr o.q.createEmpty ++ "_force=" ++ boolStr o.q.force ++ "_n=" ++ toString pts.length ++
        "_got=" ++ (String.ofList (ans.toList.take 60)).replace " " "_"
      { ok := ok, nontrivial := nt, tags := tags, reason := if ok then "" else why }

def oracle (obs : List (List String × String)) : Verdict :=
  obs.foldl (fun v (toks, ans) => v.and (oracle1 toks ans)) (Verdict.pass false)

def driver : Driver Unit := { init := (), step := step, oracle := oracle }

end Influx.Drv.C41

def main (args : List String) : IO UInt32 := Influx.Drv.C41.driver.main args
