import Influx.Proto
import Influx.Model.Backup
import Influx.Spec.C38

open Influx Influx.Proto Influx.Backup

namespace Influx.Drv.C38

/-! ### operations -/

def parseSince (s : String) : Option (Option Int) :=
  if s = "-" then some none else s.toInt?.map some

def parseKeys (s : String) : Option (List Nat) := parseNats s

def validId (s : String) : Bool := s ≠ "" && !s.contains ','

def parseIds (s : String) : Option (List String) :=
  let ids := splitComma s
  if ids.isEmpty || ids.any (fun i => !validId i) then none else some ids

def parseOp : List String → Option Op
  | ["w", k, t0, st, n, v0] => do
    some (.write (← k.toNat?) (← t0.toInt?) (← st.toInt?) (← n.toNat?) (← v0.toInt?))
  | ["d", ks, lo, hi] => do some (.delete (← parseKeys ks) (← lo.toInt?) (← hi.toInt?))
  | ["snap"] => some .snap
  | ["compact"] => some .compact
  | ["age", s] => do some (.age (← s.toInt?))
  | ["backup", id, since] => do
    if !validId id then none else some (.backup id (← parseSince since))
  | ["export", id, a, e] => do
    if !validId id then none else some (.export id (← a.toInt?) (← e.toInt?))
  | ["restore", ids] => do some (.restore (← parseIds ids))
  | ["import", ids] => do some (.importA (← parseIds ids))
  | ["dump"] => some .dump
  | ["bigcase", n, m] => do
    let imp ← if m = "restore" then some false else if m = "import" then some true else none
    some (.bigcase (← n.toNat?) imp)
  | _ => none

/-! ### rendering -/

def showName (n : FName) : String :=
  s!"{n.gen}-{n.seq}." ++ (if n.tomb then "tombstone" else "tsm")

def showMT : MTime → String
  | .fresh => "F"
  | .at s => toString s

def showNames (ns : List FName) : String := joinComma (ns.map showName)

def showFiles (fs : List (FName × MTime)) : String :=
  joinComma (fs.map fun f => showName f.1 ++ "@" ++ showMT f.2)

def showBlocks (bs : List (FName × Key × TS × TS)) : String :=
  joinComma (bs.map fun b => s!"{showName b.1}:k{b.2.1}:{b.2.2.1}:{b.2.2.2}")

def showPts (d : Dump) : String :=
  if d.pts.isEmpty then "-" else
  ";".intercalate (d.pts.map fun e =>
    s!"k{e.1}:" ++ ",".intercalate (e.2.map fun p => s!"{p.1}={p.2}"))

def showSeries (d : Dump) : String := joinComma (d.series.map fun k => s!"k{k}")

def showDump (d : Dump) : String := s!"pts={showPts d} series={showSeries d}"

def showErr : ExportErr → String
  | .tombstone => "enoent"
  | .noValues => "novalues"

def render : Obs → String
  | .ok => "ok"
  | .badOp => "bad-op"
  | .noArchive => "no-archive"
  | .exportErr e files blocks => s!"err={showErr e} files={showFiles files} blocks={showBlocks blocks}"
  | .snapshot arch files blocks d =>
    s!"arch={showNames arch} files={showFiles files} blocks={showBlocks blocks} {showDump d}"
  | .target files d => s!"files={showNames files} {showDump d}"
  | .dumped d => showDump d
  | .big src dst => s!"src={src} dst={dst}"

/-! ### parsing observations -/

def parseName (s : String) : Option FName :=
  match s.splitOn "." with
  | [base, ext] =>
    match base.splitOn "-" with
    | [g, q] => do
      let tomb ← if ext = "tsm" then some false else if ext = "tombstone" then some true else none
      some ⟨← g.toNat?, ← q.toNat?, tomb⟩
    | _ => none
  | _ => none

def parseMT (s : String) : Option MTime :=
  if s = "F" then some .fresh else s.toInt?.map .at

def parseNames (s : String) : Option (List FName) := (splitComma s).mapM parseName

def parseFiles (s : String) : Option (List (FName × MTime)) :=
  (splitComma s).mapM fun f =>
    match f.splitOn "@" with
    | [n, m] => do some (← parseName n, ← parseMT m)
    | _ => none

def parseK (s : String) : Option Nat :=
  if s.startsWith "k" then (String.ofList (s.toList.drop 1)).toNat? else none

/-- block names are `1-1.tsm:k0:lo:hi`; negative bounds keep their sign -/
def parseBlocks (s : String) : Option (List (FName × Key × TS × TS)) :=
  (splitComma s).mapM fun b =>
    match b.splitOn ":" with
    | [n, k, lo, hi] => do some (← parseName n, ← parseK k, ← lo.toInt?, ← hi.toInt?)
    | _ => none

def parsePt (s : String) : Option (TS × Val) :=
  match s.splitOn "=" with
  | [t, v] => do some (← t.toInt?, ← v.toInt?)
  | _ => none

def parsePts (s : String) : Option (List (Key × List (TS × Val))) :=
  if s = "-" then some [] else
  (s.splitOn ";").mapM fun e =>
    match e.splitOn ":" with
    | [k, ps] => do some (← parseK k, ← (ps.splitOn ",").mapM parsePt)
    | _ => none

def parseSeries (s : String) : Option (List Key) := (splitComma s).mapM parseK

def field (name : String) (tok : String) : Option String :=
  if tok.startsWith (name ++ "=") then some (String.ofList (tok.toList.drop (name.length + 1))) else none

def parseDump (p s : String) : Option Dump := do
  some { pts := ← parsePts (← field "pts" p), series := ← parseSeries (← field "series" s) }

def parseErr (s : String) : Option ExportErr :=
  if s = "enoent" then some .tombstone else if s = "novalues" then some .noValues else none

def parseObs (s : String) : Option Obs :=
  match tokens s with
  | ["ok"] => some .ok
  | ["bad-op"] => some .badOp
  | ["no-archive"] => some .noArchive
  | [x, y, z] =>
    match field "err" x with
    | some e => do
      some (.exportErr (← parseErr e) (← parseFiles (← field "files" y)) (← parseBlocks (← field "blocks" z)))
    | none => do some (.target (← parseNames (← field "files" x)) (← parseDump y z))
  | [a, f, b, p, se] => do
    some (.snapshot (← parseNames (← field "arch" a)) (← parseFiles (← field "files" f))
      (← parseBlocks (← field "blocks" b)) (← parseDump p se))
  | [p, se] =>
    match field "src" p, field "dst" se with
    | some a, some b => some (.big a b)
    | _, _ => do some (.dumped (← parseDump p se))
  | _ => none

/-! ### driver -/

def step (st : State) (toks : List String) : State × String :=
  match parseOp toks with
  | some op => let (st', o) := Backup.step st op; (st', render o)
  | none => (st, "bad-op")

def opTag : Op → String
  | .write .. => "write" | .delete .. => "delete" | .snap => "snap" | .compact => "compact"
  | .age _ => "age" | .backup _ none => "backup-full" | .backup _ (some _) => "backup-incr"
  | .export .. => "export" | .restore [_] => "restore" | .restore _ => "restore-chain"
  | .importA _ => "import" | .dump => "dump" | .bigcase .. => "bigcase"

def dedupS (xs : List String) : List String :=
  xs.foldl (fun acc x => if acc.contains x then acc else acc ++ [x]) []

def oracle (obs : List (List String × String)) : Verdict :=
  -- lines that are no operations must have been answered `bad-op`
  if obs.any (fun (t, a) => (parseOp t).isNone && a != "bad-op") then Verdict.fail "bad-line:unparsed-op" else
  let ops := obs.filterMap fun (t, a) => (parseOp t).map (·, a)
  match ops.mapM (fun (op, a) => (parseObs a).map (op, ·)) with
  | none =>
    -- an answer that is no observation at all (timeout, panic, harness error, unknown error enum)
    let bad := (ops.find? (fun (_, a) => (parseObs a).isNone)).map (·.2) |>.getD "?"
    Verdict.fail ("bad-observation:" ++ ((bad.take 40).replace " " "_"))
  | some c =>
    let fs := Spec.C38.failures c ++ Spec.C38.chainFailures c
    let tags := dedupS (c.map (fun p => opTag p.1) ++ fs.map (fun s => "fail:" ++ s.name))
    let judged := c.any fun p => match p.1, p.2 with
      | .backup .., .snapshot .. => true
      | .restore _, .target .. => true
      | .importA _, .target .. => true
      | .export .., _ => true
      | .bigcase .., .big .. => true
      | _, _ => false
    match fs.find? (fun s => !s.known), fs.head? with
    | some s, _ => { ok := false, nontrivial := true, tags := tags, reason := s.name ++ s!":{fs.length}-failure(s)" }
    | none, some s => { ok := false, nontrivial := true, tags := tags, reason := s.name ++ s!":{fs.length}-failure(s)" }
    | none, none => { ok := true, nontrivial := judged, tags := tags }

def driver : Driver State := { init := State.init, step := step, oracle := oracle }

end Influx.Drv.C38

def main (args : List String) : IO UInt32 := Influx.Drv.C38.driver.main args
