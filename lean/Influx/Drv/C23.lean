/-
  Drv.C23 — string shell around Model.Reducers / Spec.C23.

  op line:   <fn> <i|f> <params…> <times> <values>
     fn/params:  deriv <unit> <nonNeg> <asc> | diff <nonNeg> | elapsed <unit> | cumsum |
                 mavg <n> | pct <pn> <pd> | median | mode | spread | stddev | distinct |
                 top <n> | bottom <n> | integral <unit> <dur> <off> <start> <end> <asc>
     times:  comma list of ints; values: comma list of ints (i) or 16-hex-digit
             IEEE-754 patterns (f); `-` = empty
  answer:    `t:v,t:v,…` (`-` = no point), or `panic`

  The float instance uses Lean's `Float` (IEEE double, the C operations), so the
  float variants are compared bit for bit with Go.
-/
import Influx.Proto
import Influx.Model.Reducers
import Influx.Model.ReducersFloat
import Influx.Spec.C23

open Influx Influx.Proto Influx.Reducers Influx.Reducers.IEEE

namespace Influx.Drv.C23

/-! ### parsing / rendering -/


def parseNat (s : String) : Option Nat := s.toNat?
def parseInt (s : String) : Option Int := s.toInt?

def parseFn : List String → Option (Fn × List String)
  | "deriv" :: ty :: u :: nn :: asc :: rest => do
    let u ← parseInt u; let nn ← parseBool nn; let asc ← parseBool asc
    if u ≤ 0 then none else some (.derivative u nn asc, ty :: rest)
  | "diff" :: ty :: nn :: rest => do
    let nn ← parseBool nn
    some (.difference nn, ty :: rest)
  | "elapsed" :: ty :: u :: rest => do
    let u ← parseInt u
    if u ≤ 0 then none else some (.elapsed u, ty :: rest)
  | "cumsum" :: rest => some (.cumulativeSum, rest)
  | "mavg" :: ty :: n :: rest => do
    let n ← parseNat n
    if n = 0 then none else some (.movingAverage n, ty :: rest)
  | "pct" :: ty :: pn :: pd :: rest => do
    let pn ← parseInt pn; let pd ← parseNat pd
    if pd = 0 then none else some (.percentile pn pd, ty :: rest)
  | "median" :: rest => some (.median, rest)
  | "mode" :: rest => some (.mode, rest)
  | "spread" :: rest => some (.spread, rest)
  | "stddev" :: rest => some (.stddev, rest)
  | "distinct" :: rest => some (.distinct, rest)
  | "top" :: ty :: n :: rest => do
    let n ← parseNat n
    if n = 0 then none else some (.top n, ty :: rest)
  | "bottom" :: ty :: n :: rest => do
    let n ← parseNat n
    if n = 0 then none else some (.bottom n, ty :: rest)
  | "integral" :: ty :: u :: d :: off :: st :: en :: asc :: rest => do
    let u ← parseInt u; let d ← parseInt d; let off ← parseInt off
    let st ← parseInt st; let en ← parseInt en; let asc ← parseBool asc
    if u ≤ 0 ∨ d < 0 then none else some (.integral u d off st en asc, ty :: rest)
  | _ => none

def zipPts {V : Type} : List Int → List V → Option (List (Pt V))
  | [], [] => some []
  | t :: ts, v :: vs => (zipPts ts vs).map (⟨t, v⟩ :: ·)
  | _, _ => none

/-- a parsed op: integer or float series -/
inductive Op
  | int (fn : Fn) (xs : List (Pt Int))
  | flt (fn : Fn) (xs : List (Pt Float))

def parseOp (toks : List String) : Option Op := do
  let (fn, rest) ← parseFn toks
  match rest with
  | ["i", ts, vs] =>
    let ts ← parseInts ts; let vs ← parseInts vs
    let xs ← zipPts ts vs
    some (.int fn xs)
  | ["f", ts, vs] =>
    let ts ← parseInts ts
    let vs ← (splitComma vs).mapM parseFloat
    let xs ← zipPts ts vs
    some (.flt fn xs)
  | _ => none

def showPts {W : Type} (sh : W → String) (l : List (Pt W)) : String :=
  joinComma (l.map fun p => toString p.t ++ ":" ++ sh p.v)

def render {V : Type} (shV : V → String) : Option (Out V Float) → String
  | none => "panic"
  | some (.v l) => showPts shV l
  | some (.f l) => showPts showFloat l
  | some (.i l) => showPts toString l

def parsePts {W : Type} (pv : String → Option W) (s : String) : Option (List (Pt W)) :=
  (splitComma s).mapM fun tok =>
    match tok.splitOn ":" with
    | [t, v] => do let t ← parseInt t; let v ← pv v; some ⟨t, v⟩
    | _ => none

/-- kind of output each function has -/
inductive Kind | v | f | i

def outKind : Fn → Kind
  | .derivative .. => .f
  | .difference _ => .v
  | .elapsed _ => .i
  | .cumulativeSum => .v
  | .movingAverage _ => .f
  | .percentile .. => .v
  | .median => .f
  | .mode => .v
  | .spread => .v
  | .stddev => .f
  | .distinct => .v
  | .top _ => .v
  | .bottom _ => .v
  | .integral .. => .f

def parseAns {V : Type} (pv : String → Option V) (fn : Fn) (s : String) : Option (Option (Out V Float)) :=
  if s = "panic" then some none else
  match outKind fn with
  | .v => (parsePts pv s).map fun l => some (.v l)
  | .f => (parsePts parseFloat s).map fun l => some (.f l)
  | .i => (parsePts parseInt s).map fun l => some (.i l)

/-- For more than 12 points `sort.Sort` is pdqsort, whose order among equal values is
    not modelled: the timestamp percentile reports and mode's tie-break are then not
    predicted (the statement checker still judges them). -/
def unpredicted (fn : Fn) (len : Nat) (isInt : Bool) : Bool :=
  len > 12 && (match fn with
    | .percentile .. => true
    | .mode => true
    | .median => !isInt     -- which of -0 / +0 lands in the middle
    | _ => false)

def step (_ : Unit) (toks : List String) : Unit × String :=
  match parseOp toks with
  | some (.int fn xs) =>
    let a := render (fun (x : Int) => toString x) (eval intFloatArith true fn xs)
    ((), if unpredicted fn xs.length true then "* " ++ a else a)
  | some (.flt fn xs) =>
    let a := render showFloat (eval floatArith false fn xs)
    ((), if unpredicted fn xs.length false then "* " ++ a else a)
  | none => ((), "bad-op")

def fnName : Fn → String
  | .derivative _ nn _ => if nn then "non_negative_derivative" else "derivative"
  | .difference nn => if nn then "non_negative_difference" else "difference"
  | .elapsed _ => "elapsed"
  | .cumulativeSum => "cumulative_sum"
  | .movingAverage _ => "moving_average"
  | .percentile .. => "percentile"
  | .median => "median"
  | .mode => "mode"
  | .spread => "spread"
  | .stddev => "stddev"
  | .distinct => "distinct"
  | .top _ => "top"
  | .bottom _ => "bottom"
  | .integral _ d .. => if d = 0 then "integral" else "integral-windowed"

/-- signatures that are recorded findings: reported only when nothing else fails -/
def lowPriority (sig : String) : Bool := sig = "integral-descending" || sig = "mode-tie"

structure Acc where
  tags : List String := []
  nontrivial : Bool := false
  hard : Option String := none
  soft : Option String := none

def detail (toks : List String) : String :=
  let s := "_".intercalate toks
  if s.length > 300 then (s.take 300).toString ++ "…" else s

def oracle (obs : List (List String × String)) : Verdict :=
  let acc := obs.foldl (fun (acc : Acc) (toks, ans) =>
    let fail (sig : String) : Acc :=
      let r := sig ++ ":" ++ detail toks ++ "=>" ++ (if ans.length > 120 then (ans.take 120).toString ++ "…" else ans)
      if lowPriority sig then { acc with soft := acc.soft.orElse fun _ => some r, nontrivial := true }
      else { acc with hard := acc.hard.orElse fun _ => some r, nontrivial := true }
    let addTag (acc : Acc) (t : String) : Acc :=
      if acc.tags.contains t then acc else { acc with tags := acc.tags ++ [t] }
    match parseOp toks with
    | some (.int fn xs) =>
      match parseAns parseInt fn ans with
      | some out =>
        match Spec.C23.verdict intFloatArith true ⟨fn, xs, out⟩ with
        | none => addTag { acc with nontrivial := acc.nontrivial || xs.length ≥ 2 } (fnName fn ++ "/int")
        | some sig => addTag (fail sig) (fnName fn ++ "/int")
      | none => fail "bad-answer"
    | some (.flt fn xs) =>
      match parseAns parseFloat fn ans with
      | some out =>
        match Spec.C23.verdict floatArith false ⟨fn, xs, out⟩ with
        | none => addTag { acc with nontrivial := acc.nontrivial || xs.length ≥ 2 } (fnName fn ++ "/float")
        | some sig => addTag (fail sig) (fnName fn ++ "/float")
      | none => fail "bad-answer"
    | none =>
      -- a malformed op must be answered `bad-op` by the implementation side as well
      if ans = "bad-op" then addTag acc "bad-op" else fail "bad-line") ({} : Acc)
  match acc.hard, acc.soft with
  | some r, _ => { ok := false, nontrivial := true, tags := acc.tags, reason := r }
  | none, some r => { ok := false, nontrivial := true, tags := acc.tags, reason := r }
  | none, none => { ok := true, nontrivial := acc.nontrivial, tags := acc.tags }

def driver : Driver Unit := { init := (), step := step, oracle := oracle }

end Influx.Drv.C23

def main (args : List String) : IO UInt32 := Influx.Drv.C23.driver.main args
