/-
  Drv.C09 — string shell around Model.Cache / Spec.C09 (sequential ops) and the
  linearizability oracle for recorded concurrent histories (`conc`, see below).

  ops:      new <maxSize>
            write <hexkey>=<value>,<value>… …      value = <t>:<f|i|u|b|s>:<payload>
            snapshot | clear <0|1> | delrange <hexkey,…|-> <min> <max>
            values <hexkey> | size | count | dedup
  answers:  ok | err-limit <n> | err-conflict | err-in-progress | snap <size> <count>
            vals <value>,…|- | num <n> | refused
  conc:     conc <op> ; <op> | <op> … [|| <op> ; …]   threads `|`, ops `;`, sequential tail after `||`;
            answered by the harness with the recorded history `hist I<th>.<k>;R<th>.<k>/<answer with ~ for space>;…`,
            by the model with `*` (the schedule is not predicted); the oracle decides linearizability.
-/
import Influx.Proto
import Influx.Model.Cache
import Influx.Spec.C09

open Influx Influx.Proto Influx.Cache
open Influx.Generated.CacheConsts

namespace Influx.Drv.C09

def parseKey (s : String) : Option Key := do
  let bs ← hexDecode s
  if hexEncode bs = s then some bs else none

def parseValue (s : String) : Option Value :=
  match s.splitOn ":" with
  | [t, ty, p] => do
    let ti ← t.toInt?
    if toString ti ≠ t || ti < minInt64 || ti > maxInt64 then none else
    match ty with
    | "f" => do
      let n ← hex64 p
      if toHex64 n = p then some ⟨ti, valueTypeFloat64, p, 0⟩ else none
    | "i" => do
      let n ← p.toInt?
      if toString n = p && minInt64 ≤ n && n ≤ maxInt64 then some ⟨ti, valueTypeInteger, p, 0⟩ else none
    | "u" => do
      let n ← p.toNat?
      if toString n = p && n < W then some ⟨ti, valueTypeUnsigned, p, 0⟩ else none
    | "b" => if p = "0" || p = "1" then some ⟨ti, valueTypeBoolean, p, 0⟩ else none
    | "s" => do
      let bs ← hexDecode p
      if hexEncode bs = p then some ⟨ti, valueTypeString, p, bs.length⟩ else none
    | _ => none
  | _ => none

def tyLetter (ty : Nat) : String :=
  if ty = valueTypeFloat64 then "f" else if ty = valueTypeInteger then "i"
  else if ty = valueTypeUnsigned then "u" else if ty = valueTypeBoolean then "b"
  else if ty = valueTypeString then "s" else "?"

def showValue (v : Value) : String := s!"{v.t}:{tyLetter v.ty}:{v.payload}"

def showValues (vs : List Value) : String := if vs.isEmpty then "-" else ",".intercalate (vs.map showValue)

def parseValues (s : String) : Option (List Value) :=
  if s = "" || s = "-" then some [] else (s.splitOn ",").mapM parseValue

def parseKV (s : String) : Option (Key × List Value) :=
  match s.splitOn "=" with
  | [k, vs] => do
    let k ← parseKey k
    let vs ← if vs = "-" then none else parseValues vs
    some (k, vs)
  | _ => none

def parseInt64 (s : String) : Option Int := do
  let n ← s.toInt?
  if toString n = s && minInt64 ≤ n && n ≤ maxInt64 then some n else none

def parseOp : List String → Option Op
  | ["new", m] => do
    let m ← m.toNat?
    if m < W then some (.new m) else none
  | "write" :: kvs => do
    let b ← kvs.mapM parseKV
    -- WriteMulti takes a map: keys are distinct
    if (b.map (·.1)).Nodup then some (.write b) else none
  | ["snapshot"] => some .snapshot
  | ["clear", b] => (parseBool b).map .clear
  | ["delrange", ks, mn, mx] => do
    let ks ← (splitComma ks).mapM parseKey
    let mn ← parseInt64 mn
    let mx ← parseInt64 mx
    some (.delrange ks mn mx)
  | ["values", k] => (parseKey k).map .values
  | ["size"] => some .size
  | ["count"] => some .count
  | ["dedup"] => some .dedup
  | _ => none

def render : Obs → String
  | .ok => "ok"
  | .errLimit n => s!"err-limit {n}"
  | .errConflict => "err-conflict"
  | .errInProgress => "err-in-progress"
  | .snap sz cnt => s!"snap {sz} {cnt}"
  | .vals vs => "vals " ++ showValues vs
  | .num n => s!"num {n}"
  | .refused => "refused"

def parseObs (s : String) : Option Obs :=
  match tokens s with
  | ["ok"] => some .ok
  | ["err-limit", n] => n.toNat?.map .errLimit
  | ["err-conflict"] => some .errConflict
  | ["err-in-progress"] => some .errInProgress
  | ["snap", a, b] => do
    let a ← a.toNat?
    let b ← b.toNat?
    some (.snap a b)
  | ["vals", vs] => (parseValues vs).map .vals
  | ["num", n] => n.toNat?.map .num
  | ["refused"] => some .refused
  | _ => none

/-- split a token list on a separator token -/
def splitToks (sep : String) (t : List String) : List (List String) :=
  let (cur, acc) := t.foldl (fun (cur, acc) x => if x = sep then ([], acc ++ [cur]) else (cur ++ [x], acc)) ([], [])
  acc ++ [cur]

/-- `conc <thread> | <thread> … [|| <tail>]`: the ops of every thread (the tail is the last "thread") -/
def parseConc (t : List String) : Option (List (List Op)) :=
  match splitToks "||" t with
  | [body] => (splitToks "|" body).mapM fun th => (splitToks ";" th).mapM parseOp
  | [body, tail] => do
    let ths ← (splitToks "|" body).mapM fun th => (splitToks ";" th).mapM parseOp
    let tl ← (splitToks ";" tail).mapM parseOp
    some (ths ++ [tl])
  | _ => none

def concOK (ths : List (List Op)) : Bool :=
  ths.length ≤ 9 && ths.all fun th => th.all fun op => match op with | .new _ => false | _ => true

/-- driver state: the model cache, or "unknown" after a concurrent block
    (its outcome depends on the schedule: the model does not predict it) -/
abbrev DState := Option Cache

def step (c : DState) (toks : List String) : DState × String :=
  match toks with
  | "conc" :: rest =>
    match parseConc rest with
    | some ths => if concOK ths then (none, "*") else (c, "bad-op")
    | none => (c, "bad-op")
  | _ =>
    match parseOp toks, c with
    | some op, some c => let (c', o) := Cache.step c op; (some c', render o)
    | some _, none => (none, "*")
    | none, _ => (c, "bad-op")

/-- the recorded history `hist I0.0;R0.0/<answer>;…` as calls -/
def parseHist (ths : List (List Op)) (s : String) : Option (List Spec.C09.Call) := do
  let evs := (s.splitOn ";").zipIdx
  let parseId (x : String) : Option (Nat × Nat) :=
    match x.splitOn "." with
    | [a, b] => do some ((← a.toNat?), (← b.toNat?))
    | _ => none
  let invs ← evs.filterMapM fun (e, pos) =>
    if e.startsWith "I" then (parseId (e.drop 1).toString).map fun id => some (id, pos) else some none
  let rets ← evs.filterMapM fun (e, pos) =>
    if e.startsWith "R" then
      match (e.drop 1).toString.splitOn "/" with
      | [id, ans] => do
        let id ← parseId id
        let o ← parseObs (ans.replace "~" " ")
        some (some (id, pos, o))
      | _ => none
    else some none
  let calls ← (ths.zipIdx.flatMap fun (th, ti) => th.zipIdx.map fun (op, k) => (ti, k, op)).mapM
    fun (ti, k, op) => do
      let inv ← invs.lookup (ti, k)
      let (ret, o) ← rets.lookup (ti, k)
      some ({ thread := ti, index := k, op := op, inv := inv, ret := ret, obs := o } : Spec.C09.Call)
  if invs.length = calls.length && rets.length = calls.length then some calls else none

def failReason : Spec.C09.Fail → String
  | .valuesWrong i => s!"values-not-newest-wins:op#{i}"
  | .conflictWrong i => s!"type-conflict-wrong:op#{i}"
  | .limitNotEnforced i => s!"limit-not-enforced:op#{i}"
  | .rejectedWrong i => s!"rejected-below-limit:op#{i}"
  | .snapshotWrong i => s!"snapshot-wrong:op#{i}"
  | .sizeWrong i => s!"size-wrong:op#{i}"
  | .sizeStaleAfterDedup i => s!"size-stale-after-dedup:op#{i}"
  | .badAnswer i => s!"bad-answer:op#{i}"

def tagsOf (tr : List (Op × Obs)) : List String :=
  tr.foldl (fun acc (op, o) =>
    let a := match op, o with
      | .write _, .ok => ["write:ok"]
      | .write _, .errLimit _ => ["write:limit"]
      | .write _, .errConflict => ["write:conflict"]
      | .snapshot, .snap _ _ => ["snapshot"]
      | .snapshot, .errInProgress => ["snapshot:in-progress"]
      | .clear true, .ok => ["clear:ok"]
      | .clear false, .ok => ["clear:failed"]
      | .delrange _ _ _, _ => ["delrange"]
      | .values _, .vals (_ :: _) => ["values:some"]
      | .values _, .vals [] => ["values:none"]
      | _, _ => []
    acc ++ a.filter (fun x => !acc.contains x)) []

def judgeSeq (tr : List (Op × Obs)) (tags : List String) : Verdict :=
  let fails := Spec.C09.check tr
  match fails.find? (fun f => !f.isStale), fails with
  | some f, _ => Verdict.fail (failReason f) tags
  | none, f :: _ => Verdict.fail (failReason f) tags
  | none, [] =>
    { ok := true, tags := tags,
      nontrivial := tr.any fun (_, o) => match o with | .vals (_ :: _) => true | _ => false }

def isConc (toks : List String) : Bool := toks.head? = some "conc"

def oracle (obs : List (List String × String)) : Verdict :=
  let wellFormed (toks : List String) : Bool :=
    if isConc toks then (match parseConc (toks.drop 1) with | some ths => concOK ths | none => false)
    else (parseOp toks).isSome
  let malformed := obs.filter fun (toks, _) => !wellFormed toks
  if malformed.any (fun (_, ans) => ans != "bad-op") then Verdict.fail "bad-line-accepted" else
  let good := obs.filter fun (toks, _) => wellFormed toks
  -- the sequential prefix is everything before the first concurrent block
  let pre := good.takeWhile fun (toks, _) => !isConc toks
  let rest := good.dropWhile fun (toks, _) => !isConc toks
  match pre.mapM (fun (toks, ans) => do
      let op ← parseOp toks
      some (op, parseObs ans)) with
  | none => Verdict.fail "bad-line"
  | some tr =>
    match tr.findIdx? (fun x => x.2.isNone) with
    | some i => Verdict.fail s!"bad-answer:op#{i}"
    | none =>
      let tr : List (Op × Obs) := tr.filterMap fun (op, o) => o.map (op, ·)
      let tags := tagsOf tr
      match rest with
      | [] => judgeSeq tr tags
      | [(toks, ans)] =>
        match parseConc (toks.drop 1), tokens ans with
        | some ths, ["hist", h] =>
          match parseHist ths h with
          | none => Verdict.fail "bad-answer:history"
          | some calls =>
            match (Spec.C09.check tr).find? (fun f => !f.isStale) with
            | some f => Verdict.fail (failReason f) tags
            | none =>
              let overl := calls.any fun a => calls.any fun b => !a.same b && a.inv < b.ret && b.inv < a.ret
              let ctags := tags ++ ["conc"] ++ (if overl then ["conc:overlapping"] else [])
              let at_ := s!"op#{tr.length}"
              match Spec.C09.judgeConc tr calls with
              | .ok => { ok := true, nontrivial := true, tags := ctags }
              | .undecided => { ok := true, nontrivial := true, tags := ctags ++ ["conc:undecided"] }
              | .sizeUndecided => { ok := true, nontrivial := true, tags := ctags ++ ["conc:size-undecided"] }
              | .sizeResidueRacingDelete => Verdict.fail ("size-residue-racing-delete:" ++ at_) ctags
              | .sizeStaleRacingRead => Verdict.fail ("size-stale-after-dedup:conc-" ++ at_) ctags
              | .sizeWrongConcurrent => Verdict.fail ("size-wrong-concurrent:" ++ at_) ctags
              | .lostWriteRacingDelete => Verdict.fail ("lost-write-racing-delete:" ++ at_) ctags
              | .lostWriteRacingInit => Verdict.fail ("lost-write-racing-init:" ++ at_) ctags
              | .readTruncatedRacingWrite => Verdict.fail ("read-truncated-racing-write:" ++ at_) ctags
              | .nonLinearizable => Verdict.fail ("non-linearizable-history:" ++ at_) ctags
              | .prefixFails => Verdict.fail "bad-line:prefix" ctags
        | _, _ => Verdict.fail "bad-answer:history"
      | _ => Verdict.fail "bad-line:ops-after-conc"

def driver : Driver DState := { init := some {}, step := step, oracle := oracle }

end Influx.Drv.C09

def main (args : List String) : IO UInt32 := Influx.Drv.C09.driver.main args
