import Influx.Proto
import Influx.Model.C13
import Influx.Spec.C13

open Influx Influx.Proto Influx.SF Influx.C13

namespace Influx.Drv.C13

def parsePKey (s : String) : Option PKey :=
  match s.splitOn ":" with
  | [k, p] => do
    let k ← hexDecode k
    let p ← p.toNat?
    if k.isEmpty ∨ p ≥ partN ∨ !wfKey k then none else some (k, p)
  | _ => none

def parsePart (s : String) : Option Nat := do
  let p ← s.toNat?
  if p < partN then some p else none

def parseOp : List String → Option Op
  | ["create", ks] => do
    if ks = "-" then none else
    some (.create (← (ks.splitOn ",").mapM parsePKey))
  | ["delete", id] => do some (.delete (← id.toNat?))
  | ["delkey", k] => do some (.delKey (← parsePKey k))
  | ["id", k] => do some (.id (← parsePKey k))
  | ["key", id] => do some (.key (← id.toNat?))
  | ["reopen"] => some .reopen
  | ["compact", p] => do some (.compact (← parsePart p))
  | ["threshold", n] => do some (.threshold (← n.toNat?))
  | ["segcompact"] => some .segCompact
  | ["torn", k, cut] => do some (.torn (← parsePKey k) (← cut.toNat?))
  | ["torndel", id, cut] => do some (.tornDel (← id.toNat?) (← cut.toNat?))
  | ["allids"] => some .allIDs
  | ["allkeys"] => some .allKeys
  | ["state", p] => do some (.state (← parsePart p))
  | ["dump", p] => do some (.dump (← parsePart p))
  | ["smallseg", id] => do some (.smallSeg (← id.toNat?))
  | ["hdrseg", p] => do some (.hdrSeg (← parsePart p))
  | _ => none

def showKeyOpt : Option Bytes → String
  | some k => hexEncode k
  | none => "nil"

def render : Obs → String
  | .ok => "ok"
  | .ids xs => showNats xs
  | .id x => toString x
  | .key k => showKeyOpt k
  | .bool b => boolStr b
  | .keyIDs ps => joinComma (ps.map fun (k, id) => s!"{hexEncode k}={id}")
  | .idKeys ps => joinComma (ps.map fun (id, k) => s!"{id}={showKeyOpt k}")
  | .nums xs => " ".intercalate (xs.map toString)
  | .entries es => joinComma (es.map fun e => s!"{e.flag}:{e.id}:{e.off}:{hexEncode e.key}")
  | .err e => e
  | .other s => s

def parseKeyOpt (s : String) : Option (Option Bytes) :=
  if s = "nil" then some none else (hexDecode s).map some

def parseObs (op : Op) (s : String) : Obs :=
  let other := Obs.other s
  let orOther := fun (o : Option Obs) => o.getD other
  if s = "err" || s.startsWith "err-" || s = "bad-op" then .err s else
  match op with
  | .create _ => orOther ((parseNats s).map .ids)
  | .delete _ | .reopen | .compact _ | .threshold _ | .segCompact | .smallSeg _ | .hdrSeg _ =>
    if s = "ok" then .ok else other
  | .delKey _ | .id _ | .torn .. => orOther (s.toNat?.map .id)
  | .key _ => orOther ((parseKeyOpt s).map .key)
  | .tornDel .. => orOther ((parseBool s).map .bool)
  | .allIDs =>
    orOther (((splitComma s).mapM fun (t : String) => match t.splitOn "=" with
      | [k, id] => do some ((← hexDecode k), (← id.toNat?))
      | _ => none).map .keyIDs)
  | .allKeys =>
    orOther (((splitComma s).mapM fun (t : String) => match t.splitOn "=" with
      | [id, k] => do some ((← id.toNat?), (← parseKeyOpt k))
      | _ => none).map .idKeys)
  | .state _ => orOther (((s.splitOn " ").mapM String.toNat?).map .nums)
  | .dump _ => .other s

/-- model state of the driver: the series file, and whether an ambiguous partition was touched -/
def step (st : State) (toks : List String) : State × String :=
  match parseOp toks with
  | some op =>
    let (st2, a) := Influx.C13.stepM st op
    -- answers that depend on a partition whose on-disk index holds duplicate keys/ids are
    -- not predicted (the probe order of the on-disk hash map is not modelled)
    let amb := (touches op).any fun i =>
      (match st.parts[i]? with | some p => p.ambiguous | none => false) ||
      (match st2.parts[i]? with | some p => p.ambiguous | none => false)
    (st2, if amb || a == .err "unmodelled" then "*" else render a)
  | none => (st, "bad-op")

def tagsOf (tr : List (Op × Obs)) : List String :=
  let has := fun (p : Op → Bool) => tr.any fun x => p x.1
  (if has (fun o => match o with | .torn .. => true | _ => false) then ["torn"] else []) ++
  (if has (fun o => match o with | .tornDel .. => true | _ => false) then ["torn-delete"] else []) ++
  (if has (fun o => match o with | .segCompact => true | _ => false) then ["segment-compaction"] else []) ++
  (if has (fun o => match o with | .compact _ => true | _ => false) then ["index-compaction"] else []) ++
  (if has (fun o => match o with | .threshold _ => true | _ => false) then ["threshold"] else []) ++
  (if has (fun o => match o with | .reopen => true | _ => false) then ["reopen"] else []) ++
  (if has (fun o => match o with | .delete _ | .delKey _ => true | _ => false) then ["delete"] else [])

def oracle (obs : List (List String × String)) : Verdict :=
  let parsed := obs.mapM fun (toks, ans) => (parseOp toks).map fun op => (op, parseObs op ans)
  match parsed with
  | none =>
    if obs.all (fun (toks, ans) => (parseOp toks).isSome || ans == "bad-op") then Verdict.pass false ["malformed"]
    else Verdict.fail "bad-line:"
  | some tr =>
    match Spec.C13.firstFailure {} tr with
    | none => Verdict.pass (tr.length > 1) (tagsOf tr)
    | some why => Verdict.fail why (tagsOf tr)

def driver : Driver State := { init := Influx.C13.init, step := step, oracle := oracle }

end Influx.Drv.C13

def main (args : List String) : IO UInt32 := Influx.Drv.C13.driver.main args
