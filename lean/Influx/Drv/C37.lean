/-
  Drv.C37 — string shell around Model.ValuesRun / Spec.C37.

  op lines (ft = family `v` (tsm1.*Values) or `a` (cursors.*Array) + value type
  f|i|u|s|b, or `vg` for the interface-typed tsm1.Values):
    merge  ft <tsA> <valsA> <tsB> <valsB>      -> `<ts> <vals>`
    excl   ft <ts> <vals> <lo> <hi>            -> `<ts> <vals>` | panic
    incl   ft <ts> <vals> <lo> <hi>            -> `<ts> <vals>` | panic
    frange ft <ts> <vals> <lo> <hi>            -> `<rmin> <rmax>`   (`-1 -1`)
    search ft <ts> <vals> <t>                  -> `<n>`
    dedup  vX <ts> <vals>                      -> `<ts> <vals>`
  payloads are opaque integer tokens (the harness maps them injectively into the value type).
-/
import Influx.Proto
import Influx.Model.ValuesRun

open Influx Influx.Proto Influx.Spec.C37

namespace Influx.Drv.C37

abbrev V := Int

def parseFT (s : String) : Option Fam :=
  if s ∈ ["vf", "vi", "vu", "vs", "vb", "vg"] then some .tsm1
  else if s ∈ ["af", "ai", "au", "as", "ab"] then some .cursors
  else none

def parseArr (ts vs : String) : Option (List (Int × V)) := do
  let t ← parseInts ts
  let v ← parseInts vs
  if t.length = v.length then some (t.zip v) else none

def parseOp : List String → Option (Fam × Op V)
  | ["merge", ft, ta, va, tb, vb] => do
    let f ← parseFT ft
    let a ← parseArr ta va
    let b ← parseArr tb vb
    some (f, .merge f a b)
  | ["excl", ft, ta, va, lo, hi] => do
    let f ← parseFT ft
    let a ← parseArr ta va
    some (f, .exclude a (← lo.toInt?) (← hi.toInt?))
  | ["incl", ft, ta, va, lo, hi] => do
    let f ← parseFT ft
    let a ← parseArr ta va
    some (f, .incl a (← lo.toInt?) (← hi.toInt?))
  | ["frange", ft, ta, va, lo, hi] => do
    let f ← parseFT ft
    let a ← parseArr ta va
    some (f, .findRange a (← lo.toInt?) (← hi.toInt?))
  | ["search", ft, ta, va, t] => do
    let f ← parseFT ft
    let a ← parseArr ta va
    some (f, .search a (← t.toInt?))
  | ["dedup", ft, ta, va] => do
    let f ← parseFT ft
    if f ≠ .tsm1 then none
    let a ← parseArr ta va
    some (f, .dedup a)
  | _ => none

def render : Res V → String
  | .arr l => showInts (l.map (·.1)) ++ " " ++ showInts (l.map (·.2))
  | .range none => "-1 -1"
  | .range (some (x, y)) => s!"{x} {y}"
  | .pos n => toString n
  | .panic => "panic"

/-- parse the implementation's answer, by the kind of answer the operation has -/
def parseRes (op : Op V) (ans : String) : Option (Res V) :=
  if ans = "panic" then some .panic else
  match op, tokens ans with
  | .findRange .., ["-1", "-1"] => some (.range none)
  | .findRange .., [x, y] => do some (.range (some (← x.toNat?, ← y.toNat?)))
  | .search .., [n] => do some (.pos (← n.toNat?))
  | .merge .., [t, v] => (parseArr t v).map .arr
  | .exclude .., [t, v] => (parseArr t v).map .arr
  | .incl .., [t, v] => (parseArr t v).map .arr
  | .dedup .., [t, v] => (parseArr t v).map .arr
  | _, _ => none

def step (_ : Unit) (toks : List String) : Unit × String :=
  match parseOp toks with
  | some (_, op) => ((), render (Values.run op))
  | none => ((), "bad-op")

def sigOf : Op V → String
  | .merge .. => "merge-not-right-biased-union"
  | .exclude .. => "exclude-not-exact"
  | .incl .. => "include-not-exact"
  | .findRange .. => "findrange-wrong-positions"
  | .search .. => "search-wrong-position"
  | .dedup .. => "dedup-not-canonical"

def oracle (obs : List (List String × String)) : Verdict :=
  obs.foldl (fun v (toks, ans) =>
    match parseOp toks with
    | none =>
      -- an ill-formed operation: both sides must refuse it
      if ans = "bad-op" then v.and { ok := true, nontrivial := false, tags := ["malformed"] }
      else v.and (Verdict.fail ("malformed-op-accepted:" ++ "_".intercalate toks))
    | some (_, op) =>
      let ft := (toks.drop 1).headD "?"
      let opn := toks.headD "?"
      match parseRes op ans with
      | none => v.and (Verdict.fail ("unparsable-answer:" ++ "_".intercalate toks))
      | some r =>
        let ok := holdsOn op r
        let sc := inScope op
        v.and { ok := ok, nontrivial := sc,
                tags := [opn ++ ":" ++ ft, if sc then "in-scope" else "out-of-scope"],
                reason := if ok then "" else sigOf op ++ ":" ++ "_".intercalate toks ++ "=>" ++ ans.replace " " "_" })
    (Verdict.pass false)

def driver : Driver Unit := { init := (), step := step, oracle := oracle }

end Influx.Drv.C37

def main (args : List String) : IO UInt32 := Influx.Drv.C37.driver.main args
