/-
  Drv.C11 — driver of C11.

    key <namehex> <tags>
        -> <keyhex> <name'> <tags'> pk=<ParseKey agrees with ParseKeyBytes>
    pt <prec> <deftime> <namehex> <tags> <fields> <time|z>
        -> rej:<nofields|time|field|maxkey>
         | <linehex> ok <key> <name> <tags> <time> <fields>
         | <linehex> err <errhex>
         | <linehex> n <count> <errhex>
-/
import Influx.Proto
import Influx.Model.LineProtocolWire
import Influx.Spec.C11

open Influx Influx.Proto Influx.LP Influx.LP.Wire

namespace Influx.Drv.C11

inductive Op
  | key (name : Bytes) (tags : List Tag)
  | pt (prec : String) (dt : Int) (p : PointIn)

def parseOp : List String → Option Op
  | ["key", name, tags] => do some (.key (← hexDecode name) (← Wire.parseTags tags))
  | ["pt", prec, dt, name, tags, fields, time] => do
    if !["ns", "us", "ms", "s"].contains prec then none
    some (.pt prec (← dt.toInt?) ⟨← hexDecode name, ← Wire.parseTags tags, ← parseFields fields, ← parseTime time⟩)
  | _ => none

def rejStr : Rej → String
  | .nofields => "rej:nofields" | .time => "rej:time" | .field => "rej:field" | .maxkey => "rej:maxkey"

def modelAnswer : Op → String
  | .key name tags =>
    let k := makeKey name tags
    match parseKeyBytes k with
    | none => hex k ++ " panic"
    | some (n, ts) => hex k ++ " " ++ hex n ++ " " ++ tagsStr ts ++ " pk=1"
  | .pt prec dt p =>
    match newPoint p with
    | .error r => rejStr r
    | .ok (key, fields) =>
      let line := renderLine key fields p.time prec
      let rs := parseLines line dt prec
      let pts := okPoints rs
      let err := errorText (failedLines rs)
      match pts, err with
      | [q], none =>
        hex line ++ " ok " ++ pointDesc q ++ " " ++ valueFieldsStr (floatTable p.fields) (pointFields q.fields)
      | [], _ => hex line ++ " err " ++ errHex err
      | _, _ => hex line ++ " n " ++ toString pts.length ++ " " ++ errHex err

def step (_ : Unit) (toks : List String) : Unit × String :=
  match parseOp toks with
  | some op => ((), modelAnswer op)
  | none => ((), "bad-op")

/-! ### the statement checker on the implementation's answers -/

open Influx.Spec.C11 in
def parseOVal (s : String) : Option (Bytes × OVal) :=
  match s.splitOn ":" with
  | [k, "f", bits] => do some (← hexDecode k, .float (← hex64 bits))
  | [k, "i", v] => do some (← hexDecode k, .int (← v.toInt?))
  | [k, "u", v] => do some (← hexDecode k, .uint (← v.toNat?))
  | [k, "b", v] => do some (← hexDecode k, .bool (← parseBool v))
  | [k, "s", v] => do some (← hexDecode k, .str (← hexDecode v))
  | _ => none

open Influx.Spec.C11 in
/-- answer of a `pt` op → observation; `none`: not an answer of the protocol -/
def parsePtAns (ans : List String) : Option PtRes :=
  match ans with
  | [r] => if r.startsWith "rej:" then some .rejected else none
  | [_line, "ok", _key, name, tags, time, fields] =>
    match hexDecode name, Wire.parseTags tags, time.toInt?, (splitComma fields).mapM parseOVal with
    | some n, some ts, some t, some fs => some (.parsed ⟨n, ts, t, fs⟩)
    | _, _, _, _ => some .failed      -- PANIC / ERR tokens
  | [_line, "err", _] => some .failed
  | [_line, "n", _, _] => some .failed
  | _ => none

def parseKeyAns (ans : List String) : Option (Option (Bytes × List Tag) × Bool) :=
  match ans with
  | [_key, "panic"] => some (none, true)
  | [_key, name, tags, pk] => do
    some (some (← hexDecode name, ← Wire.parseTags tags), pk == "pk=1")
  | _ => none

def clip (s : String) : String := if s.length > 160 then (s.take 160).toString ++ "…" else s

open Influx.Spec.C11 in
def judge (toks : List String) (ans : String) : Verdict :=
  match parseOp toks with
  | none => Verdict.fail "bad-line"
  | some (.key name tags) =>
    match parseKeyAns (tokens ans) with
    | none => Verdict.fail ("bad-answer:" ++ clip (ans.replace " " "_"))
    | some (res, pk) =>
      let cls := classifyKey name tags
      let ok := holdsOnKey ⟨name, tags, res⟩
      if !pk then Verdict.fail ("key-parsekey-disagrees:" ++ "_".intercalate toks)
      else if ok then { ok := true, nontrivial := true, tags := ["key:" ++ cls] }
      else Verdict.fail ((if cls == "valid" then "key-valid-mismatch:" else "key-excluded-" ++ cls ++ ":") ++
        clip ("_".intercalate toks)) ["key:" ++ cls]
  | some (.pt prec dt p) =>
    match parsePtAns (tokens ans) with
    | none => Verdict.fail ("bad-answer:" ++ clip (ans.replace " " "_"))
    | some res =>
      let o : PtObs := ⟨prec, dt, p, res⟩
      let cls := if ValidObs o then "valid" else
        (let c := classifyPt p prec; if c == "valid" then "default-time-extreme" else c)
      let kind := match res with | .rejected => "rejected" | .parsed _ => "parsed" | .failed => "failed"
      if holdsOnPt o then
        { ok := true, nontrivial := res != .rejected, tags := ["pt:" ++ cls, "pt:" ++ kind, "prec:" ++ prec] }
      else Verdict.fail ((if cls == "valid" then "pt-valid-mismatch:" else "pt-excluded-" ++ cls ++ ":") ++
        clip ("_".intercalate toks)) ["pt:" ++ cls, "pt:" ++ kind]

/-- all ops of the case; a failure on a *valid* input is reported first, so that it cannot hide
    behind a failure of an excluded class (a known finding) in the same case -/
def oracle (obs : List (List String × String)) : Verdict :=
  let vs := obs.map fun (toks, ans) => judge toks ans
  let all := vs.foldl Verdict.and (Verdict.pass false)
  match vs.find? (fun v => !v.ok && !(v.reason.startsWith "pt-excluded-" || v.reason.startsWith "key-excluded-")) with
  | some v => { all with reason := v.reason }
  | none => all

def driver : Driver Unit := { init := (), step := step, oracle := oracle }

end Influx.Drv.C11

def main (args : List String) : IO UInt32 := Influx.Drv.C11.driver.main args
