/-
  Drv.C05 — string shell around Model.Planner / Spec.C05.

  ops:      new <durPos>
            fs <modFuture> <hexpath,gen,seq,size,fbc,tomb>*
            add <hexpath,gen,seq,size,fbc,tomb>
            find | plan <cold> | level <n> | opt <cold> | force | fully
            release <k> | done <k> <size> <fbc> | inuse
  answers:  ok | rejected | released | not-held
            gens <id>:<hexpath>+<hexpath>,…        (`-` = none)
            plan n=<len> gc=<generationCount> <hexpath>+<hexpath>,…
            fully <0|1> <reason code>
            done <hexpath> <gen> <seq>
            inuse <hexpath>,…
-/
import Influx.Proto
import Influx.Model.Planner
import Influx.Spec.C05

open Influx Influx.Proto Influx.Planner

namespace Influx.Drv.C05

def parseFile (s : String) : Option File :=
  match s.splitOn "," with
  | [p, g, q, sz, fbc, t] => do
    let p ← hexToString p
    let g ← g.toInt?
    let q ← q.toInt?
    let sz ← sz.toNat?
    let fbc ← fbc.toInt?
    let t ← parseBool t
    if p.isEmpty || sz > 4294967295 then none else some ⟨p, g, q, sz, fbc, t⟩
  | _ => none

def parseOp : List String → Option Op
  | ["new", d] => (parseBool d).map .new
  | "fs" :: mf :: files => do
    let mf ← parseBool mf
    let fs ← files.mapM parseFile
    some (.setfs mf fs)
  | ["add", f] => (parseFile f).map .add
  | ["find"] => some .find
  | ["plan", c] => (parseBool c).map .plan
  | ["level", n] => n.toInt?.map .level
  | ["opt", c] => (parseBool c).map .opt
  | ["force"] => some .force
  | ["fully"] => some .fully
  | ["release", k] => k.toNat?.map .release
  | ["done", k, sz, fbc] => do
    let k ← k.toNat?
    let sz ← sz.toNat?
    let fbc ← fbc.toInt?
    if sz > 4294967295 then none else some (.done k sz fbc)
  | ["inuse"] => some .inuse
  | _ => none

def showPaths (sep : String) (ps : List String) : String := sep.intercalate (ps.map stringToHex)

def showGroups (gs : List (List String)) : String :=
  if gs.isEmpty then "-" else ",".intercalate (gs.map (showPaths "+"))

def render : Obs → String
  | .ok => "ok"
  | .rejected => "rejected"
  | .released => "released"
  | .notHeld => "not-held"
  | .gens gs =>
    "gens " ++ (if gs.isEmpty then "-" else
      ",".intercalate (gs.map fun (id, ps) => toString id ++ ":" ++ showPaths "+" ps))
  | .plan groups n gc => s!"plan n={n} gc={gc} {showGroups groups}"
  | .fully b why => s!"fully {boolStr b} {why}"
  | .done p g q => s!"done {stringToHex p} {g} {q}"
  | .inuse fs => "inuse " ++ (if fs.isEmpty then "-" else showPaths "," fs)

def parsePaths (sep : String) (s : String) : Option (List String) :=
  (s.splitOn sep).mapM hexToString

def parseGroups (s : String) : Option (List (List String)) :=
  if s = "-" then some [] else (s.splitOn ",").mapM (parsePaths "+")

def dropPrefix (p s : String) : Option String :=
  if s.startsWith p then some (s.drop p.length).toString else none

def parseObs (s : String) : Option Obs :=
  match tokens s with
  | ["ok"] => some .ok
  | ["rejected"] => some .rejected
  | ["released"] => some .released
  | ["not-held"] => some .notHeld
  | ["gens", g] =>
    if g = "-" then some (.gens []) else
      ((g.splitOn ",").mapM fun (e : String) =>
        match e.splitOn ":" with
        | [id, ps] => do
          let id ← String.toInt? id
          let ps ← parsePaths "+" ps
          some (id, ps)
        | _ => none).map .gens
  | ["plan", n, gc, g] => do
    let n ← (← dropPrefix "n=" n).toNat?
    let gc ← (← dropPrefix "gc=" gc).toNat?
    let g ← parseGroups g
    some (.plan g n gc)
  | ["fully", b, w] => do
    let b ← parseBool b
    let w ← w.toNat?
    some (.fully b w)
  | ["done", p, g, q] => do
    let p ← hexToString p
    let g ← g.toInt?
    let q ← q.toInt?
    some (.done p g q)
  | ["inuse", fs] => if fs = "-" then some (.inuse []) else (parsePaths "," fs).map .inuse
  | _ => none

def step (s : State) (toks : List String) : State × String :=
  match parseOp toks with
  | some op => let (s', o) := Planner.step s op; (s', render o)
  | none => (s, "bad-op")

def failReason : Spec.C05.Fail → String
  | .doubleBooked i => s!"double-booked:op#{i}"
  | .noncontiguous i true => s!"noncontiguous-full-plan:op#{i}"
  | .noncontiguous i false => s!"noncontiguous-plan:op#{i}"
  | .badAnswer i => s!"bad-answer:op#{i}"

def tagsOf (tr : List (Op × Obs)) : List String :=
  let t := tr.foldl (fun acc (op, o) =>
    let a := match op, o with
      | .plan _, .plan (_ :: _) _ _ => ["plan:groups"]
      | .level _, .plan (_ :: _) _ _ => ["level:groups"]
      | .opt _, .plan (_ :: _) _ _ => ["opt:groups"]
      | _, .plan [] (_ + 1) _ => ["acquire-failed"]
      | .release _, .released => ["release"]
      | .done _ _ _, .done _ _ _ => ["done"]
      | _, _ => []
    acc ++ a.filter (fun x => !acc.contains x)) []
  t

def oracle (obs : List (List String × String)) : Verdict :=
  -- a malformed line must have been refused by the implementation too; it is not part of the trace
  let malformed := obs.filter fun (toks, _) => (parseOp toks).isNone
  if malformed.any (fun (_, ans) => ans != "bad-op") then Verdict.fail "bad-line-accepted" else
  match (obs.filter fun (toks, _) => (parseOp toks).isSome).mapM (fun (toks, ans) => do
      let op ← parseOp toks
      some (op, parseObs ans)) with
  | none => Verdict.fail "bad-line"
  | some tr =>
    match tr.findIdx? (fun x => x.2.isNone) with
    | some i => Verdict.fail s!"bad-answer:op#{i}"
    | none =>
      let tr : List (Op × Obs) := tr.filterMap fun (op, o) => o.map (op, ·)
      let fails := Spec.C05.check tr
      let tags := tagsOf tr
      -- report a failure that is not the known full-path one first, if there is any
      match fails.find? (fun f => !f.isFullNoncontiguous), fails with
      | some f, _ => Verdict.fail (failReason f) tags
      | none, f :: _ => Verdict.fail (failReason f) tags
      | none, [] =>
        { ok := true, tags := tags,
          nontrivial := tr.any fun (_, o) => match o with | .plan (_ :: _) _ _ => true | _ => false }

def driver : Driver State := { init := {}, step := step, oracle := oracle }

end Influx.Drv.C05

def main (args : List String) : IO UInt32 := Influx.Drv.C05.driver.main args
