import Influx.Proto
import Influx.Model.EngineSteps
import Influx.Model.LockOrder
import Influx.Model.LockOrderExtracted
import Influx.Spec.C39

open Influx Influx.Proto Influx.Conc

namespace Influx.Drv.C39

/-- a line of a case: an operation of the schedule machine, or one of the two source-fact ops -/
inductive Line
  | op (o : Op)
  | lockorder (edges : List (String × String))
  | steporder
  | lockmode
  | stress
  | batches (expected : Nat)

def field (name : String) (tok : String) : Option String :=
  if tok.startsWith (name ++ "=") then some (String.ofList (tok.toList.drop (name.length + 1))) else none

def parseEdges (s : String) : Option (List (String × String)) :=
  (splitComma s).mapM fun e =>
    match e.splitOn ">" with
    | [a, b] => if a = "" || b = "" then none else some (a, b)
    | _ => none

def parseLine : List String → Option Line
  | ["w", k, t, v] => do some (.op (.write (← k.toNat?) (← t.toInt?) (← v.toInt?)))
  | ["snap-begin"] => some (.op .snapBegin)
  | ["snap-replace"] => some (.op .snapReplace)
  | ["snap-clear"] => some (.op .snapClear)
  | ["compact-begin"] => some (.op .compactBegin)
  | ["compact-commit"] => some (.op .compactCommit)
  | ["del", k, lo, hi] => do some (.op (.delete (← k.toNat?) (← lo.toInt?) (← hi.toInt?)))
  | ["del-begin", k, lo, hi] => do some (.op (.delBegin (← k.toNat?) (← lo.toInt?) (← hi.toInt?)))
  | ["del-end"] => some (.op .delEnd)
  | ["read", k] => do some (.op (.read (← k.toNat?)))
  | ["read-begin", r, k] => do some (.op (.readBegin (← r.toNat?) (← k.toNat?)))
  | ["read-end", r] => do some (.op (.readEnd (← r.toNat?)))
  | ["lockorder", es] => do some (.lockorder (← parseEdges es))
  | ["steporder"] => some .steporder
  | ["lockmode"] => some .lockmode
  | ["batches", seed, w, n, r] => do
    let _ ← seed.toNat?
    some (.batches ((← w.toNat?) * (← n.toNat?) * (← r.toNat?)))
  | ["stress", seed, w, r, n] => do
    let _ ← seed.toNat?; let _ ← w.toNat?; let _ ← r.toNat?; let _ ← n.toNat?
    some .stress
  | _ => none

def showPts (l : List (TS × Val)) : String :=
  "pts " ++ joinComma (l.map fun p => s!"{p.1}={p.2}")

def render : Ans → String
  | .ok => "ok"
  | .busy => "busy"
  | .badOp => "bad-op"
  | .done => "done"
  | .pts l => showPts l

def parsePt (s : String) : Option (TS × Val) :=
  match s.splitOn "=" with
  | [t, v] => do some (← t.toInt?, ← v.toInt?)
  | _ => none

def parseAns (s : String) : Option Ans :=
  match tokens s with
  | ["ok"] => some .ok
  | ["busy"] => some .busy
  | ["bad-op"] => some .badOp
  | ["done"] => some .done
  | ["pts", l] => (splitComma l).mapM parsePt |>.map .pts
  | _ => none

/-- one event token of a stress history: `w,k,t,v,s,e` or `r,k,s,e,t=v;t=v` (`-` = no point) -/
def parseStress (ans : String) : Option (List Spec.C39.WEv × List Spec.C39.REv) :=
  match tokens ans with
  | "hist" :: evs =>
    evs.foldlM (fun (acc : List Spec.C39.WEv × List Spec.C39.REv) ev =>
      match ev.splitOn "," with
      | ["w", k, t, v, s, e] => do
        some (⟨← k.toNat?, ← t.toInt?, ← v.toInt?, ← s.toNat?, ← e.toNat?⟩ :: acc.1, acc.2)
      | ["r", k, s, e, pts] => do
        let ps ← if pts = "-" then some [] else (pts.splitOn ";").mapM parsePt
        some (acc.1, ⟨← k.toNat?, ← s.toNat?, ← e.toNat?, ps⟩ :: acc.2)
      | _ => none) ([], [])
  | _ => none

def showStepOrder (f : List (String × List String)) : String :=
  " ".intercalate (f.map fun e => e.1 ++ "=" ++ ",".intercalate e.2)

def step (y : Sys) (toks : List String) : Sys × String :=
  match parseLine toks with
  | some (.op o) => let (y', a) := sysStep y o; (y', render a)
  | some (.lockorder es) => (y, "acyclic=" ++ boolStr (LockOrder.isAcyclic es))
  | some .steporder => (y, showStepOrder Spec.C39.expectedStepOrder)
  | some .lockmode => (y, Spec.C39.expectedLockModes)
  | some (.batches n) => (y, s!"acked={n} readable={n} lost=-")
  | some .stress => (y, "*")       -- a free-running schedule: not predicted, judged by the oracle
  | none => (y, "bad-op")

def opTag : Op → String
  | .write .. => "write" | .snapBegin => "snap-begin" | .snapReplace => "snap-replace"
  | .snapClear => "snap-clear" | .compactBegin => "compact-begin" | .compactCommit => "compact-commit"
  | .delete .. => "delete" | .delBegin .. => "del-begin" | .delEnd => "del-end"
  | .read _ => "read" | .readBegin .. => "read-begin" | .readEnd _ => "read-end"

def dedupS (xs : List String) : List String :=
  xs.foldl (fun acc x => if acc.contains x then acc else acc ++ [x]) []

def sameEdges (a b : List (String × String)) : Bool :=
  a.all (fun e => b.contains e) && b.all (fun e => a.contains e)

def oracle (obs : List (List String × String)) : Verdict :=
  if obs.any (fun (t, a) => (parseLine t).isNone && a != "bad-op") then Verdict.fail "bad-line:unparsed-op" else
  let lines := obs.filterMap fun (t, a) => (parseLine t).map (·, a)
  -- the source-fact lines
  let factVerdict := lines.foldl (fun (v : Verdict) (l, a) =>
    match l with
    | .lockorder es =>
      let ok := Spec.C39.lockOrderHolds es
      let tag := if sameEdges es LockOrder.extractedEdges then "lockorder:same-as-committed" else "lockorder:differs-from-committed"
      v.and { ok := ok, nontrivial := true, tags := ["lockorder", tag, s!"lock-edges:{es.length}"],
              reason := if ok then "" else "lock-order-cycle:" ++ "+".intercalate (LockOrder.stuckNodes es) }
    | .steporder =>
      let ok := a == showStepOrder Spec.C39.expectedStepOrder
      v.and { ok := ok, nontrivial := true, tags := ["steporder"],
              reason := if ok then "" else "step-order-changed:" ++ a.replace " " "_" }
    | .lockmode =>
      let ok := a == Spec.C39.expectedLockModes
      v.and { ok := ok, nontrivial := true, tags := ["lockmode"],
              reason := if ok then "" else "lock-mode-changed:" ++ a.replace " " "_" }
    | .batches n =>
      match tokens a with
      | [ac, rd, lost] =>
        match (field "acked" ac).bind String.toNat?, (field "readable" rd).bind String.toNat? with
        | some acked, some readable =>
          let ok := Spec.C39.batchesOK n acked readable
          v.and { ok := ok, nontrivial := true, tags := ["batches"],
                  reason := if ok then "" else s!"acknowledged-write-lost:{acked - readable}-of-{acked}-{lost}" }
        | _, _ => v.and (Verdict.fail ("bad-observation:" ++ ((a.take 40).replace " " "_")))
      | _ => v.and (Verdict.fail ("bad-observation:" ++ ((a.take 40).replace " " "_")))
    | .stress =>
      match parseStress a with
      | some (ws, rs) =>
        let ok := Spec.C39.stressOK ws rs
        v.and { ok := ok, nontrivial := true, tags := ["stress", s!"stress-reads:{rs.length}"],
                reason := if ok then "" else "stress-read-unexplained:" ++ s!"{ws.length}-writes-{rs.length}-reads" }
      | none => v.and (Verdict.fail ("bad-observation:" ++ ((a.take 40).replace " " "_")))
    | .op _ => v) (Verdict.pass false)
  let ops := lines.filterMap fun (l, a) => match l with | .op o => some (o, a) | _ => none
  match ops.mapM (fun (o, a) => (parseAns a).map (o, ·)) with
  | none =>
    let bad := (ops.find? (fun (_, a) => (parseAns a).isNone)).map (·.2) |>.getD "?"
    factVerdict.and (Verdict.fail ("bad-observation:" ++ ((bad.take 40).replace " " "_")))
  | some c =>
    let fs := Spec.C39.failuresFrom Spec.C39.SpecSt.init c
    let reads := c.any fun p => match p.2 with | .pts _ => true | _ => false
    let tags := dedupS (c.map (fun p => opTag p.1) ++ c.filterMap (fun p => if p.2 == .busy then some "busy" else none))
    let v : Verdict :=
      match fs.head? with
      | some s => { ok := false, nontrivial := true, tags := tags, reason := s.name ++ s!":{fs.length}-failure(s)" }
      | none => { ok := true, nontrivial := reads, tags := tags }
    factVerdict.and v

def driver : Driver Sys := { init := Sys.init, step := step, oracle := oracle }

end Influx.Drv.C39

def main (args : List String) : IO UInt32 := Influx.Drv.C39.driver.main args
