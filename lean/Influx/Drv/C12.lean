/-
  Drv.C12 — driver of C12.

    pp <prec> <deftime> <bufhex>
        -> <npoints> <errhex|nil> { | <key> <name> <tags> <time> <rawfields> <iterfields> <Fields():ok|ERR|PANIC> }*
    pk <bufhex>  -> <name> <tags>       (ParseKeyBytes on arbitrary bytes)
-/
import Influx.Proto
import Influx.Model.LineProtocolWire

open Influx Influx.Proto Influx.LP Influx.LP.Wire

namespace Influx.Drv.C12

inductive Op
  | pp (prec : String) (dt : Int) (buf : Bytes)
  | pk (buf : Bytes)

def parseOp : List String → Option Op
  | ["pp", prec, dt, buf] => do
    if !validPrec prec then none
    some (.pp prec (← dt.toInt?) (← hexDecode buf))
  | ["pk", buf] => do some (.pk (← hexDecode buf))
  | _ => none

def pointStr (p : Point) : String :=
  pointDesc p ++ " " ++ hex p.fields ++ " " ++ iterFieldsStr p.fields ++ " " ++
    (match pointFields p.fields with | .ok _ => "ok" | .error .err => "ERR" | .error .panic => "PANIC")

def modelAnswer : Op → String
  | .pp prec dt buf =>
    let rs := parseLines buf dt prec
    let pts := okPoints rs
    toString pts.length ++ " " ++ errHex (errorText (failedLines rs)) ++
      String.join (pts.map fun p => " | " ++ pointStr p)
  | .pk buf =>
    match parseKeyBytes buf with
    | none => "panic"
    | some (n, ts) => hex n ++ " " ++ tagsStr ts

def step (_ : Unit) (toks : List String) : Unit × String :=
  match parseOp toks with
  | some op => ((), modelAnswer op)
  | none => ((), "bad-op")

def oracle (_obs : List (List String × String)) : Verdict := Verdict.pass false

def driver : Driver Unit := { init := (), step := step, oracle := oracle }

end Influx.Drv.C12

def main (args : List String) : IO UInt32 := Influx.Drv.C12.driver.main args
