/-
  Drv.C12 — driver of C12.

    pp <prec> <deftime> <bufhex>
        -> <npoints> <errhex|nil> { | <key> <name> <tags> <time> <rawfields> <iterfields> <Fields():ok|ERR|PANIC> }*
    pk <bufhex>  -> <name> <tags>       (ParseKeyBytes on arbitrary bytes)
-/
import Influx.Proto
import Influx.Model.LineProtocolWire
import Influx.Spec.C12

open Influx Influx.Proto Influx.LP Influx.LP.Wire

namespace Influx.Drv.C12

inductive Op
  | pp (prec : String) (dt : Int) (buf : Bytes)
  | pk (buf : Bytes)

def parseOp : List String → Option Op
  | ["pp", prec, dt, buf] => do
    if !validPrec prec then none
    some (.pp prec (← dt.toInt?) (← hexDecode buf))
  | ["pk", buf] => do some (.pk (← hexDecode buf))
  | _ => none

def pointStr (p : Point) : String :=
  pointDesc p ++ " " ++ hex p.fields ++ " " ++ iterFieldsStr p.fields ++ " " ++
    (match pointFields p.fields with | .ok _ => "ok" | .error .err => "ERR" | .error .panic => "PANIC")

def modelAnswer : Op → String
  | .pp prec dt buf =>
    let rs := parseLines buf dt prec
    let pts := okPoints rs
    toString pts.length ++ " " ++ errHex (errorText (failedLines rs)) ++
      String.join (pts.map fun p => " | " ++ pointStr p)
  | .pk buf =>
    match parseKeyBytes buf with
    | none => "panic"
    | some (n, ts) => hex n ++ " " ++ tagsStr ts

def step (_ : Unit) (toks : List String) : Unit × String :=
  match parseOp toks with
  | some op => ((), modelAnswer op)
  | none => ((), "bad-op")

/-! ### the statement checker on the implementation's answers -/

open Influx.Spec.C12

/-- one `khex:T:value` of the iterator listing: the key, and whether the accessor returned -/
def parseIterField (s : String) : Option (Bytes × Bool) :=
  match s.splitOn ":" with
  | [k, _t, v] => do some (← hexDecode k, v != "PANIC" && v != "HANG")
  | _ => none

/-- the observed point, and whether `Fields()` returned without an error -/
def parsePoint (toks : List String) : Option (PointObs × Bool) :=
  match toks with
  | [key, name, tags, time, _raw, iter, fv] =>
    match hexDecode key, time.toInt? with
    | some k, some t =>
      let nm := hexDecode name
      let tg := Wire.parseTags tags
      let its := (splitComma iter).mapM parseIterField
      some ({ key := k, name := nm.getD [], tags := tg.getD [], time := t
              fieldKeys := (its.getD []).map (·.1)
              clean := nm.isSome && tg.isSome && its.isSome && (its.getD []).all (·.2) && fv != "PANIC" },
            fv == "ok")
    | _, _ => none
  | _ => none

/-- split the answer tokens at `|` -/
def splitBar (toks : List String) : List (List String) :=
  toks.foldr (fun t acc => if t == "|" then [] :: acc else
    match acc with
    | [] => [[t]]
    | g :: gs => (t :: g) :: gs) [[]]

/-- `none`: not an answer of the protocol; `some none`: panic / timeout / crash -/
def parsePPAns (ans : String) : Option (Option (List (PointObs × Bool) × Option Bytes)) :=
  if ans.startsWith "panic" || ans == "timeout" || ans == "crash" || ans == "skipped" then some none else
  match splitBar (tokens ans) with
  | [n, err] :: groups => do
    let n ← n.toNat?
    let e ← if err == "nil" then some none else (hexDecode err).map some
    let pts ← groups.mapM parsePoint
    if pts.length == n then some (some (pts, e)) else none
  | _ => none

def clip (s : String) : String := if s.length > 200 then (s.take 200).toString ++ "…" else s

def judge (toks : List String) (ans : String) : Verdict :=
  match parseOp toks with
  | none => Verdict.fail "bad-line"
  | some (.pk _) =>
    if ans.startsWith "panic" || ans == "timeout" || ans == "crash" then
      Verdict.fail ("parsekey-does-not-return:" ++ clip ("_".intercalate toks))
    else { ok := true, nontrivial := true, tags := ["pk"] }
  | some (.pp prec dt buf) =>
    match parsePPAns ans with
    | none => Verdict.fail ("bad-answer:" ++ clip (ans.replace " " "_"))
    | some res0 =>
      let res := res0.map fun r => (r.1.map (·.1), r.2)
      let o : Obs := ⟨prec, dt, buf, res⟩
      match res with
      | none => Verdict.fail ("does-not-return:" ++ clip ("_".intercalate toks ++ "=>" ++ ans))
      | some (pts, err) =>
        -- also noted, as a tag only (not a clause of the property text, hence neither in `holdsOn`
        -- nor a failure): an accepted point whose `Fields()` returns an error
        let unreadable := !(res0.map fun r => r.1.all (·.2)).getD true
        let tg := ["pp:points=" ++ toString (min pts.length 3), if err.isSome then "pp:error" else "pp:noerror",
                   "lines=" ++ toString (min (candidateLines buf).length 4)] ++
                  (if unreadable then ["pp:fields-unreadable"] else [])
        if holdsOn o then { ok := true, nontrivial := !(candidateLines buf).isEmpty, tags := tg }
        else if !pts.all (wellFormed dt) then
          Verdict.fail ("malformed-point-accepted:" ++ clip ("_".intercalate toks)) tg
        else Verdict.fail ("error-does-not-name-rejected-lines:" ++ clip ("_".intercalate toks)) tg

/-- all ops of the case -/
def oracle (obs : List (List String × String)) : Verdict :=
  let vs := obs.map fun (toks, ans) => judge toks ans
  let all := vs.foldl Verdict.and (Verdict.pass false)
  all

def driver : Driver Unit := { init := (), step := step, oracle := oracle }

end Influx.Drv.C12

def main (args : List String) : IO UInt32 := Influx.Drv.C12.driver.main args
