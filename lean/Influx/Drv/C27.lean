import Influx.Proto
import Influx.Model.Replication
import Influx.Spec.C27

open Influx Influx.Proto Influx.Repl

namespace Influx.Drv.C27

def parseResp (s : String) : Option Resp :=
  if s = "x" then some { kind := 1 }
  else if s = "t" then some { kind := 2 }
  else if s.startsWith "h" then
    match (String.ofList (s.toList.drop 1)).splitOn ":" with
    | [st] => do some { kind := 0, status := (← st.toNat?) }
    | [st, hdr] => do some { kind := 0, status := (← st.toNat?), retryAfter := some (← hexToString hdr) }
    | _ => none
  else none

def parseOp : List String → Option Op
  | ["init", d, a, g] => do some (.init (← parseBool d) (← a.toInt?) (← g.toNat?))
  | ["enq", b] => do some (.enq (← hexDecode b))
  | ["send", sc] => do
    let rs ← (splitComma sc).mapM parseResp
    -- a scripted timeout is only ever the first answer of a call (harness restriction)
    if (rs.drop 1).any (fun r => r.kind == 2) then none else some (.send rs)
  | ["age"] => some .age
  | ["purge"] => some .purge
  | ["dump"] => some .dump
  | ["backoff", n] => do some (.backoff (← n.toNat?))
  | _ => none

def hexList (xs : List Bytes) : String := s!"{xs.length} {joinComma (xs.map hexEncode)}"

def render : Ans → String
  | .inited ns => s!"inited {ns}"
  | .ok => "ok"
  | .err => "err"
  | .notInit => "notinit"
  | .sent p w r f => s!"sent {hexList p} {w} {boolStr r} {f}"
  | .dumped rs => s!"dumped {hexList rs}"
  | .dur ns => s!"dur {ns}"

def parseHexList (n xs : String) : Option (List Bytes) := do
  let n ← n.toNat?
  let ys ← if n = 0 then some [] else (splitComma xs).mapM hexDecode
  if ys.length ≠ n then none else some ys

def parseAns (s : String) : Option Ans :=
  match tokens s with
  | ["inited", ns] => do some (.inited (← ns.toNat?))
  | ["ok"] => some .ok
  | ["err"] => some .err
  | ["notinit"] => some .notInit
  | ["sent", n, xs, w, r, f] => do
    some (.sent (← parseHexList n xs) (← w.toInt?) (← parseBool r) (← f.toNat?))
  | ["dumped", n, xs] => do some (.dumped (← parseHexList n xs))
  | ["dur", ns] => do some (.dur (← ns.toInt?))
  | _ => none

def step (s : State) (toks : List String) : State × String :=
  match parseOp toks with
  | some op => let (s', a) := Repl.step s op; (s', render a)
  | none => (s, "bad-op")

def dedup (xs : List String) : List String :=
  xs.foldl (fun acc x => if acc.contains x then acc else acc ++ [x]) []

def respTag (r : Resp) : String :=
  if r.kind = 1 then "resp:conn-closed" else if r.kind = 2 then "resp:timeout"
  else if r.status = 429 then (if r.retryAfter.isSome then "resp:429+retry-after" else "resp:429")
  else s!"resp:{r.status}"

def oracle (obs : List (List String × String)) : Verdict :=
  if obs.any (fun (t, a) => (parseOp t).isNone && a != "bad-op") then Verdict.fail "bad-line" else
  let obs := obs.filter (fun (t, _) => (parseOp t).isSome)
  match obs.mapM (fun (t, a) => do some ((← parseOp t), (← parseAns a))) with
  | none => Verdict.fail "bad-line"
  | some oas =>
    let tags := dedup (oas.flatMap fun oa => match oa with
      | (.send sc, .sent p _ r _) =>
        (sc.take p.length).map respTag ++ (if p.length ≥ 2 then ["send:multi"] else []) ++
        (if p.isEmpty && !r then ["send:empty"] else [])
      | (.purge, _) => ["purge"]
      | (.init true _ _, _) => ["drop-on"]
      | (.dump, .dumped (_ :: _)) => ["dump:nonempty"]
      | _ => [])
    let nt := oas.any fun oa => match oa with
      | (.send _, .sent (_ :: _) _ _ _) => true
      | _ => false
    if Spec.C27.holdsOn oas then { ok := true, nontrivial := nt, tags := tags }
    else
      let i := (Spec.C27.firstFail none oas 0).getD 0
      let sig := match oas[i]? with
        | some (.send _, _) => "send-order-or-delay"
        | some (.dump, _) => "removed-before-accepted"
        | some (.backoff _, _) => "backoff-table"
        | _ => "protocol"
      let at_ := match oas[i]? with
        | some (_, a) => (render a).replace " " "_"
        | none => "?"
      Verdict.fail s!"{sig}:op#{i}:{at_}" tags

def driver : Driver State := { init := Repl.init, step := step, oracle := oracle }

end Influx.Drv.C27

def main (args : List String) : IO UInt32 := Influx.Drv.C27.driver.main args
