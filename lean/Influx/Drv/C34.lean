import Influx.Proto
import Influx.Model.Toml
import Influx.Spec.C34

open Influx Influx.Proto

namespace Influx.Drv.C34
open Influx.Model Influx.Model.Toml

def bytesOfHex (s : String) : Option (List UInt8) :=
  (hexDecode s).map fun bs => bs.map UInt8.ofNat
def hexOfBytes (bs : List UInt8) : String := hexEncode (bs.map UInt8.toNat)

def parseU64 (s : String) : Option Nat :=
  match s.toNat? with
  | some n => if n < 2 ^ 64 then some n else none
  | none => none
def parseI64 (s : String) : Option Int :=
  match s.toInt? with
  | some n => if -(2 ^ 63 : Int) ≤ n ∧ n < 2 ^ 63 then some n else none
  | none => none

def renderU : Res Nat → String
  | .ok v => toString v
  | .err => "err"
  | .unsupported => "*"
def renderS : Res Int → String
  | .ok v => toString v
  | .err => "err"
  | .unsupported => "*"
def renderO : Option Int → String
  | some v => toString v
  | none => "err"

/-- BurntSushi encoder output for `struct{ V T }` -/
def docInt (text : List UInt8) : List UInt8 := str "V = " ++ text ++ [10]
def docStr (text : List UInt8) : List UInt8 := str "V = \"" ++ text ++ str "\"" ++ [10]

/-- answer of a round-trip op: the text written, then what was read back; if the read-back is
    not predicted the whole answer is not -/
def rtAns (text : List UInt8) (res : String) : String :=
  if res = "*" then "*" else hexOfBytes text ++ " " ++ res

def step (_ : Unit) (toks : List String) : Unit × String :=
  match toks with
  | [op, a] =>
    let ans : String :=
      if op = "rt1u" then
        match parseU64 a with
        | some x => let t := marshalV1U x; rtAns t (renderU (unmarshalV1U t))
        | none => "bad-op"
      else if op = "rt1s" then
        match parseI64 a with
        | some x => let t := marshalV1S x; rtAns t (renderS (unmarshalV1S t))
        | none => "bad-op"
      else if op = "tomlu" then
        match parseU64 a with
        | some x => rtAns (docInt (fmtNat x)) (renderU (tomlRoundTripV2U x))
        | none => "bad-op"
      else if op = "tomls" then
        match parseI64 a with
        | some x => rtAns (docInt (fmtInt x)) (renderS (tomlRoundTripV2S x))
        | none => "bad-op"
      else if op = "toml1u" then
        match parseU64 a with
        | some x => rtAns (docStr (marshalV1U x)) (renderU (tomlRoundTripV1U x))
        | none => "bad-op"
      else if op = "toml1s" then
        match parseI64 a with
        | some x => rtAns (docStr (marshalV1S x)) (renderS (tomlRoundTripV1S x))
        | none => "bad-op"
      else if op = "drt" then
        match parseI64 a with
        | some x => let t := durString x; rtAns t (renderO (durUnmarshal t))
        | none => "bad-op"
      else if op = "dtoml" then
        match parseI64 a with
        | some x => let t := durString x; rtAns (docStr t) (renderO (durUnmarshal t))
        | none => "bad-op"
      else if op = "u1u" then (match bytesOfHex a with | some b => renderU (unmarshalV1U b) | none => "bad-op")
      else if op = "u1s" then (match bytesOfHex a with | some b => renderS (unmarshalV1S b) | none => "bad-op")
      else if op = "u2u" then (match bytesOfHex a with | some b => renderU (unmarshalV2U b) | none => "bad-op")
      else if op = "u2s" then (match bytesOfHex a with | some b => renderS (unmarshalV2S b) | none => "bad-op")
      else if op = "dp" then (match bytesOfHex a with | some b => renderO (durUnmarshal b) | none => "bad-op")
      else if op = "rw" then
        (match bytesOfHex a with
         | some b => if isAscii b then hexOfBytes (rewriteBareIECSuffix b) else "*"
         | none => "bad-op")
      else "bad-op"
    ((), ans)
  | _ => ((), "bad-op")

/-! oracle -/
/- The failure signature.  Two situations get a signature of their own (computed from the failing
    observation, so that the recorded finding cannot hide a different failure of the same kind):
    * a `Size` above MaxInt64 that the TOML decoder refuses to read back;
    * a signed size text whose exact value lies just below MinInt64 and is accepted *as MinInt64*
      (humanize's float64 rounds |value| to 2^63, which `parseBytesSigned` maps to MinInt64). -/
open Influx.Spec.C34 in
def signatureOf (o : Obs) (f : Fail) (toks : List String) : String :=
  match o, f with
  | .rtSize .v2u x none, .sizeRoundTripRejected =>
    if toks.head? = some "tomlu" ∧ x > 2 ^ 63 - 1 then "toml-integer-above-int64-rejected" else f.signature
  | .parseSize k text (some v), .sizeOverflowAccepted =>
    match refSize k text with
    | some exact =>
      if k.signed ∧ v = -(2 ^ 63 : Int) ∧ exact < v ∧ floatClose v exact then "signed-underflow-clamped-to-minint64"
      else f.signature
    | none => f.signature
  | _, _ => f.signature

open Influx.Spec.C34 in
def judge (o : Obs) (toks : List String) (tag : String) : Verdict :=
  match check o with
  | (none, tol) => { ok := holdsOn o, nontrivial := true, tags := if tol then [tag, "float-tolerated"] else [tag] }
  | (some f, _) => { (Verdict.fail (signatureOf o f toks ++ ":" ++ "_".intercalate toks)) with tags := [tag] }

def parseRes (s : String) : Option (Option Int) :=
  if s = "err" then some none else s.toInt?.map some

open Influx.Spec.C34 in
def oracleStep (toks : List String) (ans : String) : Verdict :=
  let bad := Verdict.fail ("unparsable-answer:" ++ "_".intercalate toks ++ "=" ++ ((ans.take 60).toString.replace " " "_"))
  match toks with
  | [op, a] =>
    let kindOf : Option Kind :=
      if op = "rt1u" ∨ op = "toml1u" ∨ op = "u1u" then some .v1u
      else if op = "rt1s" ∨ op = "toml1s" ∨ op = "u1s" then some .v1s
      else if op = "tomlu" ∨ op = "u2u" then some .v2u
      else if op = "tomls" ∨ op = "u2s" then some .v2s
      else none
    if op = "rt1u" ∨ op = "rt1s" ∨ op = "tomlu" ∨ op = "tomls" ∨ op = "toml1u" ∨ op = "toml1s" then
      match kindOf, a.toInt?, tokens ans with
      | some k, some x, [_, r] =>
        (match parseRes r with
         | some r => judge (.rtSize k x r) toks ("rt-" ++ op)
         | none => bad)
      | _, _, _ => bad
    else if op = "drt" ∨ op = "dtoml" then
      match a.toInt?, tokens ans with
      | some x, [_, r] =>
        (match parseRes r with
         | some r => judge (.rtDur x r) toks ("rt-" ++ op)
         | none => bad)
      | _, _ => bad
    else if op = "u1u" ∨ op = "u1s" ∨ op = "u2u" ∨ op = "u2s" then
      match kindOf, bytesOfHex a, parseRes ans with
      | some k, some b, some r =>
        let v := judge (.parseSize k b r) toks ("parse-" ++ op)
        if (refSize k b).isSome then v else { v with nontrivial := false, tags := ["parse-unjudged"] }
      | _, _, _ => bad
    else if op = "dp" then
      match bytesOfHex a, parseRes ans with
      | some b, some r =>
        let v := judge (.parseDur b r) toks "parse-dur"
        if (refDur b).isSome then v else { v with nontrivial := false, tags := ["parse-unjudged"] }
      | _, _ => bad
    else if op = "rw" then Verdict.pass false ["rw"]
    else Verdict.fail "bad-line"
  | _ => Verdict.fail "bad-line"

/-- signatures of findings already recorded for C34: judged last so that they cannot hide another
    failure in the same batch (`Verdict.and` keeps the first failure) -/
def lowPriority (v : Verdict) : Bool :=
  !v.ok && (v.reason.startsWith "duration-overflow-wrapped:" || v.reason.startsWith "signed-underflow-clamped-to-minint64:"
            || v.reason.startsWith "toml-integer-above-int64-rejected:")

def oracle (obs : List (List String × String)) : Verdict :=
  let vs := obs.map fun (t, a) => oracleStep t a
  let first := vs.filter fun v => !lowPriority v
  let second := vs.filter lowPriority
  (first ++ second).foldl Verdict.and (Verdict.pass false)

def driver : Driver Unit := { init := (), step := step, oracle := oracle }

end Influx.Drv.C34

def main (args : List String) : IO UInt32 := Influx.Drv.C34.driver.main args
