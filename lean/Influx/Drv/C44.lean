import Influx.Proto
import Influx.Model.TenantWire
import Influx.Model.Creds
import Influx.Spec.C44

open Influx Influx.Proto Influx.Creds

namespace Influx.Drv.C44
open Influx.Tenant.Wire (parseID parseName hexN)

def parseFlag (s t f : String) : Option Bool :=
  if s = t then some true else if s = f then some false else none

def plainChar (extra : String) (c : Char) : Bool := c.isAlphanum || extra.toList.contains c

/-- a header / cookie / token value: hex of a string over a restricted alphabet -/
def parsePlain (extra : String) (s : String) : Option String := do
  let v ← parseName s
  if v.toList.all (plainChar extra) then some v else none

def parseOp : List String → Option Op
  | ["cfg", s, hsh, c] => do some (.cfg (← parseFlag s "1" "0") (← parseFlag hsh "1" "0") (← parseFlag c "B" "A"))
  | ["strong", b] => do some (.strong (← parseFlag b "1" "0"))
  | ["cu", n] => do some (.cu (← parseName n))
  | ["us", u, a] => do some (.us (← parseID u) (← parseFlag a "a" "i"))
  | ["du", u] => do some (.du (← parseID u))
  | ["sp", u, p] => do some (.sp (← parseID u) (← parseName p))
  | ["cp", u, p] => do some (.cp (← parseID u) (← parseName p))
  | ["cas", u, o, n] => do some (.cas (← parseID u) (← parseName o) (← parseName n))
  | ["ct", u, t, a] => do
    let tok ← parsePlain "_-" t
    if tok = "" then none else some (.ct (← parseID u) tok (← parseFlag a "a" "i"))
  | ["ut", i, a] => do some (.ut (← parseID i) (← parseFlag a "a" "i"))
  | ["dt", i] => do some (.dt (← parseID i))
  | ["cs", n, l] => do some (.cs (← parseName n) (← parseFlag l "long" "exp"))
  | ["xs", k] => do some (.xs (← parseName k))
  | ["renew", k, f] => do some (.renew (← parseName k) (← parseFlag f "far" "near"))
  | ["req", h, c] => do
    let hdr ← if h = "-" then some none else (parsePlain " _-" h).map some
    let ck ← if c = "-" then some none else do
      let v ← parsePlain "" c
      if v = "" then none else some (some v)
    some (.req hdr ck)
  | ["phc", ds, v, m, p, q] => do
    let ds ← match ds with
      | "1" => some [Variant.sha256] | "2" => some [Variant.sha512] | "3" => some [Variant.sha256, Variant.sha512]
      | _ => none
    let v ← if v = "256" then some Variant.sha256 else if v = "512" then some Variant.sha512 else none
    let m ← match m with
      | "0" => some Mangle.none | "1" => some Mangle.noLead | "2" => some Mangle.lead | "3" => some Mangle.swap
      | "4" => some Mangle.unknownId | "5" => some Mangle.emptyKey | "6" => some Mangle.extra | "7" => some Mangle.cut
      | _ => none
    some (.phc ds v m (← parseName p) (← parseName q))
  | _ => none

def errStr : SvcErr → String
  | .nf => "err nf" | .cf => "err cf" | .inv => "err inv" | .int => "err int"
  | .nohandle => "err nohandle" | .unsupported => "err unsupported"

def renderPw (r : PwRes) : String :=
  if r.ok then "ok" else
  "err " ++ "+".intercalate ((if r.baduser then ["baduser"] else []) ++ (if r.badpw then ["badpw"] else []) ++
    (if r.change then ["change"] else []) ++ (if r.len then ["len"] else []) ++ (if r.chars then ["chars"] else []))

def render : Ans → String
  | .ok => "ok"
  | .okId i => s!"ok {i}"
  | .okKey k u => s!"ok {hexN k} {u}"
  | .err e => errStr e
  | .pw r => renderPw r
  | .phc (.matched b) => boolStr b
  | .phc (.err .fmt) => "err fmt"
  | .phc (.err .ident) => "err ident"
  | .phc (.err .key) => "err key"
  | .panic => "panic:runtime_error:_integer_divide_by_zero"
  | .http st reached pset uid =>
    s!"{st} {boolStr reached} " ++ (match pset with | none => "-" | some true => "ok" | some false => "err") ++ s!" {uid}"

def parsePw (s : String) : Option PwRes :=
  if s = "ok" then some { ok := true } else
  match tokens s with
  | ["err", fl] =>
    (fl.splitOn "+").foldlM (fun (r : PwRes) f =>
      match f with
      | "baduser" => some { r with baduser := true }
      | "badpw" => some { r with badpw := true }
      | "change" => some { r with change := true }
      | "len" => some { r with len := true }
      | "chars" => some { r with chars := true }
      | _ => none) {}
  | _ => none

def parseSvcErr : String → Option SvcErr
  | "nf" => some .nf | "cf" => some .cf | "inv" => some .inv | "int" => some .int
  | "nohandle" => some .nohandle | "unsupported" => some .unsupported | _ => none

def parseAns (op : Op) (s : String) : Option Ans :=
  if s.startsWith "panic:" then some .panic else
  match op with
  | .sp .. | .cp .. | .cas .. => (parsePw s).map .pw
  | .phc .. =>
    match tokens s with
    | ["1"] => some (.phc (.matched true))
    | ["0"] => some (.phc (.matched false))
    | ["err", "fmt"] => some (.phc (.err .fmt))
    | ["err", "ident"] => some (.phc (.err .ident))
    | ["err", "key"] => some (.phc (.err .key))
    | _ => none
  | .req .. =>
    match tokens s with
    | [st, r, p, u] => do
      let pset ← if p = "-" then some none else if p = "ok" then some (some true) else if p = "err" then some (some false) else none
      some (.http (← st.toNat?) (← parseBool r) pset (← parseID u))
    | _ => none
  | _ =>
    match tokens s with
    | ["ok"] => some .ok
    | ["ok", i] => (parseID i).map .okId
    | ["ok", k, u] => do some (.okKey (← parseName k) (← parseID u))
    | ["err", e] => (parseSvcErr e).map .err
    | _ => none

def step (s : State) (toks : List String) : State × String :=
  match parseOp toks with
  | some op => let r := Creds.step s op; (r.1, render r.2)
  | none => (s, "bad-op")

def opTag : Op → String
  | .cfg .. => "cfg" | .strong _ => "strong" | .cu _ => "cu" | .us .. => "us" | .du _ => "du" | .sp .. => "sp"
  | .cp .. => "cp" | .cas .. => "cas" | .ct .. => "ct" | .ut .. => "ut" | .dt _ => "dt" | .cs .. => "cs"
  | .xs _ => "xs" | .req .. => "req" | .phc .. => "phc" | .renew .. => "renew"

def ansTag : Ans → String
  | .pw r => if r.ok then "ok" else "refused"
  | .http st _ pset _ => toString st ++ (match pset with | some false => "-nopset" | _ => "")
  | .phc (.matched true) => "match" | .phc (.matched false) => "nomatch" | .phc (.err _) => "undecodable"
  | .err _ => "err" | .panic => "panic" | _ => "ok"

def oracle (obs : List (List String × String)) : Verdict :=
  let badop := obs.any fun (toks, ans) => (parseOp toks).isNone && ans ≠ "bad-op"
  if badop then Verdict.fail "malformed-op-not-rejected" else
  let parsed := obs.filterMap fun (toks, ans) => (parseOp toks).map fun op => (op, parseAns op ans, ans)
  match parsed.find? (fun p => p.2.1.isNone) with
  | some (op, _, raw) => Verdict.fail s!"unreadable-answer:{opTag op}:{raw.replace " " "_"}"
  | none =>
    let tr : List (Op × Ans) := parsed.filterMap fun (op, a, _) => a.map fun a => (op, a)
    let t := Spec.C44.track tr
    let tags := (tr.map fun (op, a) => opTag op ++ ":" ++ ansTag a).eraseDups
    let nt := tr.any fun (op, a) => match op, a with
      | .cp .., .pw r => r.ok
      | .cas .., .pw r => r.ok
      | .req .., .http 200 .. => true
      | .phc .., .phc (.matched true) => true
      | _, _ => false
    if t.ok then { ok := true, nontrivial := nt, tags := tags }
    else { ok := false, nontrivial := true, tags := tags, reason := t.why ++ ":" ++ toString tr.length }

def driver : Driver State := { init := Creds.init, step := step, oracle := oracle }

end Influx.Drv.C44

def main (args : List String) : IO UInt32 := Influx.Drv.C44.driver.main args
