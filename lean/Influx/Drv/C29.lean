import Influx.Proto
import Influx.Model.TenantWire
import Influx.Model.Authorizer
import Influx.Spec.C29

open Influx Influx.Proto Influx.Authzr

namespace Influx.Drv.C29
open Influx.Tenant.Wire (parseID parseName parseOptName hexN strLe sortBy)

/-! ### parsing -/

def parseOptID (s : String) : Option (Option Nat) :=
  if s = "-" then some none else (parseID s).map some

def parsePerm (s : String) : Option Permission :=
  match s.splitOn ":" with
  | [a, t, i, o] => do some ⟨← parseName a, ⟨← parseName t, ← parseOptID i, ← parseOptID o⟩⟩
  | _ => none

def parsePerms (s : String) : Option (List Permission) := (splitComma s).mapM parsePerm

def parseFlag (s t f : String) : Option Bool :=
  if s = t then some true else if s = f then some false else none

def parseTok (s : String) : Option String := do
  let t ← parseName s
  if t = "" then none else some t

def parseAuthRec (org user tok act perms : String) : Option AuthRec := do
  some { org := ← parseID org, user := ← parseID user, token := ← parseTok tok,
         active := ← parseFlag act "a" "i", perms := ← parsePerms perms }

def parseCall : List String → Option WOp
  | ["gb", i] => do some (.gb (← parseID i))
  | ["fb", o, n] => do some (.fb (← parseID o) (← parseName n))
  | ["fB", o, n] => do some (.fB (← parseID o) (← parseName n))
  | ["lb", o] => do some (.lb (← parseOptID o))
  | ["cb", o, n, t] => do some (.cb (← parseID o) (← parseName n) (← parseFlag t "s" "u"))
  | ["ub", i, n] => do some (.ub (← parseID i) (← parseOptName n))
  | ["db", i] => do some (.db (← parseID i))
  | ["go", i] => do some (.gO (← parseID i))
  | ["fo", n] => do some (.fo (← parseName n))
  | ["lo"] => some .lo
  | ["co", n] => do some (.co (← parseName n))
  | ["uo", i, n] => do some (.uo (← parseID i) (← parseOptName n))
  | ["do", i] => do some (.dO (← parseID i))
  | ["gu", i] => do some (.gu (← parseID i))
  | ["fu", n] => do some (.fu (← parseName n))
  | ["lu"] => some .lu
  | ["cu", n, i] => do some (.cu (← parseName n) (← parseID i))
  | ["uu", i, n] => do some (.uu (← parseID i) (← parseOptName n))
  | ["du", i] => do some (.du (← parseID i))
  | ["pu", i] => do some (.pu (← parseID i))
  | ["ga", i] | ["ga2", i] => do some (.ga (← parseID i))
  | ["ft", t] | ["ft2", t] => do some (.ft (← parseTok t))
  | ["la"] | ["la2"] => some .la
  | ["ca", o, u, t, a, p] => do some (.ca (← parseAuthRec o u t a p))
  | ["ca2", o, u, t, a, p] => do some (.ca2 (← parseAuthRec o u t a p))
  | ["ua", i, a] | ["ua2", i, a] => do some (.ua (← parseID i) (← parseFlag a "a" "i"))
  | ["da", i] | ["da2", i] => do some (.da (← parseID i))
  | _ => none

def parseOp : List String → Option Op
  | "a" :: rest =>
    match Tenant.Wire.parseOp rest with
    | some .dump => none
    | some op => some (.admin op)
    | none => none
  | ["aa", o, u, t, a, p] => do some (.adminAuth (← parseAuthRec o u t a p))
  | ["idgen-a", n] => do some (.idgenAuth (← parseID n))
  | ["dump"] => some .dump
  | "w" :: pr :: ac :: uid :: perms :: call => do
    let c : Caller := { present := ← parseFlag pr "1" "0", active := ← parseFlag ac "1" "0",
                        user := ← parseID uid, perms := ← parsePerms perms }
    some (.w c (← parseCall call))
  | _ => none

/-! ### rendering -/

def errStr : Err → String
  | .unauth => "unauth" | .forbidden => "forbidden"
  | .base .nf => "nf" | .base .cf => "cf" | .base .inv => "inv" | .base .int => "int"

def optIDStr : Option Nat → String
  | none => "-" | some i => toString i

def permStr (p : Permission) : String :=
  s!"{hexN p.Action}:{hexN p.Resource.Type_}:{optIDStr p.Resource.ID}:{optIDStr p.Resource.OrgID}"

def joinSemi (xs : List String) : String := if xs.isEmpty then "-" else ";".intercalate xs

def bflag (b : Bool) (t f : String) : String := if b then t else f

def render : Ans → String
  | .err e chg => s!"err {errStr e} chg={boolStr chg}"
  | .bucket i o s => s!"ok {i}:{o}:{bflag s "s" "u"}"
  | .buckets l => "ok " ++ joinComma ((sortBy (fun a b => a.1 ≤ b.1) l).map fun (i, o, s) => s!"{i}:{o}:{bflag s "s" "u"}")
  | .org i => s!"ok {i}"
  | .orgs l => "ok " ++ showNats (sortBy (fun a b => a ≤ b) l)
  | .user i => s!"ok {i}"
  | .users l => "ok " ++ showNats (sortBy (fun a b => a ≤ b) l)
  | .auth i o u => s!"ok {i}:{o}:{u}"
  | .auths l => "ok " ++ joinComma ((sortBy (fun a b => a.1 ≤ b.1) l).map fun (i, o, u) => s!"{i}:{o}:{u}")
  | .okMut i pre => s!"ok {i} pre=" ++ (match pre with | none => "-" | some (o, u) => s!"{o}:{u}")
  | .admin a => Tenant.Wire.render a
  | .dump d auths tokIdx =>
    Tenant.Wire.renderDump d ++ " A=" ++
      joinSemi ((sortBy (fun a b => a.1 ≤ b.1) auths).map fun (i, a) =>
        s!"{i}|{hexN a.token}|{bflag a.active "a" "i"}|{a.user}|{a.org}|{joinComma (a.perms.map permStr)}") ++
      " TI=" ++ joinSemi ((sortBy (fun a b => strLe a.1 b.1) tokIdx).map fun (t, i) => s!"{hexN t}|{i}")

/-! ### parsing observed answers (dumps and set-up answers are not judged by the statement) -/

def parseErr : String → Option Err
  | "unauth" => some .unauth | "forbidden" => some .forbidden
  | "nf" => some (.base .nf) | "cf" => some (.base .cf) | "inv" => some (.base .inv) | "int" => some (.base .int)
  | _ => none

def parseTriple (s : String) : Option (Nat × Nat × Nat) :=
  match s.splitOn ":" with
  | [a, b, c] => do some (← parseID a, ← parseID b, ← parseID c)
  | _ => none

def parseBkt (s : String) : Option (Nat × Nat × Bool) :=
  match s.splitOn ":" with
  | [a, b, c] => do some (← parseID a, ← parseID b, ← parseFlag c "s" "u")
  | _ => none

def parsePre (s : String) : Option (Option (Nat × Nat)) :=
  if s = "pre=-" then some none else
  match s.splitOn "=" with
  | ["pre", v] => match v.splitOn ":" with
    | [o, u] => do some (some (← parseID o, ← parseID u))
    | _ => none
  | _ => none

def isRead : WOp → Bool
  | .gb _ | .fb .. | .fB .. | .lb _ | .gO _ | .fo _ | .lo | .gu _ | .fu _ | .lu | .pu _ | .ga _ | .ft _ | .la => true
  | _ => false

def parseAns (op : WOp) (s : String) : Option Ans :=
  match tokens s with
  | ["err", e, c] => do
    let chg ← if c = "chg=1" then some true else if c = "chg=0" then some false else none
    some (.err (← parseErr e) chg)
  | ["ok", v] =>
    match op with
    | .gb _ | .fb .. | .fB .. => (parseBkt v).map fun (i, o, s) => .bucket i o s
    | .lb _ => ((splitComma v).mapM parseBkt).map .buckets
    | .gO _ | .fo _ => (parseID v).map .org
    | .lo => (parseNats v).map .orgs
    | .gu _ | .fu _ => (parseID v).map .user
    | .lu => (parseNats v).map .users
    | .ga _ | .ft _ => (parseTriple v).map fun (i, o, u) => .auth i o u
    | .la => ((splitComma v).mapM parseTriple).map .auths
    | _ => none
  | ["ok", i, pre] => if isRead op then none else do some (.okMut (← parseID i) (← parsePre pre))
  | _ => none

/-! ### driver -/

def step (s : St) (toks : List String) : St × String :=
  match parseOp toks with
  | some op => let r := Authzr.step s op; (r.1, render r.2)
  | none => (s, "bad-op")

def callTag : WOp → String
  | .gb _ => "gb" | .fb .. => "fb" | .fB .. => "fB" | .lb _ => "lb" | .cb .. => "cb" | .ub .. => "ub" | .db _ => "db"
  | .gO _ => "go" | .fo _ => "fo" | .lo => "lo" | .co _ => "co" | .uo .. => "uo" | .dO _ => "do"
  | .gu _ => "gu" | .fu _ => "fu" | .lu => "lu" | .cu .. => "cu" | .uu .. => "uu" | .du _ => "du" | .pu _ => "pu"
  | .ga _ => "ga" | .ft _ => "ft" | .la => "la" | .ca _ => "ca" | .ua .. => "ua" | .da _ => "da" | .ca2 _ => "ca2"

def ansTag : Ans → String
  | .err e _ => errStr e
  | .buckets [] | .orgs [] | .users [] | .auths [] => "empty"
  | _ => "ok"

def oracle (obs : List (List String × String)) : Verdict :=
  obs.foldl (fun v (toks, ans) =>
    match parseOp toks with
    | none => if ans = "bad-op" then v else v.and (Verdict.fail "malformed-op-not-rejected")
    | some (.w c op) =>
      match parseAns op ans with
      | none => v.and (Verdict.fail s!"unreadable-answer:{callTag op}:{ans.replace " " "_"}")
      | some a =>
        let ok := Spec.C29.pairOK (.w c op, a)
        let granted := match a with | .err .. => false | _ => true
        v.and { ok := ok, nontrivial := granted, tags := [callTag op ++ ":" ++ ansTag a],
                reason := if ok then "" else
                  (match a with
                   | .err .. => "denied-call-changed-state"
                   | .okMut .. => "unauthorized-write"
                   | _ => "unreadable-resource-returned") ++ ":" ++ callTag op }
    | some _ => v) (Verdict.pass false)

def driver : Driver St := { init := Authzr.init, step := step, oracle := oracle }

end Influx.Drv.C29

def main (args : List String) : IO UInt32 := Influx.Drv.C29.driver.main args
