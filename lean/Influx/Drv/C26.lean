import Influx.Proto
import Influx.Model.DurableQueueStep
import Influx.Spec.C26

open Influx Influx.Proto Influx.DQ

namespace Influx.Drv.C26

def parseOp : List String → Option Op
  | ["open", m, g] => do some (.openQ (← m.toNat?) (← g.toNat?))
  | ["app", b] => do some (.append (← hexDecode b))
  | ["cur"] => some .cur
  | ["adv"] => some .adv
  | ["scan", n] => do some (.scan (← n.toNat?))
  | ["reopen"] => some .reopen
  | ["capp", b, k] => do some (.crashAppend (← hexDecode b) (← k.toNat?))
  | ["cadv", k] => do some (.crashAdv (← k.toNat?))
  | ["cseg", b, k] => do some (.crashSeg (← hexDecode b) (← k.toNat?))
  | ["stat"] => some .stat
  | _ => none

def render : Ans → String
  | .ok => "ok"
  | .err => "err"
  | .full => "full"
  | .eof => "eof"
  | .notOpen => "notopen"
  | .val b => "v " ++ hexEncode b
  | .scanned ys ok => s!"s {ys.length} {joinComma (ys.map hexEncode)} {boolStr ok}"
  | .crashed o sz f sm => s!"c {boolStr o} {sz} {f} {sm}"
  | .stat n d b p => s!"st {n} {d} {b} {p}"

def parseAns (s : String) : Option Ans :=
  match tokens s with
  | ["ok"] => some .ok
  | ["err"] => some .err
  | ["full"] => some .full
  | ["eof"] => some .eof
  | ["notopen"] => some .notOpen
  | ["v", b] => do some (.val (← hexDecode b))
  | ["s", n, ys, ok] => do
    let n ← n.toNat?
    let ys ← if n = 0 then some [] else (splitComma ys).mapM hexDecode
    if ys.length ≠ n then none else some (.scanned ys (← parseBool ok))
  | ["c", o, sz, f, sm] => do some (.crashed (← parseBool o) (← sz.toNat?) (← f.toNat?) (← sm.toNat?))
  | ["st", n, d, b, p] => do some (.stat (← n.toNat?) (← d.toNat?) (← b.toInt?) (← p.toNat?))
  | _ => none

/-- The in-memory head position lies beyond the end of the head file (only
    reachable after a mis-read footer, F10): whether the next `Seek` there fails
    depends on the file system's maximum file size, so from the next operation on
    the model does not predict the answers of this case (`*`). -/
def beyond : State → Bool
  | some q => match q.segs with
    | h :: _ => h.pos > h.size
    | [] => false
  | none => false

def step (s : State × Bool) (toks : List String) : (State × Bool) × String :=
  match parseOp toks with
  | some op =>
    let (s', a) := DQ.step s.1 op
    ((s', s.2 || beyond s'), if s.2 then "*" else render a)
  | none => (s, "bad-op")

/-- a crash observation the format cannot tell from a valid footer (F10) -/
def footerLike : Ans → Bool
  | .crashed _ sz f sm => sm == 0 && decide (f ≤ sz - 8)
  | _ => false

def opTag : Op → String
  | .openQ _ _ => "open" | .append _ => "append" | .cur => "cur" | .adv => "adv"
  | .scan _ => "scan" | .reopen => "reopen" | .crashAppend _ _ => "crash-append"
  | .crashAdv _ => "crash-adv" | .crashSeg _ _ => "crash-newseg" | .stat => "stat"

def dedup (xs : List String) : List String :=
  xs.foldl (fun acc x => if acc.contains x then acc else acc ++ [x]) []

def oracle (obs : List (List String × String)) : Verdict :=
  -- lines that are not operations must have been answered `bad-op`; they are no part of the history
  if obs.any (fun (t, a) => (parseOp t).isNone && a != "bad-op") then Verdict.fail "bad-line" else
  let obs := obs.filter (fun (t, _) => (parseOp t).isSome)
  match obs.mapM (fun (t, a) => do some ((← parseOp t), (← parseAns a))) with
  | none => Verdict.fail "bad-line"
  | some oas =>
    let tags := dedup (oas.map (fun oa => opTag oa.1) ++
      oas.filterMap (fun oa => match oa.2 with
        | .crashed ok _ _ 0 => some (if !ok then "torn:unopenable" else if footerLike oa.2 then "torn:footer-like" else "torn:repaired")
        | .crashed _ _ _ 1 => some "torn:absent"
        | .crashed _ _ _ 2 => some "torn:complete"
        | .full => some "full"
        | .scanned (_ :: _ :: _) _ => some "scan:multi"
        | _ => none) ++
      (if oas.any (fun oa => match oa.2 with | .stat n _ _ _ => n ≥ 2 | _ => false) then ["multi-segment"] else []))
    let nt := oas.any fun oa => match oa.1 with
      | .reopen | .crashAppend _ _ | .crashAdv _ | .crashSeg _ _ | .scan _ => true
      | _ => false
    if Spec.C26.holdsOn oas then { ok := true, nontrivial := nt, tags := tags }
    else
      let rest := oas
      let i := (Spec.C26.firstFail none rest 0).getD 0
      let upto := rest.take (i + 1)
      let sig :=
        match rest[i]? with
        | some (.crashSeg _ _, .crashed false sz _ _) =>
          if sz < 8 then "torn-new-segment-unopenable" else "not-fifo-at-least-once"
        | _ =>
        match upto.find? (fun (oa : Op × Ans) => match oa.1 with | Op.crashSeg _ _ => false | _ => footerLike oa.2) with
        | some (.crashAdv _, _) => "torn-advance-footer-misread"
        | some _ => "torn-append-footer-misread"
        | none => "not-fifo-at-least-once"
      let at_ := match rest[i]? with
        | some (op, a) => opTag op ++ "->" ++ ((render a).replace " " "_")
        | none => "?"
      Verdict.fail s!"{sig}:op#{i}:{at_}" tags

def driver : Driver (State × Bool) := { init := (DQ.init, false), step := step, oracle := oracle }

end Influx.Drv.C26

def main (args : List String) : IO UInt32 := Influx.Drv.C26.driver.main args
