import Influx.Proto
import Influx.Model.C36
import Influx.Spec.C36

open Influx Influx.Proto Influx.C36

namespace Influx.Drv.C36

def parseKey (s : String) : Option Key := hexDecode s

def parseReg (s : String) : Option Nat :=
  match s.toNat? with
  | some r => if r < nReg then some r else none
  | none => none

def parseRegs (s : String) : Option (List Nat) := (splitComma s).mapM parseReg

def parseOp : List String → Option Op
  -- rhh
  | ["rnew", c, lf] => do some (.r (.new (← c.toNat?) (← lf.toNat?)))
  | ["rput", k, h, v] => do
    let h ← h.toNat?
    if h = 0 then none else some (.r (.put (← parseKey k) h (← v.toInt?)))
  | ["rget", k, h] => do
    let h ← h.toNat?
    if h = 0 then none else some (.r (.get (← parseKey k) h))
  | ["rlen"] => some (.r .len)
  | ["rcap"] => some (.r .cap)
  | ["rdump"] => some (.r .dump)
  | ["rkeys"] => some (.r .keys)
  | ["rgrow", sz] => do some (.r (.grow (← sz.toNat?)))
  | ["rreset"] => some (.r .reset)
  | ["rdist", h, i, c] => do some (.r (.dist (← h.toNat?) (← i.toNat?) (← c.toNat?)))
  -- bloom
  | ["bnew", r, m, k] => do some (.b (.new (← parseReg r) (← m.toNat?) (← k.toNat?)))
  | ["bbuf", r, bs, k] => do some (.b (.buf (← parseReg r) (← hexDecode bs) (← k.toNat?)))
  | ["bins", r, key, h0, h1] => do
    some (.b (.ins (← parseReg r) (← parseKey key) (← h0.toNat?) (← h1.toNat?)))
  | ["bhas", r, key, h0, h1] => do
    some (.b (.has (← parseReg r) (← parseKey key) (← h0.toNat?) (← h1.toNat?)))
  | ["bmerge", r, o] => do some (.b (.merge (← parseReg r) (← parseReg o)))
  | ["bclone", s, d] => do some (.b (.clone (← parseReg s) (← parseReg d)))
  | ["bbytes", r] => do some (.b (.bytes (← parseReg r)))
  | ["bkl", r] => do some (.b (.kl (← parseReg r)))
  -- radix
  | ["tnew"] => some (.t .new)
  | ["tins", k, v] => do some (.t (.ins (← parseKey k) (← v.toInt?)))
  | ["tget", k] => do some (.t (.get (← parseKey k)))
  | ["tdel", p] => do some (.t (.del (← parseKey p)))
  | ["tmin"] => some (.t .min)
  | ["tmax"] => some (.t .max)
  | ["tlen"] => some (.t .len)
  | ["twalk"] => some (.t .walk)
  | ["tdump"] => some (.t .dump)
  -- id sets
  | ["snew", r, ids] => do some (.s (.new (← parseReg r) (← parseNats ids)))
  | ["sadd", r, id] => do some (.s (.add (← parseReg r) (← id.toNat?)))
  | ["saddnl", r, id] => do some (.s (.add (← parseReg r) (← id.toNat?)))
  | ["saddmany", r, ids] => do some (.s (.addMany (← parseReg r) (← parseNats ids)))
  | ["srem", r, id] => do some (.s (.rem (← parseReg r) (← id.toNat?)))
  | ["sremnl", r, id] => do some (.s (.rem (← parseReg r) (← id.toNat?)))
  | ["shas", r, id] => do some (.s (.has (← parseReg r) (← id.toNat?)))
  | ["scard", r] => do some (.s (.card (← parseReg r)))
  | ["smerge", r, os] => do some (.s (.merge (← parseReg r) (← parseRegs os)))
  | ["smergeip", r, o] => do some (.s (.mergeIP (← parseReg r) (← parseReg o)))
  | ["seq", a, b] => do some (.s (.eq (← parseReg a) (← parseReg b)))
  | ["sand", a, b, d] => do some (.s (.and (← parseReg a) (← parseReg b) (← parseReg d)))
  | ["sandnot", a, b, d] => do some (.s (.andNot (← parseReg a) (← parseReg b) (← parseReg d)))
  | ["sdiff", r, o] => do some (.s (.diff (← parseReg r) (← parseReg o)))
  | ["sint", a, b] => do some (.s (.inter (← parseReg a) (← parseReg b)))
  | ["sclone", s, d] => do some (.s (.clone (← parseReg s) (← parseReg d)))
  | ["srt", s, d] => do some (.s (.roundTrip (← parseReg s) (← parseReg d)))
  | ["srtu", s, d] => do some (.s (.roundTrip (← parseReg s) (← parseReg d)))
  | ["sclear", r] => do some (.s (.clear (← parseReg r)))
  | ["sslice", r] => do some (.s (.slice (← parseReg r)))
  | ["sforeach", r] => do some (.s (.slice (← parseReg r)))
  | ["siter", r] => do some (.s (.slice (← parseReg r)))
  | _ => none

def showPair (p : Key × Int) : String := hexEncode p.1 ++ ":" ++ toString p.2

def render : Obs → String
  | .ok => "ok"
  | .okN n => s!"ok {n}"
  | .nil => "nil"
  | .int i => toString i
  | .nat n => toString n
  | .bool b => boolStr b
  | .keys ks => s!"{ks.length} {joinComma (ks.map hexEncode)}"
  | .slots ss => ",".intercalate (ss.map fun s => match s with | some p => showPair p | none => "_")
  | .pairs ps => joinComma (ps.map showPair)
  | .kv k v => s!"{hexEncode k} {v}"
  | .insRes v b => s!"{v} {boolStr b}"
  | .ids xs => showNats xs
  | .two a b => s!"{a} {b}"
  | .bytes bs => hexEncode bs
  | .text s => s
  | .err e => e
  | .other s => s

def parsePair (s : String) : Option (Key × Int) :=
  match s.splitOn ":" with
  | [k, v] => do some ((← hexDecode k), (← v.toInt?))
  | _ => none

def errWords : List String := ["nomap", "nofilter", "notree", "err", "err-m", "err-k", "hang", "bad-op", "panic"]

/-- parse the implementation's answer to `op` (the answer formats overlap, so the op decides) -/
def parseObs (op : Op) (s : String) : Obs :=
  if errWords.contains s then .err s else
  let other := Obs.other s
  let orOther := fun (o : Option Obs) => o.getD other
  let natO := orOther (s.toNat?.map .nat)
  let intOrNil := if s = "nil" then Obs.nil else orOther (s.toInt?.map .int)
  let okO := if s = "ok" then Obs.ok else other
  let boolO := orOther ((parseBool s).map .bool)
  let okN := match s.splitOn " " with
    | ["ok", n] => orOther (n.toNat?.map .okN)
    | _ => other
  let kvOrNil := if s = "nil" then Obs.nil else
    match s.splitOn " " with
    | [k, v] => orOther (do some (.kv (← hexDecode k) (← v.toInt?)))
    | _ => other
  match op with
  | .r (.new ..) | .r (.put ..) | .r (.grow _) | .r .reset => okO
  | .r (.get ..) => intOrNil
  | .r .len | .r .cap | .r (.dist ..) => natO
  | .r .dump => orOther (((s.splitOn ",").mapM fun t => if t = "_" then some none else (parsePair t).map some).map .slots)
  | .r .keys =>
    match s.splitOn " " with
    | [n, ks] => orOther (do
        let n ← n.toNat?
        let ks ← (if n = 0 then (if ks = "-" then some [] else none) else (ks.splitOn ",").mapM hexDecode)
        if ks.length = n then some (.keys ks) else none)
    | _ => other
  | .b (.new ..) | .b (.buf ..) => okN
  | .b (.ins ..) | .b (.merge ..) | .b (.clone ..) => okO
  | .b (.has ..) => boolO
  | .b (.bytes _) => orOther ((hexDecode s).map .bytes)
  | .b (.kl _) =>
    match s.splitOn " " with
    | [a, b] => orOther (do some (.two (← a.toNat?) (← b.toNat?)))
    | _ => other
  | .t .new => okO
  | .t (.ins ..) =>
    match s.splitOn " " with
    | [v, b] => orOther (do some (.insRes (← v.toInt?) (← parseBool b)))
    | _ => other
  | .t (.get _) => intOrNil
  | .t (.del _) => natO
  | .t .min | .t .max => kvOrNil
  | .t .len => orOther (s.toInt?.map .int)
  | .t .walk => orOther (((splitComma s).mapM parsePair).map .pairs)
  | .t .dump => .text s
  | .s (.has ..) | .s (.eq ..) | .s (.inter ..) => boolO
  | .s (.card _) => natO
  | .s (.slice _) => orOther ((parseNats s).map .ids)
  | .s _ => okO

def step (st : State) (toks : List String) : State × String :=
  match parseOp toks with
  | some op => let (st2, a) := Influx.C36.step st op; (st2, render a)
  | none => (st, "bad-op")

/-- tags for the evidence histogram: which structure, and a few interesting events -/
def tagsOf (tr : List (Op × Obs)) : List String :=
  let has := fun (p : Op × Obs → Bool) => tr.any p
  (if has (fun x => match x.1 with | .r _ => true | _ => false) then ["rhh"] else []) ++
  (if has (fun x => match x.1 with | .b _ => true | _ => false) then ["bloom"] else []) ++
  (if has (fun x => match x.1 with | .t _ => true | _ => false) then ["radix"] else []) ++
  (if has (fun x => match x.1 with | .s _ => true | _ => false) then ["idset"] else []) ++
  (if has (fun x => match x.1 with | .t (.del _) => x.2 != .nat 0 | _ => false) then ["radix:deleteprefix"] else []) ++
  (if has (fun x => match x.1 with | .r (.put k _ _) => k.isEmpty | _ => false) then ["rhh:empty-key"] else []) ++
  (if has (fun x => match x.1, x.2 with | .b (.has ..), .bool true => true | _, _ => false) then ["bloom:hit"] else []) ++
  (if has (fun x => match x.1, x.2 with | .b (.has ..), .bool false => true | _, _ => false) then ["bloom:miss"] else [])

def oracle (obs : List (List String × String)) : Verdict :=
  let parsed := obs.mapM fun (toks, ans) => (parseOp toks).map fun op => (op, parseObs op ans)
  match parsed with
  | none =>
    -- a malformed line: both sides must answer bad-op to it; the rest of the case is not judged
    if obs.all (fun (toks, ans) => (parseOp toks).isSome || ans == "bad-op") then Verdict.pass false ["malformed"]
    else Verdict.fail "bad-line:"
  | some tr =>
    match Spec.C36.firstFailure {} tr with
    | none => Verdict.pass (tr.length > 1) (tagsOf tr)
    | some why => Verdict.fail why (tagsOf tr)

def driver : Driver State := { init := Influx.C36.init, step := step, oracle := oracle }

end Influx.Drv.C36

def main (args : List String) : IO UInt32 := Influx.Drv.C36.driver.main args
