import Influx.Proto
import Influx.Model.Coord
import Influx.Spec.C25

open Influx Influx.Proto Influx.Model.Coord

namespace Influx.Drv.C25

def parseStatus (s : String) : Option (Option Status) :=
  if s = "a" then some (some .active) else if s = "i" then some (some .inactive)
  else if s = "d" then some none else none

def parseSchedIn : List String → Option SchedIn
  | [k, hx, off, v] => do
    let isCron ← if k = "c" then some true else if k = "e" then some false else none
    let spec ← hexToString hx
    let off ← off.toInt?
    let v ← parseBool v
    some { isCron := isCron, spec := spec, offset := off, valid := v }
  | _ => none

def parseOp : List String → Option Op
  | ["create", st, k, hx, off, v] => do
    let st ← parseStatus st
    let si ← parseSchedIn [k, hx, off, v]
    some (.create st si)
  | ["update", id, st, "-"] => do
    let id ← id.toNat?
    let st ← if st = "-" then some none else match parseStatus st with
      | some (some x) => some (some x) | _ => none
    some (.update id st none)
  | ["update", id, st, k, hx, off, v] => do
    let id ← id.toNat?
    let st ← if st = "-" then some none else match parseStatus st with
      | some (some x) => some (some x) | _ => none
    let si ← parseSchedIn [k, hx, off, v]
    some (.update id st (some si))
  | ["optupd", id, ev, cr, off, v] => do
    let id ← id.toNat?
    let opt (x : String) : Option (Option String) :=
      if x = "_" then some none else (hexToString x).bind fun v => if v = "" then none else some (some v)
    let ev ← opt ev
    let cr ← opt cr
    let off ← if off = "_" then some none else off.toInt?.map some
    some (.optUpdate id ev cr off (← parseBool v))
  | ["delete", id] => id.toNat?.map .delete
  | ["restart", k, ps] => do
    let k ← if k = "L" then some RestartKind.launcher else if k = "N" then some .plain
            else if k = "M" then some .viaMw else none
    let ps ← ps.toNat?
    if ps = 0 ∨ ps > 500 then none else some (.restart k ps)
  | ["cancel", id, run] => do some (.cancel (← id.toNat?) (← run.toNat?))
  | ["retry", id, run] => do some (.retry (← id.toNat?) (← run.toNat?))
  | ["force", id, sf] => do
    let sf ← sf.toNat?
    if sf > 1000 then none else some (.force (← id.toNat?) sf)
  | _ => none

def renderRes : Res → String
  | .created id => s!"ok:{id}"
  | .ok => "ok"
  | .err .notfound => "err:notfound"
  | .err .invalid => "err:invalid"
  | .err .sched => "err:sched"

def renderCall : Call → String
  | .schedule id => s!"S{id}"
  | .release id => s!"R{id}"
  | .cancel r => s!"C{r}"
  | .manual t r => s!"M{t}.{r}"
  | .schedManual t r => s!"F{t}.{r}"

def renderStatus : Status → String
  | .active => "a"
  | .inactive => "i"

def renderTask (t : Task) : String :=
  s!"{t.id}:{renderStatus t.status}:{stringToHex t.sched.cron}:{stringToHex t.sched.every}:{t.sched.offset}"

def renderEntry (e : Entry) : String := s!"{e.id}:{stringToHex e.eff}:{e.offset}"

def render (o : Obs) : String :=
  renderRes o.res ++ "|" ++ joinComma (o.calls.map renderCall) ++ "|" ++
    joinComma (o.tasks.map renderTask) ++ "|" ++ joinComma (o.held.map renderEntry)

def parseRes (s : String) : Option Res :=
  if s = "ok" then some .ok
  else if s = "err:notfound" then some (.err .notfound)
  else if s = "err:invalid" then some (.err .invalid)
  else if s = "err:sched" then some (.err .sched)
  else match s.splitOn ":" with
    | ["ok", n] => n.toNat?.map .created
    | _ => none

def parseCall (s : String) : Option Call :=
  match s.toList with
  | 'S' :: r => (String.ofList r).toNat?.map .schedule
  | 'R' :: r => (String.ofList r).toNat?.map .release
  | 'C' :: r => (String.ofList r).toNat?.map .cancel
  | 'M' :: r => match (String.ofList r).splitOn "." with
    | [a, b] => do some (.manual (← a.toNat?) (← b.toNat?))
    | _ => none
  | 'F' :: r => match (String.ofList r).splitOn "." with
    | [a, b] => do some (.schedManual (← a.toNat?) (← b.toNat?))
    | _ => none
  | _ => none

def parseTask (s : String) : Option Task :=
  match s.splitOn ":" with
  | [id, st, c, e, off] => do
    let st ← if st = "a" then some Status.active else if st = "i" then some .inactive else none
    some { id := ← id.toNat?, status := st,
           sched := { cron := ← hexToString c, every := ← hexToString e, offset := ← off.toInt? } }
  | _ => none

def parseEntry (s : String) : Option Entry :=
  match s.splitOn ":" with
  | [id, eff, off] => do
    some { id := ← id.toNat?, eff := ← hexToString eff, offset := ← off.toInt? }
  | _ => none

def parseObs (s : String) : Option Obs :=
  match s.splitOn "|" with
  | [r, c, t, h] => do
    some { res := ← parseRes r, calls := ← (splitComma c).mapM parseCall,
           tasks := ← (splitComma t).mapM parseTask, held := ← (splitComma h).mapM parseEntry }
  | _ => none

def step (s : State) (toks : List String) : State × String :=
  match parseOp toks with
  | some op => let r := Model.Coord.step s op; (r.1, render r.2)
  | none => (s, "bad-op")

def tagsOf (prev : Option Obs) (op : Op) (o : Obs) : List String :=
  let stOf (id : Nat) : Option Status := (prev.bind fun p => p.tasks.find? (fun t => t.id == id)).map (·.status)
  match op, o.res with
  | .create (some .inactive) _, .created _ => ["create-inactive"]
  | .create _ _, .created _ => ["create-active"]
  | .create _ _, .err _ => ["create-rejected"]
  | .update id (some .inactive) _, .ok => if stOf id = some .active then ["deactivate"] else ["update-inactive"]
  | .update id (some .active) _, .ok => if stOf id = some .inactive then ["reactivate"] else ["update-active"]
  | .update id none (some _), .ok => if stOf id = some .active then ["reschedule-active"] else ["reschedule-inactive"]
  | .optUpdate id _ _ _ _, .ok => if stOf id = some .active then ["options-patch-active"] else ["options-patch-inactive"]
  | .optUpdate _ _ _ _ _, .err .notfound => ["update-notfound"]
  | .optUpdate _ _ _ _ _, .err _ => ["options-patch-rejected"]
  | .update _ _ _, .err .notfound => ["update-notfound"]
  | .update _ _ _, .err _ => ["update-rejected"]
  | .delete _, .ok => ["delete"]
  | .delete _, .err _ => ["delete-notfound"]
  | .restart .launcher _, _ => ["restart-launcher"]
  | .restart _ _, _ => ["restart"]
  | .cancel _ _, _ => ["run-op"]
  | .force _ _, _ => ["run-op"]
  | .retry _ _, _ => ["run-op"]
  | _, _ => []

def oracle (obs : List (List String × String)) : Verdict :=
  -- parse every line; ill-formed operations must have been answered `bad-op`
  let rec go (rest : List (List String × String)) (acc : List (Op × Obs)) (tags : List String)
      (prev : Option Obs) : Except String (List (Op × Obs) × List String) :=
    match rest with
    | [] => .ok (acc.reverse, tags)
    | (toks, ans) :: more =>
      match parseOp toks with
      | none => if ans = "bad-op" then go more acc (if tags.contains "bad-op" then tags else "bad-op" :: tags) prev
                else .error "bad-op-accepted:"
      | some op =>
        if ans = "timeout" ∨ ans = "skipped" ∨ ans = "crash" then .error ("impl-" ++ ans ++ ":")
        else if ans.startsWith "panic:" then .error "impl-panic:"
        else match parseObs ans with
          | none => .error "unparsable-answer:"
          | some o =>
            let ts := (tagsOf prev op o).filter (fun t => !tags.contains t)
            go more ((op, o) :: acc) (ts ++ tags) (some o)
  match go obs [] [] none with
  | .error e => Verdict.fail e
  | .ok (h, tags) =>
    match Spec.C25.check [] h with
    | none => { ok := true, nontrivial := h.any (fun p => match p.2.res with | .created _ => true | _ => false),
                tags := tags }
    | some reason => Verdict.fail reason tags

def driver : Driver State := { init := Model.Coord.init, step := step, oracle := oracle }

end Influx.Drv.C25

def main (args : List String) : IO UInt32 := Influx.Drv.C25.driver.main args
