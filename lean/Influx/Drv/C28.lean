import Influx.Proto
import Influx.Generated.Authz
import Influx.Spec.C28

open Influx Influx.Proto

namespace Influx.Drv.C28

def parseID (s : String) : Option (Option PID) :=
  if s = "-" then some none else s.toNat?.map some

def parsePerm : List String → Option Permission
  | [a, t, i, o] => do
    let a ← hexToString a
    let t ← hexToString t
    let i ← parseID i
    let o ← parseID o
    some ⟨a, ⟨t, i, o⟩⟩
  | _ => none

def parseOp : List String → Option (Permission × Permission)
  | "m" :: rest =>
    match parsePerm (rest.take 4), parsePerm (rest.drop 4) with
    | some p, some r => some (p, r)
    | _, _ => none
  | _ => none

def render : Option Bool → String
  | none => "panic"
  | some b => boolStr b

def parseAns (s : String) : Option (Option Bool) :=
  if s = "panic" then some none else (parseBool s).map some

def step (_ : Unit) (toks : List String) : Unit × String :=
  match parseOp toks with
  | some (p, r) => ((), render (Generated.Authz.Matches p r))
  | none => ((), "bad-op")

def oracle (obs : List (List String × String)) : Verdict :=
  obs.foldl (fun v (toks, ans) =>
    match parseOp toks, parseAns ans with
    | some (p, r), some a =>
      let ok := Spec.C28.holdsOn ⟨p, r, a⟩
      let tag := if a = some true then "grant" else "deny"
      let tag2 := if p.Resource.Type_ = "instance" then "p:instance"
        else if p.Resource.OrgID.isSome && p.Resource.ID.isSome then "p:org+id"
        else if p.Resource.OrgID.isSome then "p:org"
        else if p.Resource.ID.isSome then "p:id" else "p:type"
      v.and { ok := ok, nontrivial := true, tags := [tag, tag2],
              reason := if ok then "" else "unjustified-grant:" ++ " ".intercalate toks |>.replace " " "_" }
    | _, _ => v.and (Verdict.fail "bad-line")) (Verdict.pass false)

def driver : Driver Unit := { init := (), step := step, oracle := oracle }

end Influx.Drv.C28

def main (args : List String) : IO UInt32 := Influx.Drv.C28.driver.main args
