import Influx.Proto
import Influx.Model.Tenant
import Influx.Model.TenantWire
import Influx.Spec.C30

open Influx Influx.Proto Influx.Tenant Influx.Tenant.Wire

namespace Influx.Drv.C30

/-! ### driver -/

def step (s : State) (toks : List String) : State × String :=
  match parseOp toks with
  | some op => let r := Tenant.step s op; (r.1, render r.2)
  | none => (s, "bad-op")

def opTag : Op → String
  | .co .. => "co" | .uo .. => "uo" | .dO _ => "do" | .cb .. => "cb" | .ub .. => "ub" | .db _ => "db"
  | .cu .. => "cu" | .uu .. => "uu" | .du _ => "du" | .cm .. => "cm" | .dm .. => "dm"
  | .fo _ => "fo" | .fb .. => "fb" | .fu _ => "fu" | .lb _ => "lb" | .idgen .. => "idgen" | .dump => "dump"

def ansTag : Ans → String
  | .err .cf => "conflict" | .err .nf => "notfound" | .err .inv => "invalid" | .err .int => "internal"
  | _ => "ok"

def oracle (obs : List (List String × String)) : Verdict :=
  -- malformed lines must be answered bad-op by the implementation as well
  let parsed := obs.filterMap fun (toks, ans) =>
    match parseOp toks with
    | some op => some (op, parseAns op ans, ans)
    | none => none
  let badop := obs.any fun (toks, ans) => (parseOp toks).isNone && ans ≠ "bad-op"
  if badop then Verdict.fail "malformed-op-not-rejected" else
  match parsed.find? (fun p => p.2.1.isNone) with
  | some (op, _, raw) => Verdict.fail s!"unreadable-answer:{opTag op}:{raw.replace " " "_"}"
  | none =>
    let tr : List (Op × Ans) := parsed.filterMap fun (op, a, _) => a.map fun a => (op, a)
    let sc := Spec.C30.scan tr
    let muts := tr.filter fun (op, a) => !Spec.C30.isLookup op && ansTag a = "ok"
    let tags := (tr.map fun (op, a) => opTag op ++ ":" ++ ansTag a).eraseDups
    if sc.ok then { ok := true, nontrivial := !muts.isEmpty && tr.any (fun p => p.1 = .dump), tags := tags }
    else { ok := false, nontrivial := true, tags := tags, reason := sc.why ++ ":" ++ toString tr.length }

def driver : Driver State := { init := Tenant.init, step := step, oracle := oracle }

end Influx.Drv.C30

def main (args : List String) : IO UInt32 := Influx.Drv.C30.driver.main args
