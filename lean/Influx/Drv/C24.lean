import Influx.Proto
import Influx.Model.SchedMacro

open Influx Influx.Proto Influx.Model.Sched

namespace Influx.Drv.C24
open Influx.Spec.C24 (Op Res Obs SpinObs Ans cronOf)

def num40 (s : String) : Option Nat := do
  let n ← s.toNat?
  if s.any (· == '_') then none
  if n < 2 ^ 40 then some n else none

def int40 (s : String) : Option Int := do
  let n ← s.toInt?
  if s.any (· == '_') then none
  if -(2 ^ 39 : Int) ≤ n ∧ n < 2 ^ 39 then some n else none

def parseOp : List String → Option Op
  | ["new", n] => do
    let n ← num40 n
    if n = 0 ∨ n > 8 then none else some (.new n)
  | ["sched", id, k, p, off, last] => do
    let isEvery ← if k = "e" then some true else if k = "c" then some false else none
    some (.sched (← num40 id) isEvery (← num40 p) (← int40 off) (← num40 last))
  | ["rel", id] => (num40 id).map .rel
  | ["adv", d] => do
    let d ← num40 d
    if d > 3600000 then none else some (.adv d)
  | ["block", id] => (num40 id).map .block
  | ["unblock", id] => (num40 id).map .unblock
  | ["spin", v, a, b] => do
    let r ← if v = "r" then some false else if v = "s" then some true else none
    let a ← num40 a
    let b ← num40 b
    if a < 20 ∨ b < a + 400 ∨ b > 2500 then none else some (.spin r a b)
  | _ => none

def insertRun (r : Run) : List Run → List Run
  | [] => [r]
  | x :: xs => if r.id < x.id then r :: x :: xs else x :: insertRun r xs

/-- stable sort by id -/
def sortRuns (rs : List Run) : List Run := rs.foldl (fun acc r => insertRun r acc) []

def renderRes : Res → String
  | .ok => "ok"
  | .okAligned l => s!"ok:{l}"
  | .err => "err"

def renderRun (r : Run) : String := s!"{r.id}:{1000 * r.sf}:{r.runAt}"

def renderAns : Ans → String
  | .logic o =>
    -- runs grouped by task (ids ascending, order within a task kept), as the harness prints them
    renderRes o.res ++ "|" ++ joinComma ((sortRuns o.runs).map renderRun) ++ "|" ++
      (match o.when_ with | none => "-" | some w => toString w) ++ "|c" ++ boolStr o.conc ++ "k" ++ boolStr o.ckBad
  | .spin o =>
    s!"spin={boolStr o.spin}|when={o.when_}|pulse={if o.pulse then "pass" else "fail"}|runs={o.runsA},{o.runsB}"

def parseRes (s : String) : Option Res :=
  if s = "ok" then some .ok else if s = "err" then some .err
  else match s.splitOn ":" with
    | ["ok", n] => n.toNat?.map .okAligned
    | _ => none

def parseRun (s : String) : Option Run :=
  match s.splitOn ":" with
  | [id, sf, at_] => do
    let sf ← sf.toNat?
    if sf % 1000 ≠ 0 then none
    some { id := ← id.toNat?, sf := sf / 1000, runAt := ← at_.toInt? }
  | _ => none

def parseAns (s : String) : Option Ans :=
  match s.splitOn "|" with
  | [a, b, c, d] =>
    if a.startsWith "spin=" then
      match a.splitOn "=", b.splitOn "=", c.splitOn "=", d.splitOn "=" with
      | ["spin", sp], ["when", w], ["pulse", p], ["runs", rs] =>
        match rs.splitOn "," with
        | [x, y] => do
          some (.spin { spin := ← parseBool sp, when_ := w,
                        pulse := ← (if p = "pass" then some true else if p = "fail" then some false else none),
                        runsA := ← x.toNat?, runsB := ← y.toNat? })
        | _ => none
      | _, _, _, _ => none
    else do
      let res ← parseRes a
      let runs ← (splitComma b).mapM parseRun
      let w ← if c = "-" then some none else c.toInt?.map some
      let (cf, kf) ← match d.toList with
        | ['c', x, 'k', y] => do some (← parseBool (String.singleton x), ← parseBool (String.singleton y))
        | _ => none
      some (.logic { res := res, runs := runs, when_ := w, conc := cf, ckBad := kf })
  | _ => none

def step (m : M) (toks : List String) : M × String :=
  match parseOp toks with
  | some op =>
    if admissible m.created op then
      let r := stepOp m op
      -- While the environment holds (or may hold) an executor, WHICH of several due tasks sharing a
      -- worker gets it first depends on goroutine timing in the real scheduler (a worker can become
      -- free again in the middle of a pass), so the runs and `when` of such operations are not
      -- predicted (`*`); the oracle still judges them.  Once nothing is held and the scheduler has come
      -- to rest, the state is a function of the schedules and the clock again.
      let undetermined := (!m.blocked.isEmpty || !r.1.blocked.isEmpty) &&
        (match op with | .spin _ _ _ => false | _ => true)
      (r.1, if undetermined then "*" else renderAns r.2.1)
    else (m, "bad-op")
  | none => (m, "bad-op")

def tagOf (op : Op) (a : Ans) : List String :=
  match op, a with
  | .spin false _ _, _ => ["spin-release"]
  | .spin true _ _, _ => ["spin-reschedule"]
  | .sched _ true _ _ _, .logic o => if o.res = .err then ["sched-err"] else ["sched-every"]
  | .sched _ false _ _ _, .logic o => if o.res = .err then ["sched-err"] else ["sched-cron"]
  | .rel _, _ => ["release"]
  | .adv _, .logic o =>
    if o.runs.length ≥ 2 then ["adv-many-runs"] else if o.runs.length = 1 then ["adv-one-run"] else ["adv-no-run"]
  | .block _, _ => ["block"]
  | .unblock _, .logic o => if o.runs.isEmpty then ["unblock"] else ["unblock-releases-runs"]
  | _, _ => []

def oracle (obs : List (List String × String)) : Verdict :=
  let rec go (rest : List (List String × String)) (created : Bool) (acc : List (Op × Ans)) (tags : List String) :
      Except String (List (Op × Ans) × List String) :=
    match rest with
    | [] => .ok (acc.reverse, tags)
    | (toks, ans) :: more =>
      let badTag := if tags.contains "bad-op" then tags else "bad-op" :: tags
      match parseOp toks with
      | none => if ans = "bad-op" then go more created acc badTag else .error "bad-op-accepted:"
      | some op =>
        if !admissible created op then
          (if ans = "bad-op" then go more created acc badTag else .error "bad-op-accepted:")
        else if ans = "timeout" ∨ ans = "skipped" ∨ ans = "crash" ∨ ans = "hang" ∨ ans.startsWith "panic:" then
          -- the implementation stopped answering here: judge the history up to this point first
          .ok (acc.reverse, (if ans.startsWith "panic:" then "impl-panic:" else "impl-hang:" ++ ans) :: tags)
        else match parseAns ans with
          | none => .error "unparsable-answer:"
          | some a =>
            let created' := created || (match op with | .new _ => true | _ => false)
            let ts := (tagOf op a).filter (fun t => !tags.contains t)
            go more created' ((op, a) :: acc) (ts ++ tags)
  match go obs false [] [] with
  | .error e => Verdict.fail e
  | .ok (h, tags) =>
    match Spec.C24.check {} h with
    | .ok _ =>
      match tags.find? (fun t => t.startsWith "impl-") with
      | some t => Verdict.fail t
      | none =>
      { ok := true, tags := tags,
        nontrivial := h.any fun p => match p.2 with
          | .logic o => !o.runs.isEmpty
          | .spin _ => true }
    | .error reason => Verdict.fail reason tags

def driver : Driver M := { init := {}, step := step, oracle := oracle }

end Influx.Drv.C24

def main (args : List String) : IO UInt32 := Influx.Drv.C24.driver.main args
