import Influx.Model.EngineProto
import Influx.Spec.C01

open Influx Influx.Proto Influx.Model.Engine

namespace Influx.Drv.C01

def tagsOf (tr : List (Op × Obs)) : List String :=
  let has (p : Op → Bool) := tr.any fun x => p x.1
  (if has (fun | .snapBegin => true | _ => false) then ["snapshot"] else []) ++
  (if has (fun | .snapTo .written => true | .snapTo .replaced => true | .snapTo .cleared => true | _ => false) then ["snapshot-substeps"] else []) ++
  (if has (fun | .compact .. => true | _ => false) then ["compaction"] else []) ++
  (if tr.any (fun x => match x with | (.read .., .rows r) => r.length ≥ 2 | _ => false) then ["multi-row-read"] else []) ++
  (if has (fun | .read _ _ _ false => true | _ => false) then ["desc"] else [])

def oracle (obs : List (List String × String)) : Verdict :=
  match LineProto.caseTrace obs with
  | none => Verdict.fail "bad-line"
  | some tr =>
    let nt := tr.any (fun x => match x.1 with | .read .. => true | _ => false) &&
              tr.any (fun x => match x.1 with | .write .. => true | _ => false)
    match Spec.C01.check tr with
    | none => { ok := Spec.C01.holdsOn tr, nontrivial := nt, tags := tagsOf tr }
    | some r => { ok := Spec.C01.holdsOn tr, nontrivial := true, tags := tagsOf tr, reason := r ++ ":" }

def driver : Driver State := { init := init, step := LineProto.modelStep, oracle := oracle }

end Influx.Drv.C01

def main (args : List String) : IO UInt32 := Influx.Drv.C01.driver.main args
