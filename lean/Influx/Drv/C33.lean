/-
  Drv.C33 — string shell around Model.Check / Spec.C33.

  ops (strings hex-encoded)
    rg <name>                      AddNamedReadyCheck(NewReadyGate(name))
    rc <name> <status> <msg>       AddNamedReadyCheck(Named(name, fixed answer))
    hc <name> <status> <msg> <n>   health check with a fixed answer (n=1 Named / n=0 anonymous)
    hf <name> <stale>              health check backed by a FreshnessResponse
    sig <i> <0|1>                  ready check i: Unready() / Ready()
    sr <i> <status> <msg>          ready check i: replace the fixed answer
    sh <i> <status> <msg>          health check i: replace the fixed answer / Update the freshness response
    sl <name>                      a run.StartupProgressLogger: ReadyChecker on /ready, HealthChecker on /health
    se <k> <event>                 AddShard / CompletedShard / ShardLoadFailed / Finish on logger k
    sfr <k> <msg> <n>              Finish(err) on logger k; n GET /ready while err.Error() is being rendered, one after
    sp <name> <state> | ss <i> <state>   a run.SchedulerPulseCheck health check driven to idle / future / ontime / stalled
    ready | health | names         GET /ready, GET /health, ReadyCheckNames()
    conc <programs>                concurrent threads (last op of a case); answer = history, model answers `*`
-/
import Influx.Proto
import Influx.Model.Check
import Influx.Spec.C33

open Influx Influx.Proto Influx.CheckM

namespace Influx.Drv.C33
open Influx.Spec.C33 (HOp HKind)

def str (s : String) : Option String := hexToString s

def parsePulse : String → Option Pulse
  | "idle" => some .idle | "future" => some .future | "ontime" => some .onTime | "stalled" => some .stalled
  | _ => none

def parseOp : List String → Option Op
  | ["rg", n] => do some (.regGate (← str n))
  | ["rc", n, s, m] => do some (.regReady (← str n) (← str s) (← str m))
  | ["hc", n, s, m, named] => do
    let _ ← parseBool named
    some (.regHealth (← str n) (← str s) (← str m))
  | ["hf", n, stale] => do some (.regFresh (← str n) (← parseBool stale))
  | ["sig", i, b] => do some (.signal (← i.toNat?) (← parseBool b))
  | ["sr", i, s, m] => do some (.setReady (← i.toNat?) (← str s) (← str m))
  | ["sh", i, s, m] => do some (.setHealth (← i.toNat?) (← str s) (← str m))
  | ["sl", n] => do some (.regStartup (← str n))
  | ["se", k, ev] => do
    let k ← k.toNat?
    let ev ← (match ev.splitOn "." with
      | ["add"] => some StartupEv.addShard
      | ["done"] => some StartupEv.completedShard
      | ["fail", id, m] => do some (StartupEv.shardFailed (← id.toNat?) (← str m))
      | ["fin"] => some (StartupEv.finish none)
      | ["finerr", m] => do some (StartupEv.finish (some (← str m)))
      | _ => none)
    some (.startupEv k ev)
  | ["sfr", k, m, n] => do some (.finishRace (← k.toNat?) (← str m) (← n.toNat?))
  | ["sp", n, st] => do
    let (s, m) := pulseRes (← parsePulse st)
    some (.regHealth (← str n) s m)
  | ["ss", i, st] => do
    let (s, m) := pulseRes (← parsePulse st)
    some (.setHealth (← i.toNat?) s m)
  | ["ready"] => some .ready
  | ["health"] => some .health
  | ["names"] => some .names
  | _ => none

def showRes (r : Res) : String := s!"{stringToHex r.name}:{stringToHex r.status}:{stringToHex r.msg}"
def showChecks (rs : List Res) : String := joinComma (rs.map showRes)

/-- the model's answer to one op -/
def stepOp (s : St) (op : Op) : Option (St × String) :=
  match s.apply op with
  | none => none
  | some s' =>
    match op with
    | .ready => let r := ready false s; some (s', s!"{r.code} {stringToHex r.status} {showChecks r.checks}")
    | .health =>
      let r := health false s
      some (s', s!"{r.code} {stringToHex r.status} {stringToHex r.message} {showChecks r.checks}")
    | .names => some (s', joinComma (s.readyNames.map stringToHex))
    | .finishRace _ _ n =>
      let show1 (r : ReadyResp) := s!"{r.code} {stringToHex r.status} {showChecks r.checks}"
      some (s', " ".intercalate (List.replicate n (show1 (ready false s)) ++ [show1 (ready false s')]))
    | _ => some (s', "ok")

def step (s : St) (toks : List String) : St × String :=
  match toks with
  | ["conc", _] => (s, "*")
  | _ =>
    match parseOp toks with
    | none => (s, "bad-op")
    | some op =>
      match stepOp s op with
      | some (s', a) => (s', a)
      | none => (s, "bad-op")

/-! parsing observations -/

def parseRes (s : String) : Option Res :=
  match s.splitOn ":" with
  | [n, st, m] => do some ⟨← str n, ← str st, ← str m⟩
  | _ => none

def parseChecks (s : String) : Option (List Res) := (splitComma s).mapM parseRes

/-- `code status checks` triples -/
def parseReadys : List String → Option (List Spec.C33.ReadyObs)
  | [] => some []
  | code :: _st :: checks :: rest => do
    let o : Spec.C33.ReadyObs := ⟨← code.toNat?, ← parseChecks checks⟩
    some (o :: (← parseReadys rest))
  | _ => none

def parseObs (op : Op) (ans : String) : Option Spec.C33.Obs :=
  match op, tokens ans with
  | .ready, [code, _st, checks] => do some (.ready ⟨← code.toNat?, ← parseChecks checks⟩)
  | .health, [code, _st, msg, checks] => do some (.health ⟨← code.toNat?, ← str msg, ← parseChecks checks⟩)
  | .names, [ns] => do some (.names (← (splitComma ns).mapM str))
  | .finishRace _ _ n, toks => do
    let obs ← parseReadys toks
    if obs.length = n + 1 then some (.race (obs.take n) (← obs[n]?)) else none
  | .ready, _ | .health, _ | .names, _ => none
  | _, _ => if ans = "ok" then some .other else none

/-- `t0op+t0op|t1op+…`; ops `rg.<name>`, `s1.<name>`, `s0.<name>`, `rd` -/
def parseProg (s : String) : Option (List (List HKind)) :=
  (s.splitOn "|").mapM fun th =>
    (if th = "-" then [] else th.splitOn "+").mapM fun o =>
      match o.splitOn "." with
      | ["rd"] => some HKind.ready
      | ["rg", n] => (str n).map HKind.reg
      | ["s1", n] => (str n).map (HKind.sig · true)
      | ["s0", n] => (str n).map (HKind.sig · false)
      | _ => none

/-- history entry `<thread>.<idx>:<inv>:<res>:<code>:<failing names joined by +>` -/
def parseHOp (prog : List (List HKind)) (s : String) : Option HOp :=
  match s.splitOn ":" with
  | [ti, inv, res, code, failing] =>
    match ti.splitOn "." with
    | [t, i] => do
      let t ← t.toNat?
      let i ← i.toNat?
      let k ← (← prog[t]?)[i]?
      let failing ← (if failing = "-" then some [] else (failing.splitOn "+").mapM str)
      some { kind := k, inv := ← inv.toNat?, res := ← res.toNat?, code := ← code.toNat?, failing := failing }
    | _ => none
  | _ => none

def parseHistory (prog : List (List HKind)) (ans : String) : Option (List HOp) := do
  let h ← (splitComma ans).mapM (parseHOp prog)
  -- every operation of the program is in the history exactly once
  if h.length = (prog.map List.length).sum then some h else none

structure Acc where
  abs : St := {}
  pairs : List (Op × Spec.C33.Obs) := []
  conc : Option (List (String × Bool) × List HOp) := none
  bad : Bool := false
  tags : List String := []
  nready : Nat := 0

/-- which op of a sequential case the statement checker rejects (for the failure signature) -/
def firstBad : St → List (Op × Spec.C33.Obs) → Nat → String
  | _, [], _ => "aggregate-wrong:?"
  | s, (op, ob) :: rest, i =>
    if Spec.C33.holdsOn s [(op, ob)] then firstBad ((s.apply op).getD s) rest (i + 1)
    else match op with
      | .ready => s!"ready-aggregate-wrong:op#{i}"
      | .health => s!"health-aggregate-wrong:op#{i}"
      | .names => s!"ready-names-wrong:op#{i}"
      | .finishRace _ _ _ => s!"ready-passes-during-finish-err:op#{i}"
      | _ => s!"unexpected-answer:op#{i}"

def oracle (obs : List (List String × String)) : Verdict :=
  let acc := obs.foldl (fun (a : Acc) (toks, ans) =>
    if a.bad then a else
    match toks with
    | ["conc", prog] =>
      match parseProg prog with
      | none => { a with bad := true }
      | some p =>
        match parseHistory p ans with
        | none => { a with bad := true }
        | some h =>
          let init := a.abs.ready.map fun c => (c.res.name, c.res.status == pass)
          { a with conc := some (init, h), tags := a.tags ++ ["conc"] }
    | _ =>
      match parseOp toks with
      | none => { a with bad := true }
      | some op =>
        match parseObs op ans with
        | none => { a with bad := true }
        | some o =>
          let tag := match o with
            | .race _ r => ["finish-race", s!"ready={r.code}"]
            | .ready r => [s!"ready={r.code}"]
            | .health r => [s!"health={r.code}"]
            | _ => []
          { a with abs := (a.abs.apply op).getD a.abs, pairs := a.pairs ++ [(op, o)],
                   tags := a.tags ++ tag.filter (fun t => !a.tags.contains t),
                   nready := a.nready + (if tag.isEmpty then 0 else 1) }) ({} : Acc)
  if acc.bad then Verdict.fail "bad-line" else
  let seqOK := Spec.C33.holdsOn {} acc.pairs
  let concOK := match acc.conc with
    | none => true
    | some (init, h) => Spec.C33.holdsOnConc init h
  let nReadyConc := match acc.conc with
    | none => 0
    | some (_, h) => (h.filter fun o => o.kind == .ready).length
  { ok := seqOK && concOK, nontrivial := acc.nready + nReadyConc > 0, tags := acc.tags,
    reason := if !seqOK then firstBad {} acc.pairs 0
              else if !concOK then "interval-semantics-violated:concurrent-history" else "" }

def driver : Driver St := { init := {}, step := step, oracle := oracle }

end Influx.Drv.C33

def main (args : List String) : IO UInt32 := Influx.Drv.C33.driver.main args
