import Influx.Model.EngineProto
import Influx.Spec.C02

open Influx Influx.Proto Influx.Model.Engine

namespace Influx.Drv.C02

def tagsOf (tr : List (Op × Obs)) : List String :=
  let has (p : Op → Bool) := tr.any fun x => p x.1
  (if has (fun | .crash false => true | _ => false) then ["crash-clean"] else []) ++
  (if has (fun | .crash true => true | _ => false) then ["crash-torn-wal"] else []) ++
  (if has (fun | .compactCrash .. => true | _ => false) then ["crash-in-compaction"] else []) ++
  (if has (fun | .deleteCrash .. => true | _ => false) then ["crash-in-delete"] else []) ++
  (if has (fun | .delete .. => true | _ => false) then ["delete"] else []) ++
  (if has (fun | .snapTo .written => true | .snapTo .replaced => true | .snapTo .cleared => true | _ => false) then ["snapshot-substeps"] else [])

/-- a crash/reopen followed by a read, after at least one acknowledged write -/
def nontrivial (tr : List (Op × Obs)) : Bool :=
  let rec go : List (Op × Obs) → Bool → Bool → Bool
    | [], _, _ => false
    | (.write _, .ok) :: tr, _, c => go tr true c
    | (.crash _, _) :: tr, w, _ => go tr w w
    | (.compactCrash .., .ok) :: tr, w, _ => go tr w w
    | (.deleteCrash .., .ok) :: tr, w, _ => go tr w w
    | (.read .., _) :: tr, w, c => c || go tr w c
    | _ :: tr, w, c => go tr w c
  go tr false false

def oracle (obs : List (List String × String)) : Verdict :=
  match LineProto.caseTrace obs with
  | none => Verdict.fail "bad-line:"
  | some tr =>
    match Spec.C02.check tr with
    | none => { ok := Spec.C02.holdsOn tr, nontrivial := nontrivial tr, tags := tagsOf tr }
    | some r => { ok := Spec.C02.holdsOn tr, nontrivial := true, tags := tagsOf tr, reason := r }

def driver : Driver State := { init := init, step := LineProto.modelStep, oracle := oracle }

end Influx.Drv.C02

def main (args : List String) : IO UInt32 := Influx.Drv.C02.driver.main args
