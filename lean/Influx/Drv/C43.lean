import Influx.Proto
import Influx.Model.DBRPProto
import Influx.Spec.C43

open Influx Influx.Proto Influx.DBRP

namespace Influx.Drv.C43

def step (s : St) (toks : List String) : St × String :=
  match parseOp toks with
  | some op => let r := DBRP.step s op; (r.1, render r.2)
  | none => (s, "bad-op")

def firstFail : List (Nat × List Mapping) → List (Op × Obs) → Option String
  | _, [] => none
  | known, p :: rest =>
    if !Spec.C43.holdsOp known p then
      let clause := match p with
        | (.find f, .mappings r) =>
          (match Spec.C43.classify f with
           | some (.listing org) =>
             if !r.all (·.OrganizationID == org) then "listing-foreign-org"
             else if !Spec.C43.pairsUnique r then "dbrp-pair-not-unique" else "default-count"
           | some (.resolve ..) => if r.length > 1 then "resolves-to-many" else "resolve-differs-from-listing"
           | some (.dflt ..) => if r.length > 1 then "many-defaults" else "default-lookup-differs-from-listing"
           | none => "?")
        | (.find _, .err e) => "lookup-failed-" ++ (e.str.replace ":" "-")
        | _ => "?"
      some (clause ++ ":" ++ (render p.2).replace " " "_")
    else firstFail (Spec.C43.learn known p) rest

def oracle (obs : List (List String × String)) : Verdict :=
  let parsed := obs.map fun (toks, ans) =>
    match parseOp toks with
    | some op => (some op, parseObs ans, toks, ans)
    | none => (none, none, toks, ans)
  match parsed.find? (fun (op, o, _, ans) => (op.isNone && ans != "bad-op") || (op.isSome && o.isNone)) with
  | some (_, _, toks, ans) => Verdict.fail ("bad-line:" ++ "_".intercalate toks ++ "=>" ++ ans.replace " " "_")
  | none =>
    let tr : List (Op × Obs) := parsed.filterMap fun (op, o, _, _) =>
      match op, o with
      | some op, some o => some (op, o)
      | _, _ => none
    let virt := Spec.C43.touchesVirtual [] tr
    let queries := tr.filterMap fun p => match p with
      | (.find f, _) => (Spec.C43.classify f).map fun q => match q with
        | .listing _ => "listing"
        | .resolve .. => "resolve"
        | .dflt .. => "default"
      | _ => none
    let tags := queries.eraseDups ++ (if virt then ["virtual-mutated"] else [])
    if Spec.C43.holdsOn tr then
      { ok := true, nontrivial := !queries.isEmpty, tags := tags }
    else
      match firstFail [] tr with
      | some r => { ok := false, nontrivial := true, tags := tags,
                    reason := (if virt then "virtual-mapping-mutated:" else "") ++ r }
      | none => Verdict.fail "holdsOn-false"

def driver : Driver St := { init := St.init, step := step, oracle := oracle }

end Influx.Drv.C43

def main (args : List String) : IO UInt32 := Influx.Drv.C43.driver.main args
