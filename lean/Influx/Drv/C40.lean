import Influx.Proto
import Influx.Model.FieldProto
import Influx.Model.FieldSchema
import Influx.Spec.C40

open Influx Influx.Proto Influx.Fields Influx.Fields.Tok

namespace Influx.Drv.C40

/-! ## the driver -/

def parseOp : List String → Option Op40
  | "w" :: toks => if toks.isEmpty then none else (toks.mapM parsePoint).map .write
  | ["r"] => some .read
  | ["f"] => some .schema
  | ["k"] => some .keys
  | ["snap"] => some .snap
  | ["reopen"] => some .reopen
  | _ => none

def step (st : State) (toks : List String) : State × String :=
  match parseOp toks with
  | none => (st, "bad-op")
  | some op =>
    let r := step40 st op
    let ans := match op, r.2 with
      | _, .write _ res after => resStr res ++ " " ++ storeStr after
      | _, .read d => storeStr d
      | _, .keys ks => rawKeysStr ks
      | .schema, _ => schemaStr st.sch
      | _, _ => "ok"
    (r.1, ans)

/-- op tokens + the implementation's answer → the observation the statement is about -/
def observe (toks : List String) (ans : String) : Option (Option WStep) :=
  match parseOp toks with
  | none => if ans == "bad-op" then some none else none
  | some (.write b) =>
    let ws := tokens ans
    match ws.reverse with
    | ents :: rres =>
      match parseRes rres.reverse, parseStore ents with
      | some res, some d => some (some (.write b res d))
      | some (.hardError e), none => some (some (.write b (.hardError e) []))
      | some _, none =>
        if ents.startsWith "err:" || ents.startsWith "panic" then some (some (.write b (.hardError ("read-failed-" ++ ents.replace "err:" "")) []))
        else none
      | _, _ => if rres.isEmpty then (parseRes [ents]).map fun r => some (.write b r []) else none
    | [] => none
  | some .read => (parseStore ans).map fun d => some (.read d)
  | some .keys => ((splitComma ans).mapM parseRawKey).map fun ks => some (.keys ks)
  | some _ => some (some .other)

def writeTags (B : Store) : WStep → List String
  | .write batch res A =>
    if !Spec.C40.distinctBatch batch then ["nondistinct"] else
    let cls := batch.map (Spec.C40.classify B A)
    let nA := cls.countP (· == .acc)
    let nR := cls.countP (· == .rej)
    let shape := if nA > 0 && nR > 0 then "mixed" else if nR > 0 then "all-rejected" else "all-stored"
    let kind := match res with
      | .ok => "res:ok"
      | .partialWrite _ r => "res:" ++ reasonStr r
      | .hardError _ => "res:error"
    [shape, kind]
  | _ => []

def oracle (obs : List (List String × String)) : Verdict :=
  let parsed := obs.map fun (toks, ans) => (observe toks ans, ans)
  match parsed.find? (fun p => p.1.isNone) with
  | some (_, ans) => Verdict.fail ("unreadable-answer:" ++ ((ans.take 40).replace " " "_"))
  | none =>
  let steps := parsed.filterMap fun o => o.1.join
  -- tags (evidence only): walk the writes with the observed store before each
  let tg := (steps.foldl (fun (acc : Store × List String) s =>
      let t := writeTags acc.1 s
      let B' := match s with | .write _ _ A => A | _ => acc.1
      (B', acc.2 ++ t.filter (fun x => !acc.2.contains x))) ([], [])).2
  match Spec.C40.firstFailure [] steps with
  | none => { ok := Spec.C40.holdsOn steps, nontrivial := tg.contains "mixed", tags := tg }
  | some r => { ok := false, nontrivial := true, tags := tg, reason := r.replace " " "_" }

def driver : Driver State := { init := {}, step := step, oracle := oracle }

end Influx.Drv.C40

def main (args : List String) : IO UInt32 := Influx.Drv.C40.driver.main args
