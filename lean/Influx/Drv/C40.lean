import Influx.Proto
import Influx.Model.FieldSchema
import Influx.Spec.C40

open Influx Influx.Proto Influx.Fields

namespace Influx.Drv.C40

/-! ## tokens → typed values (shared with Drv.C10) -/

def validName (s : String) : Bool :=
  !s.isEmpty && s.toList.all (fun c => c.isAlphanum || c == '_') && s.toList.all (fun c => c.toNat < 128)

def parseNatCanon (s : String) : Option Nat :=
  match s.toNat? with
  | some n => if toString n == s then some n else none
  | none => none

def parseIntCanon (s : String) : Option Int :=
  match s.toInt? with
  | some n => if toString n == s then some n else none
  | none => none

def parseFType : String → Option FType
  | "f" => some .float | "i" => some .int | "u" => some .uint | "b" => some .bool | "s" => some .str
  | _ => none

def ftypeStr : FType → String
  | .float => "f" | .int => "i" | .uint => "u" | .bool => "b" | .str => "s"

def lowerHex (s : String) : Bool := s.toList.all (fun c => c.isDigit || ('a' ≤ c && c ≤ 'f'))

/-- value token of type `t` → `slen` (0 unless string), `none` if not canonical -/
def parseVal (t : FType) (v : String) : Option Nat :=
  match t with
  | .float =>
    match hex64 v with
    | some n => if lowerHex v && (n / 2 ^ 52) % 2048 != 2047 then some 0 else none
    | none => none
  | .int =>
    match parseIntCanon v with
    | some n => if -(2 ^ 63 : Int) ≤ n && n < 2 ^ 63 then some 0 else none
    | none => none
  | .uint =>
    match parseNatCanon v with
    | some n => if n < 2 ^ 64 then some 0 else none
    | none => none
  | .bool => if v == "0" || v == "1" then some 0 else none
  | .str =>
    match v.splitOn "x" with
    | [c, n] =>
      match parseNatCanon c, parseNatCanon n with
      | some c, some n => if c < 26 && (n > 0 || c == 0) && n ≤ 4000000 then some n else none
      | _, _ => none
    | _ => none

def parseField (s : String) : Option FieldV :=
  match s.splitOn ":" with
  | [name, t, v] =>
    if !validName name then none else
    match parseFType t with
    | some ty => (parseVal ty v).map fun n => ⟨name, ty, v, n⟩
    | none => none
  | _ => none

def strictAsc : List String → Bool
  | a :: b :: rest => a < b && strictAsc (b :: rest)
  | _ => true

def parseTags (s : String) : Option (List (String × String)) :=
  if s == "-" then some [] else
  let r := (s.splitOn ";").mapM fun kv =>
    match kv.splitOn "=" with
    | [k, v] => if validName k && validName v then some (k, v) else none
    | _ => none
  match r with
  | some l => if strictAsc (l.map (·.1)) then some l else none
  | none => none

def tsLimit : Int := 2 ^ 60

def parsePoint (tok : String) : Option Point :=
  match tok.splitOn "|" with
  | [m, tg, fs, ts] =>
    if !validName m then none else
    match parseTags tg, (fs.splitOn ";").mapM parseField, parseIntCanon ts with
    | some tags, some fields, some t =>
      if strictAsc (fields.map (·.name)) && !fields.isEmpty && -tsLimit < t && t < tsLimit
      then some ⟨m, tags, fields, t⟩ else none
    | _, _, _ => none
  | _ => none

/-! ## rendering -/

def tagsStr (t : List (String × String)) : String :=
  if t.isEmpty then "-" else ";".intercalate (t.map fun kv => kv.1 ++ "=" ++ kv.2)

def entryStr (e : EKey × Val) : String :=
  e.1.1 ++ "|" ++ tagsStr e.1.2.1 ++ "|" ++ e.1.2.2.1 ++ "|" ++ toString e.1.2.2.2 ++ "|" ++ ftypeStr e.2.1 ++ ":" ++ e.2.2

def sortStrs (l : List String) : List String := l.mergeSort (fun a b => !(b < a))

def storeStr (d : Store) : String := joinComma (sortStrs (d.map entryStr))

def schemaStr (s : Schema) : String :=
  joinComma (sortStrs (s.map fun e => e.1.1 ++ "." ++ e.1.2 ++ ":" ++ ftypeStr e.2))

def rawKeyStr (k : RawKey) : String :=
  k.1.1 ++ "|" ++ tagsStr k.1.2.1 ++ "#" ++ k.1.2.2 ++ ":" ++ ftypeStr k.2

def rawKeysStr (ks : List RawKey) : String := joinComma (sortStrs (ks.map rawKeyStr))

def reasonStr : Reason → String
  | .tagTime => "tag-time" | .fieldTime => "field-time" | .tooLong => "too-long"
  | .conflict => "conflict" | .stripped => "time-stripped"

def parseReason : String → Option Reason
  | "tag-time" => some .tagTime | "field-time" => some .fieldTime | "too-long" => some .tooLong
  | "conflict" => some .conflict | "time-stripped" => some .stripped
  | _ => none

def resStr : WriteRes → String
  | .ok => "ok"
  | .partialWrite n r => s!"partial {n} {reasonStr r}"
  | .hardError e => "err:" ++ e

/-! ## answers → typed observations -/

def parseEntry (s : String) : Option (EKey × Val) :=
  match s.splitOn "|" with
  | [m, tg, f, ts, tv] =>
    match parseTags tg, parseIntCanon ts, tv.splitOn ":" with
    | some tags, some t, [ty, v] =>
      (parseFType ty).map fun ty => ((m, tags, f, t), (ty, v))
    | _, _, _ => none
  | _ => none

def parseStore (s : String) : Option Store := (splitComma s).mapM parseEntry

def parseRawKey (s : String) : Option RawKey :=
  match s.splitOn "#" with
  | [sk, ft] =>
    match sk.splitOn "|", ft.splitOn ":" with
    | [m, tg], [f, ty] =>
      match parseTags tg, parseFType ty with
      | some tags, some ty => some ((m, tags, f), ty)
      | _, _ => none
    | _, _ => none
  | _ => none

def parseRes : List String → Option WriteRes
  | ["ok"] => some .ok
  | ["partial", n, k] =>
    match parseNatCanon n, parseReason k with
    | some n, some r => some (.partialWrite n r)
    | some n, none => some (.partialWrite n .conflict)   -- unknown reason text: the count is what C40 states
    | _, _ => none
  | [e] => if e.startsWith "err:" || e == "timeout" || e == "skipped" || e == "crash" || e.startsWith "panic"
           then some (.hardError ((e.replace "err:" "").replace " " "_")) else none
  | _ => none

/-! ## the driver -/

def parseOp : List String → Option Op40
  | "w" :: toks => if toks.isEmpty then none else (toks.mapM parsePoint).map .write
  | ["r"] => some .read
  | ["f"] => some .schema
  | ["k"] => some .keys
  | ["snap"] => some .snap
  | ["reopen"] => some .reopen
  | _ => none

def step (st : State) (toks : List String) : State × String :=
  match parseOp toks with
  | none => (st, "bad-op")
  | some op =>
    let r := step40 st op
    let ans := match op, r.2 with
      | _, .write _ res after => resStr res ++ " " ++ storeStr after
      | _, .read d => storeStr d
      | _, .keys ks => rawKeysStr ks
      | .schema, _ => schemaStr st.sch
      | _, _ => "ok"
    (r.1, ans)

/-- op tokens + the implementation's answer → the observation the statement is about -/
def observe (toks : List String) (ans : String) : Option (Option WStep) :=
  match parseOp toks with
  | none => if ans == "bad-op" then some none else none
  | some (.write b) =>
    let ws := tokens ans
    match ws.reverse with
    | ents :: rres =>
      match parseRes rres.reverse, parseStore ents with
      | some res, some d => some (some (.write b res d))
      | some (.hardError e), none => some (some (.write b (.hardError e) []))
      | _, _ => if rres.isEmpty then (parseRes [ents]).map fun r => some (.write b r []) else none
    | [] => none
  | some .read => (parseStore ans).map fun d => some (.read d)
  | some .keys => ((splitComma ans).mapM parseRawKey).map fun ks => some (.keys ks)
  | some _ => some (some .other)

def writeTags (B : Store) : WStep → List String
  | .write batch res A =>
    if !Spec.C40.distinctBatch batch then ["nondistinct"] else
    let cls := batch.map (Spec.C40.classify B A)
    let nA := cls.countP (· == .acc)
    let nR := cls.countP (· == .rej)
    let shape := if nA > 0 && nR > 0 then "mixed" else if nR > 0 then "all-rejected" else "all-stored"
    let kind := match res with
      | .ok => "res:ok"
      | .partialWrite _ r => "res:" ++ reasonStr r
      | .hardError _ => "res:error"
    [shape, kind]
  | _ => []

def oracle (obs : List (List String × String)) : Verdict :=
  let parsed := obs.map fun (toks, ans) => observe toks ans
  if parsed.any Option.isNone then Verdict.fail "bad-line:" else
  let steps := parsed.filterMap fun o => o.join
  -- tags (evidence only): walk the writes with the observed store before each
  let tg := (steps.foldl (fun (acc : Store × List String) s =>
      let t := writeTags acc.1 s
      let B' := match s with | .write _ _ A => A | _ => acc.1
      (B', acc.2 ++ t.filter (fun x => !acc.2.contains x))) ([], [])).2
  match Spec.C40.firstFailure [] steps with
  | none => { ok := Spec.C40.holdsOn steps, nontrivial := tg.contains "mixed", tags := tg }
  | some r => { ok := false, nontrivial := true, tags := tg, reason := r.replace " " "_" }

def driver : Driver State := { init := {}, step := step, oracle := oracle }

end Influx.Drv.C40

def main (args : List String) : IO UInt32 := Influx.Drv.C40.driver.main args
