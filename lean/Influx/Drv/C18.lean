import Influx.Proto
import Influx.Model.MetaProto
import Influx.Spec.C18

open Influx Influx.Proto Influx.Meta

namespace Influx.Drv.C18

def step (s : State) (toks : List String) : State × String :=
  match parseOp toks with
  | some op => let r := Meta.step s op; (r.1, render r.2)
  | none => (s, "bad-op")

def opTag : Op × Obs → Option String
  | (.ms _ _ _ _, .mapping _) => some "ms"
  | (.csg .., .group (some _)) => some "csg"
  | (.dump .., .groups _) => some "dump"
  | (.restart, _) => some "restart"
  | (.find .., .group _) => some "find"
  | (.range .., .ids _) => some "range"
  | _ => none

/-- failure signature: the first pair on which the statement fails -/
def firstFail : List Spec.C18.Accepted → List (Op × Obs) → Option String
  | _, [] => none
  | acc, p :: rest =>
    if !Spec.C18.holdsOp acc p then
      let sig := match p with
        | (.ms .., _) | (.csg .., _) => "routed-outside-group"
        | (.dump .., _) | (.dc .., _) => "live-groups-overlap"
        | (.restart, .restarted b a) =>
          if !(Spec.C18.fullDisjoint b && Spec.C18.fullDisjoint a) then "live-groups-overlap" else "bounds-changed-on-reload"
        | (.find .., _) | (.range .., _) => "accepted-point-not-found"
        | _ => "?"
      some (sig ++ ":" ++ (render p.2).replace " " "_")
    else firstFail (if Spec.C18.removes p.1 then [] else acc ++ Spec.C18.newlyAccepted p) rest

def oracle (obs : List (List String × String)) : Verdict :=
  let parsed := obs.map fun (toks, ans) =>
    match parseOp toks with
    | some op => (some op, parseObs op ans, toks, ans)
    | none => (none, none, toks, ans)
  match parsed.find? (fun (op, o, _, ans) => (op.isNone && ans != "bad-op") || (op.isSome && o.isNone)) with
  | some (_, _, toks, ans) => Verdict.fail ("bad-line:" ++ "_".intercalate toks ++ "=>" ++ ans.replace " " "_")
  | none =>
    let tr : List (Op × Obs) := parsed.filterMap fun (op, o, _, _) =>
      match op, o with
      | some op, some o => some (op, o)
      | _, _ => none
    let inDom := tr.all fun p => Spec.C18.opInDomain p.1
    let tags := ((tr.filterMap opTag).eraseDups) ++ (if inDom then [] else ["out-of-domain"])
    if Spec.C18.holdsOn tr then
      { ok := true, nontrivial := inDom && !(tr.filterMap opTag).isEmpty, tags := tags }
    else
      match firstFail [] tr with
      | some r => { ok := false, nontrivial := true, tags := tags, reason := r }
      | none => Verdict.fail "holdsOn-false"

def driver : Driver State := { init := State.init, step := step, oracle := oracle }

end Influx.Drv.C18

def main (args : List String) : IO UInt32 := Influx.Drv.C18.driver.main args
