import Influx.Proto
import Influx.Model.CompactCase
import Influx.Spec.C04

open Influx Influx.Proto Influx.Model.Compact

namespace Influx.Drv.C04

/-- `t,v,t,v,…` -/
def parsePts (s : String) : Option (Pts Int) := do
  let xs ← parseInts s
  let rec go : List Int → Option (Pts Int)
    | [] => some []
    | [_] => none
    | t :: v :: rest => (go rest).map ((t, v) :: ·)
  go xs

def showPts (p : Pts Int) : String := showInts (p.flatMap fun (t, v) => [t, v])

def parseKey (s : String) : Option Key := if s = "-" then none else hexDecode s

def parseOp : List String → Option Op
  | ["blk", f, k, pts] => do
    some (Op.blk (← f.toNat?) (← parseKey k) (← parsePts pts))
  | ["del", f, ks, lo, hi] => do
    let keys ← (splitComma ks).mapM parseKey
    some (Op.del (← f.toNat?) keys (← lo.toInt?) (← hi.toInt?))
  | ["cw", k, pts] => do
    some (Op.cw (← parseKey k) (← parsePts pts))
  | ["compact", mode, size, reopen] => do
    let fast ← (if mode = "fast" then some true else if mode = "full" then some false else none)
    some (Op.compact fast (← size.toNat?) (← parseBool reopen))
  | ["snap", size] => do some (Op.snap (← size.toNat?))
  | _ => none

def showBlock (kb : Key × OBlk Int) : String :=
  hexEncode kb.1 ++ ":" ++ toString kb.2.minTime ++ ":" ++ toString kb.2.maxTime ++ ":" ++ showPts kb.2.pts

def showFiles (fs : List OutFile) : String :=
  if fs.isEmpty then "-" else ";".intercalate (fs.map fun f =>
    if f.isEmpty then "~" else "/".intercalate (f.map showBlock))

def render : Obs → String
  | Obs.ok => "ok"
  | Obs.badOp => "bad-op"
  | Obs.err e => "err:" ++ e
  | Obs.out fs => "out " ++ showFiles fs

def parseBlock (s : String) : Option (Key × OBlk Int) :=
  match s.splitOn ":" with
  | [k, lo, hi, pts] => do
    some (← parseKey k, ⟨← lo.toInt?, ← hi.toInt?, ← parsePts pts⟩)
  | _ => none

def parseFiles (s : String) : Option (List OutFile) :=
  if s = "-" then some [] else
  (s.splitOn ";").mapM fun f => if f = "~" then some [] else (f.splitOn "/").mapM parseBlock

def parseObs (s : String) : Option Obs :=
  if s = "ok" then some Obs.ok
  else if s = "bad-op" then some Obs.badOp
  else if s.startsWith "err:" then some (Obs.err (s.drop 4).toString)
  else if s.startsWith "panic:" then some (Obs.err s)
  else if s = "timeout" ∨ s = "crash" ∨ s = "skipped" then some (Obs.err s)
  else if s.startsWith "out " then (parseFiles (s.drop 4).toString).map Obs.out
  else none

def stepS (s : State) (toks : List String) : State × String :=
  match parseOp toks with
  | some op => let (s', o) := step s op; (s', render o)
  | none => (s, "bad-op")

/-- evidence tags of a case -/
def tagsOf (tr : List (Op × Obs)) : List String :=
  let ops := tr.map (·.1)
  let acc := Spec.C04.accepted tr
  let nfiles := (fileIds acc).length
  let has (p : Op → Bool) := ops.any p
  let maxBlocksPerKey := ((acc.filterMap fun op => match op with | Op.blk _ k _ => some k | _ => none).foldl
      (fun (m : List (Key × Nat)) k => match m.find? (·.1 == k) with
        | some _ => m.map (fun e => if e.1 == k then (e.1, e.2 + 1) else e)
        | none => (k, 1) :: m) []).foldl (fun a e => max a e.2) 0
  (if has (fun o => match o with | Op.compact false _ _ => true | _ => false) then ["full"] else []) ++
  (if has (fun o => match o with | Op.compact true _ _ => true | _ => false) then ["fast"] else []) ++
  (if has (fun o => match o with | Op.snap _ => true | _ => false) then ["snap"] else []) ++
  (if has (fun o => match o with | Op.del _ _ _ _ => true | _ => false) then ["del"] else []) ++
  (if nfiles ≥ 2 then ["files>=2"] else if nfiles = 1 then ["files=1"] else []) ++
  (if maxBlocksPerKey > 20 then ["key>20blocks"] else []) ++
  (if tr.any (fun (_, o) => match o with | Obs.out fs => fs.length > 1 | _ => false) then ["rolled"] else []) ++
  (if tr.any (fun (_, o) => match o with | Obs.out fs => fs.isEmpty | _ => false) then ["empty-out"] else [])

def oracle (obs : List (List String × String)) : Verdict :=
  let parsed := obs.mapM fun (toks, ans) =>
    match parseOp toks, parseObs ans with
    | some op, some o => some (op, o)
    | none, _ => if ans = "bad-op" then some (Op.snap 100001, Obs.badOp) else none
    | _, none => none
  match parsed with
  | none => Verdict.fail "bad-line:"
  | some tr =>
    let tags := tagsOf tr
    let nt := tr.any fun (op, o) => match op, o with
      | Op.compact _ _ _, Obs.out _ => (Spec.C04.accepted tr).length ≥ 2
      | Op.snap _, Obs.out _ => (Spec.C04.accepted tr).length ≥ 1
      | _, _ => false
    match Spec.C04.judgeAll [] tr with
    | none => { ok := true, nontrivial := nt, tags := tags }
    | some r => { ok := false, nontrivial := true, tags := tags,
                  reason := (if tags.contains "key>20blocks" ∧ r.startsWith "content:" then "content-gt20:" ++ (r.drop 8).toString else r) }

def driver : Driver State := { init := init, step := stepS, oracle := oracle }

end Influx.Drv.C04

def main (args : List String) : IO UInt32 := Influx.Drv.C04.driver.main args
