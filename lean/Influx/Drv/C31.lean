import Influx.Proto
import Influx.Model.ID
import Influx.Model.Snowflake
import Influx.Spec.C31

open Influx Influx.Proto

namespace Influx.Drv.C31
open Influx.Model Influx.Generated.IDGen

def bytesOfHex (s : String) : Option (List UInt8) :=
  (hexDecode s).map fun bs => bs.map UInt8.ofNat

def hexOfBytes (bs : List UInt8) : String := hexEncode (bs.map UInt8.toNat)

def parseU64 (s : String) : Option Nat :=
  match s.toNat? with
  | some n => if n < 2 ^ 64 then some n else none
  | none => none

/-! answers -/

def renderDecRes : Except ID.Err Nat → String
  | .ok i => toString i
  | .error .length => "len"
  | .error .invalid => "inv"

def renderEnc : Except ID.Err (List UInt8) → String
  | .ok s => hexOfBytes s
  | .error _ => "err"

def parseDecRes (s : String) : Option (Option Nat) :=
  if s = "len" ∨ s = "inv" then some none else (parseU64 s).map some

def parseEnc (s : String) : Option (Option (List UInt8)) :=
  if s = "err" then some none else (bytesOfHex s).map some

/-! model state for the generator ops -/

structure St where
  machine : Option Nat := none     -- `g.machine` once a generator exists
  g : Option Nat := none           -- `g.state` when the model knows it
deriving Inhabited

/-- time field far enough ahead of any real clock (until 2086): every real `t` is ≤ it -/
def future (g : Nat) : Bool := g >>> timeShift ≥ 2 ^ 41
/-- time field before 2025-12: every real `t` is greater -/
def past (g : Nat) : Bool := g >>> timeShift < 2 ^ 38

/-- `k` sequential `Next` calls with every clock reading at or before the state's time field -/
def seqNext (machine : Nat) : Nat → Nat → List Nat → Option (Nat × List Nat)
  | 0, g, acc => some (g, acc.reverse)
  | k + 1, g, acc =>
    if future g then
      let s := Snowflake.nextSeq (Snowflake.Sys.init g machine) epoch
      seqNext machine k s.g (s.out.reverse ++ acc)
    else none   -- the state fell behind the real clock (time-field wrap): not predicted

def isDecOp (o : String) : Bool := o = "dec" ∨ o = "decs" ∨ o = "idfs" ∨ o = "utxt"

def step (st : St) (toks : List String) : St × String :=
  match toks with
  | ["rt", i] =>
    match parseU64 i with
    | none => (st, "bad-op")
    | some i =>
      let e := ID.encode i
      let d := match e with
        | .ok s => renderDecRes (ID.decode s)
        | .error _ => "-"
      (st, renderEnc e ++ " " ++ d)
  | ["str", i] =>
    match parseU64 i with
    | none => (st, "bad-op")
    | some i => (st, hexOfBytes (ID.toStr i))
  | [o, s] =>
    if isDecOp o then
      match bytesOfHex s with
      | none => (st, "bad-op")
      | some b =>
        let d := ID.decode b
        let r := match d with
          | .ok i => renderEnc (ID.encode i)
          | .error _ => "-"
        (st, renderDecRes d ++ " " ++ r)
    else if o = "new" then
      match s.toInt? with
      | none => (st, "bad-op")
      | some m =>
        match Snowflake.newMachine m with
        | none => ({ machine := none, g := none }, "panic")
        | some mc => ({ machine := some mc, g := some 0 }, s!"ok {mc >>> serverShift}")
    else if o = "newgen" then
      match s.toInt? with
      | none => (st, "bad-op")
      | some m =>
        -- snowflake/id.go WithMachineID: `snowflake.New(machineID & 1023)`
        let mid := (m % 1024).toNat
        match Snowflake.newMachine mid with
        | none => ({ machine := none, g := none }, "panic")
        | some mc => ({ machine := some mc, g := some 0 }, s!"ok {mc >>> serverShift}")
    else if o = "set" then
      match parseU64 s, st.machine with
      | some g, some _ => ({ st with g := some g }, "ok")
      | _, _ => (st, "bad-op")
    else if o = "next" ∨ o = "gid" then
      match s.toNat?, st.machine with
      | some k, some mc =>
        match st.g with
        | some g =>
          match seqNext mc k g [] with
          | some (g', ids) => ({ st with g := some g' }, showNats ids)
          | none => ({ st with g := none }, "*")
        | none => (st, "*")
      | _, _ => (st, "bad-op")
    else (st, "bad-op")
  | ["state"] =>
    match st.machine, st.g with
    | some _, some g => (st, toString g)
    | some _, none => (st, "*")
    | none, _ => (st, "bad-op")
  | ["fresh"] =>
    match st.machine with
    | none => (st, "bad-op")
    | some mc =>
      match st.g with
      | some g =>
        if past g then ({ st with g := none }, s!"f.0.{mc >>> serverShift}")
        else match seqNext mc 1 g [] with
          | some (g', ids) => ({ st with g := some g' }, "raw." ++ showNats ids)
          | none => ({ st with g := none }, "*")
      | none => (st, "*")
  | ["conc", n, k] =>
    match n.toNat?, k.toNat?, st.machine with
    | some n, some k, some mc =>
      match st.g with
      | some g =>
        -- with every clock reading behind the state, each successful update applies the same
        -- function to the shared word, whatever the interleaving: the *set* of returned values
        -- is that of `n*k` sequential calls
        match seqNext mc (n * k) g [] with
        | some (g', ids) => ({ st with g := some g' }, showNats ids)
        | none => ({ st with g := none }, "*")
      | none => (st, "*")
    | _, _, _ => (st, "bad-op")
  | _ => (st, "bad-op")

/-! oracle -/

open Influx.Spec.C31 in
def failV (f : Fail) (toks : List String) : Verdict :=
  Verdict.fail (f.signature ++ ":" ++ "_".intercalate toks)

open Influx.Spec.C31 in
def judge (o : Obs) (toks : List String) (tags : List String) : Verdict :=
  match check o with
  | none => { ok := holdsOn o, nontrivial := true, tags := tags }
  | some f => { (failV f toks) with tags := tags }

structure OSt where
  v : Verdict := Verdict.pass false
  hist : List Nat := []
  lastGenOp : List String := []

open Influx.Spec.C31 in
def flushHist (o : OSt) : OSt :=
  if o.hist.isEmpty then o
  else { o with v := o.v.and (judge (.ids o.hist) o.lastGenOp ["gen-ids"]), hist := [] }

open Influx.Spec.C31 in
def oracleStep (o : OSt) (toks : List String) (ans : String) : OSt :=
  let bad := { o with v := o.v.and (Verdict.fail ("unparsable-answer:" ++ "_".intercalate toks ++ "=" ++ (ans.replace " " "_"))) }
  match toks with
  | ["rt", i] =>
    match parseU64 i, tokens ans with
    | some i, [e, d] =>
      match parseEnc e, (if d = "-" then some none else parseDecRes d) with
      | some e, some d =>
        { o with v := o.v.and (judge (.rt i e d) toks [if i = 0 then "rt-zero" else "rt"]) }
      | _, _ => bad
    | _, _ => bad
  | ["str", _] => o
  | ["state"] => o
  | ["fresh"] => o
  | [op, s] =>
    if isDecOp op then
      match bytesOfHex s, tokens ans with
      | some b, [r, e] =>
        match parseDecRes r, (if e = "-" then some none else parseEnc e) with
        | some r, some e =>
          let tag := match r with
            | some _ => if b.map lowerChar != b then "dec-accept-upper" else "dec-accept"
            | none => if ans.startsWith "len" then "dec-reject-len" else "dec-reject-inv"
          { o with v := o.v.and (judge (.dec b r e) toks [tag]) }
        | _, _ => bad
      | _, _ => bad
    else if op = "new" ∨ op = "newgen" ∨ op = "set" then
      let o := flushHist o
      if ans = "ok" ∨ ans = "panic" ∨ ans.startsWith "ok " then o else bad
    else if op = "next" ∨ op = "gid" then
      match parseNats ans with
      | some ids => { o with hist := o.hist ++ ids, lastGenOp := toks,
                             v := o.v.and (Verdict.pass false ["gen-seq"]) }
      | none => bad
    else bad
  | ["conc", _, _] =>
    match parseNats ans with
    | some ids => { o with hist := o.hist ++ ids, lastGenOp := toks,
                           v := o.v.and (Verdict.pass false ["gen-conc"]) }
    | none => bad
  | _ => { o with v := o.v.and (Verdict.fail "bad-line") }

/-- One case is a batch of independent ops and `Verdict.and` keeps the *first* failure's reason.
    So that an op failing with the known upper-case signature does not hide a different failure
    later in the same batch, the ops are judged in two passes: first every op that is not an
    upper-case spelling accepted by `Decode`, then those. -/
def isUpperAccepted (toks : List String) (ans : String) : Bool :=
  match toks with
  | [op, s] =>
    isDecOp op && (match bytesOfHex s with
      | some b => b.map Spec.C31.lowerChar != b && !(ans.startsWith "len" || ans.startsWith "inv")
      | none => false)
  | _ => false

def oracle (obs : List (List String × String)) : Verdict :=
  let first := obs.filter fun (t, a) => !isUpperAccepted t a
  let second := obs.filter fun (t, a) => isUpperAccepted t a
  let o := flushHist (first.foldl (fun o (toks, ans) => oracleStep o toks ans) {})
  (second.foldl (fun o (toks, ans) => oracleStep o toks ans) o).v

def driver : Driver St := { init := {}, step := step, oracle := oracle }

end Influx.Drv.C31

def main (args : List String) : IO UInt32 := Influx.Drv.C31.driver.main args
