import Influx.Proto
import Influx.Model.StoreDelProto
import Influx.Spec.C17

open Influx Influx.Proto
open Influx.Model.DelPred (Bytes)
open Influx.Model.StoreDel
open Influx.Spec.C17 (Ans Verd Abs)

namespace Influx.Drv.C17

def parsePoints (s : String) : Option (List (Bytes × List (Int × Int))) :=
  if s = "-" then some [] else
  (s.splitOn ";").mapM fun g =>
    match g.splitOn "=" with
    | [k, ps] => match hexDecode k, parsePts ps with
      | some kb, some l => some (kb, l)
      | _, _ => none
    | _ => none

def parseAns (op : Op) (s : String) : Ans :=
  if s = "ok" then .ok
  else if s.startsWith "err" ∨ s.startsWith "panic" ∨ s = "timeout" ∨ s = "skipped" ∨ s = "bad-op" then .other s else
  match op with
  | .read _ => (parsePoints s).elim (.other s) .points
  | .ls _ | .mn .. => ((splitComma s).mapM hexDecode).elim (.other s) .keys
  | _ => .other s

def oracle (obs : List (List String × String)) : Verdict :=
  let parsed := obs.map fun (toks, ans) => (toks, parseOp toks, ans)
  let badLines := parsed.filter fun (_, op, ans) => op.isNone && ans ≠ "bad-op"
  let goodT : List (List String × Op × Ans) := parsed.filterMap fun (toks, op, ans) => op.map fun o => (toks, o, parseAns o ans)
  let good : List (Op × Ans) := goodT.map (·.2)
  let vs := Spec.C17.judgeCase [] good
  let ok := Spec.C17.holdsOn good && badLines.isEmpty
  -- the verdict list skips acknowledged history ops: pair it back with the judged observations
  let judged := goodT.filter fun (_, op, ans) => match op, ans with
    | .write .., .ok => false
    | .del .., .ok => false
    | _, _ => true
  let fails := (judged.zip vs).filterMap fun ((toks, _, _), v) =>
    match v with
    | .ok => none
    | .pointsWrong => some ("points-mismatch", toks)
    | .listingWrong => some ("listing-mismatch", toks)
    | .noAnswer => some ("no-answer", toks)
  let chosen : String × List String :=
    if !badLines.isEmpty then ("bad-line", (badLines.head?.map (·.1)).getD []) else fails.headD ("unknown", [])
  -- the history up to the first failing observation makes the reason self-contained
  let has (p : Op → Bool) := good.any fun (op, _) => p op
  let tags :=
    (if has (fun o => match o with | .del _ _ (some _) _ => true | _ => false) then ["pred-delete"] else []) ++
    (if has (fun o => match o with | .del _ _ none _ => true | _ => false) then ["nil-pred-delete"] else []) ++
    (if has (fun o => match o with | .del _ _ _ true => true | _ => false) then ["handler-mode"] else []) ++
    (if has (fun o => match o with | .snap _ => true | _ => false) then ["tsm+cache"] else []) ++
    (if good.any (fun (op, a) => match op, a with | .read _, .points (_ :: _) => true | _, _ => false) then ["data-left"] else [])
  let nobs := good.filter fun (op, _) => match op with | .read _ | .ls _ => true | _ => false
  { ok := ok, nontrivial := has (fun o => match o with | .del .. => true | _ => false) && !nobs.isEmpty,
    tags := tags, reason := if ok then "" else chosen.1 ++ ":" ++ "_".intercalate chosen.2 }

def driver : Driver (Option State) := { init := none, step := step, oracle := oracle }

end Influx.Drv.C17

def main (args : List String) : IO UInt32 := Influx.Drv.C17.driver.main args
