import Influx.Proto
import Influx.Model.StoreDelProto
import Influx.Spec.C17

open Influx Influx.Proto
open Influx.Model.DelPred (Bytes)
open Influx.Model.StoreDel
open Influx.Spec.C17 (Ans Verd Abs)

namespace Influx.Drv.C17

def parsePoints (s : String) : Option (List ((Bytes × Tags) × List (Int × Int))) :=
  if s = "-" then some [] else
  (s.splitOn ";").mapM fun g =>
    match g.splitOn "=" with
    | [k, ps] => match parseSeriesId k, parsePts ps with
      | some kb, some l => some (kb, l)
      | _, _ => none
    | _ => none

def parseAns (op : Op) (s : String) : Ans :=
  if s = "ok" then .ok
  else if s.startsWith "err" ∨ s.startsWith "panic" ∨ s = "timeout" ∨ s = "skipped" ∨ s = "bad-op" then .other s else
  match op with
  | .read _ => (parsePoints s).elim (.other s) .points
  | .ls _ => ((splitComma s).mapM parseSeriesId).elim (.other s) .ids
  | .mn .. => ((splitComma s).mapM hexDecode).elim (.other s) .keys
  | _ => .other s

/-! ### epoch ops -/

open Influx.Model.Epoch (EOp EAns Tracker)

def parseEOp : List String → Option EOp
  | ["epw", id, ts] => match id.toInt?, parseInts ts with
    | some i, some l => some (.startWrite i l)
    | _, _ => none
  | ["epe", id] => id.toInt?.map .endWrite
  | ["epd", id, lo, hi] => match id.toInt?, lo.toInt?, hi.toInt? with
    | some i, some a, some b => some (.waitDelete i a b)
    | _, _, _ => none
  | ["epp", id] => id.toInt?.map .pending
  | ["epx", id] => id.toInt?.map .done
  | _ => none

def renderE : EAns → String
  | .ok => "ok"
  | .badOp => "bad-op"
  | .started g w => s!"gen={g} wait={showInts w}"
  | .installed g p => s!"gen={g} pending={p}"
  | .pending p => s!"pending={p}"

def kv (s key : String) : Option String :=
  if s.startsWith (key ++ "=") then some ((s.drop (key.length + 1)).toString) else none

def parseEAns (s : String) : Option EAns :=
  if s = "ok" then some .ok else if s = "bad-op" then some .badOp else
  match s.splitOn " " with
  | [a, b] =>
    match kv a "gen", kv b "wait", kv b "pending" with
    | some g, some w, _ => match g.toNat?, parseInts w with
      | some gn, some wl => some (.started gn wl)
      | _, _ => none
    | some g, none, some p => match g.toNat?, p.toInt? with
      | some gn, some pi => some (.installed gn pi)
      | _, _ => none
    | _, _, _ => none
  | [a] => (kv a "pending").bind fun p => p.toInt?.map .pending
  | _ => none

def isEpoch (toks : List String) : Bool := (toks.head?.map (·.startsWith "ep")).getD false

def oracle (obs : List (List String × String)) : Verdict :=
  let eobs := obs.filter fun (toks, _) => isEpoch toks
  let obs := obs.filter fun (toks, _) => !isEpoch toks
  let eparsed := eobs.map fun (toks, ans) => (toks, parseEOp toks, parseEAns ans, ans)
  let ebad := eparsed.filter fun (_, op, a, raw) => (op.isNone && raw ≠ "bad-op") || (op.isSome && a.isNone)
  let egood : List (EOp × EAns) := eparsed.filterMap fun (_, op, a, _) => match op, a with
    | some o, some x => some (o, x)
    | _, _ => none
  let eok := Spec.C17.EpochOK egood && ebad.isEmpty
  let parsed := obs.map fun (toks, ans) => (toks, parseOp toks, ans)
  let badLines := parsed.filter fun (_, op, ans) => op.isNone && ans ≠ "bad-op"
  let goodT : List (List String × Op × Ans) := parsed.filterMap fun (toks, op, ans) => op.map fun o => (toks, o, parseAns o ans)
  let good : List (Op × Ans) := goodT.map (·.2)
  let (nsh, body) := match good with
    | (.open_ n, .ok) :: rest => (n, rest)
    | _ => (0, good)
  let goodT := match good with
    | (.open_ _, .ok) :: _ => goodT.drop 1
    | _ => goodT
  let ok := Spec.C17.holdsOn good && badLines.isEmpty && eok
  -- the verdict list skips acknowledged history ops: pair it back with the judged observations
  -- replay the history to classify each failing observation
  let rec walk (a : Abs) (snapped : List (Nat × Bytes × Tags)) (ndel : Nat) :
      List (List String × Op × Ans) → List (String × List String)
    | [] => []
    | (toks, op, ans) :: rest =>
      match op, ans with
      | .write sh name tags pts, .ok => walk (a.write sh name tags pts) snapped ndel rest
      | .del lo hi pred _, .ok => walk (a.delete lo hi pred) snapped (ndel + 1) rest
      | .snap sh, .ok =>
        walk a (snapped ++ (a.filter fun e => e.shard = sh ∧ !e.pts.isEmpty).map fun e => (sh, e.name, e.tags)) ndel rest
      | _, _ =>
        let v := match op, ans with
          | .del .., _ => Verd.noAnswer
          | .read sh, .other s => if (sh < 1 ∨ nsh < sh) ∧ s = "bad-op" then .ok else .noAnswer
          | .ls sh, .other s => if (sh < 1 ∨ nsh < sh) ∧ s = "bad-op" then .ok else .noAnswer
          | _, _ => Spec.C17.judgeObs a op ans
        let here := match v with
          | .ok => []
          | .pointsWrong => [("points-mismatch", toks)]
          | .noAnswer => [("no-answer", toks)]
          | .listingWrong =>
            -- a series (measurement) without data that is still listed, after its values went to a
            -- TSM file and were removed by several separate range deletes: the file keeps the key
            let zombie : Bool := ndel ≥ 2 && (match op, ans with
              | .ls sh, .ids l =>
                let live := (a.filter fun e => e.shard = sh ∧ !e.pts.isEmpty).map Spec.C17.keyOf
                live.all l.contains && l.all fun x => live.contains x || snapped.contains (sh, x.1, x.2)
              | .mn .., .keys l =>
                let live := (a.filter fun e => !e.pts.isEmpty).map (·.name)
                live.all l.contains && l.all fun m => live.contains m || snapped.any fun x => x.2.1 = m
              | _, _ => false)
            [(if zombie then "series-listed-without-data-after-separate-tsm-deletes" else "listing-mismatch", toks)]
        here ++ walk a snapped ndel rest
  let fails := walk [] [] 0 goodT
  let pick (s : String) := fails.find? (·.1 = s)
  let chosen : String × List String :=
    if !badLines.isEmpty then ("bad-line", (badLines.head?.map (·.1)).getD [])
    else if !eok then ("epoch-blocking", (eobs.head?.map (·.1)).getD [])
    else match pick "points-mismatch" with
      | some x => x
      | none => match pick "listing-mismatch" with
        | some x => x
        | none => match pick "no-answer" with
          | some x => x
          | none => fails.headD ("unknown", [])
  -- the history up to the first failing observation makes the reason self-contained
  let has (p : Op → Bool) := good.any fun (op, _) => p op
  let tags :=
    (if has (fun o => match o with | .del _ _ (some _) _ => true | _ => false) then ["pred-delete"] else []) ++
    (if has (fun o => match o with | .del _ _ none _ => true | _ => false) then ["nil-pred-delete"] else []) ++
    (if has (fun o => match o with | .del _ _ _ true => true | _ => false) then ["handler-mode"] else []) ++
    (if has (fun o => match o with | .snap _ => true | _ => false) then ["tsm+cache"] else []) ++
    (if !egood.isEmpty then ["epoch"] else []) ++
    (if egood.any (fun (_, a) => match a with | .started _ (_ :: _) => true | _ => false) then ["write-would-block"] else []) ++
    (if egood.any (fun (_, a) => match a with | .installed _ p => p > 0 | _ => false) then ["delete-waits"] else []) ++
    (if good.any (fun (op, a) => match op, a with | .read _, .points (_ :: _) => true | _, _ => false) then ["data-left"] else [])
  let nobs := good.filter fun (op, _) => match op with | .read _ | .ls _ => true | _ => false
  { ok := ok, nontrivial := (has (fun o => match o with | .del .. => true | _ => false) && !nobs.isEmpty) || egood.length > 2,
    tags := tags, reason := if ok then "" else chosen.1 ++ ":" ++ "_".intercalate chosen.2 }

def stepAll (st : Option State × Tracker) (toks : List String) : (Option State × Tracker) × String :=
  if isEpoch toks then
    match parseEOp toks with
    | some op => let r := Influx.Model.Epoch.step st.2 op; ((st.1, r.1), renderE r.2)
    | none => (st, "bad-op")
  else
    let r := step st.1 toks
    ((r.1, st.2), r.2)

def driver : Driver (Option State × Tracker) := { init := (none, {}), step := stepAll, oracle := oracle }

end Influx.Drv.C17

def main (args : List String) : IO UInt32 := Influx.Drv.C17.driver.main args
