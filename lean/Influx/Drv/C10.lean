import Influx.Proto
import Influx.Model.FieldProto
import Influx.Model.FieldLog
import Influx.Spec.C10

open Influx Influx.Proto Influx.Fields Influx.Fields.Tok

namespace Influx.Drv.C10

def parsePointName : String → Option CrashPoint
  | "fields.tmpWritten" => some .tmpWritten
  | "fields.renamed" => some .renamed
  | "fields.idxRemoved" => some .idxRemoved
  | _ => none

inductive Cmd
  | op (o : Op10)
  | logsize

def parseCmd : List String → Option Cmd
  | "w" :: toks => if toks.isEmpty then none else (toks.mapM parsePoint).map fun b => .op (.write b)
  | ["drop", m] => if validName m then some (.op (.drop m)) else none
  | ["race", pa, pb] =>
    match parsePoint pa, parsePoint pb with
    | some a, some b => some (.op (.race [a] [b]))
    | _, _ => none
  | ["reopen"] => some (.op .reopen)
  | ["crash"] => some (.op .crash)
  | "wtorn" :: j :: toks =>
    if toks.isEmpty then none else
    match parseIntCanon j, toks.mapM parsePoint with
    | some j, some b => some (.op (.writeTorn j b))
    | _, _ => none
  | ["droptorn", j, m] =>
    match parseIntCanon j with
    | some j => if validName m then some (.op (.dropTorn j m)) else none
    | none => none
  | ["crashclose", p] => (parsePointName p).map fun p => .op (.crashInClose p)
  | ["crashopen", p] => (parsePointName p).map fun p => .op (.crashInOpen p)
  | ["f"] => some (.op .look)
  | ["r"] => some (.op .look)
  | ["snap"] => some (.op .snap)
  | ["logsize"] => some .logsize
  | _ => none

def seenStr (a : Seen) : String :=
  schemaStr a.sch ++ " " ++ (match a.store with | some d => storeStr d | none => "err:panic")

def stepStr : Step10 → String
  | .write _ res after => resStr res ++ " " ++ seenStr after
  | .drop _ ok after => (if ok then "ok " else "err:other ") ++ seenStr after
  | .restart kind opened after =>
    if opened then "ok " ++ Spec.C10.restartName kind ++ " " ++ seenStr after else "err:open " ++ Spec.C10.restartName kind ++ " - -"
  | .tornWrite _ opened after => if opened then "ok torn " ++ seenStr after else "err:open torn - -"
  | .tornDrop _ opened after => if opened then "ok torn " ++ seenStr after else "err:open torn - -"
  | .race _ _ _ _ _ => "*"     -- which writer wins is the scheduler's choice
  | .look after => seenStr after

def step (st : PState) (toks : List String) : PState × String :=
  match parseCmd toks with
  | none => (st, "bad-op")
  | some .logsize =>
    (st, match st.log with
         | none => "-"
         | some recs => toString (logLen recs))
  | some (.op o) =>
    let r := step10 st o
    -- a torn operation that appends nothing runs to completion: marked `nocrash`
    let pre := match o, r.2 with
      | .writeTorn _ _, .write _ _ _ => "nocrash "
      | .dropTorn _ _, .drop _ _ _ => "nocrash "
      | _, _ => ""
    (r.1, pre ++ stepStr r.2)

def parseSeen (sch ents : String) : Option Seen :=
  match parseSchema sch with
  | none => none
  | some s =>
    if ents.startsWith "err:" || ents.startsWith "panic" then some { sch := s, store := none }
    else (parseStore ents).map fun d => { sch := s, store := some d }

def parseKind : String → Restart
  | "clean" => .clean | "kill" => .kill | p => .inSnapshot p

def observeWrite (b : List Point) (ws : List String) : Option (Option Step10) :=
  match ws.reverse with
  | ents :: sch :: rres =>
    match parseRes rres.reverse, parseSeen sch ents with
    | some res, some a => some (some (.write b res a))
    | _, _ => none
  | [e] => (parseRes [e]).map fun r => some (.write b r { sch := [], store := none })
  | _ => none

def observeDrop (m : String) (ws : List String) : Option (Option Step10) :=
  match ws with
  | [r, sch, ents] => (parseSeen sch ents).map fun a => some (.drop m (r == "ok") a)
  | [_] => some (some (.drop m false { sch := [], store := none }))
  | _ => none

/-- op tokens + the implementation's answer → the observation the statement is about;
    `none` = unreadable, `some none` = nothing to judge -/
def observe (toks : List String) (ans : String) : Option (Option Step10) :=
  let ws := tokens ans
  match parseCmd toks with
  | none => if ans == "bad-op" then some none else none
  | some .logsize => some none
  | some (.op (.write b)) => observeWrite b ws
  | some (.op (.drop m)) => observeDrop m ws
  | some (.op (.writeTorn _ b)) =>
    match ws with
    | "nocrash" :: rest => observeWrite b rest
    | ["ok", "torn", sch, ents] => (parseSeen sch ents).map fun a => some (.tornWrite b true a)
    | "err:open" :: _ => some (some (.tornWrite b false { sch := [], store := none }))
    | [_] => some (some (.tornWrite b false { sch := [], store := none }))
    | _ => none
  | some (.op (.dropTorn _ m)) =>
    match ws with
    | "nocrash" :: rest => observeDrop m rest
    | ["ok", "torn", sch, ents] => (parseSeen sch ents).map fun a => some (.tornDrop m true a)
    | "err:open" :: _ => some (some (.tornDrop m false { sch := [], store := none }))
    | [_] => some (some (.tornDrop m false { sch := [], store := none }))
    | _ => none
  | some (.op (.race a b)) =>
    -- <result of a> / <result of b> / <schema> <entries>
    match (ans.splitOn " / ").map tokens with
    | [ra, rb, [sch, ents]] =>
      match parseRes ra, parseRes rb, parseSeen sch ents with
      | some ra, some rb, some after => some (some (.race a b ra rb after))
      | _, _, _ => none
    | _ => none
  | some (.op .snap) =>
    match ws with
    | [sch, ents] => (parseSeen sch ents).map fun a => some (.look a)
    | [_] => some (some (.look { sch := [], store := none }))
    | _ => none
  | some (.op .look) =>
    match ws with
    | [sch, ents] => (parseSeen sch ents).map fun a => some (.look a)
    | [_] => some (some (.look { sch := [], store := none }))
    | _ => none
  | some (.op _) =>
    match ws with
    | [r, kind, sch, ents] =>
      if r == "ok" then (parseSeen sch ents).map fun a => some (.restart (parseKind kind) true a)
      else some (some (.restart (parseKind kind) false { sch := [], store := none }))
    | [_] => some (some (.restart .clean false { sch := [], store := none }))
    | _ => none

def stepTags (M : Spec.C10.Mem) : Step10 → List String
  | .write b res _ =>
    (if b.any (Spec.C10.conflictsWith M.cur.sch) then ["conflict-write"] else []) ++
    (match res with | .partialWrite _ _ => ["partial"] | .ok => [] | .hardError _ => ["write-error"])
  | .drop _ _ _ => ["drop"]
  | .restart k _ _ =>
    ["restart:" ++ Spec.C10.restartName k] ++
    (if !M.dropped.isEmpty then ["restart-after-drop"] else [])
  | .tornWrite _ _ a =>
    [if Spec.C10.sameSchema a.sch M.cur.sch then "torn-write:before" else "torn-write:after"]
  | .tornDrop m _ a =>
    [if Spec.C10.hasMeas M.cur.sch m && !Spec.C10.hasMeas a.sch m then "torn-drop:after" else "torn-drop:before"]
  | .race _ _ ra rb _ =>
    [if ra == .ok && rb == .ok then "race:both-ok" else "race:one-refused"]
  | .look _ => []

def oracle (obs : List (List String × String)) : Verdict :=
  let parsed := obs.map fun (toks, ans) => (observe toks ans, ans)
  match parsed.find? (fun p => p.1.isNone) with
  | some (_, ans) => Verdict.fail ("unreadable-answer:" ++ ((ans.take 40).replace " " "_"))
  | none =>
  let steps := parsed.filterMap fun o => o.1.join
  let tg := (steps.foldl (fun (acc : Spec.C10.Mem × List String) s =>
      let t := stepTags acc.1 s
      ((Spec.C10.stepFails acc.1 s).2, acc.2 ++ t.filter (fun x => !acc.2.contains x))) ({}, [])).2
  let nt := tg.contains "conflict-write" && tg.any (fun t => t.startsWith "restart:")
  match Spec.C10.firstFailure {} steps with
  | none => { ok := Spec.C10.holdsOn steps, nontrivial := nt, tags := tg }
  | some r => { ok := false, nontrivial := true, tags := tg, reason := r.replace " " "_" }

def driver : Driver PState := { init := {}, step := step, oracle := oracle }

end Influx.Drv.C10

def main (args : List String) : IO UInt32 := Influx.Drv.C10.driver.main args
