/-
  Drv.C22 — string shell around Spec.C22 / Model.InfluxQLPipe.

  case:  s <host> <i|f> <times> <values>       add a series of measurement m         -> ok
         q <hex text> <calls|raw> <tmin|-> <tmax|-> <dur> <off> <byHost> <fill> <fillv|-> <desc> <limit> <offset>
                                                run the statement                      -> rows | err:<kind>
  rows:  <host|*>@<time>=<v>;<v>…  joined by "," ("-" = none), v = i<int> | f<hex64> | n

  real-storage cases (a tsdb.Shard / tsm1 engine on disk, sparse two-field series):
         S <host> <i|f> <times> <v values, x = none> <u values, x = none>              -> ok
         Q <hex text> <the 11 tokens of q> <cond: - | gt:k | ge:k | lt:k | le:k> <aux 0|1>  -> rows | err:<kind>
-/
import Influx.Proto
import Influx.Model.ReducersFloat
import Influx.Model.InfluxQLPipe
import Influx.Spec.C22

open Influx Influx.Proto Influx.Reducers Influx.Reducers.IEEE Influx.Spec.C22

namespace Influx.Drv.C22

def intArith22 : Arith22 Int Float := { intFloatArith with ofIntV := id }
def floatArith22 : Arith22 Float Float := { floatArith with ofIntV := Float.ofInt }

structure State where
  ints : List (Series Int) := []
  flts : List (Series Float) := []
  ints2 : List (Series2 Int) := []
  flts2 : List (Series2 Float) := []

def parseAgg : String → Option Agg
  | "count" => some .count | "sum" => some .sum | "mean" => some .mean | "min" => some .min
  | "max" => some .max | "first" => some .first | "last" => some .last | _ => none

def parseOptInt (s : String) : Option (Option Int) :=
  if s = "-" then some none else s.toInt?.map some

def parseQuery : List String → Option Query
  | [calls, tmin, tmax, dur, off, byHost, fill, fillv, desc, limit, offset] => do
    let calls ← if calls = "raw" then some [] else (splitComma calls).mapM parseAgg
    let tmin ← parseOptInt tmin
    let tmax ← parseOptInt tmax
    let dur ← dur.toInt?
    let off ← off.toInt?
    let byHost ← parseBool byHost
    let fill ← match fill with
      | "none" => some Fill.none
      | "null" => some Fill.null
      | "previous" => some Fill.previous
      | "value" => fillv.toInt?.map Fill.value
      | _ => none
    let desc ← parseBool desc
    let limit ← limit.toNat?
    let offset ← offset.toNat?
    some { calls, tmin, tmax, dur, off, byHost, fill, desc, limit, offset }
  | _ => none

def strictlyIncreasing : List Int → Bool
  | [] => true
  | [_] => true
  | a :: b :: r => decide (a < b) && strictlyIncreasing (b :: r)

def zipPts {V : Type} : List Int → List V → Option (List (Pt V))
  | [], [] => some []
  | t :: ts, v :: vs => (zipPts ts vs).map (⟨t, v⟩ :: ·)
  | _, _ => none

inductive Op
  | seriesI (s : Series Int)
  | seriesF (s : Series Float)
  | query (q : Query)
  | series2I (s : Series2 Int)
  | series2F (s : Series2 Float)
  | query2 (q : Query2)

def parseHole {V : Type} (pv : String → Option V) (s : String) : Option (Option V) :=
  if s = "x" then some none else (pv s).map some

def zipPts2 {V : Type} : List Int → List (Option V) → List (Option V) → Option (List (Pt2 V))
  | [], [], [] => some []
  | t :: ts, v :: vs, u :: us => (zipPts2 ts vs us).map (⟨t, v, u⟩ :: ·)
  | _, _, _ => none

def parseCond (s : String) : Option (Option (Cmp × Int)) :=
  if s = "-" then some none else
  match s.splitOn ":" with
  | [c, k] => do
    let k ← k.toInt?
    let c ← match c with
      | "gt" => some Cmp.gt | "ge" => some Cmp.ge | "lt" => some Cmp.lt | "le" => some Cmp.le | _ => none
    some (some (c, k))
  | _ => none

def parseOp : List String → Option Op
  | ["s", host, "i", ts, vs] => do
    let ts ← parseInts ts
    let vs ← parseInts vs
    if !strictlyIncreasing ts then none
    let pts ← zipPts ts vs
    some (.seriesI ⟨host, pts⟩)
  | ["s", host, "f", ts, vs] => do
    let ts ← parseInts ts
    let vs ← (splitComma vs).mapM parseFloat
    if !strictlyIncreasing ts then none
    let pts ← zipPts ts vs
    some (.seriesF ⟨host, pts⟩)
  | "q" :: _hex :: rest => (parseQuery rest).map .query
  | ["S", host, "i", ts, vs, us] => do
    let ts ← parseInts ts
    let vs ← (splitComma vs).mapM (parseHole fun s => s.toInt?)
    let us ← (splitComma us).mapM (parseHole fun s => s.toInt?)
    if !strictlyIncreasing ts then none
    let pts ← zipPts2 ts vs us
    some (.series2I ⟨host, pts⟩)
  | ["S", host, "f", ts, vs, us] => do
    let ts ← parseInts ts
    let vs ← (splitComma vs).mapM (parseHole parseFloat)
    let us ← (splitComma us).mapM (parseHole parseFloat)
    if !strictlyIncreasing ts then none
    let pts ← zipPts2 ts vs us
    some (.series2F ⟨host, pts⟩)
  | "Q" :: _hex :: rest =>
    if rest.length = 13 then do
      let q ← parseQuery (rest.take 11)
      let cond ← parseCond (rest.getD 11 "")
      let aux ← parseBool (rest.getD 12 "")
      some (.query2 ⟨q, cond, aux⟩)
    else none
  | _ => none

/-- the case's series must have distinct hosts and one value type -/
def addSeries (st : State) : Op → Option State
  | .seriesI s =>
    if st.flts.isEmpty && st.ints2.isEmpty && st.flts2.isEmpty && !st.ints.any (·.host = s.host) then some { st with ints := st.ints ++ [s] } else none
  | .seriesF s =>
    if st.ints.isEmpty && st.ints2.isEmpty && st.flts2.isEmpty && !st.flts.any (·.host = s.host) then some { st with flts := st.flts ++ [s] } else none
  | .series2I s =>
    if st.ints.isEmpty && st.flts.isEmpty && st.flts2.isEmpty && !st.ints2.any (·.host = s.host)
    then some { st with ints2 := st.ints2 ++ [s] } else none
  | .series2F s =>
    if st.ints.isEmpty && st.flts.isEmpty && st.ints2.isEmpty && !st.flts2.any (·.host = s.host)
    then some { st with flts2 := st.flts2 ++ [s] } else none
  | _ => none

def showVal {V : Type} (shV : V → String) : Val V Float → String
  | .v x => shV x
  | .f x => "f" ++ showFloat x
  | .i n => "i" ++ toString n
  | .null => "n"

def showRows {V : Type} (shV : V → String) (l : List (Row V Float)) : String :=
  joinComma (l.map fun r =>
    r.host.getD "*" ++ "@" ++ toString r.time ++ "=" ++ ";".intercalate (r.vals.map (showVal shV)))

def showResult {V : Type} (shV : V → String) : Result V Float → String
  | .rows l => showRows shV l
  | .err k => k

def showI (x : Int) : String := "i" ++ toString x
def showF (x : Float) : String := "f" ++ showFloat x

/-- column `k` of a row belongs to call `k` of the field list: count prints an integer
    count, mean a float, every other call (and the raw field) a value of the field's type -/
def parseVal {V : Type} (pv : String → Option V) (a : Option Agg) (s : String) : Option (Val V Float) :=
  if s = "n" then some .null else
  match a, s.toList with
  | some .count, 'i' :: rest => (String.ofList rest).toInt?.map .i
  | some .mean, 'f' :: rest => (parseFloat (String.ofList rest)).map .f
  | some .count, _ => none
  | some .mean, _ => none
  | _, _ => (pv s).map .v

def parseVals {V : Type} (pv : String → Option V) : List (Option Agg) → List String → Option (List (Val V Float))
  | [], [] => some []
  | a :: as, s :: ss => do
    let v ← parseVal pv a s
    let r ← parseVals pv as ss
    some (v :: r)
  | _, _ => none

def parseRow {V : Type} (pv : String → Option V) (cols : List (Option Agg)) (s : String) : Option (Row V Float) :=
  match s.splitOn "@" with
  | [host, rest] =>
    match rest.splitOn "=" with
    | [t, vals] => do
      let t ← t.toInt?
      let vals ← parseVals pv cols (vals.splitOn ";")
      some ⟨if host = "*" then none else some host, t, vals⟩
    | _ => none
  | _ => none

def parseResult {V : Type} (pv : String → Option V) (q : Query) (s : String) (aux : Bool := false) :
    Option (Result V Float) :=
  let cols : List (Option Agg) := (if q.isRaw then [none] else q.calls.map some) ++ (if aux then [none] else [])
  if s.startsWith "err:" then some (.err s)
  else (splitComma s).mapM (parseRow pv cols) |>.map .rows

def parseVI (s : String) : Option Int :=
  match s.toList with
  | 'i' :: rest => (String.ofList rest).toInt?
  | _ => none
def parseVF (s : String) : Option Float :=
  match s.toList with
  | 'f' :: rest => parseFloat (String.ofList rest)
  | _ => none

def step (st : State) (toks : List String) : State × String :=
  match parseOp toks with
  | some (.query q) =>
    if st.flts.isEmpty then
      (st, showResult showI (Influx.InfluxQLPipe.run intArith22 q st.ints))
    else
      (st, showResult showF (Influx.InfluxQLPipe.run floatArith22 q st.flts))
  | some (.query2 q) =>
    if st.flts2.isEmpty then
      (st, showResult showI (Influx.InfluxQLPipe.run2 intArith22 q st.ints2))
    else
      (st, showResult showF (Influx.InfluxQLPipe.run2 floatArith22 q st.flts2))
  | some op =>
    match addSeries st op with
    | some st' => (st', "ok")
    | none => (st, "bad-op")
  | none => (st, "bad-op")

structure Acc where
  st : State := {}
  tags : List String := []
  nontrivial : Bool := false
  fail : Option String := none

def queryTags (q : Query) : List String :=
  (if q.isRaw then ["raw"] else q.calls.map fun a => reprStr a |>.replace "Influx.Spec.C22.Agg." "") ++
  (if q.dur > 0 then ["group-by-time"] else []) ++
  (if q.byHost then ["group-by-host"] else []) ++
  (match q.fill with | .none => ["fill-none"] | .null => [] | .previous => ["fill-previous"] | .value _ => ["fill-value"]) ++
  (if q.desc then ["desc"] else []) ++
  (if q.limit > 0 then ["limit"] else []) ++ (if q.offset > 0 then ["offset"] else [])

def detail (toks : List String) (ans : String) : String :=
  let hexq := (toks.drop 1).headD ""
  let text := ((hexToString hexq).getD "?").replace " " "_"
  let a := if ans.length > 160 then (ans.take 160).toString ++ "…" else ans
  text ++ "=>" ++ a

def oracle (obs : List (List String × String)) : Verdict :=
  let acc := obs.foldl (fun (acc : Acc) (toks, ans) =>
    let addTags (acc : Acc) (ts : List String) : Acc :=
      { acc with tags := acc.tags ++ ts.filter fun t => !acc.tags.contains t }
    let failWith (sig : String) : Acc :=
      { acc with fail := acc.fail.orElse fun _ => some (sig ++ ":" ++ detail toks ans), nontrivial := true }
    match parseOp toks with
    | some (.query q) =>
      let sig := if q.isRaw then "raw" else if q.dur > 0 then "group-by-time" else "aggregate"
      let nt := fun (rows : Nat) => acc.nontrivial || rows > 0
      if acc.st.flts.isEmpty then
        match parseResult parseVI q ans with
        | some r =>
          if holdsOn intArith22 q acc.st.ints r then
            addTags { acc with nontrivial := nt (match r with | .rows l => l.length | _ => 1) } (queryTags q)
          else addTags (failWith sig) (queryTags q)
        | none => failWith "bad-answer"
      else
        match parseResult parseVF q ans with
        | some r =>
          if holdsOn floatArith22 q acc.st.flts r then
            addTags { acc with nontrivial := nt (match r with | .rows l => l.length | _ => 1) } (queryTags q)
          else addTags (failWith sig) (queryTags q)
        | none => failWith "bad-answer"
    | some (.query2 q2) =>
      let q := q2.q
      let sig := "storage-" ++ (if q.isRaw then "raw" else if q.dur > 0 then "group-by-time" else "aggregate") ++
        (if q2.cond.isSome then "-where" else "") ++ (if q2.aux then "-aux" else "")
      let nt := fun (rows : Nat) => acc.nontrivial || rows > 0
      let tags := ["real-shard"] ++ queryTags q ++ (if q2.cond.isSome then ["where-field"] else []) ++
        (if q2.aux then ["aux-field"] else [])
      if acc.st.flts2.isEmpty then
        match parseResult parseVI q ans q2.aux with
        | some r =>
          if holdsOn2 intArith22 q2 acc.st.ints2 r then
            addTags { acc with nontrivial := nt (match r with | .rows l => l.length | _ => 1) } tags
          else addTags (failWith sig) tags
        | none => failWith "bad-answer"
      else
        match parseResult parseVF q ans q2.aux with
        | some r =>
          if holdsOn2 floatArith22 q2 acc.st.flts2 r then
            addTags { acc with nontrivial := nt (match r with | .rows l => l.length | _ => 1) } tags
          else addTags (failWith sig) tags
        | none => failWith "bad-answer"
    | some op =>
      match addSeries acc.st op with
      | some st' => if ans = "ok" then { acc with st := st' } else failWith "bad-line"
      | none => if ans = "bad-op" then addTags acc ["bad-op"] else failWith "bad-line"
    | none => if ans = "bad-op" then addTags acc ["bad-op"] else failWith "bad-line") ({} : Acc)
  match acc.fail with
  | some r => { ok := false, nontrivial := true, tags := acc.tags, reason := r }
  | none => { ok := true, nontrivial := acc.nontrivial, tags := acc.tags }

def driver : Driver State := { init := {}, step := step, oracle := oracle }

end Influx.Drv.C22

def main (args : List String) : IO UInt32 := Influx.Drv.C22.driver.main args
