/-
  Drv.C07 — string shell around Model.CodecRun / Spec.C07.

  op lines:
    zz  <x>                       -> `<enc> <dec>`
    s8b <u64,…>                   -> `I:<words|err> J:… T:… II:<r> IJ:<r> JI:<r> JJ:<r> TI:<r> TJ:<r>`
    c   <i|u|t|f|b|s> <values>    -> `S:<hex|err> B:<hex|err> SS:<r> SB:<r> BS:<r> BB:<r> DS:<r> DB:<r>`
                                     (D = the batch encoder handed a dirty oversized buffer)
    blk <i|u|f|b|s> <ts> <values> -> `S:<hex|err> G:<=|differs> B:<hex|err> SS: SG: SB: BS: BG: BB:`
  r = `=` (decoded = input) | `ne:<decoded>` | `err` (decoder error) | `-` (nothing to decode).
  The string codec's compressor is the identity here; the harness replaces the snappy part of the
  real bytes by its decompressed payload before printing them.
-/
import Influx.Proto
import Influx.Model.CodecRun

open Influx Influx.Proto Influx.Spec.C07 Influx.Codec

namespace Influx.Drv.C07

def idCompressor : Compressor := { compress := id, decompress := some }

/-! parsing / rendering of values -/

def showBools (l : List Bool) : String :=
  if l.isEmpty then "-" else String.ofList (l.map fun b => if b then '1' else '0')

def parseBools (s : String) : Option (List Bool) :=
  if s = "-" then some [] else s.toList.mapM fun c => if c = '1' then some true else if c = '0' then some false else none

def showStrs (l : List Codec.Bytes) : String :=
  joinComma (l.map fun b => "s" ++ (if b.isEmpty then "" else hexEncode b))

def parseStrs (s : String) : Option (List Codec.Bytes) :=
  (splitComma s).mapM fun p =>
    match p.toList with
    | 's' :: rest => if rest.isEmpty then some [] else hexDecode (String.ofList rest)
    | _ => none

def showVals : Vals → String
  | .f l | .i l | .u l => showNats l
  | .b l => showBools l
  | .s l => showStrs l

def parseVals (kind : String) (s : String) : Option Vals :=
  match kind with
  | "f" => (parseNats s).map .f
  | "i" => (parseNats s).map .i
  | "u" => (parseNats s).map .u
  | "b" => (parseBools s).map .b
  | "s" => (parseStrs s).map .s
  | _ => none

def u64ok (l : List Nat) : Bool := l.all (· < W)

def valsOk : Vals → Bool
  | .f l | .i l | .u l => u64ok l
  | .b _ => true
  | .s l => l.all fun b => b.all (· < 256)

def parseOp : List String → Option Op
  | ["zz", x] => do let x ← x.toNat?; if x < W then some (.zz x) else none
  | ["s8b", vs] => do let vs ← parseNats vs; if u64ok vs then some (.s8b vs) else none
  | ["c", "t", vs] => do let vs ← parseNats vs; if u64ok vs then some (.time vs) else none
  | ["c", k, vs] => do let v ← parseVals k vs; if valsOk v then some (.codec v) else none
  | ["blk", k, ts, vs] => do
    let ts ← parseNats ts
    let v ← parseVals k vs
    if u64ok ts && valsOk v && ts.length == v.length then some (.block ts v) else none
  | _ => none

def showBlk (p : List Nat × Vals) : String := showNats p.1 ++ "/" ++ showVals p.2

def parseBlk (like : Vals) (s : String) : Option (List Nat × Vals) :=
  match s.splitOn "/" with
  | [a, b] => do
    let ts ← parseNats a
    let k := match like with | .f _ => "f" | .i _ => "i" | .u _ => "u" | .b _ => "b" | .s _ => "s"
    let v ← parseVals k b
    some (ts, v)
  | _ => none

/-- one decode result; `produced`: the encoder gave something to decode -/
def showR {α : Type} [DecidableEq α] (sh : α → String) (input : α) (produced : Bool) (r : Option α) : String :=
  if !produced then "-" else
  match r with
  | none => "err"
  | some x => if x = input then "=" else "ne:" ++ sh x

def parseR {α : Type} (pr : String → Option α) (input : α) (s : String) : Option (Option α) :=
  if s = "-" || s = "err" then some none
  else if s = "=" then some (some input)
  else if s.startsWith "ne:" then (pr (s.drop 3).toString).map some
  else none

def showEnc : Option Codec.Bytes → String
  | none => "err"
  | some b => hexEncode b

def parseEnc (s : String) : Option (Option Codec.Bytes) :=
  if s = "err" then some none else (hexDecode s).map some

def showWs : Option (List Nat) → String
  | none => "err"
  | some ws => showNats ws

def parseWs (s : String) : Option (Option (List Nat)) :=
  if s = "err" then some none else (parseNats s).map some

def showRT {α : Type} [DecidableEq α] (sh : α → String) (input : α) (emptyIsNothing : Bool) (r : RT α) : List String :=
  let prod (e : Option Codec.Bytes) : Bool := match e with | none => false | some b => !(emptyIsNothing && b.isEmpty)
  ["SS:" ++ showR sh input (prod r.encS) r.ss, "SB:" ++ showR sh input (prod r.encS) r.sb,
   "BS:" ++ showR sh input (prod r.encB) r.bs, "BB:" ++ showR sh input (prod r.encB) r.bb]

def render : Op → Obs → String
  | _, .zz e d => s!"{e} {d}"
  | .s8b vs, .s8b i j t decs =>
    let encs := [i, i, j, j, t, t]
    let names := ["II:", "IJ:", "JI:", "JJ:", "TI:", "TJ:"]
    let ds := (names.zip (encs.zip decs)).map fun (n, e, d) => n ++ showR showNats vs e.isSome d
    " ".intercalate (["I:" ++ showWs i, "J:" ++ showWs j, "T:" ++ showWs t] ++ ds)
  | .codec v, .codec r ds db =>
    " ".intercalate (["S:" ++ showEnc r.encS, "B:" ++ showEnc r.encB] ++ showRT showVals v false r ++
      ["DS:" ++ showR showVals v r.encB.isSome ds, "DB:" ++ showR showVals v r.encB.isSome db])
  | .time ts, .time r ds db =>
    " ".intercalate (["S:" ++ showEnc r.encS, "B:" ++ showEnc r.encB] ++ showRT showNats ts false r ++
      ["DS:" ++ showR showNats ts r.encB.isSome ds, "DB:" ++ showR showNats ts r.encB.isSome db])
  | .block ts v, .block r g sg bg =>
    let prod (e : Option Codec.Bytes) : Bool := match e with | none => false | some b => !b.isEmpty
    match showRT showBlk (ts, v) true r with
    | [ss, sb, bs, bb] =>
      " ".intercalate ["S:" ++ showEnc r.encS, "G:" ++ (if g then "=" else "differs"), "B:" ++ showEnc r.encB,
        ss, "SG:" ++ showR showBlk (ts, v) (prod r.encS) sg, sb,
        bs, "BG:" ++ showR showBlk (ts, v) (prod r.encB) bg, bb]
    | _ => "internal"
  | _, _ => "internal"

/-- `K:value` fields of an answer, in order -/
def fields (ans : String) : List (String × String) :=
  (tokens ans).map fun t =>
    match t.splitOn ":" with
    | k :: rest => (k, ":".intercalate rest)
    | [] => ("", "")

def parseRT {α : Type} (pr : String → Option α) (input : α) (s b ss sb bs bb : String) : Option (RT α) := do
  let encS ← parseEnc s
  let encB ← parseEnc b
  some { encS, encB, ss := ← parseR pr input ss, sb := ← parseR pr input sb,
         bs := ← parseR pr input bs, bb := ← parseR pr input bb }

def parseObs (op : Op) (ans : String) : Obs :=
  let r : Option Obs :=
    match op, fields ans with
    | .zz _, _ =>
      match tokens ans with
      | [e, d] => do some (.zz (← e.toNat?) (← d.toNat?))
      | _ => none
    | .s8b vs, [("I", i), ("J", j), ("T", t), ("II", a), ("IJ", b), ("JI", c), ("JJ", d), ("TI", e), ("TJ", f)] => do
      let ds ← [a, b, c, d, e, f].mapM (parseR parseNats vs)
      some (.s8b (← parseWs i) (← parseWs j) (← parseWs t) ds)
    | .codec v, [("S", s), ("B", b), ("SS", ss), ("SB", sb), ("BS", bs), ("BB", bb), ("DS", ds), ("DB", db)] => do
      let k := match v with | .f _ => "f" | .i _ => "i" | .u _ => "u" | .b _ => "b" | .s _ => "s"
      let r ← parseRT (parseVals k) v s b ss sb bs bb
      some (.codec r (← parseR (parseVals k) v ds) (← parseR (parseVals k) v db))
    | .time ts, [("S", s), ("B", b), ("SS", ss), ("SB", sb), ("BS", bs), ("BB", bb), ("DS", ds), ("DB", db)] => do
      let r ← parseRT parseNats ts s b ss sb bs bb
      some (.time r (← parseR parseNats ts ds) (← parseR parseNats ts db))
    | .block ts v, [("S", s), ("G", g), ("B", b), ("SS", ss), ("SG", sg), ("SB", sb), ("BS", bs), ("BG", bg), ("BB", bb)] => do
      let r ← parseRT (parseBlk v) (ts, v) s b ss sb bs bb
      some (.block r (g == "=") (← parseR (parseBlk v) (ts, v) sg) (← parseR (parseBlk v) (ts, v) bg))
    | _, _ => none
  r.getD .unparsable

def step (_ : Unit) (toks : List String) : Unit × String :=
  match parseOp toks with
  | some op => ((), render op (run idCompressor op))
  | none => ((), "bad-op")

def hasNaN : Op → Bool
  | .codec (.f l) => l.any isNaN
  | .block _ (.f l) => l.any isNaN
  | _ => false

/-- encoders refused the input (and nothing else went wrong) -/
def onlyRejected : Obs → Bool
  | .codec r _ _ => r.encS.isNone && r.encB.isNone
  | .block r _ _ _ => r.encS.isNone && r.encB.isNone
  | _ => false

def opTag : Op → String
  | .zz _ => "zigzag"
  | .s8b _ => "simple8b"
  | .codec (.f _) => "codec:float" | .codec (.i _) => "codec:integer" | .codec (.u _) => "codec:unsigned"
  | .codec (.b _) => "codec:boolean" | .codec (.s _) => "codec:string"
  | .time _ => "codec:timestamp"
  | .block _ (.f _) => "block:float" | .block _ (.i _) => "block:integer" | .block _ (.u _) => "block:unsigned"
  | .block _ (.b _) => "block:boolean" | .block _ (.s _) => "block:string"

def oracle (obs : List (List String × String)) : Verdict :=
  obs.foldl (fun v (toks, ans) =>
    match parseOp toks with
    | none =>
      if ans = "bad-op" then v.and { ok := true, nontrivial := false, tags := ["malformed"] }
      else v.and (Verdict.fail ("malformed-op-accepted:" ++ "_".intercalate toks))
    | some op =>
      let o := parseObs op ans
      let ok := holdsOn op o
      let short := ("_".intercalate toks).take 160 |>.toString
      let sig := if hasNaN op && onlyRejected o then "float-nan-rejected"
        else match o with | .unparsable => "unparsable-answer" | _ => "roundtrip-fails"
      v.and { ok := ok, nontrivial := true, tags := [opTag op],
              reason := if ok then "" else sig ++ ":" ++ short ++ "=>" ++ ((ans.replace " " "_").take 200).toString })
    (Verdict.pass false)

def driver : Driver Unit := { init := (), step := step, oracle := oracle }

end Influx.Drv.C07

def main (args : List String) : IO UInt32 := Influx.Drv.C07.driver.main args
