/-
  Drv.C15 — string shell around Model.TagExpr / Spec.C15.

  ops (one per line):
    s <shard> <id> <name-hex> <tags>      tags: `-` or comma list of khex:vhex     → ok | rejected
    d <id>                                series-file delete                       → ok
    f <name-hex> <field-hex>              field of a measurement                    → ok
    q <name-hex> <expr…>                  MeasurementSeriesByExprIterator           → ids <list> | err
    p 1|2|4|8                             harness knob (tsi1 partitions), no model effect → ok
  expr (prefix):  and|or|eq|ne|re|nre|oth E E   par E   T   F   num
                  ref <val-hex> u|t|a|o   str <val-hex>
                  rx <src-hex> <table>    table: comma list of valhex:0|1 (the regex's truth
                                          table over every string it can be applied to)
-/
import Influx.Proto
import Influx.Model.TagExpr
import Influx.Spec.C15

open Influx Influx.Proto Influx.Model.TagExpr

namespace Influx.Drv.C15

def hexStr (s : String) : Option String := if s = "" then some "" else hexToString s

def parsePair (s : String) : Option (String × String) :=
  match s.splitOn ":" with
  | [a, b] => do let a ← hexStr a; let b ← hexStr b; some (a, b)
  | _ => none

def parseTags (s : String) : Option (List (String × String)) :=
  (splitComma s).mapM parsePair

def parseTable (s : String) : Option (List (String × Bool)) :=
  (splitComma s).mapM fun p =>
    match p.splitOn ":" with
    | [a, b] => do let a ← hexStr a; let b ← parseBool b; some (a, b)
    | _ => none

def lookupTable (t : List (String × Bool)) (s : String) : Option Bool :=
  match t with
  | [] => none
  | (k, v) :: rest => if k = s then some v else lookupTable rest s

def parseVType : String → Option VType
  | "u" => some .unknown | "t" => some .tag | "a" => some .anyField | "o" => some .other
  | _ => none

def parseTok : String → Option Tok
  | "and" => some .and | "or" => some .or | "eq" => some .eq | "ne" => some .neq
  | "re" => some .eqregex | "nre" => some .neqregex | "oth" => some .other
  | _ => none

/-- prefix expression; also returns the regex tables met (for the coverage check). -/
def parseExpr : Nat → List String → Option (Expr × List (List (String × Bool)) × List String)
  | 0, _ => none
  | _, [] => none
  | fuel + 1, t :: rest =>
    match t with
    | "par" => do
      let (e, tb, r) ← parseExpr fuel rest
      some (.paren e, tb, r)
    | "T" => some (.bool true, [], rest)
    | "F" => some (.bool false, [], rest)
    | "num" => some (.other, [], rest)
    | "ref" =>
      match rest with
      | v :: ty :: r => do
        let v ← hexStr v
        let ty ← parseVType ty
        some (.ref v ty, [], r)
      | _ => none
    | "str" =>
      match rest with
      | v :: r => do let v ← hexStr v; some (.str v, [], r)
      | _ => none
    | "rx" =>
      match rest with
      | _src :: tb :: r => do
        let tb ← parseTable tb
        some (.regex (fun s => (lookupTable tb s).getD false), [tb], r)
      | _ => none
    | _ => do
      let op ← parseTok t
      let (l, tb1, r1) ← parseExpr fuel rest
      let (r, tb2, r2) ← parseExpr fuel r1
      some (.bin op l r, tb1 ++ tb2, r2)

structure Parsed where
  op : Op
  tables : List (List (String × Bool)) := []

def parseOp : List String → Option Parsed
  | ["s", sh, id, name, tags] => do
    let sh ← sh.toNat?
    if sh ≥ 8 then none
    let id ← id.toNat?
    let name ← hexStr name
    let tags ← parseTags tags
    some { op := .addSeries sh ⟨id, name, tags⟩ }
  | ["d", id] => do let id ← id.toNat?; some { op := .delSeries id }
  | ["f", name, field] => do
    let name ← hexStr name
    let field ← hexStr field
    some { op := .addField name field }
  | "q" :: name :: rest => do
    let name ← hexStr name
    let (e, tbs, r) ← parseExpr (rest.length + 1) rest
    if r ≠ [] then none
    some { op := .query name e, tables := tbs }
  | _ => none

/-- every regex table must define the regex on `""`, on the measurement name and on
    every tag value in the index set: the model never guesses a regex's answer. -/
def covered (series : List Series) (name : String) (tables : List (List (String × Bool))) : Bool :=
  let dom := "" :: name :: series.flatMap (fun s => s.tags.map (·.2))
  tables.all fun tb => dom.all fun v => (lookupTable tb v).isSome

def renderObs : Obs → String
  | .ok => "ok"
  | .rejected => "rejected"
  | .ids l => "ids " ++ showNats l
  | .err => "err"

def parseObs (s : String) : Option Obs :=
  match tokens s with
  | ["ok"] => some .ok
  | ["rejected"] => some .rejected
  | ["err"] => some .err
  | ["ids", l] => (parseNats l).map .ids
  | _ => none

/-- `p <n>`: partitions per tsi1 index — a knob of the harness the model does not
    depend on (the answers must not depend on it either). -/
def isKnob : List String → Bool
  | ["p", n] => n = "1" || n = "2" || n = "4" || n = "8"
  | _ => false

def step (st : State) (toks : List String) : State × String :=
  if isKnob toks then (st, "ok") else
  match parseOp toks with
  | none => (st, "bad-op")
  | some p =>
    match p.op with
    | .query name _ =>
      if covered st.allSeries name p.tables then
        let (st', o) := Model.TagExpr.step st p.op
        (st', renderObs o)
      else (st, "bad-op")
    | _ =>
      let (st', o) := Model.TagExpr.step st p.op
      (st', renderObs o)

/-- per-query labels for the evidence histogram. -/
def exprTags : Expr → List String
  | .bin .and l r => "and" :: (exprTags l ++ exprTags r)
  | .bin .or l r => "or" :: (exprTags l ++ exprTags r)
  | .bin .eq _ _ => ["eq"]
  | .bin .neq _ _ => ["ne"]
  | .bin .eqregex _ _ => ["re"]
  | .bin .neqregex _ _ => ["nre"]
  | .bin .other _ _ => ["other-op"]
  | .paren e => "paren" :: exprTags e
  | _ => ["literal"]

def dedupTags (l : List String) : List String :=
  l.foldl (fun acc t => if acc.contains t then acc else acc ++ [t]) []

/-- answers the harness library gives when an operation ran out of time (machine load) or
    the rest of a case was skipped after that: the case is judged up to there only. -/
def harnessNoise (ans : String) : Bool := ans = "timeout" || ans = "skipped"

def oracle (obs00 : List (List String × String)) : Verdict :=
  let obs0 := obs00.takeWhile (fun x => !harnessNoise x.2)
  let obs := obs0.filter (fun x => !isKnob x.1)
  -- parse everything first
  let parsed := obs.map fun (toks, ans) => (toks, parseOp toks, parseObs ans)
  if parsed.any (fun (_, p, o) => p.isNone || o.isNone) then Verdict.fail "bad-line" else
  let tr : List (Parsed × Obs) := parsed.filterMap fun (_, p, o) =>
    match p, o with
    | some p, some o => some (p, o)
    | _, _ => none
  -- walk the case with the Spec's own world; collect labels and the first failing query
  let (_, v) := (tr.zip (obs.map (·.1))).foldl (fun (acc : Spec.C15.World × Verdict) (x : (Parsed × Obs) × List String) =>
    let (w, v) := acc
    let ((p, o), toks) := x
    let w' := Spec.C15.advance w (p.op, o)
    match p.op with
    | .query name e =>
      if !covered w.series name p.tables then (w', v.and (Verdict.fail "bad-line:regex-table")) else
      let ok := Spec.C15.checkOne w (p.op, o)
      let ing := Spec.C15.inGrammar (fun f => w.fields.contains (name, f)) e
      let exp := Spec.C15.expected w name e
      let live := (w.series.filter (fun s => s.name = name ∧ !w.deleted.contains s.id)).length
      let cls := if !ing then "outside-grammar" else if exp.isEmpty then "selects-none"
        else if exp.length = live then "selects-all" else "selects-some"
      let tags := dedupTags (cls :: (if ing then exprTags e else []))
      let reason := if ok then "" else
          "wrong-series:" ++ "_".intercalate toks ++ ":expected=" ++ showNats exp ++ ":got=" ++
            (renderObs o).replace " " "="
      let nt := ing && cls == "selects-some"
      let vq : Verdict := { ok := ok, nontrivial := nt, tags := tags, reason := reason }
      (w', v.and vq)
    | _ => (w', v)) (({} : Spec.C15.World), Verdict.pass false)
  -- the verdict is the Spec's `holdsOn` (the theorem's subject); `v` only explains it
  let ok := Spec.C15.holdsOn (tr.map fun (p, o) => (p.op, o))
  if ok && v.ok then v
  else if !ok && !v.ok then v
  else Verdict.fail "oracle-inconsistent"

def driver : Driver State := { init := {}, step := step, oracle := oracle }

end Influx.Drv.C15

def main (args : List String) : IO UInt32 := Influx.Drv.C15.driver.main args
