import Influx.Proto
import Influx.Model.DelPredRun
import Influx.Spec.C16

open Influx Influx.Proto
open Influx.Model.DelPred
open Influx.Spec.C16 (Op Ans Judg Tags)

namespace Influx.Drv.C16

/-- `E:<hexk>:<hexv>` / `N:…` -/
def parseRule (it : String) : Option Pred :=
  match it.splitOn ":" with
  | [op, k, v] =>
    match (if op = "E" then some false else if op = "N" then some true else none), hexDecode k, hexDecode v with
    | some neq, some kb, some vb => some (.rule kb neq vb)
    | _, _, _ => none
  | _ => none

/-- prefix notation, `fuel` ≥ number of items -/
def parsePredItems : Nat → List String → Option (Pred × List String)
  | 0, _ => none
  | _, [] => none
  | fuel + 1, it :: rest =>
    if it = "A" ∨ it = "O" then
      match parsePredItems fuel rest with
      | none => none
      | some (l, rest1) =>
        match parsePredItems fuel rest1 with
        | none => none
        | some (r, rest2) => some (if it = "A" then .and l r else .or l r, rest2)
    else (parseRule it).map (·, rest)

def parsePred (s : String) : Option Pred :=
  let items := s.splitOn ","
  match parsePredItems (items.length + 1) items with
  | some (p, []) => some p
  | _ => none

def parseDItems : Nat → List String → Option (DNode × List String)
  | 0, _ => none
  | _, [] => none
  | fuel + 1, it :: rest =>
    if it = "A" ∨ it = "O" ∨ it = "Ceq" ∨ it = "Cne" then
      match parseDItems fuel rest with
      | none => none
      | some (l, rest1) =>
        match parseDItems fuel rest1 with
        | none => none
        | some (r, rest2) =>
          some (if it = "A" then .logical false l r else if it = "O" then .logical true l r
                else if it = "Ceq" then .cmp false l r else .cmp true l r, rest2)
    else if it.startsWith "T:" then (hexDecode (it.drop 2).toString).map fun b => (.tagRef b, rest)
    else if it.startsWith "L:" then (hexDecode (it.drop 2).toString).map fun b => (.strLit b, rest)
    else none

def parseDNode (s : String) : Option DNode :=
  let items := s.splitOn ","
  match parseDItems (items.length + 1) items with
  | some (p, []) => some p
  | _ => none

def parseTags (s : String) : Option Tags :=
  (splitComma s).mapM fun kv =>
    match kv.splitOn ":" with
    | [k, v] => match hexDecode k, hexDecode v with
      | some kb, some vb => some (kb, vb)
      | _, _ => none
    | _ => none

def parseOp : List String → Option Op
  | ["p", s] => (parsePred s).map .setPred
  | ["pd", s] => (parseDNode s).map .setRaw
  | ["m", n, t] => match hexDecode n, parseTags t with
    | some nb, some ts => some (.matchSeries nb ts none)
    | _, _ => none
  | ["mf", n, t, f] => match hexDecode n, parseTags t, hexDecode f with
    | some nb, some ts, some fb => some (.matchSeries nb ts (some fb))
    | _, _, _ => none
  | ["c"] => some .clone
  | _ => none

def render : Ans → String
  | .ok => "ok" | .err => "err" | .noPred => "no-pred" | .bool b => boolStr b | .other s => s

def parseAns (s : String) : Ans :=
  if s = "ok" then .ok else if s = "err" then .err else if s = "no-pred" then .noPred
  else match parseBool s with | some b => .bool b | none => .other s

def step (st : Option Matcher) (toks : List String) : Option Matcher × String :=
  match parseOp toks with
  | some op => let (st', a) := stepOp st op; (st', render a)
  | none => (st, "bad-op")

/-- which clause of the theorem's domain `KeyOK` a series misses (for the failure signature) -/
def hasSepB : Bytes → Bool
  | [] => false
  | b :: bs => fieldSep.isPrefixOf (b :: bs) || hasSepB bs

def quirkOf (name : Bytes) (tags : Tags) (field : Option Bytes) : String :=
  -- with a field appended the first "#!~#" must be the appended one
  if hasSepB (seriesKey name tags ++ (if field.isSome then [35, 33, 126] else [])) then "field-separator-in-series"
  else if name.getLast? = some 92 || tags.any (fun t => t.2 ≠ [] && (t.1.getLast? = some 92 || t.2.getLast? = some 92))
    then "trailing-backslash"
  else if name.contains 61 then "equals-in-measurement"
  else "mismatch"

def sigOf (toks : List String) (op : Op) (a : Ans) : String × List String :=
  match op with
  | .matchSeries name tags field => (match a with
    | .bool _ => (quirkOf name tags field, toks)
    | _ => ("no-answer", toks))
  | .setPred _ => ("compile-failed", toks)
  | _ => ("no-answer", toks)

def oracle (obs : List (List String × String)) : Verdict :=
  -- an op the driver cannot parse must have been answered bad-op
  let parsed := obs.map fun (toks, ans) => (toks, parseOp toks, ans)
  let badLines := parsed.filter fun (_, op, ans) => op.isNone && ans ≠ "bad-op"
  let goodT : List (List String × Op × Ans) := parsed.filterMap fun (toks, op, ans) => op.map (toks, ·, parseAns ans)
  let good : List (Op × Ans) := goodT.map (·.2)
  let ok := Spec.C16.holdsOn good && badLines.isEmpty
  let js := Spec.C16.judgeCase none good
  -- signatures of the failing observations; one inside the theorem's domain is reported first
  let ss : List (String × List String) := (goodT.zip js).filterMap fun ((toks, op, a), j) =>
    if j = .fail then some (sigOf toks op a) else none
  let pick (s : String) := ss.find? (·.1 = s)
  let chosen : String × List String :=
    if !badLines.isEmpty then ("bad-line", (badLines.head?.map (·.1)).getD [])
    else match pick "mismatch" with
      | some x => x
      | none => match pick "no-answer" with
        | some x => x
        | none => match pick "compile-failed" with
          | some x => x
          | none => ss.headD ("unknown", [])
  -- the predicate in force at the chosen observation, for the replay's readability
  let nMatch := (good.zip js).filter fun ((op, _), j) => (match op with | .matchSeries .. => true | _ => false) && j = .pass
  let nTrue := nMatch.filter fun ((_, a), _) => a = .bool true
  let tags := (if nTrue.isEmpty then [] else ["some-match"]) ++
    (if nTrue.length < nMatch.length then ["some-nonmatch"] else []) ++
    (if js.contains .outOfDomain then ["has-out-of-domain"] else []) ++
    (if good.any (fun (op, _) => match op with | .matchSeries _ _ (some _) => true | _ => false) then ["composite-key"] else []) ++
    (if good.any (fun (op, _) => match op with | .matchSeries n ts _ => (seriesKey n ts).contains 92 | _ => false) then ["escape-path"] else []) ++
    (if good.any (fun (op, _) => match op with | .matchSeries n ts _ => !(seriesKey n ts).contains 92 | _ => false) then ["fast-path"] else [])
  { ok := ok, nontrivial := !nMatch.isEmpty, tags := tags,
    reason := if ok then "" else chosen.1 ++ ":" ++ "_".intercalate chosen.2 }

def driver : Driver (Option Matcher) := { init := none, step := step, oracle := oracle }

end Influx.Drv.C16

def main (args : List String) : IO UInt32 := Influx.Drv.C16.driver.main args
