/-
  Drv.C32 — string shell around Model.WriteAPI / Spec.C32.

  ops
    w <limit> <enc> <chunks> <eager> <term> <closeErr> <auth> <prec> <bucketGiven> <org>
      <bucketIsID> <byID> <byName> <perm> <writer> <lines>
        one request to the write handler;  answer `<status> <code> <named> <dropped> <writes>`
    l <limit> <size> <chunks> <eager> <term> <closeErr> <steps>
        a LimitedReadCloser on its own;  answer `<step answers> <prefixOK> <closes>`
-/
import Influx.Proto
import Influx.Model.WriteAPI
import Influx.Spec.C32

open Influx Influx.Proto Influx.WriteAPI

namespace Influx.Drv.C32

def parseBoolTok (s : String) : Option Bool := parseBool s

def parseTerm : String → Option RErr
  | "eof" => some .eof | "other" => some .other | "gzh" => some .gzHeader | "gzc" => some .gzChecksum
  | _ => none

def showRErr : Option RErr → String
  | none => "-" | some .eof => "eof" | some .other => "other"
  | some .gzHeader => "gzh" | some .gzChecksum => "gzc"

def showCErr : Option CErr → String
  | none => "-" | some .limit => "limit" | some (.under e) => showRErr (some e)

def codeNames : List (String × Code) :=
  [("internal", .internal), ("notimpl", .notImplemented), ("invalid", .invalid),
   ("unproc", .unprocessable), ("empty", .emptyValue), ("conflict", .conflict),
   ("notfound", .notFound), ("unavail", .unavailable), ("forbidden", .forbidden),
   ("toomany", .tooManyRequests), ("unauth", .unauthorized), ("method", .methodNotAllowed),
   ("toolarge", .tooLarge), ("plain", .plain)]

def parseCodeOpt (s : String) : Option (Option Code) :=
  if s = "-" then some none else (codeNames.lookup s).map some

def showCode (c : Code) : String :=
  match codeNames.find? (fun p => p.2 = c) with
  | some p => p.1
  | none => "?"

def parseInt (s : String) : Option Int := s.toInt?

/-- encoding token: p plain, o other (ignored) encoding, s / k plain through a real HTTP
    server (Content-Length / chunked framing), g gzip, x x-gzip,
    h gzip with an unreadable header, e gzip with an empty body -/
def parseEnc : String → Option (Bool × Option RErr)
  | "p" => some (false, none) | "o" => some (false, none)
  | "s" => some (false, none) | "k" => some (false, none)
  | "g" => some (true, none) | "x" => some (true, none)
  | "h" => some (true, some .gzHeader) | "e" => some (true, some .eof)
  | _ => none

def parseWriter (s : String) : Option WriterRes :=
  if s = "ok" then some .ok else if s = "fail" then some .fail
  else if s.startsWith "p" then (s.drop 1).toNat?.map .partialWrite else none

/-- a line of the generated body: tag g (a point) / b (malformed) / c (comment or blank) and its bytes -/
structure Line where
  tag : Char
  bytes : List Nat

def parseLine (s : String) : Option Line :=
  match s.toList with
  | t :: rest =>
    if t = 'g' ∨ t = 'b' ∨ t = 'c' then (hexDecode (String.ofList rest)).map fun bs => ⟨t, bs⟩ else none
  | [] => none

def parseLines (s : String) : Option (List Line) := (splitComma s).mapM parseLine

/-- the body: lines joined by `\n` -/
def joinLines : List Line → List Nat
  | [] => []
  | [l] => l.bytes
  | l :: ls => l.bytes ++ 10 :: joinLines ls

def splitNL (bs : List Nat) : List (List Nat) :=
  let (cur, acc) := bs.foldl (fun (p : List Nat × List (List Nat)) b =>
    if b = 10 then ([], p.1.reverse :: p.2) else (b :: p.1, p.2)) ([], [])
  (cur.reverse :: acc).reverse

/-- The abstract parser instantiated for a generated body: a segment of the
    byte string is looked up among the generator's lines (by content); a good
    line is the point with that index, a bad line the malformed line with that
    index; anything unknown counts as malformed line 9999. -/
def lineParser (ls : List Line) : Parser Nat Nat :=
  let look (seg : List Nat) : Char × Nat :=
    match (ls.zipIdx).find? (fun p => p.1.bytes == seg) with
    | some (l, i) => (l.tag, i)
    | none => if seg.isEmpty then ('c', 0) else ('b', 9999)
  { points := fun bs => (splitNL bs).filterMap fun seg =>
      let (t, i) := look seg; if t = 'g' then some i else none
    bad := fun bs => (splitNL bs).filterMap fun seg =>
      let (t, i) := look seg; if t = 'b' then some i else none }

structure WOp where
  req : Req
  lines : List Line

def parseW : List String → Option WOp
  | [limit, enc, chunks, eager, term, closeErr, auth, prec, bgiven, org, bisid, byid, byname, perm, writer, lines] => do
    let limit ← parseInt limit
    let (gz, gzOpen) ← parseEnc enc
    let chunks ← parseNats chunks
    let eager ← parseBool eager
    let term ← parseTerm term
    let closeErr ← parseBool closeErr
    let auth ← parseBool auth
    let precOK ← (if prec = "bad" then some false
                  else if prec = "-" ∨ prec = "ns" ∨ prec = "us" ∨ prec = "ms" ∨ prec = "s" then some true else none)
    let bgiven ← parseBool bgiven
    let org ← parseCodeOpt org
    let bisid ← parseBool bisid
    let byid ← parseCodeOpt byid
    let byname ← parseCodeOpt byname
    let perm ← (if perm = "a" then some true
                else if perm = "w" ∨ perm = "r" ∨ perm = "i" then some false else none)
    let writer ← parseWriter writer
    let ls ← parseLines lines
    -- a gzip body is cut by the decoder, not by the script; its Close never fails
    let src : Src := if gz then { data := joinLines ls, term := term }
                     else { data := joinLines ls, chunks := chunks, eager := eager, term := term, closeErr := closeErr }
    some { req := { hasAuth := auth, precisionOK := precOK, bucketGiven := bgiven, gzip := gz, gzipOpen := gzOpen,
                    limit := limit, src := src, org := org, bucketIsID := bisid, bucketByID := byid,
                    bucketByName := byname, permitted := perm, writer := writer }
           lines := ls }
  | _ => none

def showWrites (ws : List (List Nat)) : String :=
  if ws.isEmpty then "none" else ";".intercalate (ws.map showNats)

def showResp (x : Resp Nat Nat) : String :=
  s!"{x.status} {match x.code with | none => "-" | some c => showCode c} {showNats x.named} " ++
  s!"{match x.dropped with | none => "-" | some k => toString k} {showWrites x.writes}"

def parseWrites (s : String) : Option (List (List Nat)) :=
  if s = "none" then some [] else (s.splitOn ";").mapM parseNats

def parseObs (s : String) : Option Spec.C32.Obs :=
  match tokens s with
  | [st, _code, named, dropped, writes] => do
    let st ← st.toNat?
    let named ← parseNats named
    let dropped ← (if dropped = "-" then some none else dropped.toNat?.map some)
    let writes ← parseWrites writes
    some { status := st, named := named, dropped := dropped, writes := writes }
  | _ => none

/-! LimitedReadCloser alone -/

def parseStep (s : String) : Option Step :=
  if s = "c" then some .close
  else if s.startsWith "r" then (s.drop 1).toNat?.map .read else none

structure LOp where
  limit : Int
  src : Src
  steps : List Step

/-- the bytes of an `l` op: `(7 i + 3) mod 256` -/
def patternData (size : Nat) : List Nat := (List.range size).map fun i => (7 * i + 3) % 256

def parseL : List String → Option LOp
  | [limit, size, chunks, eager, term, closeErr, steps] => do
    let limit ← parseInt limit
    let size ← size.toNat?
    let chunks ← parseNats chunks
    let eager ← parseBool eager
    let term ← parseTerm term
    let closeErr ← parseBool closeErr
    let steps ← (splitComma steps).mapM parseStep
    some { limit := limit, steps := steps,
           src := { data := patternData size, chunks := chunks, eager := eager, term := term, closeErr := closeErr } }
  | _ => none

def showStepRes : StepRes → String
  | .rd bs e => s!"{bs.length}/{showRErr e}"
  | .cl e => s!"c/{showCErr e}"

def bytesOf : List StepRes → List Nat
  | [] => []
  | .rd bs _ :: rs => bs ++ bytesOf rs
  | .cl _ :: rs => bytesOf rs

def isPrefix : List Nat → List Nat → Bool
  | [], _ => true
  | a :: as, b :: bs => a == b && isPrefix as bs
  | _ :: _, [] => false

def answerL (op : LOp) : String :=
  let (l, rs) := (LRC.new op.src op.limit).runSteps op.steps
  s!"{joinComma (rs.map showStepRes)} {boolStr (isPrefix (bytesOf rs) op.src.data)} {l.r.closes}"

def parseStepObs (s : String) : Option Spec.C32.StepObs :=
  match s.splitOn "/" with
  | [a, e] =>
    if a = "c" then some { n := 0, isErr := e ≠ "-", isLimit := e = "limit" }
    else a.toNat?.map fun n => { n := n, isErr := e ≠ "-", isLimit := false }
  | _ => none

def step (_ : Unit) (toks : List String) : Unit × String :=
  match toks with
  | "w" :: rest =>
    match parseW rest with
    | some op => ((), showResp (handle false (lineParser op.lines) op.req []))
    | none => ((), "bad-op")
  | "l" :: rest =>
    match parseL rest with
    | some op => ((), answerL op)
    | none => ((), "bad-op")
  | _ => ((), "bad-op")

def hexOf (toks : List String) : String := "_".intercalate toks

def oracle (obs : List (List String × String)) : Verdict :=
  obs.foldl (fun v (toks, ans) =>
    match toks with
    | "w" :: rest =>
      match parseW rest, parseObs ans with
      | some op, some o =>
        let c := Spec.C32.caseOf (lineParser op.lines) op.req
        let ok := Spec.C32.holdsOn c o
        let sizeTag :=
          if c.limit ≤ 0 then "unlimited"
          else if (c.size : Int) + 1 = c.limit then "size=limit-1"
          else if (c.size : Int) = c.limit then "size=limit"
          else if (c.size : Int) = c.limit + 1 then "size=limit+1"
          else if (c.size : Int) < c.limit then "size<limit" else "size>limit"
        let sig :=
          if o.status = 413 && !Spec.C32.overLimit c then "413-within-limit"
          else if o.status = 204 then "204-without-full-write"
          else if !(o.writes == []) then "stored-despite-error"
          else "wrong-answer"
        v.and { ok := ok, nontrivial := c.valid, tags := [s!"status={o.status}", sizeTag,
                  (if op.req.gzip then "gzip" else "plain")] ++
                  (if c.bad.isEmpty then [] else ["malformed"]),
                reason := if ok then "" else sig ++ ":" ++ hexOf toks ++ "=>" ++ ans.replace " " "_" }
      | _, _ => v.and (Verdict.fail "bad-line")
    | "l" :: rest =>
      match parseL rest with
      | some op =>
        match tokens ans with
        | [steps, pfx, _closes] =>
          match (splitComma steps).mapM parseStepObs with
          | some so =>
            let clean := op.src.term == .eof
            let ok := Spec.C32.holdsOnL op.limit op.src.data.length clean op.steps so && pfx == "1"
            let shaped := (Spec.C32.readsThenClose op.steps so 0 false).isSome
            v.and { ok := ok, nontrivial := shaped, tags := ["lrc"] ++ (if shaped then ["lrc-read-to-end"] else []),
                    reason := if ok then "" else "lrc-limit-verdict-wrong:" ++ hexOf toks ++ "=>" ++ ans.replace " " "_" }
          | none => v.and (Verdict.fail "bad-line")
        | _ => v.and (Verdict.fail "bad-line")
      | none => v.and (Verdict.fail "bad-line")
    | _ => v.and (Verdict.fail "bad-line")) (Verdict.pass false)

def driver : Driver Unit := { init := (), step := step, oracle := oracle }

end Influx.Drv.C32

def main (args : List String) : IO UInt32 := Influx.Drv.C32.driver.main args
