import Influx.Proto
import Influx.Model.KCRun
import Influx.Spec.C06

open Influx Influx.Proto Influx.KC Influx.Spec.C06

namespace Influx.Drv.C06

/-- state of a case: value type and layout of the last `L` op -/
structure St where
  typ : String
  files : List FileSpec

def parseTR (s : String) : Option TimeRange :=
  match s.splitOn ":" with
  | [a, b] => do some { Min := ← a.toInt?, Max := ← b.toInt? }
  | _ => none

def parseFile (s : String) : Option FileSpec :=
  if s = "-" then some { blocks := [], deletes := [] } else
  match s.splitOn "!" with
  | [bs] => do
    let blocks ← (bs.splitOn ";").mapM parseInts
    some { blocks := blocks, deletes := [] }
  | [bs, ds] => do
    let blocks ← if bs = "-" then some [] else (bs.splitOn ";").mapM parseInts
    let dels ← (ds.splitOn ";").mapM parseTR
    some { blocks := blocks, deletes := dels }
  | _ => none

def parseL : List String → Option St
  | ["L", typ, mode, decoy, fs] =>
    if !(["f", "i", "u", "b", "s"].contains typ) then none
    else if !(["0", "1"].contains mode) then none
    else if !(["0", "1", "2", "3"].contains decoy) then none
    else do
      let files ← (fs.splitOn "/").mapM parseFile
      if files.any (fun f => f.blocks.any List.isEmpty) then none
      else some { typ := typ, files := files }
  | _ => none

def parseOrder (s : String) : Option (List (Nat × Nat)) :=
  (splitComma s).mapM fun p =>
    match p.splitOn "." with
    | [a, b] => do some (← a.toNat?, ← b.toNat?)
    | _ => none

structure KOp where
  variant : String
  asc : Bool
  t : Int
  order : List (Nat × Nat)

def parseK : List String → Option KOp
  | ["K", v, d, t, ord] =>
    if v ≠ "s" ∧ v ≠ "a" then none
    else if d ≠ "a" ∧ d ≠ "d" then none
    else do
      let t ← t.toInt?
      if t < minI64 ∨ t > maxI64 then none
      else
        let order ← parseOrder ord
        some { variant := v, asc := d = "a", t := t, order := order }
  | _ => none

def proj (typ : String) (p : Nat) : Nat := if typ = "b" then p % 2 else p

def showPts (ps : List (Int × Nat)) : String :=
  joinComma (ps.map fun p => s!"{p.1}:{p.2}")

def showBlocks (typ : String) (bs : List (List (Int × Nat))) : String :=
  if bs.isEmpty then "-" else "|".intercalate (bs.map fun b => showPts (b.map fun p => (p.1, proj typ p.2)))

def showOrder (o : List (Nat × Nat)) : String := joinComma (o.map fun p => s!"{p.1}.{p.2}")

def parsePts (s : String) : Option (List (Int × Nat)) :=
  (splitComma s).mapM fun p =>
    match p.splitOn ":" with
    | [a, b] => do some (← a.toInt?, ← b.toNat?)
    | _ => none

def parseBlocks (s : String) : Option (List (List (Int × Nat))) :=
  if s = "-" then some [] else (s.splitOn "|").mapM parsePts

/-- distinct tombstones, sorted: what the harness prints for `TombstoneRange(key)` -/
def showTombs (ts : List TimeRange) : String :=
  let ds := ts.foldl (fun acc t => if acc.contains t then acc else acc ++ [t]) []
  joinComma ((sortTR ds).map fun t => s!"{t.Min}:{t.Max}")

def describe (files : List FileSpec) : String :=
  match fileStates files with
  | none => "bad-op"
  | some sts => "/".intercalate (sts.map fun st => s!"{st.entries.length}|{showTombs st.tombs}")

def valuesOp : List String → String
  | ["V", "x", a, lo, hi] =>
    match parsePts a, lo.toInt?, hi.toInt? with
    | some a, some lo, some hi => showPts (exclude a lo hi)
    | _, _, _ => "bad-op"
  | ["V", "i", a, lo, hi] =>
    match parsePts a, lo.toInt?, hi.toInt? with
    | some a, some lo, some hi => showPts (include_ a lo hi)
    | _, _, _ => "bad-op"
  | ["V", "m", a, b] =>
    match parsePts a, parsePts b with
    | some a, some b => showPts (merge a b)
    | _, _ => "bad-op"
  | _ => "bad-op"

def step (st : Option St) (toks : List String) : Option St × String :=
  match toks with
  | "L" :: _ =>
    match parseL toks with
    | some s => (some s, describe s.files)
    | none => (st, "bad-op")
  | "K" :: _ =>
    match st, parseK toks with
    | some s, some k =>
      match modelRead s.files k.t k.asc k.order with
      | .ok bs => (st, showOrder k.order ++ " " ++ showBlocks s.typ bs)
      | .error .badOrder => (st, "model:order-is-not-a-permutation-of-the-locations")
      | .error .stuck => (st, "model:stuck")
      | .error .emptyBlock => (st, "bad-op")
    | _, _ => (st, "bad-op")
  | "V" :: _ => (st, valuesOp toks)
  | _ => (st, "bad-op")

/-- the answer of a `K` op: `<order> <blocks>` -/
def parseKAns (s : String) : Option (List (Nat × Nat) × List (List (Int × Nat))) :=
  match s.splitOn " " with
  | [o, b] => do some (← parseOrder o, ← parseBlocks b)
  | _ => none

def underscore (toks : List String) : String := "_".intercalate toks

/-- Failure signatures, most severe first (a case reports its most severe one, so that a
    known finding never hides another failure of the same case):
      wrong-merge                          the delivered points differ from the statement
      read-failed / layout-not-opened      the real code errored, panicked or did not terminate
      sort-breaks-order-over-12-locations  as wrong-merge, but the REAL post-sort order of
                                           `seeks` violates OrderOK and there are more than 12
                                           locations (sort.Sort is pdqsort proper there)
      seek-at-int64-extreme                ascending seek at MinInt64 / descending at MaxInt64 -/
def severity (reason : String) : Nat :=
  if reason.startsWith "wrong-merge" then 0
  else if reason.startsWith "read-failed" then 1
  else if reason.startsWith "layout-not-opened" then 2
  else if reason.startsWith "sort-breaks-order-over-12-locations" then 3
  else 4

def oracle (obs : List (List String × String)) : Verdict :=
  let (_, v, fails) := obs.foldl (fun (acc : Option St × Verdict × List String) (toks, ans) =>
    let (st, v, fails) := acc
    match toks with
    | "L" :: _ =>
      match parseL toks with
      | some s =>
        if ans = "open-error" ∨ ans.startsWith "panic" ∨ ans = "timeout" then
          (some s, v, fails ++ ["layout-not-opened:" ++ underscore toks])
        else (some s, v, fails)
      | none => (st, v, fails)
    | "K" :: _ =>
      match st, parseK toks with
      | some s, some k =>
        match parseKAns ans with
        | some (ord, blocks) =>
          let ok := holdsOn (proj s.typ) s.files k.t k.asc blocks
          let extreme := (k.asc && k.t == minI64) || (!k.asc && k.t == maxI64)
          let seeks := seeksOf s.files k.t k.asc ord
          let okOrder := match seeks with | some sk => orderOK sk | none => false
          let nloc := match seeks with | some sk => sk.length | none => ord.length
          let tags :=
            [if k.asc then "asc" else "desc", if k.variant = "a" then "array" else "scalar", "type:" ++ s.typ] ++
            (match seeks with
             | none => ["order:not-a-permutation"]
             | some _ => [if okOrder then "orderOK" else "order-NOT-OK"]) ++
            [if nloc > 12 then "locs>12" else if nloc ≥ 2 then "locs2..12" else "locs<2"] ++
            (if s.files.any (fun f => !f.deletes.isEmpty) then ["tombstones"] else []) ++
            (if extreme then ["seek-extreme"] else []) ++
            (match seeks, seeksSorted s.files k.t k.asc with
             | some sk, some ins =>
               if sk.map (fun b => (b.file, b.blk)) == ins.map (fun b => (b.file, b.blk)) then ["order=insertion-sort"]
               else if sk.length ≤ 12 then ["order≠insertion-sort,n≤12"] else ["order≠insertion-sort,n>12"]
             | _, _ => []) ++
            (if filesOK s.files && seekOK k.t k.asc && okOrder then ["theorem-hypotheses-met"] else ["theorem-hypotheses-NOT-met"]) ++
            (if ok then [] else ["statement-fails"])
          let sig :=
            if extreme then "seek-at-int64-extreme"
            else if !okOrder && seeks.isSome && nloc > 12 then "sort-breaks-order-over-12-locations"
            else "wrong-merge"
          (st, v.and { ok := true, nontrivial := nloc ≥ 2, tags := tags },
           if ok then fails else fails ++ [sig ++ ":" ++ underscore toks ++ "=>" ++ ans.replace " " "_"])
        | none => (st, v, fails ++ ["read-failed:" ++ underscore toks ++ "=>" ++ ans.replace " " "_"])
      | _, _ => (st, v, fails)
    | _ => (st, v, fails)) ((none : Option St), Verdict.pass false, ([] : List String))
  match fails with
  | [] => v
  | f :: rest =>
    let worst := rest.foldl (fun a b => if severity b < severity a then b else a) f
    { v with ok := false, nontrivial := true, reason := worst }

def driver : Driver (Option St) := { init := none, step := step, oracle := oracle }

end Influx.Drv.C06

def main (args : List String) : IO UInt32 := Influx.Drv.C06.driver.main args
