/-
  Drv.C21 — string shell around Model.Reads / Spec.C21.  A case = a set of series rows
  (the mock store), then read requests.

  ops:
    row <tags> <cond> <typs> <shape> <ts> <vals>      add a series row; answer `ok`
        tags  : `k:v+k:v` (hex key, hex value, sorted by key), a dash for none
        cond  : a dash, or `<eq|ne|lt|le|gt|ge>:<value token>`   (SeriesRow.ValueCond `$ op literal`)
        typs  : one letter per shard (`f i u s b`)
        shape / ts / vals : as in Drv.C20 (timestamps need not be ascending across shards)
    filter <start> <stop>                               reads.NewFilteredResultSet
    group <by|none> <keys> <nilLo> <allTime> <start> <stop>    reads.NewGroupResultSet
  answers:
    ok <series>;<series>…            series = `<tags>=<read>`, read = `nil` | `<arrays>` | `<arrays>!err`
    ok <group>#<group>…              group  = `<vals>/<keys>/<series>;…`   vals: `~` nil, `x<hex>`
    (`ok -` = nothing)
-/
import Influx.Proto
import Influx.Model.WindowAggWire
import Influx.Model.Reads
import Influx.Spec.C21

open Influx Influx.Proto Influx.WindowAgg Influx.WindowAgg.Wire Influx.Reads

namespace Influx.Drv.C21

def blockSize : Nat := 1000

def isHex (s : String) : Bool := s.length % 2 == 0 && s.all fun c => c.isDigit || ('a' ≤ c && c ≤ 'f')

def parseTags (s : String) : Option (List (String × String)) :=
  if s = "-" then some [] else
  (s.splitOn "+").mapM fun kv =>
    match kv.splitOn ":" with
    | [k, v] => if isHex k && isHex v && !k.isEmpty then some (k, v) else none
    | _ => none

def showTags (t : List (String × String)) : String :=
  if t.isEmpty then "-" else "+".intercalate (t.map fun (k, v) => k ++ ":" ++ v)

def parseCmp : String → Option CmpOp
  | "eq" => some .eq | "ne" => some .ne | "lt" => some .lt | "le" => some .le
  | "gt" => some .gt | "ge" => some .ge | _ => none

def parseCond (s : String) : Option (Option Cond) :=
  if s = "-" then some none else
  match s.splitOn ":" with
  | [o, v] => do
    let o ← parseCmp o
    let v ← parseVal v
    match v with
    | .f _ | .i _ => some (some ⟨o, v⟩)
    | _ => none
  | _ => none

def parseTypC : Char → Option Typ
  | 'f' => some .f | 'i' => some .i | 'u' => some .u | 's' => some .s | 'b' => some .b | _ => none

def parseRow : List String → Option Row
  | [tags, cond, typs, shape, ts, vs] => do
    let tags ← parseTags tags
    let cond ← parseCond cond
    let typs ← typs.toList.mapM parseTypC
    let shape ← parseShape shape
    let ts ← parseInts ts
    let vs ← (splitComma vs).mapM parseVal
    if ts.length ≠ vs.length ∨ typs.length ≠ shape.length then none
    else
      let shards ← cutShards shape (ts.zip vs)
      let sh := (typs.zip (shape.zip shards)).map fun (t, (s, cs)) =>
        ({ typ := t, hasCursor := !s.isEmpty, chunks := cs } : Shard)
      if sh.all (fun s => s.chunks.all (·.all fun p => typOf p.2 == s.typ)) then
        some { tags := tags, cond := cond, shards := sh }
      else none
  | _ => none

inductive Op where
  | row (r : Row)
  | filter (start stop : Int)
  | group (q : GroupReq)

def parseKeys (s : String) : Option (List String) :=
  let ks := splitComma s
  if ks.all isHex then some ks else none

def parseOp : List String → Option Op
  | "row" :: rest => (parseRow rest).map .row
  | ["filter", a, b] => do
    let a ← a.toInt?
    let b ← b.toInt?
    some (.filter a b)
  | ["group", kind, keys, nl, at_, a, b] => do
    let by_ ← (if kind = "by" then some true else if kind = "none" then some false else none)
    let keys ← parseKeys keys
    let nl ← parseBool nl
    let at_ ← parseBool at_
    let a ← a.toInt?
    let b ← b.toInt?
    some (.group ⟨by_, keys, nl, at_, a, b⟩)
  | _ => none

def showRead : Option RowRead → String
  | none => "nil"
  | some r =>
    (if r.arrays.isEmpty then "-" else "|".intercalate (r.arrays.map showArr)) ++ (if r.typeErr then "!err" else "")

def showSeries (s : List (String × String) × Option RowRead) : String :=
  showTags s.1 ++ "=" ++ showRead s.2

/-- insertion sort of rendered tokens (order inside a group is not part of the observation) -/
def sortStrings (xs : List String) : List String :=
  xs.foldl (fun acc x =>
    let rec ins : List String → List String
      | [] => [x]
      | y :: ys => if x < y then x :: y :: ys else y :: ins ys
    ins acc) []

def showOptVal : Option String → String
  | none => "~"
  | some v => if v.isEmpty then "~" else "x" ++ v    -- empty value: rendered as nil (see harness)

def showGroup (by_ : Bool) (g : Group) : String :=
  let ss := g.series.map showSeries
  let ss := if by_ then sortStrings ss else ss
  joinComma (g.vals.map showOptVal) ++ "/" ++ joinComma g.keys ++ "/" ++ ";".intercalate ss

def showList (xs : List String) (sep : String) : String :=
  if xs.isEmpty then "ok -" else "ok " ++ sep.intercalate xs

/-- two series with data whose group-key tuples differ share one sort key: which of them
    leads the merged group (and so the reported PartitionKeyVals) depends on the internal
    order of `sort.Slice` (not stable) — not predicted by the model -/
def actualCollision (q : GroupReq) (rows : List Row) : Bool :=
  q.by_ &&
  let live := rows.filter fun r => q.allTime || hasPoints blockSize q.start q.stop r
  live.any fun a => live.any fun b =>
    sortKey q.keys q.nilLo a.tags == sortKey q.keys q.nilLo b.tags &&
      Spec.C21.tuple q.keys a.tags != Spec.C21.tuple q.keys b.tags

def step (rows : List Row) (toks : List String) : List Row × String :=
  match parseOp toks with
  | some (.row r) => (rows ++ [r], "ok")
  | some (.filter a b) => (rows, showList ((readFilter blockSize a b rows).map showSeries) ";")
  | some (.group q) =>
    let ans := showList ((readGroup blockSize q rows).map (showGroup q.by_)) "#"
    (rows, if actualCollision q rows then "* " ++ ans else ans)
  | none => (rows, "bad-op")

/-! parsing the implementation's answers -/

def parseRead (s : String) : Option (Option RowRead) :=
  if s = "nil" then some none else
  let err : Bool := s.endsWith "!err"
  let body : String := if err then String.ofList (s.toList.take (s.length - 4)) else s
  if body = "-" then some (some ⟨[], err⟩)
  else ((body.splitOn "|").mapM fun (a : String) => (a.splitOn ",").mapM parsePt).map fun as => some ⟨as, err⟩

def parseSeries (s : String) : Option Spec.C21.SeriesObs :=
  match s.splitOn "=" with
  | [t, r] => do
    let t ← parseTags t
    let r ← parseRead r
    some ⟨t, r⟩
  | _ => none

def parseSeriesList (s : String) : Option (List Spec.C21.SeriesObs) :=
  if s.isEmpty then some [] else (s.splitOn ";").mapM parseSeries

def parseOptVal (s : String) : Option (Option String) :=
  if s = "~" then some none
  else match s.toList with
    | 'x' :: r => some (some (String.ofList r))
    | _ => none

def parseGroupObs (s : String) : Option Spec.C21.GroupObs :=
  match s.splitOn "/" with
  | [vals, _keys, series] => do
    let vals ← (splitComma vals).mapM parseOptVal
    let series ← parseSeriesList series
    some ⟨vals, series⟩
  | _ => none

def dropOk (s : String) : Option String :=
  if s = "ok -" then some "" else if s.startsWith "ok " then some (String.ofList (s.toList.drop 3)) else none

/-- bytes of a hex string -/
def hexPairs : List Char → List (Char × Char)
  | a :: b :: r => (a, b) :: hexPairs r
  | _ => []

/-- a tag value that can make two different group-key tuples share one sort key in
    groupBySort: it contains a NUL byte (the separator, also NilSortLo), or is exactly
    NilSortHi (0xff) while nil sorts high -/
def collidingValue (nilLo : Bool) (v : String) : Bool :=
  (hexPairs v.toList).contains ('0', '0') || (!nilLo && v == "ff")

def collisionProne (q : GroupReq) (rows : List Row) : Bool :=
  q.by_ && rows.any fun r => q.keys.any fun k =>
    match tagGet r.tags k with
    | some v => collidingValue q.nilLo v
    | none => false

/-- a value condition on an unsigned field: `evalBinaryExpr` has no `case uint64`, the
    condition is false for every point (known finding `unsigned-value-predicate`) -/
def unsignedCond (r : Row) : Bool :=
  r.cond.isSome && r.shards.any fun s => s.hasCursor && s.typ == .u

structure OState where
  rows : List Row := []
  v : Verdict := Verdict.pass false

def oracle1 (st : OState) (toks : List String) (ans : String) : OState :=
  match parseOp toks with
  | none =>
    if ans == "bad-op" then { st with v := st.v.and { ok := true, tags := ["malformed"] } }
    else { st with v := st.v.and (Verdict.fail "bad-line") }
  | some (.row r) =>
    if ans == "ok" then { st with rows := st.rows ++ [r] } else { st with v := st.v.and (Verdict.fail "row-not-stored") }
  | some (.filter a b) =>
    let obs := (dropOk ans).bind parseSeriesList
    let ok := match obs with
      | some o => Spec.C21.holdsFilter a b st.rows o
      | none => false
    let multi := st.rows.any fun r => (r.shards.filter (·.hasCursor)).length > 1
    let tags := ["filter"] ++ (if multi then ["multi-shard"] else []) ++
      (if st.rows.any (·.cond.isSome) then ["value-cond"] else [])
    let nt : Bool := !st.rows.isEmpty
    let known : Bool := !ok && (match obs with
      | some o => Spec.C21.holdsFilterX unsignedCond a b st.rows o
      | none => false)
    let why : String := (if known then "unsigned-value-predicate" else "filter-read-differs") ++ ":start=" ++ toString a ++ "_stop=" ++ toString b ++ "_rows=" ++
      toString st.rows.length ++ "_got=" ++ (String.ofList (ans.toList.take 80)).replace " " "_"
    let vd : Verdict := { ok := ok, nontrivial := nt, tags := tags, reason := if ok then "" else why }
    { st with v := st.v.and vd }
  | some (.group q) =>
    let obs := (dropOk ans).bind fun body =>
      if body.isEmpty then some [] else (body.splitOn "#").mapM parseGroupObs
    let ok := match obs with
      | some o => Spec.C21.holdsGroup q st.rows o
      | none => false
    let tags := [if q.by_ then "group-by" else "group-none"] ++ (if collisionProne q st.rows then ["odd-key-values"] else []) ++ (if q.nilLo then ["nil-lo"] else []) ++
      (if q.allTime then ["all-time"] else []) ++
      (if (obs.getD []).length > 1 then ["groups>1"] else [])
    let nt : Bool := !st.rows.isEmpty
    let knownU : Bool := !ok && (match obs with
      | some o => Spec.C21.holdsGroupX unsignedCond q st.rows o
      | none => false)
    let sig : String := if knownU then "unsigned-value-predicate"
      else if collisionProne q st.rows then "group-sortkey-collision" else "group-read-differs"
    let why : String := sig ++ ":by=" ++ boolStr q.by_ ++ "_keys=" ++ joinComma q.keys ++ "_nilLo=" ++
      boolStr q.nilLo ++ "_start=" ++ toString q.start ++ "_stop=" ++ toString q.stop ++ "_got=" ++
      (String.ofList (ans.toList.take 80)).replace " " "_"
    let vd : Verdict := { ok := ok, nontrivial := nt, tags := tags, reason := if ok then "" else why }
    { st with v := st.v.and vd }

def oracle (obs : List (List String × String)) : Verdict :=
  (obs.foldl (fun st (toks, ans) => oracle1 st toks ans) {}).v

def driver : Driver (List Row) := { init := [], step := step, oracle := oracle }

end Influx.Drv.C21

def main (args : List String) : IO UInt32 := Influx.Drv.C21.driver.main args
