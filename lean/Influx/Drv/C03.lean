import Influx.Model.EngineProto
import Influx.Spec.C03

open Influx Influx.Proto Influx.Model.Engine

namespace Influx.Drv.C03

def tagsOf (tr : List (Op × Obs)) : List String :=
  let has (p : Op → Bool) := tr.any fun x => p x.1
  (if has (fun | .delete .. => true | _ => false) then ["delete"] else []) ++
  (if has (fun | .snapBegin => true | _ => false) then ["snapshot"] else []) ++
  (if has (fun | .snapTo .written => true | .snapTo .replaced => true | .snapTo .cleared => true | _ => false) then ["snapshot-substeps"] else []) ++
  (if has (fun | .compact .. => true | _ => false) then ["compaction"] else []) ++
  (if has (fun | .crash _ => true | _ => false) then ["restart"] else [])

/-- a delete that returned ok and a later read of one of its series -/
def nontrivial (tr : List (Op × Obs)) : Bool :=
  let rec go : List (Op × Obs) → List Nat → Bool
    | [], _ => false
    | (.delete ss _ _, .ok) :: tr, acc => go tr (acc ++ ss)
    | (.read k _ _ _, _) :: tr, acc => acc.contains k.series || go tr acc
    | _ :: tr, acc => go tr acc
  go tr []

def oracle (obs : List (List String × String)) : Verdict :=
  match LineProto.caseTrace obs with
  | none => Verdict.fail "bad-line:"
  | some tr =>
    match Spec.C03.check tr with
    | none => { ok := Spec.C03.holdsOn tr, nontrivial := nontrivial tr, tags := tagsOf tr }
    | some r => { ok := Spec.C03.holdsOn tr, nontrivial := true, tags := tagsOf tr, reason := r }

def driver : Driver State := { init := init, step := LineProto.modelStep, oracle := oracle }

end Influx.Drv.C03

def main (args : List String) : IO UInt32 := Influx.Drv.C03.driver.main args
