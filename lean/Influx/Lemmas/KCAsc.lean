/-
  Lemmas.KCAsc — the ascending cursor: invariant `InvA` of the read marks relative to a
  watermark `W` (everything at or below `W` has been delivered, nothing above it), and the
  effect of one Read…Block.
-/
import Influx.Lemmas.KCFold

namespace Influx.KC
open Influx.Generated.KeyCursor

variable {V : Type} {n : Nat}

/-- ascending invariant: marks are `(-∞, readMax]` with `readMax ≤ W`; every live point `≤ W`
    of every location is marked read; locations with unread values are in `current`, which is
    in `seeks` order -/
structure InvA (B : Vector (Block V) n) (rd : Marks n) (W : Int) (cur : List (Fin n)) : Prop where
  rmin : ∀ i : Fin n, rd[i].1 = minI64
  rmax : ∀ i : Fin n, rd[i].2 ≤ W
  done : ∀ i : Fin n, ∀ p ∈ live B[i], p.1 ≤ W → p.1 ≤ rd[i].2
  cover : ∀ i : Fin n, curVals B rd i ≠ [] → i ∈ cur
  incr : cur.Pairwise (· < ·)

theorem InvA.mem_unread {B : Vector (Block V) n} {rd : Marks n} {W : Int} {cur : List (Fin n)}
    (inv : InvA B rd W cur) (hwf : ∀ i : Fin n, BlockWF B[i]) {i : Fin n} {p : Int × V} :
    p ∈ curVals B rd i ↔ p ∈ live B[i] ∧ W < p.1 := by
  rw [mem_curVals]
  have h1 := inv.rmin i
  have h2 := inv.rmax i
  constructor
  · rintro ⟨hl, hn⟩
    refine ⟨hl, ?_⟩
    have h3 := inv.done i p hl
    have h4 := (hwf i).live_inEntry hl
    have h5 := (hwf i).lo
    omega
  · rintro ⟨hl, hw⟩
    exact ⟨hl, by omega⟩

/-- dropping a first location that has nothing unread keeps the invariant -/
theorem InvA.drop {B : Vector (Block V) n} {rd : Marks n} {W : Int} {f : Fin n} {rest : List (Fin n)}
    (inv : InvA B rd W (f :: rest)) (he : curVals B rd f = []) : InvA B rd W rest :=
  { rmin := inv.rmin, rmax := inv.rmax, done := inv.done
    cover := by
      intro i hi
      rcases List.mem_cons.1 (inv.cover i hi) with rfl | h
      · exact absurd he hi
      · exact h
    incr := (List.pairwise_cons.1 inv.incr).2 }

theorem shared_overlap {B : Vector (Block V) n} (hwf : ∀ i : Fin n, BlockWF B[i]) {rd : Marks n}
    {minT maxT : Int} {a b : Fin n} {ts : Int}
    (ha : ts ∈ keys (windowed B rd minT maxT a)) (hb : ts ∈ keys (windowed B rd minT maxT b)) :
    B[a].entry.MinTime ≤ B[b].entry.MaxTime ∧ B[b].entry.MinTime ≤ B[a].entry.MaxTime := by
  obtain ⟨va, hva⟩ := mem_keys.1 ha
  obtain ⟨vb, hvb⟩ := mem_keys.1 hb
  have h1 := (hwf a).live_inEntry (mem_curVals.1 (mem_windowed.1 hva).1).1
  have h2 := (hwf b).live_inEntry (mem_curVals.1 (mem_windowed.1 hvb).1).1
  simp only at h1 h2
  omega

theorem include_eq_self {a : Vals V} {lo hi : Int} (h : ∀ p ∈ a, lo ≤ p.1 ∧ p.1 ≤ hi) : include_ a lo hi = a := by
  unfold include_
  apply List.filter_eq_self.2
  intro p hp
  have := h p hp
  simp [this]

/-- Read…Block with `current = f :: rest` (also for `rest = []`), ascending -/
theorem readMulti_asc {B : Vector (Block V) n} (hwf : ∀ i : Fin n, BlockWF B[i]) (hord : OrderOKv B)
    {rd : Marks n} {W : Int} {f : Fin n} {rest : List (Fin n)} (inv : InvA B rd W (f :: rest))
    (hne : curVals B rd f ≠ []) :
    ∃ W', W < W' ∧ InvA B (readMulti true B rd f rest (curVals B rd f)).1 W' (f :: rest) ∧
      SortedV (readMulti true B rd f rest (curVals B rd f)).2 ∧
      (readMulti true B rd f rest (curVals B rd f)).2 ≠ [] ∧
      ∀ p, p ∈ (readMulti true B rd f rest (curVals B rd f)).2 ↔ IsWinner B p ∧ W < p.1 ∧ p.1 ≤ W' := by
  -- the first block's remaining values and their bounds
  have hsv : SortedV (curVals B rd f) := curVals_sorted hwf rd f
  obtain ⟨lo, hlo⟩ := minTime?_isSome hne
  obtain ⟨hi, hhi⟩ := maxTime?_isSome hne
  obtain ⟨hlok, hlo_le⟩ := minTime?_le hsv hlo
  obtain ⟨hhik, hhi_le⟩ := le_maxTime? hsv hhi
  have hincr := List.pairwise_cons.1 inv.incr
  -- W < lo ≤ hi
  obtain ⟨vlo, hvlo⟩ := mem_keys.1 hlok
  have hWlo : W < lo := ((inv.mem_unread hwf).1 hvlo).2
  have hlohi : lo ≤ hi := hhi_le _ hvlo
  have hlo64 : minI64 ≤ lo := by
    have := (hwf f).live_inEntry ((inv.mem_unread hwf).1 hvlo).1
    have := (hwf f).lo
    simp only at *; omega
  -- the window
  let minT := growMin B rd rest lo
  have hminT_lo : minT ≤ lo := growMin_le_init B rd rest lo
  have hminT_64 : minI64 ≤ minT := growMin_ge B rd rest lo minI64 hlo64 (fun i => (hwf i).lo)
  have hminT_entry : ∀ i ∈ rest, isRead B rd i = false → minT ≤ B[i].entry.MinTime :=
    fun i hi hr => growMin_le_entry B rd rest lo hi hr
  -- every unread value of a location in `current` is at or above minT
  have hminT_unread : ∀ i ∈ f :: rest, ∀ p ∈ curVals B rd i, minT ≤ p.1 := by
    intro i hi p hp
    rcases List.mem_cons.1 hi with rfl | hi
    · have := hlo_le p hp; omega
    · have hr : isRead B rd i = false := by
        cases h : isRead B rd i with
        | false => rfl
        | true => rw [curVals_nil_of_isRead hwf h] at hp; cases hp
      have := hminT_entry i hi hr
      have := (hwf i).live_inEntry (mem_curVals.1 hp).1
      omega
  -- unfold the function up to the merge loop
  have hunf : ∃ maxT, hi ≤ maxT ∧
      readMulti true B rd f rest (curVals B rd f) =
        (markAt (mergeLoop true B minT maxT rest rd (curVals B rd f)).1 f minT maxT,
         (mergeLoop true B minT maxT rest rd (curVals B rd f)).2) := by
    unfold readMulti windowInit
    simp only [hlo, hhi, if_true]
    cases hfo : firstOverlap B rd rest (growMin B rd rest lo) hi with
    | none => exact ⟨hi, Int.le_refl _, rfl⟩
    | some i =>
      refine ⟨if B[i].entry.MaxTime > hi then B[i].entry.MaxTime else hi, by split <;> omega, ?_⟩
      dsimp only
      rw [include_eq_self]
      intro p hp
      have h1 := hlo_le p hp
      have h2 := hhi_le p hp
      constructor
      · show growMin B rd rest lo ≤ p.1; omega
      · split <;> omega
  obtain ⟨maxT, hmaxT, heq⟩ := hunf
  rw [heq]
  simp only
  -- the merge loop
  have hnd : rest.Nodup := hincr.2.imp (fun h => Fin.ne_of_lt h)
  obtain ⟨hmarks, hfold⟩ := mergeLoop_spec true hwf minT maxT rest rd rd (curVals B rd f) hnd (fun _ _ => rfl)
  let U : Fin n → Vals V := windowed B rd minT maxT
  have hUs : ∀ i, SortedV (U i) := windowed_sorted hwf rd minT maxT
  have hUf : U f = curVals B rd f := by
    show include_ (curVals B rd f) minT maxT = _
    apply include_eq_self
    intro p hp
    have h1 := hlo_le p hp
    have h2 := hhi_le p hp
    omega
  have won0 : Won U (fun i => B[i].file) (fun x => x = f) (curVals B rd f) := by
    have := Won.single U (fun i : Fin n => B[i].file) f (hUs f)
    rwa [hUf] at this
  have won : Won U (fun i => B[i].file) (fun x => x = f ∨ x ∈ rest)
      (mergeLoop true B minT maxT rest rd (curVals B rd f)).2 := by
    rw [hfold]
    apply Won.fold_asc hUs rest _ _ won0
    · rintro i hi k rfl ts hk hi'
      obtain ⟨o1, o2⟩ := shared_overlap hwf hk hi'
      exact hord k i (hincr.1 i hi) o1 o2
    · refine hincr.2.imp ?_
      intro a b hab ts ha hb
      obtain ⟨o1, o2⟩ := shared_overlap hwf ha hb
      exact hord a b hab o1 o2
  -- membership in U for the locations of `current`
  have hU : ∀ i ∈ f :: rest, ∀ p, p ∈ U i ↔ p ∈ live B[i] ∧ W < p.1 ∧ p.1 ≤ maxT := by
    intro i hi p
    show p ∈ windowed B rd minT maxT i ↔ _
    rw [mem_windowed, inv.mem_unread hwf]
    constructor
    · rintro ⟨⟨h1, h2⟩, _, h4⟩; exact ⟨h1, h2, h4⟩
    · rintro ⟨h1, h2, h3⟩
      exact ⟨⟨h1, h2⟩, hminT_unread i hi p ((inv.mem_unread hwf).2 ⟨h1, h2⟩), h3⟩
  -- locations outside `current` have nothing above W
  have hout : ∀ i : Fin n, i ∉ f :: rest → ∀ p ∈ live B[i], ¬ W < p.1 := by
    intro i hi p hp hw
    have : curVals B rd i ≠ [] := by
      intro e
      have := (inv.mem_unread hwf).2 ⟨hp, hw⟩
      rw [e] at this; cases this
    exact hi (inv.cover i this)
  have hWmax : W < maxT := by omega
  refine ⟨maxT, hWmax, ?_, won.sorted, ?_, ?_⟩
  · -- the invariant for the new marks
    have hnew : ∀ j : Fin n,
        (markAt (mergeLoop true B minT maxT rest rd (curVals B rd f)).1 f minT maxT)[j] =
          if j ∈ f :: rest then markRead rd[j] minT maxT else rd[j] := by
      intro j
      rw [markAt_get]
      by_cases hjf : f = j
      · subst hjf
        simp only [if_true, List.mem_cons, true_or]
        rw [hmarks f]
        split
        · exact markRead_idem _ _ _
        · rfl
      · have : ¬ j = f := fun e => hjf e.symm
        simp only [hjf, if_false, List.mem_cons, this, false_or]
        exact hmarks j
    have hfst : ∀ j : Fin n, (markAt (mergeLoop true B minT maxT rest rd (curVals B rd f)).1 f minT maxT)[j].1 = minI64 := by
      intro j
      rw [hnew j]
      have := inv.rmin j
      split
      · rw [markRead_fst]; split <;> omega
      · exact this
    have hsnd : ∀ j : Fin n, (markAt (mergeLoop true B minT maxT rest rd (curVals B rd f)).1 f minT maxT)[j].2 =
        if j ∈ f :: rest then maxT else rd[j].2 := by
      intro j
      rw [hnew j]
      have := inv.rmax j
      split
      · rw [markRead_snd]; split <;> omega
      · rfl
    refine { rmin := hfst, rmax := ?_, done := ?_, cover := ?_, incr := inv.incr }
    · intro j
      rw [hsnd j]
      have := inv.rmax j
      split <;> omega
    · intro j p hp hpw
      rw [hsnd j]
      split
      · exact hpw
      · rename_i hj
        by_cases hw : W < p.1
        · exact absurd hw (hout j hj p hp)
        · exact inv.done j p hp (by omega)
    · intro j hj
      apply inv.cover j
      intro e
      apply hj
      apply List.eq_nil_iff_forall_not_mem.2
      intro p hp
      have : p ∈ curVals B rd j := by
        refine curVals_mono ?_ ?_ hp
        · rw [hfst j, inv.rmin j]; exact Int.le_refl _
        · rw [hsnd j]
          have := inv.rmax j
          split <;> omega
      rw [e] at this; cases this
  · -- non-empty: the first block's values are in it
    intro e
    have : (lo, vlo) ∈ (mergeLoop true B minT maxT rest rd (curVals B rd f)).2 := by
      -- the timestamp lo is contributed by f, so it is a key of the result
      have hk : lo ∈ keys (mergeLoop true B minT maxT rest rd (curVals B rd f)).2 :=
        (won.kmem lo).2 ⟨f, Or.inl rfl, by rw [hUf]; exact hlok⟩
      rw [e] at hk; cases hk
    rw [e] at this; cases this
  · -- exactly the winners in (W, maxT]
    intro p
    rw [won.mem p]
    constructor
    · rintro ⟨i, hi, hpi, hmax⟩
      have hi' : i ∈ f :: rest := by
        rcases hi with rfl | hi
        · exact List.mem_cons_self ..
        · exact List.mem_cons_of_mem _ hi
      obtain ⟨hl, hw, hm⟩ := (hU i hi' p).1 hpi
      refine ⟨⟨i, hl, ?_⟩, hw, hm⟩
      intro k hk
      obtain ⟨v, hv⟩ := mem_keys.1 hk
      by_cases hk' : k ∈ f :: rest
      · apply hmax k (by
          rcases List.mem_cons.1 hk' with rfl | h
          · exact Or.inl rfl
          · exact Or.inr h)
        exact mem_keys_of_mem (p := (p.1, v)) ((hU k hk' (p.1, v)).2 ⟨hv, hw, hm⟩)
      · exact absurd hw (hout k hk' (p.1, v) hv)
    · rintro ⟨⟨i, hl, hmax⟩, hw, hm⟩
      have hi' : i ∈ f :: rest := by
        apply Classical.byContradiction
        intro h
        exact hout i h p hl hw
      refine ⟨i, by
        rcases List.mem_cons.1 hi' with rfl | h
        · exact Or.inl rfl
        · exact Or.inr h, (hU i hi' p).2 ⟨hl, hw, hm⟩, ?_⟩
      intro k hk hkk
      apply hmax k
      obtain ⟨v, hv⟩ := mem_keys.1 hkk
      have hk' : k ∈ f :: rest := by
        rcases hk with rfl | h
        · exact List.mem_cons_self ..
        · exact List.mem_cons_of_mem _ h
      exact mem_keys_of_mem (p := (p.1, v)) ((hU k hk' (p.1, v)).1 hv).1

end Influx.KC
