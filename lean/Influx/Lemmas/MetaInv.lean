/-
  Lemmas.MetaInv — the well-formedness invariant of the meta data and the lookup/update
  lemmas (`getRP`, `setRP`) it is carried through.
-/
import Influx.Lemmas.MetaWriter

namespace Influx.Meta
open Influx.Generated.Meta

/-- a shard group as `CreateShardGroup` makes them: non-empty, inside the int64 nanosecond
    range, not truncated, deleted at a wall-clock time (never the zero time or the epoch) -/
structure WFGroup (g : ShardGroupInfo) : Prop where
  lo : MinNanoTime ≤ g.StartTime
  ne : g.StartTime < g.EndTime
  hi : g.EndTime ≤ MaxNanoTime + 1
  tr : g.TruncatedAt = zeroTime
  del : g.DeletedAt = zeroTime ∨ (0 < g.DeletedAt ∧ g.DeletedAt ≤ MaxNanoTime)

/-- two groups never both hold a timestamp, unless one of them is deleted -/
def Disj (a b : ShardGroupInfo) : Prop :=
  a.DeletedAt ≠ zeroTime ∨ b.DeletedAt ≠ zeroTime ∨ a.EndTime ≤ b.StartTime ∨ b.EndTime ≤ a.StartTime

theorem Disj.symm {a b : ShardGroupInfo} (h : Disj a b) : Disj b a := by
  unfold Disj at *; omega

structure WFRP (r : RetentionPolicyInfo) : Prop where
  sgd : 0 < r.ShardGroupDuration
  groups : ∀ g ∈ r.ShardGroups, WFGroup g
  disj : r.ShardGroups.Pairwise Disj

structure WFDB (di : DatabaseInfo) : Prop where
  rps : ∀ r ∈ di.RetentionPolicies, WFRP r
  names : (di.RetentionPolicies.map (·.Name)).Nodup

structure WF (d : Data) : Prop where
  dbs : ∀ di ∈ d.Databases, WFDB di
  names : (d.Databases.map (·.Name)).Nodup

/-! ### find by name in lists with distinct names -/

theorem find_name_of_mem {α : Type} (name : α → String) (l : List α) (x : α)
    (hn : (l.map name).Nodup) (hx : x ∈ l) : l.find? (fun y => name y == name x) = some x := by
  induction l with
  | nil => simp at hx
  | cons y ys ih =>
    simp only [List.map_cons, List.nodup_cons] at hn
    rcases List.mem_cons.mp hx with rfl | hx
    · simp
    · have hne : name y ≠ name x := by
        intro h; apply hn.1; rw [h]; exact List.mem_map_of_mem hx
      rw [List.find?_cons_of_neg (by simpa using hne)]
      exact ih hn.2 hx

theorem findDB_of_mem {d : Data} (hn : (d.Databases.map (·.Name)).Nodup) {di : DatabaseInfo}
    (h : di ∈ d.Databases) : findDB d di.Name = some di :=
  find_name_of_mem DatabaseInfo.Name d.Databases di hn h

theorem findRP_of_mem {di : DatabaseInfo} (hn : (di.RetentionPolicies.map (·.Name)).Nodup)
    {r : RetentionPolicyInfo} (h : r ∈ di.RetentionPolicies) : di.findRP r.Name = some r :=
  find_name_of_mem RetentionPolicyInfo.Name di.RetentionPolicies r hn h

theorem getRP_of_mem {d : Data} (hwf : WF d) {di : DatabaseInfo} {r : RetentionPolicyInfo}
    (hdi : di ∈ d.Databases) (hr : r ∈ di.RetentionPolicies) : getRP d di.Name r.Name = .ok r := by
  simp [getRP, retentionPolicy, findDB_of_mem hwf.names hdi, findRP_of_mem (hwf.dbs di hdi).names hr]

/-- what `getRP` returns is a policy of a database of `d`, with those names -/
theorem getRP_ok {d : Data} {db rp : String} {r : RetentionPolicyInfo} (h : getRP d db rp = .ok r) :
    ∃ di ∈ d.Databases, di.Name = db ∧ r ∈ di.RetentionPolicies ∧ r.Name = rp := by
  unfold getRP retentionPolicy at h
  cases hdb : findDB d db with
  | none => simp [hdb] at h
  | some di =>
    simp only [hdb] at h
    cases hrp : di.findRP rp with
    | none => simp [hrp] at h
    | some r' =>
      simp only [hrp, Except.ok.injEq] at h
      subst h
      unfold findDB at hdb
      unfold DatabaseInfo.findRP at hrp
      refine ⟨di, List.mem_of_find?_eq_some hdb, by simpa using List.find?_some hdb,
        List.mem_of_find?_eq_some hrp, by simpa using List.find?_some hrp⟩

theorem getRP_wf {d : Data} (hwf : WF d) {db rp : String} {r : RetentionPolicyInfo}
    (h : getRP d db rp = .ok r) : WFRP r := by
  obtain ⟨di, hdi, _, hr, _⟩ := getRP_ok h
  exact (hwf.dbs di hdi).rps r hr

/-! ### `setRP` -/

theorem mem_goRP {rp : String} {r' x : RetentionPolicyInfo} {l : List RetentionPolicyInfo}
    (h : x ∈ setRP.goRP rp r' l) : x = r' ∨ x ∈ l := by
  induction l with
  | nil => simp [setRP.goRP] at h
  | cons y ys ih =>
    simp only [setRP.goRP] at h
    split at h
    · rcases List.mem_cons.mp h with h | h
      · exact Or.inl h
      · exact Or.inr (List.mem_cons_of_mem _ h)
    · rcases List.mem_cons.mp h with h | h
      · exact Or.inr (by simp [h])
      · rcases ih h with h | h
        · exact Or.inl h
        · exact Or.inr (List.mem_cons_of_mem _ h)

theorem names_goRP (rp : String) (r' : RetentionPolicyInfo) (hn : r'.Name = rp) (l : List RetentionPolicyInfo) :
    (setRP.goRP rp r' l).map (·.Name) = l.map (·.Name) := by
  induction l with
  | nil => simp [setRP.goRP]
  | cons y ys ih =>
    simp only [setRP.goRP]
    split
    · next h => simp only [beq_iff_eq] at h; simp [hn, h]
    · simp [ih]

theorem find_goRP_same (rp : String) (r' : RetentionPolicyInfo) (hn : r'.Name = rp) (l : List RetentionPolicyInfo)
    (hex : (l.find? (·.Name == rp)).isSome) : (setRP.goRP rp r' l).find? (·.Name == rp) = some r' := by
  induction l with
  | nil => simp at hex
  | cons y ys ih =>
    simp only [setRP.goRP]
    split
    · simp [hn]
    · next h =>
      simp only [List.find?_cons, h] at hex ⊢
      exact ih hex

theorem find_goRP_other (rp rp2 : String) (r' : RetentionPolicyInfo) (hn : r'.Name = rp) (hne : rp2 ≠ rp)
    (l : List RetentionPolicyInfo) : (setRP.goRP rp r' l).find? (·.Name == rp2) = l.find? (·.Name == rp2) := by
  induction l with
  | nil => simp [setRP.goRP]
  | cons y ys ih =>
    simp only [setRP.goRP]
    split
    · next h =>
      simp only [beq_iff_eq] at h
      have h1 : (r'.Name == rp2) = false := by simp [hn]; exact fun h => hne h.symm
      have h2 : (y.Name == rp2) = false := by simp [h]; exact fun h => hne h.symm
      simp [List.find?_cons, h1, h2]
    · simp only [List.find?_cons, ih]

theorem mem_goDB {db rp : String} {r' : RetentionPolicyInfo} {x : DatabaseInfo} {l : List DatabaseInfo}
    (h : x ∈ setRP.goDB db rp r' l) :
    x ∈ l ∨ ∃ y ∈ l, y.Name = db ∧ x = { y with RetentionPolicies := setRP.goRP rp r' y.RetentionPolicies } := by
  induction l with
  | nil => simp [setRP.goDB] at h
  | cons y ys ih =>
    simp only [setRP.goDB] at h
    split at h
    · next hy =>
      rcases List.mem_cons.mp h with h | h
      · exact Or.inr ⟨y, by simp, by simpa using hy, h⟩
      · exact Or.inl (List.mem_cons_of_mem _ h)
    · rcases List.mem_cons.mp h with h | h
      · exact Or.inl (by simp [h])
      · rcases ih h with h | ⟨z, hz, hzn, hx⟩
        · exact Or.inl (List.mem_cons_of_mem _ h)
        · exact Or.inr ⟨z, List.mem_cons_of_mem _ hz, hzn, hx⟩

theorem names_goDB (db rp : String) (r' : RetentionPolicyInfo) (l : List DatabaseInfo) :
    (setRP.goDB db rp r' l).map (·.Name) = l.map (·.Name) := by
  induction l with
  | nil => simp [setRP.goDB]
  | cons y ys ih =>
    simp only [setRP.goDB]
    split
    · simp
    · simp [ih]

/-- replacing a policy by a well-formed one of the same name keeps the data well-formed -/
theorem WF_setRP {d : Data} (hwf : WF d) (db rp : String) (r' : RetentionPolicyInfo)
    (hn : r'.Name = rp) (hr : WFRP r') : WF (setRP d db rp r') := by
  refine ⟨?_, ?_⟩
  · intro di hdi
    simp only [setRP] at hdi
    rcases mem_goDB hdi with h | ⟨y, hy, _, rfl⟩
    · exact hwf.dbs di h
    · have hy' := hwf.dbs y hy
      refine ⟨?_, ?_⟩
      · intro r hrm
        rcases mem_goRP hrm with rfl | h
        · exact hr
        · exact hy'.rps r h
      · simp only [names_goRP rp r' hn]; exact hy'.names
  · simp only [setRP, names_goDB]; exact hwf.names

theorem findDB_setRP (d : Data) (db rp db2 : String) (r' : RetentionPolicyInfo) :
    findDB (setRP d db rp r') db2 =
      (findDB d db2).map fun di => if di.Name == db then { di with RetentionPolicies := setRP.goRP rp r' di.RetentionPolicies } else di := by
  simp only [findDB, setRP]
  induction d.Databases with
  | nil => simp [setRP.goDB]
  | cons y ys ih =>
    simp only [setRP.goDB]
    by_cases hy : (y.Name == db) = true
    · simp only [hy, ↓reduceIte]
      by_cases h2 : (y.Name == db2) = true
      · rw [List.find?_cons_of_pos (by simpa using h2), List.find?_cons_of_pos (by simpa using h2)]
        simp only [beq_iff_eq] at hy
        simp [hy]
      · rw [List.find?_cons_of_neg (by simpa using h2), List.find?_cons_of_neg (by simpa using h2)]
        cases hf : ys.find? (fun x => x.Name == db2) with
        | none => simp
        | some z =>
          simp only [Option.map_some, Option.some.injEq]
          have hz : (z.Name == db2) = true := by simpa using List.find?_some hf
          have : (z.Name == db) = false := by
            simp only [beq_iff_eq, beq_eq_false_iff_ne, ne_eq] at hz hy h2 ⊢
            intro h; apply h2; rw [hy, ← h, hz]
          simp [this]
    · simp only [hy, Bool.false_eq_true, ↓reduceIte]
      by_cases h2 : (y.Name == db2) = true
      · rw [List.find?_cons_of_pos (by simpa using h2), List.find?_cons_of_pos (by simpa using h2)]
        simp only [beq_iff_eq] at hy
        simp [hy]
      · rw [List.find?_cons_of_neg (by simpa using h2), List.find?_cons_of_neg (by simpa using h2)]
        exact ih

theorem getRP_setRP_same {d : Data} {db rp : String} {r r' : RetentionPolicyInfo}
    (h : getRP d db rp = .ok r) (hn : r'.Name = rp) : getRP (setRP d db rp r') db rp = .ok r' := by
  unfold getRP retentionPolicy at h ⊢
  rw [findDB_setRP]
  cases hdb : findDB d db with
  | none => simp [hdb] at h
  | some di =>
    simp only [hdb] at h
    have hname : (di.Name == db) = true := by unfold findDB at hdb; simpa using List.find?_some hdb
    simp only [Option.map_some, hname, ↓reduceIte]
    cases hrp : di.findRP rp with
    | none => simp [hrp] at h
    | some r0 =>
      unfold DatabaseInfo.findRP at hrp ⊢
      simp only
      rw [find_goRP_same rp r' hn _ (by simp [hrp])]

theorem getRP_setRP_other {d : Data} {db rp db2 rp2 : String} {r' : RetentionPolicyInfo}
    (hn : r'.Name = rp) (hne : ¬(db2 = db ∧ rp2 = rp)) :
    getRP (setRP d db rp r') db2 rp2 = getRP d db2 rp2 := by
  unfold getRP retentionPolicy
  rw [findDB_setRP]
  cases hdb : findDB d db2 with
  | none => simp
  | some di =>
    simp only [Option.map_some]
    by_cases hname : (di.Name == db) = true
    · simp only [hname, ↓reduceIte]
      have h2 : (di.Name == db2) = true := by unfold findDB at hdb; simpa using List.find?_some hdb
      have hrp : rp2 ≠ rp := by
        intro h; apply hne; simp only [beq_iff_eq] at hname h2; exact ⟨by rw [← h2, hname], h⟩
      unfold DatabaseInfo.findRP
      simp only
      rw [find_goRP_other rp rp2 r' hn hrp]
    · simp [hname]

end Influx.Meta
