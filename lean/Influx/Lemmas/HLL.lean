/-
  Lemmas.HLL — register-level facts about `Model.HLL`: what a fold of `regMax`
  leaves in each register, `toNormal`, `Merge`.
-/
import Influx.Model.HLL

namespace Influx.Lemmas.HLL
open Influx.Model.HLL

/-- register `i` (0 outside the array) -/
def reg (r : Array Nat) (i : Nat) : Nat := (r[i]?).getD 0

theorem reg_lt (r : Array Nat) (i : Nat) (hi : i < r.size) : reg r i = r[i] := by
  simp [reg, hi]

theorem regMax_size (r : Array Nat) (ir : Nat × Nat) : (regMax r ir).size = r.size := by
  unfold regMax; split
  · split <;> simp
  · rfl

theorem regMax_at (r : Array Nat) (j v i : Nat) (hi : i < r.size) :
    reg (regMax r (j, v)) i = max (reg r i) (if j = i then v else 0) := by
  unfold regMax
  simp only
  split
  · next hj =>
    split
    · next hlt =>
      by_cases hji : j = i
      · subst hji
        simp [reg, hj]
        omega
      · simp [reg, hi, hji]
    · next hge =>
      by_cases hji : j = i
      · subst hji
        simp [reg, hj] at hge ⊢
        omega
      · simp [hji]
  · next hj =>
    have : j ≠ i := by omega
    simp [this]

/-- the largest value the keys `ks` contribute to register `i` under the decoding `f` -/
def supAt (f : Nat → Nat × Nat) : List Nat → Nat → Nat
  | [], _ => 0
  | k :: ks, i => max (if (f k).1 = i then (f k).2 else 0) (supAt f ks i)

theorem fold_regMax_size (f : Nat → Nat × Nat) (ks : List Nat) (r0 : Array Nat) :
    (ks.foldl (fun r k => regMax r (f k)) r0).size = r0.size := by
  induction ks generalizing r0 with
  | nil => rfl
  | cons k ks ih => simp [List.foldl, ih, regMax_size]

theorem fold_regMax_at (f : Nat → Nat × Nat) (ks : List Nat) (r0 : Array Nat) (i : Nat) (hi : i < r0.size) :
    reg (ks.foldl (fun r k => regMax r (f k)) r0) i = max (reg r0 i) (supAt f ks i) := by
  induction ks generalizing r0 with
  | nil => simp [supAt]
  | cons k ks ih =>
    simp only [List.foldl, supAt]
    rw [ih _ (by rw [regMax_size]; exact hi)]
    have := regMax_at r0 (f k).1 (f k).2 i hi
    rw [show ((f k).1, (f k).2) = f k from rfl] at this
    rw [this]
    omega

theorem supAt_append (f : Nat → Nat × Nat) (xs ys : List Nat) (i : Nat) :
    supAt f (xs ++ ys) i = max (supAt f xs i) (supAt f ys i) := by
  induction xs with
  | nil => simp [supAt]
  | cons x xs ih => simp only [List.cons_append, supAt, ih]; omega

theorem supAt_mergeLoopGo (f : Nat → Nat × Nat) (fuel : Nat) (vals keys : List Nat) (i : Nat) :
    supAt f (mergeLoopGo fuel vals keys) i = max (supAt f vals i) (supAt f keys i) := by
  induction fuel generalizing vals keys with
  | zero =>
    cases vals with
    | nil => simp [mergeLoopGo, supAt]
    | cons a t =>
      cases keys with
      | nil => simp [mergeLoopGo, supAt]
      | cons b u => simp only [mergeLoopGo, supAt_append]
  | succ fuel ih =>
    cases vals with
    | nil => simp [mergeLoopGo, supAt]
    | cons x1 vs =>
      cases keys with
      | nil => simp [mergeLoopGo, supAt]
      | cons x2 ks =>
        simp only [mergeLoopGo]
        split
        · next h => subst h; simp only [supAt, ih]; omega
        · split
          · simp only [supAt, ih]; omega
          · simp only [supAt, ih]; omega

theorem supAt_mergeLoop (f : Nat → Nat × Nat) (vals keys : List Nat) (i : Nat) :
    supAt f (mergeLoop vals keys) i = max (supAt f vals i) (supAt f keys i) :=
  supAt_mergeLoopGo f _ vals keys i

theorem supAt_nil (f : Nat → Nat × Nat) (i : Nat) : supAt f [] i = 0 := rfl

/-- a sketch as the API builds it: precision in range, a dense sketch has `2^p` registers -/
structure WF (h : Plus) : Prop where
  p_lo : 4 ≤ h.p
  p_hi : h.p ≤ 18
  dense_size : h.sparse = false → h.dense.size = 2 ^ h.p

/-- what a sparse sketch holds for register `i`: the maximum over its temporary set and its list -/
def sparseSup (h : Plus) (i : Nat) : Nat :=
  max (supAt (decodeHash h.p) h.sparseVals i) (supAt (decodeHash h.p) h.tmpSet i)

theorem mergeSparse_p (h : Plus) : (mergeSparse h).p = h.p := by
  unfold mergeSparse; split <;> rfl

theorem mergeSparse_sup (h : Plus) (i : Nat) : sparseSup (mergeSparse h) i = sparseSup h i := by
  unfold mergeSparse sparseSup
  split
  · rfl
  · simp only [supAt_mergeLoop, supAt_nil]; omega

theorem toNormal_p (h : Plus) : (toNormal h).p = h.p := by
  unfold toNormal; simp only; split
  · rfl
  · exact mergeSparse_p h

theorem toNormal_sparse (h : Plus) : (toNormal h).sparse = false := by
  unfold toNormal; rfl

theorem toNormal_size (h : Plus) : (toNormal h).dense.size = 2 ^ h.p := by
  unfold toNormal; simp only; split
  · simp [fold_regMax_size, Plus.m]
  · simp [fold_regMax_size, Plus.m, mergeSparse_p]

theorem toNormal_reg (h : Plus) (i : Nat) (hi : i < 2 ^ h.p) : reg (toNormal h).dense i = sparseSup h i := by
  unfold toNormal
  simp only
  split
  · next hemp =>
    rw [fold_regMax_at _ _ _ _ (by simpa [Plus.m] using hi)]
    have he : h.tmpSet = [] := by simpa using hemp
    simp [sparseSup, he, supAt_nil, reg, Plus.m, hi]
  · next hne =>
    rw [fold_regMax_at _ _ _ _ (by simpa [Plus.m, mergeSparse_p] using hi)]
    rw [← mergeSparse_sup h i]
    have ht : (mergeSparse h).tmpSet = [] := by
      unfold mergeSparse; rw [if_neg hne]
    simp [sparseSup, ht, supAt_nil, reg, Plus.m, hi, mergeSparse_p]

theorem toNormal_dense (h : Plus) :
    (toNormal h).dense.size = 2 ^ h.p ∧ (toNormal h).p = h.p ∧ (toNormal h).sparse = false ∧
      ∀ i, i < 2 ^ h.p → reg (toNormal h).dense i = sparseSup h i :=
  ⟨toNormal_size h, toNormal_p h, toNormal_sparse h, toNormal_reg h⟩

/-- the normalised register vector: size and content -/
theorem regs_spec (h : Plus) (w : WF h) :
    (regs h).size = 2 ^ h.p ∧
      (h.sparse = true → ∀ i, i < 2 ^ h.p → reg (regs h) i = sparseSup h i) := by
  unfold regs
  split
  · next hs =>
    obtain ⟨h1, _, _, h4⟩ := toNormal_dense h
    exact ⟨h1, fun _ => h4⟩
  · next hs =>
    refine ⟨w.dense_size (by simpa using hs), ?_⟩
    intro h'; simp [h'] at hs

/-- the receiver of `Merge` after its optional `toNormal` -/
def recv (a : Plus) : Plus := if a.sparse = true then toNormal a else a

theorem recv_spec (a : Plus) (wa : WF a) :
    (recv a).p = a.p ∧ (recv a).sparse = false ∧ (recv a).dense = regs a ∧ (recv a).dense.size = 2 ^ a.p := by
  unfold recv regs
  by_cases hs : a.sparse = true
  · simp [hs, toNormal_p a, toNormal_sparse a, toNormal_size a]
  · have hs' : a.sparse = false := by simpa using hs
    simp [hs', wa.dense_size hs']

/-- **`Merge` is the pointwise maximum of the normalised register vectors**, whatever the
    representation (sparse or dense) of the two sketches. -/
theorem merge_regs (a b c : Plus) (wa : WF a) (wb : WF b) (hm : merge a b = .ok c) :
    c.p = a.p ∧ c.sparse = false ∧ c.dense.size = 2 ^ a.p ∧
      ∀ i, i < 2 ^ a.p → reg c.dense i = max (reg (regs a) i) (reg (regs b) i) := by
  unfold merge at hm
  by_cases hp : a.p = b.p
  · rw [if_neg (by simpa using hp)] at hm
    simp only at hm
    obtain ⟨e1, e2, e3, e4⟩ := recv_spec a wa
    unfold recv at e1 e2 e3 e4
    generalize (if a.sparse = true then toNormal a else a) = r at hm e1 e2 e3 e4
    by_cases hbs : b.sparse = true
    · rw [if_pos hbs] at hm
      injection hm with hm; subst hm
      refine ⟨e1, e2, by simp [fold_regMax_size, e4], ?_⟩
      intro i hi
      simp only
      rw [fold_regMax_at _ _ _ _ (by simp [fold_regMax_size, e4, hi]),
          fold_regMax_at _ _ _ _ (by simp [e4, hi]), e3]
      rw [(regs_spec b wb).2 hbs i (by rw [← hp]; exact hi)]
      unfold sparseSup; omega
    · rw [if_neg hbs] at hm
      have hbs : b.sparse = false := by simpa using hbs
      by_cases hsz : r.dense.size = b.dense.size
      · rw [if_neg (by simpa using hsz)] at hm
        injection hm with hm; subst hm
        refine ⟨e1, e2, by simp [Array.size_zipWith, ← hsz, e4], ?_⟩
        intro i hi
        have hb : regs b = b.dense := by simp [regs, hbs]
        have hi1 : i < r.dense.size := by rw [e4]; exact hi
        have hi2 : i < b.dense.size := by rw [← hsz]; exact hi1
        rw [hb, ← e3]
        have hz : i < (Array.zipWith (fun a b => if b > a then b else a) r.dense b.dense).size := by
          simp [hi2]; omega
        rw [reg_lt _ _ hz, reg_lt _ _ hi1, reg_lt _ _ hi2, Array.getElem_zipWith]
        split <;> omega
      · rw [if_pos (by simpa using hsz)] at hm
        cases hm
  · rw [if_pos (by simpa using hp)] at hm
    cases hm

end Influx.Lemmas.HLL
