/-
  Lemmas.DelPredLoop — the `Matches` loop: feeding the pairs of a series into
  the slots and updating the tree decides the tree's value on the full series.
-/
import Influx.Lemmas.DelPredEval
import Influx.Lemmas.DelPredBytes

namespace Influx.Model.DelPred

/-! ### more slots filled: definite values stay -/

/-- `b` has every filled slot of `a` (same length) -/
def LEv (a b : List (Option Bytes)) : Prop :=
  a.length = b.length ∧ ∀ i x, slot a i = some x → slot b i = some x

theorem LEv.refl (a) : LEv a a := ⟨rfl, fun _ _ h => h⟩
theorem LEv.trans {a b c} (h1 : LEv a b) (h2 : LEv b c) : LEv a c :=
  ⟨h1.1.trans h2.1, fun i x h => h2.2 i x (h1.2 i x h)⟩

theorem opVal_mono {a b} (h : LEv a b) (o : Operand) (x : Bytes) (hx : opVal a o = some x) :
    opVal b o = some x := by
  cases o with
  | lit v => exact hx
  | ref i => exact h.2 i x hx

theorem eval3_stable {a b} (h : LEv a b) (n : PNode) (hd : eval3 a n ≠ .needMore) :
    eval3 b n = eval3 a n := by
  induction n with
  | cmp c neq l r =>
    simp only [eval3] at hd ⊢
    cases hl : opVal a l with
    | none => simp [hl] at hd
    | some lv =>
      cases hr : opVal a r with
      | none => simp [hl, hr] at hd
      | some rv => simp [opVal_mono h l lv hl, opVal_mono h r rv hr]
  | and c l r ihl ihr =>
    simp only [eval3] at hd ⊢
    cases hl : eval3 a l with
    | needMore => simp [hl] at hd
    | false_ => rw [ihl (by simp [hl]), hl]
    | true_ =>
      rw [hl] at hd
      simp only at hd
      rw [ihl (by simp [hl]), hl]
      simp only
      exact ihr hd
  | or c l r ihl ihr =>
    simp only [eval3] at hd ⊢
    cases hl : eval3 a l with
    | true_ => rw [ihl (by simp [hl]), hl]
    | false_ =>
      cases hr : eval3 a r with
      | true_ => rw [ihl (by simp [hl]), hl, ihr (by simp [hr]), hr]
      | false_ => rw [ihl (by simp [hl]), hl, ihr (by simp [hr]), hr]
      | needMore => simp [hl, hr] at hd
    | needMore =>
      cases hr : eval3 a r with
      | true_ =>
        rw [ihr (by simp [hr]), hr]
        cases eval3 b l <;> rfl
      | false_ => simp [hl, hr] at hd
      | needMore => simp [hl, hr] at hd

theorem cacheOK_mono {g a b} (h : LEv a b) (n : PNode) (hc : CacheOK g a n) : CacheOK g b n := by
  induction n with
  | cmp c neq l r =>
    refine cacheOK_cmp.2 (fun hg => ?_)
    have := cacheOK_cmp.1 hc hg
    refine ⟨?_, this.2⟩
    rw [eval3_stable h _ (by rw [← this.1]; exact this.2)]
    exact this.1
  | and c l r ihl ihr =>
    obtain ⟨hcc, hcl, hcr⟩ := cacheOK_and.1 hc
    refine cacheOK_and.2 ⟨fun hg => ?_, ihl hcl, ihr hcr⟩
    have := hcc hg
    refine ⟨?_, this.2⟩
    rw [eval3_stable h _ (by rw [← this.1]; exact this.2)]
    exact this.1
  | or c l r ihl ihr =>
    obtain ⟨hcc, hcl, hcr⟩ := cacheOK_or.1 hc
    refine cacheOK_or.2 ⟨fun hg => ?_, ihl hcl, ihr hcr⟩
    have := hcc hg
    refine ⟨?_, this.2⟩
    rw [eval3_stable h _ (by rw [← this.1]; exact this.2)]
    exact this.1

theorem genLE_mono {g g' : Nat} (h : g ≤ g') (n : PNode) (hg : GenLE g n) : GenLE g' n := by
  induction n with
  | cmp c neq l r => exact genLE_cmp.2 (Nat.le_trans (genLE_cmp.1 hg) h)
  | and c l r ihl ihr =>
    obtain ⟨a, b, c'⟩ := genLE_and.1 hg
    exact genLE_and.2 ⟨Nat.le_trans a h, ihl b, ihr c'⟩
  | or c l r ihl ihr =>
    obtain ⟨a, b, c'⟩ := genLE_or.1 hg
    exact genLE_or.2 ⟨Nat.le_trans a h, ihl b, ihr c'⟩

/-- after `Reset` (generation bumped) every cache is stale, hence vacuously sound -/
theorem cacheOK_of_genLE {g : Nat} (vals) (n : PNode) (hg : GenLE g n) : CacheOK (g + 1) vals n := by
  induction n with
  | cmp c neq l r =>
    refine cacheOK_cmp.2 (fun h => ?_)
    have := genLE_cmp.1 hg; omega
  | and c l r ihl ihr =>
    obtain ⟨a, b, c'⟩ := genLE_and.1 hg
    exact cacheOK_and.2 ⟨fun h => by omega, ihl b, ihr c'⟩
  | or c l r ihl ihr =>
    obtain ⟨a, b, c'⟩ := genLE_or.1 hg
    exact cacheOK_or.2 ⟨fun h => by omega, ihl b, ihr c'⟩

/-! ### slots -/

theorem slot_set_eq (vals : List (Option Bytes)) (i : Nat) (v : Option Bytes) (hi : i < vals.length) :
    slot (vals.set i v) i = v := by
  simp only [slot, List.getElem?_set_self hi]
  cases v <;> rfl

theorem slot_set_ne (vals : List (Option Bytes)) (i j : Nat) (v : Option Bytes) (hij : i ≠ j) :
    slot (vals.set i v) j = slot vals j := by
  simp only [slot, List.getElem?_set_ne hij]

theorem LEv_set {vals : List (Option Bytes)} {i : Nat} (v : Option Bytes) (hnone : slot vals i = none) :
    LEv vals (vals.set i v) := by
  refine ⟨by simp, fun j x hx => ?_⟩
  by_cases hij : i = j
  · subst hij; rw [hnone] at hx; cases hx
  · rw [slot_set_ne _ _ _ _ hij]; exact hx

theorem idxOf?_getElem {L : List Bytes} {k : Bytes} {i : Nat} (h : L.idxOf? k = some i) :
    L[i]? = some k := by
  induction L generalizing i with
  | nil => simp [List.idxOf?] at h
  | cons a L ih =>
    simp only [List.idxOf?, List.findIdx?_cons] at h
    by_cases hak : a = k
    · subst hak; simp at h; subst h; rfl
    · have : (a == k) = false := by simp [hak]
      simp only [this, Bool.false_eq_true, if_false, Option.map_eq_some_iff] at h
      obtain ⟨j, hj, rfl⟩ := h
      simpa using ih (i := j) (by simpa [List.idxOf?] using hj)

theorem idxOf?_lt {L : List Bytes} {k : Bytes} {i : Nat} (h : L.idxOf? k = some i) : i < L.length := by
  have := idxOf?_getElem h
  exact (List.getElem?_eq_some_iff.1 this).1

theorem idxOf?_inj {L : List Bytes} {k k' : Bytes} {i : Nat} (h : L.idxOf? k = some i)
    (h' : L.idxOf? k' = some i) : k = k' := by
  have a := idxOf?_getElem h
  have b := idxOf?_getElem h'
  rw [a] at b; exact Option.some.inj b

theorem idxOf?_isSome_of_mem {L : List Bytes} {k : Bytes} (h : k ∈ L) : ∃ i, L.idxOf? k = some i := by
  induction L with
  | nil => cases h
  | cons a L ih =>
    by_cases hak : a = k
    · exact ⟨0, by simp [List.idxOf?, List.findIdx?_cons, hak]⟩
    · have hk : k ∈ L := by
        rcases List.mem_cons.1 h with h | h
        · exact absurd h.symm hak
        · exact h
      obtain ⟨i, hi⟩ := ih hk
      refine ⟨i + 1, ?_⟩
      have : (a == k) = false := by simp [hak]
      simp only [List.idxOf?, List.findIdx?_cons, this, Bool.false_eq_true, if_false]
      simp only [List.idxOf?] at hi
      simp [hi]

/-! ### feeding pairs -/

/-- the loop of `Matches` on already popped pairs -/
def feed (m : Matcher) : List (Bytes × Bytes) → Option (Bool × Matcher)
  | [] => some (false, m)
  | (k, v) :: ps =>
    match m.locs.idxOf? k with
    | none => feed m ps
    | some i =>
      match update m.gen (m.values.set i (some v)) m.root with
      | none => none
      | some (.true_, root') => some (true, { m with values := m.values.set i (some v), root := root' })
      | some (.false_, root') => some (false, { m with values := m.values.set i (some v), root := root' })
      | some (.needMore, root') => feed { m with values := m.values.set i (some v), root := root' } ps

/-- the slots after all pairs have been set -/
def finalVals (L : List Bytes) (vals : List (Option Bytes)) : List (Bytes × Bytes) → List (Option Bytes)
  | [] => vals
  | (k, v) :: ps =>
    match L.idxOf? k with
    | none => finalVals L vals ps
    | some i => finalVals L (vals.set i (some v)) ps

theorem finalVals_length (L vals ps) : (finalVals L vals ps).length = vals.length := by
  induction ps generalizing vals with
  | nil => rfl
  | cons p ps ih =>
    obtain ⟨k, v⟩ := p
    simp only [finalVals]
    split
    · exact ih _
    · rw [ih]; simp

/-- pending pairs: distinct keys whose slots are still empty -/
def Pending (L : List Bytes) (vals : List (Option Bytes)) (ps : List (Bytes × Bytes)) : Prop :=
  (ps.map (·.1)).Nodup ∧ ∀ k v i, (k, v) ∈ ps → L.idxOf? k = some i → slot vals i = none

theorem Pending.tail {L vals k v ps} (h : Pending L vals ((k, v) :: ps)) : Pending L vals ps :=
  ⟨(List.nodup_cons.1 h.1).2, fun k' v' i hm hi => h.2 k' v' i (List.mem_cons_of_mem _ hm) hi⟩

theorem Pending.set {L vals k v ps i} (h : Pending L vals ((k, v) :: ps)) (hi : L.idxOf? k = some i) (x) :
    Pending L (vals.set i x) ps := by
  refine ⟨(List.nodup_cons.1 h.1).2, fun k' v' j hm hj => ?_⟩
  have hne : k ≠ k' := by
    intro e
    have := (List.nodup_cons.1 h.1).1
    apply this
    rw [e]
    exact List.mem_map.2 ⟨(k', v'), hm, rfl⟩
  have hij : i ≠ j := fun e => hne (idxOf?_inj hi (e ▸ hj))
  rw [slot_set_ne _ _ _ _ hij]
  exact h.2 k' v' j (List.mem_cons_of_mem _ hm) hj

theorem LEv_finalVals {L vals ps} (h : Pending L vals ps) : LEv vals (finalVals L vals ps) := by
  induction ps generalizing vals with
  | nil => exact LEv.refl _
  | cons p ps ih =>
    obtain ⟨k, v⟩ := p
    simp only [finalVals]
    split
    · exact ih h.tail
    · next i hi =>
      have hnone := h.2 k v i (List.mem_cons_self) hi
      exact (LEv_set (some v) hnone).trans (ih (h.set hi _))

theorem feed_cons_none {m : Matcher} {k v ps} (h : m.locs.idxOf? k = none) :
    feed m ((k, v) :: ps) = feed m ps := by simp [feed, h]
theorem feed_cons_some {m : Matcher} {k v ps i} (h : m.locs.idxOf? k = some i) :
    feed m ((k, v) :: ps) =
      match update m.gen (m.values.set i (some v)) m.root with
      | none => none
      | some (.true_, root') => some (true, { m with values := m.values.set i (some v), root := root' })
      | some (.false_, root') => some (false, { m with values := m.values.set i (some v), root := root' })
      | some (.needMore, root') => feed { m with values := m.values.set i (some v), root := root' } ps := by
  simp [feed, h]
theorem finalVals_cons_none {L : List Bytes} {vals k v ps} (h : L.idxOf? k = none) :
    finalVals L vals ((k, v) :: ps) = finalVals L vals ps := by simp [finalVals, h]
theorem finalVals_cons_some {L : List Bytes} {vals k v ps i} (h : L.idxOf? k = some i) :
    finalVals L vals ((k, v) :: ps) = finalVals L (vals.set i (some v)) ps := by simp [finalVals, h]

/-- **The loop decides the tree on the full series.** -/
theorem feed_spec (m : Matcher) (ps : List (Bytes × Bytes))
    (hlen : m.values.length = m.locs.length)
    (hwf : WFn m.values.length m.root) (hc : CacheOK m.gen m.values m.root) (hg : GenLE m.gen m.root)
    (hnm : eval3 m.values m.root = .needMore) (hp : Pending m.locs m.values ps) :
    ∃ m', feed m ps = some (decide (eval3 (finalVals m.locs m.values ps) m.root = .true_), m') ∧
      m'.gen = m.gen ∧ m'.locs = m.locs ∧ m'.values.length = m.values.length ∧
      strip m'.root = strip m.root ∧ GenLE m.gen m'.root := by
  induction ps generalizing m with
  | nil =>
    refine ⟨m, ?_, rfl, rfl, rfl, rfl, hg⟩
    simp [feed, finalVals, hnm]
  | cons p ps ih =>
    obtain ⟨k, v⟩ := p
    cases hi : m.locs.idxOf? k with
    | none =>
      rw [feed_cons_none hi, finalVals_cons_none hi]
      exact ih m hlen hwf hc hg hnm hp.tail
    | some i =>
      rw [feed_cons_some hi, finalVals_cons_some hi]
      have hilt : i < m.values.length := by rw [hlen]; exact idxOf?_lt hi
      have hnone := hp.2 k v i List.mem_cons_self hi
      have hle : LEv m.values (m.values.set i (some v)) := LEv_set (some v) hnone
      have hwf1 : WFn (m.values.set i (some v)).length m.root := by simpa using hwf
      obtain ⟨root', hu, hs, hc', hg'⟩ :=
        update_spec m.gen (m.values.set i (some v)) m.root hwf1 (cacheOK_mono hle _ hc) hg
      rw [hu]
      have hpend : Pending m.locs (m.values.set i (some v)) ps := hp.set hi _
      have hfin : LEv (m.values.set i (some v)) (finalVals m.locs (m.values.set i (some v)) ps) :=
        LEv_finalVals hpend
      cases he : eval3 (m.values.set i (some v)) m.root with
      | true_ =>
        refine ⟨{ m with values := m.values.set i (some v), root := root' }, ?_, rfl, rfl, by simp, hs, hg'⟩
        have := eval3_stable hfin m.root (by simp [he])
        simp [this, he]
      | false_ =>
        refine ⟨{ m with values := m.values.set i (some v), root := root' }, ?_, rfl, rfl, by simp, hs, hg'⟩
        have := eval3_stable hfin m.root (by simp [he])
        simp [this, he]
      | needMore =>
        simp only
        have hwf2 : WFn (m.values.set i (some v)).length root' := (WFn_congr hs _).2 hwf1
        obtain ⟨m', hf, h1, h2, h3, h4, h5⟩ :=
          ih { m with values := m.values.set i (some v), root := root' } (by simpa using hlen) hwf2 hc' hg'
            (by rw [eval3_congr hs]; exact he) hpend
        refine ⟨m', ?_, h1, h2, by simpa using h3, h4.trans hs, h5⟩
        rw [hf]
        simp only [eval3_congr hs]

end Influx.Model.DelPred
