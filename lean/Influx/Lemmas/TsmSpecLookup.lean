/-
  Lemmas.TsmSpecLookup — part 3: the checker's judgement of the writes, of `WriteIndex`,
  of `open`, and of every index lookup on the model's answers.
-/
import Influx.Lemmas.TsmSpecContent
import Influx.Lemmas.TsmRoundtrip

namespace Influx.Tsm
open Influx.Spec.C08 Influx.Generated.TsmLayout

def toKE (sk : SKey) : KeyEntry := ⟨sk.key, sk.typ, Spec.C08.entriesOf sk⟩

theorem entriesOf_sblocks (pos : Nat) (bs : List Blk) :
    (sblocks pos bs).map (·.entry) = layoutBlocks pos bs := by
  induction bs generalizing pos with
  | nil => rfl
  | cons b bs ih =>
    simp only [sblocks, layoutBlocks, List.map_cons, ih]
    rfl

theorem scontent_layout (pos : Nat) (kbs : List (Key × List Blk)) :
    (scontent pos kbs).map toKE = layout pos kbs := by
  induction kbs generalizing pos with
  | nil => rfl
  | cons kb kbs ih =>
    obtain ⟨k, bs⟩ := kb
    simp only [scontent, List.map_cons, layout, ih]
    simp [toKE, Spec.C08.entriesOf, entriesOf_sblocks]

/-- the domain of the statement: what the writer accepts (`WFW`), within the format limits
    (`WFFile`), every block with min ≤ max, max times non-decreasing per key -/
structure DOM (kbs : List (Key × List Blk)) : Prop where
  wfw : WFW kbs
  wff : WFFile kbs
  minmax : ∀ kb ∈ kbs, ∀ b ∈ kb.2, b.minT ≤ b.maxT
  mono : ∀ kb ∈ kbs, kb.2.Pairwise fun a b => a.maxT ≤ b.maxT

/-! ### the writes -/

theorem spec_writes (ps : List (Key × Blk))
    (hok : ∀ p ∈ ps, p.1.length ≤ 65535 ∧ ∃ b0 rest, p.2.data = b0 :: rest ∧ b0 ≤ 4) :
    ∀ (sp : SS) (i : Nat), sp.wdone = false →
      runFrom sp i (ps.map fun p => (wOp p, Ans.ok)) =
        { sp with writes := (ps.map toWrite).reverse ++ sp.writes } := by
  induction ps with
  | nil => intro sp i _; simp [runFrom]
  | cons p ps ih =>
    intro sp i hd
    obtain ⟨hk, b0, rest, hdat, hb0⟩ := hok p List.mem_cons_self
    simp only [List.map_cons, runFrom_cons]
    have hstep : stepS sp i (wOp p) Ans.ok = { sp with writes := toWrite p :: sp.writes } := by
      simp only [wOp, stepS, judgeWrite, hd, Bool.false_eq_true, if_false]
      have h1 : ¬ (sp.wfail = true ∧ Ans.ok = Ans.dead) := by intro h; cases h.2
      have h2 : ¬ p.1.length > 65535 := by omega
      rw [if_neg h1, if_neg h2, hdat]
      simp only
      rw [if_neg (by omega)]
      rw [← hdat]; rfl
    rw [hstep, ih (fun q hq => hok q (List.mem_cons_of_mem _ hq)) { sp with writes := toWrite p :: sp.writes } (i + 1) hd]
    simp

theorem pairwise_of_Pairwise {α : Type} (r : α → α → Bool) (l : List α) (h : l.Pairwise fun a b => r a b = true) :
    pairwise r l = true := by
  induction l with
  | nil => rfl
  | cons a l ih =>
    cases l with
    | nil => rfl
    | cons b l' =>
      have ha := List.pairwise_cons.mp h
      simp only [pairwise, Bool.and_eq_true]
      exact ⟨ha.1 b List.mem_cons_self, ih ha.2⟩

theorem sblocks_length (pos : Nat) (bs : List Blk) : (sblocks pos bs).length = bs.length := by
  induction bs generalizing pos with
  | nil => rfl
  | cons b bs ih => simp [sblocks, ih]

theorem sblocks_mem (pos : Nat) (bs : List Blk) (sb : SBlock) (h : sb ∈ sblocks pos bs) :
    ∃ b ∈ bs, sb.minT = b.minT ∧ sb.maxT = b.maxT := by
  induction bs generalizing pos with
  | nil => simp [sblocks] at h
  | cons b bs ih =>
    simp only [sblocks, List.mem_cons] at h
    rcases h with rfl | h
    · exact ⟨b, List.mem_cons_self, rfl, rfl⟩
    · obtain ⟨x, hx, h1⟩ := ih _ h
      exact ⟨x, List.mem_cons_of_mem _ hx, h1⟩

theorem sblocks_maxmono (pos : Nat) (bs : List Blk) (h : bs.Pairwise fun a b => a.maxT ≤ b.maxT) :
    (sblocks pos bs).Pairwise fun a b => decide (a.maxT ≤ b.maxT) = true := by
  induction bs generalizing pos with
  | nil => simp [sblocks]
  | cons b bs ih =>
    have hb := List.pairwise_cons.mp h
    simp only [sblocks]
    apply List.pairwise_cons.mpr
    refine ⟨?_, ih _ hb.2⟩
    intro e he
    obtain ⟨x, hx, _, h2⟩ := sblocks_mem _ bs e he
    simp only [decide_eq_true_eq]
    rw [h2]; exact hb.1 x hx

theorem scontent_mem (pos : Nat) (kbs : List (Key × List Blk)) (sk : SKey) (h : sk ∈ scontent pos kbs) :
    ∃ kb ∈ kbs, ∃ p, sk.key = kb.1 ∧ sk.blocks = sblocks p kb.2 := by
  induction kbs generalizing pos with
  | nil => simp [scontent] at h
  | cons kb kbs ih =>
    obtain ⟨k, bs⟩ := kb
    simp only [scontent, List.mem_cons] at h
    rcases h with rfl | h
    · exact ⟨(k, bs), List.mem_cons_self, pos, rfl, rfl⟩
    · obtain ⟨x, hx, h1⟩ := ih _ h
      exact ⟨x, List.mem_cons_of_mem _ hx, h1⟩

theorem scontentRaw_mem (pos : Nat) (kbs : List (Key × List Blk)) (g : Key × List SBlock)
    (h : g ∈ scontentRaw pos kbs) : ∃ kb ∈ kbs, ∃ p, g.2 = sblocks p kb.2 := by
  induction kbs generalizing pos with
  | nil => simp [scontentRaw] at h
  | cons kb kbs ih =>
    obtain ⟨k, bs⟩ := kb
    simp only [scontentRaw, List.mem_cons] at h
    rcases h with rfl | h
    · exact ⟨(k, bs), List.mem_cons_self, pos, rfl⟩
    · obtain ⟨x, hx, h1⟩ := ih _ h
      exact ⟨x, List.mem_cons_of_mem _ hx, h1⟩

theorem scontent_keys_sorted (pos : Nat) (kbs : List (Key × List Blk))
    (h : kbs.Pairwise fun a b => kcmp a.1 b.1 = .lt) :
    (scontent pos kbs).Pairwise fun a b => klt a.key b.key = true := by
  induction kbs generalizing pos with
  | nil => simp [scontent]
  | cons kb kbs ih =>
    obtain ⟨k, bs⟩ := kb
    have hk := List.pairwise_cons.mp h
    simp only [scontent]
    apply List.pairwise_cons.mpr
    refine ⟨?_, ih _ hk.2⟩
    intro sk hsk
    obtain ⟨x, hx, _, hkey, _⟩ := scontent_mem _ kbs sk hsk
    simp only [klt, beq_iff_eq]
    rw [hkey]; exact hk.1 x hx

theorem WFW.keys_ne {kbs : List (Key × List Blk)} (h : WFW kbs) : kbs.Pairwise fun a b => a.1 ≠ b.1 := by
  apply List.Pairwise.imp _ h.keys
  intro a b hab e
  rw [e, kcmp_refl] at hab; cases hab

/-- inside the domain the checker does not abstain -/
theorem domain_ok (kbs : List (Key × List Blk)) (h : DOM kbs) :
    domainIssue ((flatWrites kbs).map toWrite) (scontent 5 kbs) = none := by
  unfold domainIssue
  have c1 : pairwise (fun a b => klt a.key b.key) (scontent 5 kbs) = true :=
    pairwise_of_Pairwise _ _ (scontent_keys_sorted 5 kbs h.wfw.keys)
  have c2 : (scontent 5 kbs).any (fun k => decide (k.blocks.length ≥ 65535)) = false := by
    apply List.any_eq_false.mpr
    intro sk hsk
    obtain ⟨kb, hkb, p, _, hb⟩ := scontent_mem _ _ sk hsk
    have := (h.wfw.blks kb hkb).2.1
    simp [hb, sblocks_length]; omega
  have c3 : (scontent 5 kbs).any (fun k => k.blocks.any fun b => decide (b.minT > b.maxT)) = false := by
    apply List.any_eq_false.mpr
    intro sk hsk
    obtain ⟨kb, hkb, p, _, hb⟩ := scontent_mem _ _ sk hsk
    simp only [Bool.not_eq_true]
    apply List.any_eq_false.mpr
    intro sb hsb
    rw [hb] at hsb
    obtain ⟨b, hbm, h1, h2⟩ := sblocks_mem _ _ sb hsb
    have := h.minmax kb hkb b hbm
    simp; omega
  have c4 : (scontent 5 kbs).any (fun k => !pairwise (fun a b => decide (a.maxT ≤ b.maxT)) k.blocks) = false := by
    apply List.any_eq_false.mpr
    intro sk hsk
    obtain ⟨kb, hkb, p, _, hb⟩ := scontent_mem _ _ sk hsk
    rw [hb, pairwise_of_Pairwise _ _ (sblocks_maxmono p kb.2 (h.mono kb hkb))]
    simp
  have c5 : (groupKeys (place 5 ((flatWrites kbs).map toWrite))).any (fun g =>
      !pairwise (fun a b => decide (a.minT ≤ b.minT)) g.2 && !allDistinct (g.2.map (·.minT))) = false := by
    rw [group_place kbs (fun kb hkb => (h.wfw.blks kb hkb).1) h.wfw.keys_ne 5]
    apply List.any_eq_false.mpr
    intro g hg
    obtain ⟨kb, hkb, p, hb⟩ := scontentRaw_mem _ _ g hg
    have : pairwise (fun a b => decide (a.minT ≤ b.minT)) g.2 = true := by
      rw [hb]
      apply pairwise_of_Pairwise
      apply List.Pairwise.imp _ (sblocks_sorted p kb.2 (h.wfw.sorted kb hkb))
      intro a b hab; simpa using hab
    simp [this]
  simp [c1, c2, c3, c4, c5]

end Influx.Tsm
