/-
  Lemmas.TsmWriter — the stateful writer (`tsmWriter.WriteBlock` / `directIndex.Add` /
  `flush` / `WriteIndex`) run on the blocks of a well-formed list of keys produces
  exactly `serialise crc kbs`, every call answering ok.
-/
import Influx.Model.TsmFile
import Influx.Lemmas.TsmRoundtrip

namespace Influx.Tsm
open Influx.Generated.TsmLayout

/-- the writer calls for one key -/
def writeKey (crc : Bytes → Nat) (s : WState) (k : Key) (bs : List Blk) : WState × List WAns :=
  bs.foldl (fun acc b => let r := writeBlock crc acc.1 k b.minT b.maxT b.data; (r.1, acc.2 ++ [r.2])) (s, [])

/-- the writer calls for a whole file, in order -/
def writeAll (crc : Bytes → Nat) (kbs : List (Key × List Blk)) : WState × List WAns :=
  kbs.foldl (fun acc kb => let r := writeKey crc acc.1 kb.1 kb.2; (r.1, acc.2 ++ r.2)) ({}, [])

/-- a block the writer accepts: non-empty, a known block type, checksum + data in 32 bits -/
structure WBlk (b : Blk) : Prop where
  ne : b.data ≠ []
  typ : ∀ b0, b.data.head? = some b0 → b0 ≤ 4
  size : 4 + b.data.length < 4294967296

def idxBytes (s : WState) : Bytes := s.idx.reverse.flatten

theorem sortEntries_sorted (l : List IndexEntry) (h : l.Pairwise fun a b => a.MinTime ≤ b.MinTime) :
    sortEntries l = l := by
  have ins : ∀ (acc : List IndexEntry) (e : IndexEntry), (∀ x ∈ acc, x.MinTime ≤ e.MinTime) →
      insertEntry e acc = acc ++ [e] := by
    intro acc e hacc
    induction acc with
    | nil => rfl
    | cons x xs ih =>
      have hx := hacc x List.mem_cons_self
      have : ¬ e.MinTime < x.MinTime := by omega
      simp only [insertEntry, this, if_false, List.cons_append]
      rw [ih (fun y hy => hacc y (List.mem_cons_of_mem _ hy))]
  have : ∀ (l acc : List IndexEntry), (acc ++ l).Pairwise (fun a b => a.MinTime ≤ b.MinTime) →
      l.foldl (fun acc e => insertEntry e acc) acc = acc ++ l := by
    intro l
    induction l with
    | nil => intro acc _; simp
    | cons e l ih =>
      intro acc hp
      simp only [List.foldl_cons]
      have hacc : ∀ x ∈ acc, x.MinTime ≤ e.MinTime := by
        intro x hx
        have := List.pairwise_append.mp hp
        exact this.2.2 x hx e List.mem_cons_self
      rw [ins acc e hacc, ih (acc ++ [e]) (by simpa [List.append_assoc] using hp)]
      simp [List.append_assoc]
  simpa [sortEntries] using this l [] (by simpa using h)

/-- a further block of the current key -/
theorem writeBlock_same (crc : Bytes → Nat) (s : WState) (k : Key) (b : Blk)
    (hk : s.key = k) (hkne : k.length ≠ 0) (hkl : k.length ≤ 65535) (hn : s.n ≠ 0) (hb : WBlk b)
    (hcnt : s.ents.length + 1 < 65535) :
    ∃ sz, writeBlock crc s k b.minT b.maxT b.data =
      ({ s with body := (be 4 (crc b.data) ++ b.data) :: s.body,
                ents := ⟨b.minT, b.maxT, s.n, 4 + b.data.length⟩ :: s.ents,
                size := sz, n := s.n + (4 + b.data.length) }, .ok) := by
  unfold writeBlock
  have h1 : ¬ k.length > maxKeyLength := by simp [maxKeyLength]; omega
  rw [if_neg h1]
  cases hd : b.data with
  | nil => exact absurd hd hb.ne
  | cons b0 rest =>
    have hb0 : b0 ≤ 4 := hb.typ b0 (by rw [hd]; rfl)
    have hsz := hb.size
    rw [hd] at hsz
    simp only
    rw [if_neg (by simp [BlockUnsigned]; omega)]
    simp only [hn, if_false]
    have hlen : (be 4 (crc (b0 :: rest)) ++ b0 :: rest).length = 4 + (b0 :: rest).length := by simp
    have hu : u32 (be 4 (crc (b0 :: rest)) ++ b0 :: rest).length = 4 + (b0 :: rest).length := by
      rw [hlen]; unfold u32; omega
    have hkey : ¬ s.key.length = 0 := by rw [hk]; exact hkne
    simp only [idxAdd, hkey, if_false, hk, kcmp_refl, hu]
    simp only [idxEntriesLen, hkne, if_false, if_true, List.length_cons, hlen]
    rw [if_neg (by simp [maxIndexEntries]; omega)]
    exact ⟨_, rfl⟩


theorem header_length : header.length = 5 := by rw [header_eq]; rfl

/-- the first block of a new key (after `prev`, or the very first block of the file) -/
theorem writeBlock_new (crc : Bytes → Nat) (s : WState) (k : Key) (b : Blk)
    (hprev : (s.key = [] ∧ s.ents = []) ∨ (kcmp s.key k = .lt ∧ s.key ≠ [] ∧ s.ents.length ≤ 65535))
    (hkne : k.length ≠ 0) (hkl : k.length ≤ 65535) (hb : WBlk b) :
    ∃ s', writeBlock crc s k b.minT b.maxT b.data = (s', .ok) ∧
      bodyBytes s' = bodyBytes s ++ (if s.n = 0 then header else []) ++ (be 4 (crc b.data) ++ b.data) ∧
      idxBytes s' = idxBytes s ++
        (if s.key = [] then [] else encKeyEntry ⟨s.key, s.typ, sortEntries s.ents.reverse⟩) ∧
      s'.n = (if s.n = 0 then 5 else s.n) + (4 + b.data.length) ∧ s'.key = k ∧
      s'.typ = (b.data.head?).getD 0 ∧
      s'.ents = [⟨b.minT, b.maxT, ((if s.n = 0 then 5 else s.n : Nat) : Int), 4 + b.data.length⟩] ∧
      s'.keyCount = s.keyCount + 1 := by
  unfold writeBlock
  have h1 : ¬ k.length > maxKeyLength := by simp [maxKeyLength]; omega
  rw [if_neg h1]
  cases hd : b.data with
  | nil => exact absurd hd hb.ne
  | cons b0 rest =>
    have hb0 : b0 ≤ 4 := hb.typ b0 (by rw [hd]; rfl)
    have hsz := hb.size
    rw [hd] at hsz
    simp only
    rw [if_neg (by simp [BlockUnsigned]; omega)]
    have hlen : (be 4 (crc (b0 :: rest)) ++ b0 :: rest).length = 4 + (b0 :: rest).length := by simp
    have hu : u32 (be 4 (crc (b0 :: rest)) ++ b0 :: rest).length = 4 + (b0 :: rest).length := by
      rw [hlen]; unfold u32; omega
    rcases hprev with ⟨hk0, he0⟩ | ⟨hlt, hkn, hcnt⟩
    · -- no current key
      by_cases hn : s.n = 0
      · simp only [hn, if_true, idxAdd, hk0, List.length_nil, he0, hu, header_length]
        simp only [idxEntriesLen, hkne, if_false, if_true, List.length_cons, List.length_nil, hlen]
        rw [if_neg (by simp [maxIndexEntries])]
        refine ⟨_, rfl, ?_, ?_, ?_, rfl, rfl, by simp, rfl⟩
        · simp [bodyBytes, List.append_assoc]
        · simp [idxBytes]
        · simp
      · simp only [hn, if_false, idxAdd, hk0, List.length_nil, if_true, he0, hu]
        simp only [idxEntriesLen, hkne, if_false, if_true, List.length_cons, List.length_nil, hlen]
        rw [if_neg (by simp [maxIndexEntries])]
        refine ⟨_, rfl, ?_, ?_, ?_, rfl, rfl, by simp, rfl⟩
        · simp [bodyBytes]
        · simp [idxBytes]
        · simp
    · have hkl0 : ¬ s.key.length = 0 := by
        intro h; exact hkn (List.length_eq_zero_iff.mp h)
      have hmax : ¬ s.ents.length > maxIndexEntries := by simp [maxIndexEntries]; omega
      by_cases hn : s.n = 0
      · simp only [hn, if_true, idxAdd, hkl0, if_false, hlt, hu, header_length, flush, hmax, Option.getD_some]
        simp only [idxEntriesLen, hkne, if_false, if_true, List.length_cons, List.length_nil, hlen]
        rw [if_neg (by simp [maxIndexEntries])]
        refine ⟨_, rfl, ?_, ?_, ?_, rfl, rfl, by simp, rfl⟩
        · simp [bodyBytes, List.append_assoc]
        · simp [idxBytes, hkn]
        · simp
      · simp only [hn, if_false, idxAdd, hkl0, hlt, hu, flush, hmax, Option.getD_some]
        simp only [idxEntriesLen, hkne, if_false, if_true, List.length_cons, List.length_nil, hlen]
        rw [if_neg (by simp [maxIndexEntries])]
        refine ⟨_, rfl, ?_, ?_, ?_, rfl, rfl, by simp, rfl⟩
        · simp [bodyBytes]
        · simp [idxBytes, hkn]
        · simp


theorem writeKey_acc (crc : Bytes → Nat) (k : Key) (bs : List Blk) : ∀ (s : WState) (pre : List WAns),
    bs.foldl (fun acc b => let r := writeBlock crc acc.1 k b.minT b.maxT b.data; (r.1, acc.2 ++ [r.2])) (s, pre) =
      ((writeKey crc s k bs).1, pre ++ (writeKey crc s k bs).2) := by
  induction bs with
  | nil => intro s pre; simp [writeKey]
  | cons b bs ih =>
    intro s pre
    simp only [writeKey, List.foldl_cons]
    rw [ih, ih (writeBlock crc s k b.minT b.maxT b.data).1 ([] ++ [_])]
    simp [List.append_assoc]

theorem writeKey_cons (crc : Bytes → Nat) (s : WState) (k : Key) (b : Blk) (bs : List Blk) :
    writeKey crc s k (b :: bs) =
      ((writeKey crc (writeBlock crc s k b.minT b.maxT b.data).1 k bs).1,
       (writeBlock crc s k b.minT b.maxT b.data).2 :: (writeKey crc (writeBlock crc s k b.minT b.maxT b.data).1 k bs).2) := by
  simp only [writeKey, List.foldl_cons]
  rw [writeKey_acc]
  simp [writeKey]

/-- further blocks of the current key -/
theorem writeKey_same (crc : Bytes → Nat) (k : Key) (hkne : k.length ≠ 0) (hkl : k.length ≤ 65535)
    (bs : List Blk) (hb : ∀ b ∈ bs, WBlk b) :
    ∀ s : WState, s.key = k → s.n ≠ 0 → s.ents.length + bs.length < 65535 →
    ∃ s', writeKey crc s k bs = (s', List.replicate bs.length .ok) ∧
      bodyBytes s' = bodyBytes s ++ encBlocks crc bs ∧ idxBytes s' = idxBytes s ∧
      s'.n = s.n + blocksLen bs ∧ s'.key = k ∧ s'.typ = s.typ ∧
      s'.ents.reverse = s.ents.reverse ++ layoutBlocks s.n bs ∧ s'.keyCount = s.keyCount := by
  induction bs with
  | nil =>
    intro s hk hn _
    exact ⟨s, rfl, by simp [encBlocks], rfl, by simp [blocksLen], hk, rfl, by simp [layoutBlocks], rfl⟩
  | cons b bs ih =>
    intro s hk hn hcnt
    simp only [List.length_cons] at hcnt
    obtain ⟨sz, hw⟩ := writeBlock_same crc s k b hk hkne hkl hn (hb b List.mem_cons_self) (by omega)
    rw [writeKey_cons, hw]
    simp only
    obtain ⟨s', h1, h2, h3, h4, h5, h6, h7, h8⟩ := ih (fun x hx => hb x (List.mem_cons_of_mem _ hx))
      { s with body := (be 4 (crc b.data) ++ b.data) :: s.body,
               ents := ⟨b.minT, b.maxT, s.n, 4 + b.data.length⟩ :: s.ents, size := sz, n := s.n + (4 + b.data.length) }
      hk (by simp) (by simp; omega)
    refine ⟨s', by rw [h1]; simp [List.replicate_succ], ?_, ?_, ?_, h5, h6, ?_, h8⟩
    · rw [h2]; simp [bodyBytes, encBlocks, List.append_assoc]
    · rw [h3]; rfl
    · rw [h4]; simp [blocksLen]; omega
    · rw [h7]; simp [layoutBlocks, Nat.add_assoc]

/-- all the blocks of one key, written after another key (or first in the file) -/
theorem writeKey_spec (crc : Bytes → Nat) (s : WState) (k : Key) (bs : List Blk)
    (hprev : (s.key = [] ∧ s.ents = []) ∨ (kcmp s.key k = .lt ∧ s.key ≠ [] ∧ s.ents.length ≤ 65535))
    (hkne : k.length ≠ 0) (hkl : k.length ≤ 65535) (hb : ∀ b ∈ bs, WBlk b)
    (hne : bs ≠ []) (hcnt : bs.length < 65535) :
    ∃ s', writeKey crc s k bs = (s', List.replicate bs.length .ok) ∧
      bodyBytes s' = bodyBytes s ++ (if s.n = 0 then header else []) ++ encBlocks crc bs ∧
      idxBytes s' = idxBytes s ++
        (if s.key = [] then [] else encKeyEntry ⟨s.key, s.typ, sortEntries s.ents.reverse⟩) ∧
      s'.n = (if s.n = 0 then 5 else s.n) + blocksLen bs ∧ s'.key = k ∧
      s'.typ = ((bs.head?.bind (·.data.head?)).getD 0) ∧
      s'.ents.reverse = layoutBlocks (if s.n = 0 then 5 else s.n) bs ∧
      s'.keyCount = s.keyCount + 1 := by
  cases bs with
  | nil => exact absurd rfl hne
  | cons b rest =>
    obtain ⟨s1, hw, a1, a2, a3, a4, a5, a6, a7⟩ :=
      writeBlock_new crc s k b hprev hkne hkl (hb b List.mem_cons_self)
    rw [writeKey_cons, hw]
    simp only
    simp only [List.length_cons] at hcnt
    have hn1 : s1.n ≠ 0 := by rw [a3]; split <;> omega
    obtain ⟨s', h1, h2, h3, h4, h5, h6, h7, h8⟩ :=
      writeKey_same crc k hkne hkl rest (fun x hx => hb x (List.mem_cons_of_mem _ hx)) s1 a4 hn1
        (by rw [a6]; simp; omega)
    refine ⟨s', by rw [h1]; simp [List.replicate_succ], ?_, ?_, ?_, h5, ?_, ?_, ?_⟩
    · rw [h2, a1]; simp [encBlocks, List.append_assoc]
    · rw [h3, a2]
    · rw [h4, a3]; simp [blocksLen]; omega
    · rw [h6, a5]
      cases hd : b.data <;> simp [hd]
    · rw [h7, a6, a3]
      simp [layoutBlocks, Nat.add_assoc]
    · rw [h8, a7]


/-- the index bytes once the pending key is flushed -/
def fullIdx (s : WState) : Bytes :=
  idxBytes s ++ (if s.key = [] then [] else encKeyEntry ⟨s.key, s.typ, sortEntries s.ents.reverse⟩)

/-- what the writer accepts and writes back unchanged: non-empty keys of at most 65535 bytes
    in strictly increasing order, per key 1..65534 acceptable blocks in min-time order -/
structure WFW (kbs : List (Key × List Blk)) : Prop where
  keys : kbs.Pairwise fun a b => kcmp a.1 b.1 = .lt
  kne : ∀ kb ∈ kbs, kb.1.length ≠ 0 ∧ kb.1.length ≤ 65535
  blks : ∀ kb ∈ kbs, kb.2 ≠ [] ∧ kb.2.length < 65535 ∧ ∀ b ∈ kb.2, WBlk b
  sorted : ∀ kb ∈ kbs, kb.2.Pairwise fun a b => a.minT ≤ b.minT

theorem layoutBlocks_sorted (pos : Nat) (bs : List Blk) (h : bs.Pairwise fun a b => a.minT ≤ b.minT) :
    (layoutBlocks pos bs).Pairwise fun a b => a.MinTime ≤ b.MinTime := by
  induction bs generalizing pos with
  | nil => simp [layoutBlocks]
  | cons b bs ih =>
    have hb := List.pairwise_cons.mp h
    simp only [layoutBlocks]
    apply List.pairwise_cons.mpr
    refine ⟨?_, ih _ hb.2⟩
    intro e he
    have : ∀ (pos : Nat) (l : List Blk), (∀ x ∈ l, b.minT ≤ x.minT) → ∀ e ∈ layoutBlocks pos l, b.minT ≤ e.MinTime := by
      intro pos l
      induction l generalizing pos with
      | nil => intro _ e he; simp [layoutBlocks] at he
      | cons x l ih2 =>
        intro hl e he
        simp only [layoutBlocks, List.mem_cons] at he
        rcases he with rfl | he
        · exact hl x List.mem_cons_self
        · exact ih2 _ (fun y hy => hl y (List.mem_cons_of_mem _ hy)) e he
    exact this _ bs hb.1 e he

theorem writeAll_acc (crc : Bytes → Nat) (kbs : List (Key × List Blk)) : ∀ (s : WState) (pre : List WAns),
    kbs.foldl (fun acc kb => let r := writeKey crc acc.1 kb.1 kb.2; (r.1, acc.2 ++ r.2)) (s, pre) =
      ((kbs.foldl (fun acc kb => let r := writeKey crc acc.1 kb.1 kb.2; (r.1, acc.2 ++ r.2)) (s, [])).1,
       pre ++ (kbs.foldl (fun acc kb => let r := writeKey crc acc.1 kb.1 kb.2; (r.1, acc.2 ++ r.2)) (s, [])).2) := by
  induction kbs with
  | nil => intro s pre; simp
  | cons kb kbs ih =>
    intro s pre
    simp only [List.foldl_cons]
    rw [ih, ih (writeKey crc s kb.1 kb.2).1 ([] ++ _)]
    simp [List.append_assoc]

theorem writeFrom_spec (crc : Bytes → Nat) (kbs : List (Key × List Blk)) (hw : WFW kbs) :
    ∀ s : WState,
      ((s.key = [] ∧ s.ents = [] ∧ s.n = 0 ∧ kbs ≠ []) ∨
       (s.key ≠ [] ∧ s.n ≠ 0 ∧ s.ents.length ≤ 65535 ∧ ∀ kb ∈ kbs, kcmp s.key kb.1 = .lt)) →
      ∃ s' ans, kbs.foldl (fun acc kb => let r := writeKey crc acc.1 kb.1 kb.2; (r.1, acc.2 ++ r.2)) (s, []) = (s', ans) ∧
        (∀ a ∈ ans, a = WAns.ok) ∧
        bodyBytes s' = bodyBytes s ++ (if s.n = 0 then header else []) ++ (kbs.flatMap fun kb => encBlocks crc kb.2) ∧
        fullIdx s' = fullIdx s ++ (layout (if s.n = 0 then 5 else s.n) kbs).flatMap encKeyEntry ∧
        s'.n = (if s.n = 0 then 5 else s.n) + totalBlocks kbs ∧
        s'.keyCount = s.keyCount + kbs.length ∧
        (s'.key ≠ [] ∨ (kbs = [] ∧ s'.key = s.key)) ∧ s'.ents.length ≤ 65535 := by
  induction kbs with
  | nil =>
    intro s hs
    rcases hs with ⟨_, _, _, h⟩ | ⟨h1, h2, h3, _⟩
    · exact absurd rfl h
    · refine ⟨s, [], rfl, by simp, ?_, ?_, ?_, rfl, Or.inr ⟨rfl, rfl⟩, h3⟩
      · simp [h2]
      · simp [layout]
      · simp [h2, totalBlocks]
  | cons kb rest ih =>
    intro s hs
    obtain ⟨k, bs⟩ := kb
    have hk := hw.kne (k, bs) List.mem_cons_self
    have hbk := hw.blks (k, bs) List.mem_cons_self
    have hsorted := hw.sorted (k, bs) List.mem_cons_self
    simp only at hk hbk hsorted
    have hwrest : WFW rest := ⟨(List.pairwise_cons.mp hw.keys).2, fun x hx => hw.kne x (List.mem_cons_of_mem _ hx),
      fun x hx => hw.blks x (List.mem_cons_of_mem _ hx), fun x hx => hw.sorted x (List.mem_cons_of_mem _ hx)⟩
    have hprev : (s.key = [] ∧ s.ents = []) ∨ (kcmp s.key k = .lt ∧ s.key ≠ [] ∧ s.ents.length ≤ 65535) := by
      rcases hs with ⟨h1, h2, _, _⟩ | ⟨h1, _, h3, h4⟩
      · exact Or.inl ⟨h1, h2⟩
      · exact Or.inr ⟨h4 (k, bs) List.mem_cons_self, h1, h3⟩
    obtain ⟨s1, hw1, a1, a2, a3, a4, a5, a6, a7⟩ :=
      writeKey_spec crc s k bs hprev hk.1 hk.2 hbk.2.2 hbk.1 hbk.2.1
    have hn1 : s1.n ≠ 0 := by rw [a3]; split <;> omega
    have hk1 : s1.key ≠ [] := by
      rw [a4]; intro h; exact hk.1 (by rw [h]; rfl)
    have hlen1 : s1.ents.length ≤ 65535 := by
      have : s1.ents.length = bs.length := by
        have := congrArg List.length a6
        simpa [layoutBlocks_length] using this
      omega
    obtain ⟨s', ans, hf, hans, b1, b2, b3, b4, b5, b6⟩ := ih hwrest s1
      (Or.inr ⟨hk1, hn1, hlen1, by
        intro x hx; rw [a4]; exact (List.pairwise_cons.mp hw.keys).1 x hx⟩)
    have hpos1 : (if s1.n = 0 then 5 else s1.n) = (if s.n = 0 then 5 else s.n) + blocksLen bs := by
      rw [if_neg hn1, a3]
    have hhdr1 : (if s1.n = 0 then header else []) = [] := by rw [if_neg hn1]
    rw [hpos1] at b2 b3
    rw [hhdr1] at b1
    simp only [List.foldl_cons]
    rw [hw1, writeAll_acc, hf]
    refine ⟨s', _, rfl, ?_, ?_, ?_, ?_, ?_, ?_, b6⟩
    · intro a ha
      simp only [List.nil_append, List.mem_append] at ha
      rcases ha with ha | ha
      · exact (List.mem_replicate.mp ha).2
      · exact hans a ha
    · rw [b1, a1]; simp [List.append_assoc]
    · rw [b2]
      have : fullIdx s1 = fullIdx s ++ encKeyEntry ⟨k, (bs.head?.bind (·.data.head?)).getD 0,
          layoutBlocks (if s.n = 0 then 5 else s.n) bs⟩ := by
        unfold fullIdx
        rw [a2, a4, a5, a6, sortEntries_sorted _ (layoutBlocks_sorted _ bs hsorted)]
        have : ¬ k = [] := fun h => hk.1 (by rw [h]; rfl)
        simp [this, List.append_assoc]
      rw [this]
      simp only [layout, List.flatMap_cons, List.append_assoc]
    · rw [b3]; simp only [totalBlocks, List.map_cons, List.sum_cons]; omega
    · rw [b4, a7]; simp; omega
    · rcases b5 with h | ⟨_, h⟩
      · exact Or.inl h
      · exact Or.inl (by rw [h]; exact hk1)

/-- **The writer produces the serialised file.**  Every `WriteBlock` answers ok and
    `WriteIndex` answers ok with exactly `header ++ blocks ++ index ++ footer`. -/
theorem writeAll_serialise (crc : Bytes → Nat) (kbs : List (Key × List Blk)) (hw : WFW kbs) (hne : kbs ≠ []) :
    (∀ a ∈ (writeAll crc kbs).2, a = WAns.ok) ∧
    writeIndex (writeAll crc kbs).1 = (.ok, serialise crc kbs) := by
  obtain ⟨s', ans, hf, hans, b1, b2, b3, b4, b5, b6⟩ := writeFrom_spec crc kbs hw {} (Or.inl ⟨rfl, rfl, rfl, hne⟩)
  unfold writeAll
  rw [hf]
  refine ⟨hans, ?_⟩
  have hkey : s'.key ≠ [] := by
    rcases b5 with h | ⟨h, _⟩
    · exact h
    · exact absurd h hne
  have hkc : ¬ s'.keyCount = 0 := by
    rw [b4]
    have : 0 < kbs.length := List.length_pos_iff.mpr hne
    simp; omega
  unfold writeIndex
  rw [if_neg hkc]
  have hkl : ¬ s'.key.length = 0 := fun h => hkey (List.length_eq_zero_iff.mp h)
  simp only [flush, hkl, if_false]
  rw [if_neg (by simp [maxIndexEntries]; omega)]
  simp only
  have hidx : (encKeyEntry ⟨s'.key, s'.typ, sortEntries s'.ents.reverse⟩ :: s'.idx).reverse.flatten = fullIdx s' := by
    simp [fullIdx, idxBytes, hkey]
  rw [hidx, b1, b2, b3]
  simp only [serialise, header_length]
  have e0 : bodyBytes ({} : WState) = [] := rfl
  have e1 : fullIdx ({} : WState) = [] := rfl
  have e2 : ({} : WState).n = 0 := rfl
  simp only [e0, e1, e2, if_true, List.nil_append, allBlocks_length]

end Influx.Tsm
