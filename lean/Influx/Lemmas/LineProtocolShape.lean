/-
  The shape of what the key scanners accept: every delimiter byte inside a scanned component
  is preceded by a backslash ("not bare"), and the component does not end in a backslash.
-/
import Influx.Lemmas.LineProtocolSound

namespace Influx.LP
open Influx.Generated.LineProto

/-- no byte of `D` occurs in `s` without a backslash right before it (`pbs`: before `s`) -/
def NoBare (D : Nat → Bool) : Bool → Bytes → Prop
  | _, [] => True
  | pbs, b :: r => (D b = true → pbs = true) ∧ NoBare D (b == cBS) r

theorem NoBare_mono (D D' : Nat → Bool) (h : ∀ b, D' b = true → D b = true) (pbs : Bool) (s : Bytes)
    (hs : NoBare D pbs s) : NoBare D' pbs s := by
  induction s generalizing pbs with
  | nil => trivial
  | cons b r ih => exact ⟨fun hb => hs.1 (h b hb), ih _ hs.2⟩

theorem scanTo_noBare_end (stop : Nat) (pbs : Bool) (s : Bytes) (h : NoBare (· == stop) pbs s) :
    scanTo stop pbs s = (s, []) := by
  induction s generalizing pbs with
  | nil => rfl
  | cons b r ih =>
    rw [scanTo]
    have hno : ¬ (b = stop ∧ pbs = false) := by
      intro ⟨h1, h2⟩
      have := h.1 (by simp [h1])
      rw [h2] at this; cases this
    rw [if_neg hno, ih _ h.2]

theorem scanTo_noBare (stop : Nat) (pbs : Bool) (s X : Bytes) (h : NoBare (· == stop) pbs s)
    (hl : lastIsBS pbs s = false) : scanTo stop pbs (s ++ stop :: X) = (s, stop :: X) := by
  induction s generalizing pbs with
  | nil =>
    simp only [lastIsBS] at hl
    simp [scanTo, hl]
  | cons b r ih =>
    rw [List.cons_append, scanTo]
    have hno : ¬ (b = stop ∧ pbs = false) := by
      intro ⟨h1, h2⟩
      have := h.1 (by simp [h1])
      rw [h2] at this; cases this
    rw [if_neg hno, ih _ h.2 hl]

/-! ### shapes produced by the scanners -/

theorem scanMeasAux_shape (prev : Nat) (buf n : Bytes) (e : MeasEnd) (h : scanMeasAux prev buf = (n, e)) :
    NoBare isMeasSpecial (prev == cBS) n ∧
    (∀ r, e = .tags r → lastIsBS (prev == cBS) n = false ∧ buf = n ++ cComma :: r) ∧
    (∀ r, e = .fields r → lastIsBS (prev == cBS) n = false ∧ buf = n ++ r ∧ r.head? = some cSpace) := by
  induction buf generalizing prev n e with
  | nil =>
    simp only [scanMeasAux, Prod.mk.injEq] at h
    obtain ⟨rfl, rfl⟩ := h
    refine ⟨trivial, ?_, ?_⟩ <;> intro r hr <;> cases hr
  | cons b rest ih =>
    obtain ⟨n', e', hne⟩ : ∃ n' e', scanMeasAux b rest = (n', e') := ⟨_, _, rfl⟩
    rw [scanMeasAux, hne] at h
    split at h
    · next hc =>
      simp only [Prod.mk.injEq] at h
      obtain ⟨rfl, rfl⟩ := h
      have hp : (prev == cBS) = false := by simpa using hc.1
      refine ⟨trivial, ?_, ?_⟩
      · intro r hr
        cases hr
        exact ⟨by simp [lastIsBS, hp], by rw [hc.2]; rfl⟩
      · intro r hr; cases hr
    · split at h
      · next hc1 hc =>
        simp only [Prod.mk.injEq] at h
        obtain ⟨rfl, rfl⟩ := h
        have hp : (prev == cBS) = false := by simpa using hc.1
        refine ⟨trivial, ?_, ?_⟩
        · intro r hr; cases hr
        · intro r hr
          cases hr
          exact ⟨by simp [lastIsBS, hp], rfl, by rw [hc.2]; rfl⟩
      · next hc1 hc2 =>
        simp only [Prod.mk.injEq] at h
        obtain ⟨rfl, rfl⟩ := h
        obtain ⟨i1, i2, i3⟩ := ih b n' e' hne
        refine ⟨⟨?_, i1⟩, ?_, ?_⟩
        · intro hb
          cases hp : (prev == cBS) with
          | true => rfl
          | false =>
            exfalso
            have hp' : prev ≠ cBS := by simpa using hp
            simp only [isMeasSpecial, Bool.or_eq_true, beq_iff_eq] at hb
            rcases hb with hb | hb
            · exact hc1 ⟨hp', hb⟩
            · exact hc2 ⟨hp', hb⟩
        · intro r hr
          obtain ⟨j1, j2⟩ := i2 r hr
          exact ⟨by simpa [lastIsBS] using j1, congrArg (List.cons b) j2⟩
        · intro r hr
          obtain ⟨j1, j2, j3⟩ := i3 r hr
          exact ⟨by simpa [lastIsBS] using j1, congrArg (List.cons b) j2, j3⟩

theorem isTagSpecial_cases (b : Nat) (h : isTagSpecial b = true) : b = cComma ∨ b = cSpace ∨ b = cEq := by
  simp only [isTagSpecial, Bool.or_eq_true, beq_iff_eq] at h
  rcases h with (h | h) | h <;> simp [h]

theorem scanTagsKeyAux_shape (prev : Nat) (buf k r : Bytes) (h : scanTagsKeyAux prev buf = .ok (k, r)) :
    NoBare isTagSpecial (prev == cBS) k ∧ lastIsBS (prev == cBS) k = false ∧ buf = k ++ cEq :: r := by
  induction buf generalizing prev k r with
  | nil => simp [scanTagsKeyAux] at h
  | cons b rest ih =>
    rw [scanTagsKeyAux] at h
    split at h
    · cases h
    · next hc1 =>
      split at h
      · next hc2 =>
        simp only [Except.ok.injEq, Prod.mk.injEq] at h
        obtain ⟨rfl, rfl⟩ := h
        have hp : (prev == cBS) = false := by simpa using hc2.2
        exact ⟨trivial, by simp [lastIsBS, hp], by rw [hc2.1]; rfl⟩
      · next hc2 =>
        cases hrec : scanTagsKeyAux b rest with
        | error e => rw [hrec] at h; cases h
        | ok p =>
          obtain ⟨k', r'⟩ := p
          rw [hrec] at h
          simp only [Except.ok.injEq, Prod.mk.injEq] at h
          obtain ⟨rfl, rfl⟩ := h
          obtain ⟨i1, i2, i3⟩ := ih b k' r' hrec
          refine ⟨⟨?_, i1⟩, by simpa [lastIsBS] using i2, congrArg (List.cons b) i3⟩
          intro hb
          cases hp : (prev == cBS) with
          | true => rfl
          | false =>
            exfalso
            have hp' : prev ≠ cBS := by simpa using hp
            rcases isTagSpecial_cases b hb with hb | hb | hb
            · exact hc1 ⟨Or.inr hb, hp'⟩
            · exact hc1 ⟨Or.inl hb, hp'⟩
            · exact hc2 ⟨hb, hp'⟩

theorem scanTagsKey_shape (buf k r : Bytes) (h : scanTagsKey buf = .ok (k, r)) :
    k ≠ [] ∧ NoBare isTagSpecial false k ∧ lastIsBS false k = false ∧ buf = k ++ cEq :: r := by
  cases buf with
  | nil => simp [scanTagsKey] at h
  | cons b rest =>
    rw [scanTagsKey] at h
    split at h
    · cases h
    · next hc =>
      cases hrec : scanTagsKeyAux b rest with
      | error e => rw [hrec] at h; cases h
      | ok p =>
        obtain ⟨k', r'⟩ := p
        rw [hrec] at h
        simp only [Except.ok.injEq, Prod.mk.injEq] at h
        obtain ⟨rfl, rfl⟩ := h
        obtain ⟨i1, i2, i3⟩ := scanTagsKeyAux_shape b rest k' r' hrec
        refine ⟨by simp, ⟨?_, i1⟩, by simpa [lastIsBS] using i2, congrArg (List.cons b) i3⟩
        intro hb
        exfalso
        rcases isTagSpecial_cases b hb with hb | hb | hb
        · exact hc (Or.inr (Or.inl hb))
        · exact hc (Or.inl hb)
        · exact hc (Or.inr (Or.inr hb))

theorem scanTagsValueAux_shape (prev : Nat) (buf v : Bytes) (e : TagEnd)
    (h : scanTagsValueAux prev buf = .ok (v, e)) :
    NoBare isTagSpecial (prev == cBS) v ∧ lastIsBS (prev == cBS) v = false ∧
    (∀ r, e = .key r → buf = v ++ cComma :: r) ∧
    (∀ r, e = .fields r → buf = v ++ r ∧ r.head? = some cSpace) := by
  induction buf generalizing prev v e with
  | nil => simp [scanTagsValueAux] at h
  | cons b rest ih =>
    rw [scanTagsValueAux] at h
    split at h
    · cases h
    · next hc1 =>
      split at h
      · next hc2 =>
        simp only [Except.ok.injEq, Prod.mk.injEq] at h
        obtain ⟨rfl, rfl⟩ := h
        have hp : (prev == cBS) = false := by simpa using hc2.2
        refine ⟨trivial, by simp [lastIsBS, hp], ?_, ?_⟩
        · intro r hr; cases hr; rw [hc2.1]; rfl
        · intro r hr; cases hr
      · next hc2 =>
        split at h
        · next hc3 =>
          simp only [Except.ok.injEq, Prod.mk.injEq] at h
          obtain ⟨rfl, rfl⟩ := h
          have hp : (prev == cBS) = false := by simpa using hc3.2
          refine ⟨trivial, by simp [lastIsBS, hp], ?_, ?_⟩
          · intro r hr; cases hr
          · intro r hr; cases hr; exact ⟨rfl, by rw [hc3.1]; rfl⟩
        · next hc3 =>
          cases hrec : scanTagsValueAux b rest with
          | error e' => rw [hrec] at h; cases h
          | ok p =>
            obtain ⟨v', e'⟩ := p
            rw [hrec] at h
            simp only [Except.ok.injEq, Prod.mk.injEq] at h
            obtain ⟨rfl, rfl⟩ := h
            obtain ⟨i1, i2, i3, i4⟩ := ih b v' e' hrec
            refine ⟨⟨?_, i1⟩, by simpa [lastIsBS] using i2, ?_, ?_⟩
            · intro hb
              cases hp : (prev == cBS) with
              | true => rfl
              | false =>
                exfalso
                have hp' : prev ≠ cBS := by simpa using hp
                rcases isTagSpecial_cases b hb with hb | hb | hb
                · exact hc2 ⟨hb, hp'⟩
                · exact hc3 ⟨hb, hp'⟩
                · exact hc1 ⟨hb, hp'⟩
            · intro r hr; exact congrArg (List.cons b) (i3 r hr)
            · intro r hr; exact ⟨congrArg (List.cons b) (i4 r hr).1, (i4 r hr).2⟩

/-- the value part: only `,` and space matter for where it ends (its first byte may be `=`) -/
theorem scanTagsValue_shape (buf v : Bytes) (e : TagEnd) (h : scanTagsValue buf = .ok (v, e)) :
    v ≠ [] ∧ NoBare isMeasSpecial false v ∧ lastIsBS false v = false ∧
    (∀ r, e = .key r → buf = v ++ cComma :: r) ∧
    (∀ r, e = .fields r → buf = v ++ r ∧ r.head? = some cSpace) := by
  cases buf with
  | nil => simp [scanTagsValue] at h
  | cons b rest =>
    rw [scanTagsValue] at h
    split at h
    · cases h
    · next hc =>
      cases hrec : scanTagsValueAux b rest with
      | error e' => rw [hrec] at h; cases h
      | ok p =>
        obtain ⟨v', e'⟩ := p
        rw [hrec] at h
        simp only [Except.ok.injEq, Prod.mk.injEq] at h
        obtain ⟨rfl, rfl⟩ := h
        obtain ⟨i1, i2, i3, i4⟩ := scanTagsValueAux_shape b rest v' e' hrec
        refine ⟨by simp, ⟨?_, NoBare_mono isTagSpecial isMeasSpecial (by
          intro c hc'; simp only [isMeasSpecial, Bool.or_eq_true, beq_iff_eq] at hc'
          rcases hc' with h | h <;> simp [isTagSpecial, h]) _ _ i1⟩, by simpa [lastIsBS] using i2, ?_, ?_⟩
        · intro hb
          exfalso
          simp only [isMeasSpecial, Bool.or_eq_true, beq_iff_eq] at hb
          rcases hb with hb | hb
          · exact hc (Or.inl hb)
          · exact hc (Or.inr hb)
        · intro r hr; exact congrArg (List.cons b) (i3 r hr)
        · intro r hr; exact ⟨congrArg (List.cons b) (i4 r hr).1, (i4 r hr).2⟩

end Influx.LP
