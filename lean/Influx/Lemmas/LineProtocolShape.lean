/-
  The shape of what the key scanners accept: every delimiter byte inside a scanned component
  is preceded by a backslash ("not bare"), and the component does not end in a backslash.
-/
import Influx.Lemmas.LineProtocolSound

namespace Influx.LP
open Influx.Generated.LineProto

/-- no byte of `D` occurs in `s` without a backslash right before it (`pbs`: before `s`) -/
def NoBare (D : Nat → Bool) : Bool → Bytes → Prop
  | _, [] => True
  | pbs, b :: r => (D b = true → pbs = true) ∧ NoBare D (b == cBS) r

theorem NoBare_mono (D D' : Nat → Bool) (h : ∀ b, D' b = true → D b = true) (pbs : Bool) (s : Bytes)
    (hs : NoBare D pbs s) : NoBare D' pbs s := by
  induction s generalizing pbs with
  | nil => trivial
  | cons b r ih => exact ⟨fun hb => hs.1 (h b hb), ih _ hs.2⟩

theorem scanTo_noBare_end (stop : Nat) (pbs : Bool) (s : Bytes) (h : NoBare (· == stop) pbs s) :
    scanTo stop pbs s = (s, []) := by
  induction s generalizing pbs with
  | nil => rfl
  | cons b r ih =>
    rw [scanTo]
    have hno : ¬ (b = stop ∧ pbs = false) := by
      intro ⟨h1, h2⟩
      have := h.1 (by simp [h1])
      rw [h2] at this; cases this
    rw [if_neg hno, ih _ h.2]

theorem scanTo_noBare (stop : Nat) (pbs : Bool) (s X : Bytes) (h : NoBare (· == stop) pbs s)
    (hl : lastIsBS pbs s = false) : scanTo stop pbs (s ++ stop :: X) = (s, stop :: X) := by
  induction s generalizing pbs with
  | nil =>
    simp only [lastIsBS] at hl
    simp [scanTo, hl]
  | cons b r ih =>
    rw [List.cons_append, scanTo]
    have hno : ¬ (b = stop ∧ pbs = false) := by
      intro ⟨h1, h2⟩
      have := h.1 (by simp [h1])
      rw [h2] at this; cases this
    rw [if_neg hno, ih _ h.2 hl]

/-! ### shapes produced by the scanners -/

theorem scanMeasAux_shape (prev : Nat) (buf n : Bytes) (e : MeasEnd) (h : scanMeasAux prev buf = (n, e)) :
    NoBare isMeasSpecial (prev == cBS) n ∧
    (∀ r, e = .tags r → lastIsBS (prev == cBS) n = false ∧ buf = n ++ cComma :: r) ∧
    (∀ r, e = .fields r → lastIsBS (prev == cBS) n = false ∧ buf = n ++ r ∧ r.head? = some cSpace) := by
  induction buf generalizing prev n e with
  | nil =>
    simp only [scanMeasAux, Prod.mk.injEq] at h
    obtain ⟨rfl, rfl⟩ := h
    refine ⟨trivial, ?_, ?_⟩ <;> intro r hr <;> cases hr
  | cons b rest ih =>
    obtain ⟨n', e', hne⟩ : ∃ n' e', scanMeasAux b rest = (n', e') := ⟨_, _, rfl⟩
    rw [scanMeasAux, hne] at h
    split at h
    · next hc =>
      simp only [Prod.mk.injEq] at h
      obtain ⟨rfl, rfl⟩ := h
      have hp : (prev == cBS) = false := by simpa using hc.1
      refine ⟨trivial, ?_, ?_⟩
      · intro r hr
        cases hr
        exact ⟨by simp [lastIsBS, hp], by rw [hc.2]; rfl⟩
      · intro r hr; cases hr
    · split at h
      · next hc1 hc =>
        simp only [Prod.mk.injEq] at h
        obtain ⟨rfl, rfl⟩ := h
        have hp : (prev == cBS) = false := by simpa using hc.1
        refine ⟨trivial, ?_, ?_⟩
        · intro r hr; cases hr
        · intro r hr
          cases hr
          exact ⟨by simp [lastIsBS, hp], rfl, by rw [hc.2]; rfl⟩
      · next hc1 hc2 =>
        simp only [Prod.mk.injEq] at h
        obtain ⟨rfl, rfl⟩ := h
        obtain ⟨i1, i2, i3⟩ := ih b n' e' hne
        refine ⟨⟨?_, i1⟩, ?_, ?_⟩
        · intro hb
          cases hp : (prev == cBS) with
          | true => rfl
          | false =>
            exfalso
            have hp' : prev ≠ cBS := by simpa using hp
            simp only [isMeasSpecial, Bool.or_eq_true, beq_iff_eq] at hb
            rcases hb with hb | hb
            · exact hc1 ⟨hp', hb⟩
            · exact hc2 ⟨hp', hb⟩
        · intro r hr
          obtain ⟨j1, j2⟩ := i2 r hr
          exact ⟨by simpa [lastIsBS] using j1, congrArg (List.cons b) j2⟩
        · intro r hr
          obtain ⟨j1, j2, j3⟩ := i3 r hr
          exact ⟨by simpa [lastIsBS] using j1, congrArg (List.cons b) j2, j3⟩

end Influx.LP
