/-
  Lemmas.DBRPStep — the harness operations keep the invariant; the statement checker on the
  model's trace.
-/
import Influx.Lemmas.DBRPFind

namespace Influx.DBRP
open Influx.Spec.C43

/-- histories of the statement's domain: mappings are created, updated and deleted through the ids
    the service handed out (odd; bucket ids are even — the two id spaces of the harness) -/
def physOp : Op → Bool
  | .bucket _ id _ => id % 2 == 0
  | .update _ id _ _ => id % 2 == 1
  | .delete _ id => id % 2 == 1
  | _ => true

theorem foldl_inv' {α β : Type} (P : β → Prop) (f : β → α → β) (l : List α) (s : β)
    (h0 : P s) (hstep : ∀ s x, x ∈ l → P s → P (f s x)) : P (l.foldl f s) := by
  induction l generalizing s with
  | nil => simpa using h0
  | cons x xs ih =>
    simp only [List.foldl_cons]
    apply ih
    · exact hstep s x (by simp) h0
    · intro s y hy hs; exact hstep s y (by simp [hy]) hs

theorem inv_buckets {s : St} (h : Inv s) (bs : List Bucket) (hb : ∀ b ∈ bs, b.ID % 2 = 0) :
    Inv { s with buckets := bs } :=
  ⟨h.sorted, h.recOK, h.idx, h.idxND, h.byOrg, h.byOrgND, h.defSome, h.defEx, h.uniq, h.nextOdd, hb⟩

/-- ids in a `FindMany` result restricted to a bucket that no longer exists are ids of stored mappings -/
theorem findMany_removed_bucket_ids {s : St} (h : Inv s) (org bid : Nat) (hgone : ∀ b ∈ s.buckets, b.ID ≠ bid)
    {ms : List Mapping} (hf : findMany s { OrgID := some org, BucketID := some bid } = .ok ms) :
    ∀ m ∈ ms, m.ID % 2 = 1 := by
  unfold findMany findPhysical at hf
  simp only at hf
  rw [addAll_ok h _ _ _ (fun v hv => ((walkOrg_mem h).mp hv).1)] at hf
  have hb : findBuckets s { OrgID := some org, BucketID := some bid } = [] := by
    simp only [findBuckets, List.filter_eq_nil_iff, Option.isNone_some, Bool.false_or, Bool.and_eq_true, beq_iff_eq,
      Option.some.injEq, not_and]
    intro b hb hc
    exact absurd hc.symm (hgone b hb)
  simp only [hb, mergeVirtual, List.nil_append, Except.ok.injEq] at hf
  subst hf
  intro m hm
  simp only [List.mem_filter, List.mem_map] at hm
  obtain ⟨⟨v, hv, rfl⟩, _⟩ := hm
  exact (h.recOK v ((walkOrg_mem h).mp hv).1).1

/-- **every operation of a physical-only history keeps the kv buckets consistent** -/
theorem step_inv (s : St) (op : Op) (h : Inv s) (hd : physOp op = true) : Inv (step s op).1 := by
  cases op with
  | bucket org id name =>
    simp only [step]
    split
    · exact h
    · apply inv_buckets h
      intro b hb
      simp only [List.mem_append, List.mem_singleton] at hb
      rcases hb with hb | rfl
      · exact h.bucketsEven b hb
      · simpa [physOp] using hd
  | delBucket id =>
    simp only [step]
    have key : Inv (deleteBucket s id).1 := by
      unfold deleteBucket
      cases hb : findBucketByID s id with
      | none => exact h
      | some b =>
        simp only
        have h1 : Inv { s with buckets := s.buckets.filter (·.ID != id) } :=
          inv_buckets h _ (fun b hb => h.bucketsEven b (List.mem_filter.mp hb).1)
        cases hf : findMany { s with buckets := s.buckets.filter (·.ID != id) } { OrgID := some b.OrgID, BucketID := some b.ID } with
        | error e => exact h1
        | ok ms =>
          simp only
          have hbid : b.ID = id := by
            unfold findBucketByID at hb; simpa using List.find?_some hb
          have hodd := findMany_removed_bucket_ids h1 b.OrgID b.ID
            (by intro b' hb'; have := (List.mem_filter.mp hb').2; rw [hbid]; simpa using this) hf
          apply foldl_inv' Inv _ _ _ h1
          intro s' m hm hs'
          exact delete_inv hs' b.OrgID m.ID (hodd m hm)
    cases hdb : deleteBucket s id with
    | mk s' r =>
      rw [hdb] at key
      cases r <;> exact key
  | create org db rp dflt bucket =>
    simp only [step]
    have := create_inv h { ID := 0, Database := db, RetentionPolicy := rp, Default := dflt, Virtual := false, OrganizationID := org, BucketID := bucket } rfl rfl
    cases hc : create s { ID := 0, Database := db, RetentionPolicy := rp, Default := dflt, Virtual := false, OrganizationID := org, BucketID := bucket } with
    | mk s' r =>
      rw [hc] at this
      cases r <;> exact this
  | update org id rp dflt =>
    simp only [step]
    have hodd : id % 2 = 1 := by simpa [physOp] using hd
    rcases findByID_odd h (org := org) hodd with ⟨r, hr, hid, horg, hf⟩ | ⟨_, hf⟩
    · simp only [hf]
      have := update_inv h { ID := r.ID, Database := r.Database, RetentionPolicy := rp.getD r.RetentionPolicy, Default := dflt.getD (getDefault s r.OrganizationID r.Database == some id), Virtual := r.Virtual, OrganizationID := r.OrganizationID, BucketID := r.BucketID } (by simp only; rw [hid]; exact hodd) (h.recOK r hr).2.2
      cases hu : update s { ID := r.ID, Database := r.Database, RetentionPolicy := rp.getD r.RetentionPolicy, Default := dflt.getD (getDefault s r.OrganizationID r.Database == some id), Virtual := r.Virtual, OrganizationID := r.OrganizationID, BucketID := r.BucketID } with
      | mk s' res =>
        rw [hu] at this
        cases res <;> exact this
    · simp only [hf]; exact h
  | delete org id =>
    simp only [step]
    have hodd : id % 2 = 1 := by simpa [physOp] using hd
    have := delete_inv h org id hodd
    cases hdl : delete s org id with
    | mk s' r =>
      rw [hdl] at this
      cases r <;> exact this
  | get org id => simp only [step]; split <;> exact h
  | find f => simp only [step]; split <;> exact h
  | dump => exact h

end Influx.DBRP

namespace Influx.DBRP
open Influx.Spec.C43

/-! ### the statement checker on the model's trace -/

theorem classify_listing {f : Filter} {org : Nat} (h : classify f = some (.listing org)) : f = orgFilter org := by
  obtain ⟨id, o, b, db, rp, d, v⟩ := f
  cases id <;> cases o <;> cases b <;> cases db <;> cases rp <;> cases d <;> cases v <;>
    simp only [classify] at h <;> first
      | (cases h; rfl)
      | (split at h <;> cases h)
      | (rename_i x; cases x <;> simp at h)
      | skip
  all_goals (first | (cases h) | (rename_i x y; cases y <;> simp at h <;> (split at h <;> cases h)))

theorem classify_resolve {f : Filter} {org : Nat} {db rp : String} (h : classify f = some (.resolve org db rp)) :
    f = resFilter org db rp ∧ db ≠ "" := by
  obtain ⟨id, o, b, dbo, rpo, d, v⟩ := f
  cases id <;> cases o <;> cases b <;> cases dbo <;> cases rpo <;> cases d <;> cases v <;>
    simp only [classify] at h <;> first
      | (cases h)
      | (split at h
         · next hne => cases h; exact ⟨rfl, by simpa using hne⟩
         · cases h)
      | (rename_i x; cases x <;> simp at h <;> (split at h <;> cases h))
      | skip
  all_goals (first | (cases h) | (rename_i x y; cases y <;> simp at h <;> (split at h <;> cases h)))

theorem classify_dflt {f : Filter} {org : Nat} {db : String} (h : classify f = some (.dflt org db)) :
    f = defFilter org db ∧ db ≠ "" := by
  obtain ⟨id, o, b, dbo, rpo, d, v⟩ := f
  cases id <;> cases o <;> cases b <;> cases dbo <;> cases rpo <;> cases d <;> cases v <;>
    simp only [classify] at h <;> first
      | (cases h)
      | (split at h <;> cases h)
      | (rename_i x; cases x <;> simp only [classify] at h <;> first
          | (cases h)
          | (split at h
             · next hne => cases h; exact ⟨rfl, by simpa using hne⟩
             · cases h))
      | skip

end Influx.DBRP

namespace Influx.DBRP
open Influx.Spec.C43

/-- the remembered listings are the listings of the current state -/
def KnownOK (s : St) (known : List (Nat × List Mapping)) : Prop :=
  ∀ p ∈ known, findMany s (orgFilter p.1) = .ok p.2

theorem listing_eq {s : St} (h : Inv s) {known : List (Nat × List Mapping)} (hk : KnownOK s known) {org : Nat}
    {o' : Nat} {l : List Mapping} (hf : known.find? (·.1 == org) = some (o', l)) :
    l = mergeVirtual (orgFilter org) (physOrg s org) (findBuckets s (orgFilter org)) := by
  have hm := List.mem_of_find?_eq_some hf
  have ho : o' = org := by simpa using List.find?_some hf
  have := hk _ hm
  simp only [ho] at this
  rw [findMany_listing h org] at this
  exact (Except.ok.inj this).symm

/-- one `FindMany` step of the model satisfies the statement -/
theorem find_holds {s : St} (h : Inv s) (known : List (Nat × List Mapping)) (hk : KnownOK s known) (f : Filter) :
    holdsOp known (.find f, (step s (.find f)).2) = true := by
  simp only [step]
  cases hc : classify f with
  | none =>
    cases findMany s f <;> simp [holdsOp, hc]
  | some q =>
    cases q with
    | listing org =>
      have hf := classify_listing hc
      subst hf
      rw [findMany_listing h org]
      simp only [holdsOp, hc]
      exact listing_ok h org
    | resolve org db rp =>
      obtain ⟨hf, hdb⟩ := classify_resolve hc
      subst hf
      rw [findMany_resolve h org db rp hdb]
      have hr := resolve_ok h org db rp
      simp only [holdsOp, hc, Bool.and_eq_true, decide_eq_true_eq]
      refine ⟨hr.1, ?_⟩
      cases hkf : known.find? (·.1 == org) with
      | none => rfl
      | some p =>
        obtain ⟨o', l⟩ := p
        simp only
        rw [listing_eq h hk hkf, hr.2]
        simp
    | dflt org db =>
      obtain ⟨hf, hdb⟩ := classify_dflt hc
      subst hf
      obtain ⟨R, hfR, hlen, hcmp⟩ := default_ok h org db hdb
      rw [hfR]
      simp only [holdsOp, hc, Bool.and_eq_true, decide_eq_true_eq]
      refine ⟨hlen, ?_⟩
      cases hkf : known.find? (·.1 == org) with
      | none => rfl
      | some p =>
        obtain ⟨o', l⟩ := p
        simp only
        rw [listing_eq h hk hkf]
        by_cases hany : ((mergeVirtual (orgFilter org) (physOrg s org) (findBuckets s (orgFilter org))).any
            fun m => m.Database == db && !m.Virtual) = true
        · rw [hcmp hany]; simp
        · simp only [Bool.not_eq_true] at hany
          simp [hany]

theorem judge_run (ops : List Op) (hd : ∀ op ∈ ops, physOp op = true) (s : St) (known : List (Nat × List Mapping))
    (h : Inv s) (hk : KnownOK s known) : judge known (run s ops) = true := by
  induction ops generalizing s known with
  | nil => rfl
  | cons op ops ih =>
    have hop := hd op (by simp)
    have hinv := step_inv s op h hop
    simp only [run, judge, Bool.and_eq_true]
    refine ⟨?_, ih (fun o ho => hd o (by simp [ho])) _ _ hinv ?_⟩
    · cases op with
      | find f => exact find_holds h known hk f
      | _ => simp [holdsOp]
    · -- the remembered listings after the step
      cases op with
      | find f =>
        have hs : (step s (.find f)).1 = s := by simp only [step]; split <;> rfl
        rw [hs]
        simp only [step]
        cases hf : findMany s f with
        | error e => simpa [learn, mutates] using hk
        | ok r =>
          simp only [learn]
          cases hc : classify f with
          | none => exact hk
          | some q =>
            cases q with
            | listing org =>
              have := classify_listing hc
              subst this
              intro p hp
              simp only [List.mem_cons, List.mem_filter] at hp
              rcases hp with rfl | ⟨hp, _⟩
              · exact hf
              · exact hk p hp
            | resolve => exact hk
            | dflt => exact hk
      | get org id =>
        have hs : (step s (.get org id)).1 = s := by simp only [step]; split <;> rfl
        rw [hs]
        simp only [step]
        split <;> simpa [learn, mutates] using hk
      | dump => simpa [step, learn, mutates] using hk
      | bucket => intro p hp; simp [learn, mutates] at hp
      | delBucket =>
        intro p hp
        simp only [step] at hp
        split at hp <;> simp [learn, mutates] at hp
      | create =>
        intro p hp
        simp only [step] at hp
        split at hp <;> simp [learn, mutates] at hp
      | update =>
        intro p hp
        simp only [step] at hp
        split at hp
        · simp [learn, mutates] at hp
        · split at hp <;> simp [learn, mutates] at hp
      | delete =>
        intro p hp
        simp only [step] at hp
        split at hp <;> simp [learn, mutates] at hp

end Influx.DBRP
