/-
  Lemmas.C13Global — the whole series file: 8 partitions with their invariants, and the
  relation to the abstract state of the statement (`live`, `used`).
-/
import Influx.Lemmas.C13Compact
import Influx.Model.C13
import Influx.Spec.C13

namespace Influx.C13
open Influx.SF Influx.Spec.C13

/-- all partitions satisfy their invariant; `ess i` are the entries of partition `i` -/
structure PartsInv (ess : Nat → List Entry) (ps : List Part) : Prop where
  len : ps.length = partN
  inv : ∀ i p, ps[i]? = some p → p.pid = i ∧ PInv2 p (ess i) ∧ p.seq < 2 ^ 64
  out : ∀ i, partN ≤ i → ess i = []

/-- a key of an op: its partition is the one the hash function `pf` selects -/
structure KeyOK (pf : Bytes → Nat) (k : Bytes × Nat) : Prop where
  part : k.2 = pf k.1
  lt : k.2 < partN
  short : shortKey k.1

/-- the live series of the whole file -/
def GLive (pf : Bytes → Nat) (ess : Nat → List Entry) (k : Bytes) (id : Nat) : Prop :=
  ∃ e, Live (ess (pf k)) e ∧ e.key = k ∧ e.id = id

/-- the ids ever written -/
def GIssued (ess : Nat → List Entry) (id : Nat) : Prop :=
  ∃ i, i < partN ∧ ∃ e ∈ ess i, e.flag = insertFlag ∧ e.id = id

structure Rel0 (pf : Bytes → Nat) (ess : Nat → List Entry) (sp : SpecState) : Prop where
  live : ∀ k id, (k, id) ∈ sp.live ↔ GLive pf ess k id
  used : ∀ id, id ∈ sp.used → GIssued ess id
  c1 : sp.tornInID = false
  c2 : sp.tornInKey = false
  c3 : sp.tornDelete = false
  c4 : sp.segCompacted = false

theorem Rel0.ctx {pf ess sp} (h : Rel0 pf ess sp) : sp.ctx = "" := by
  simp [SpecState.ctx, h.c1, h.c2, h.c3, h.c4]

theorem Rel0.crashed {pf ess sp} (h : Rel0 pf ess sp) : sp.crashed = false := by
  simp [SpecState.crashed, h.c1, h.c2, h.c3]

variable {pf : Bytes → Nat} {ess : Nat → List Entry} {ps : List Part} {sp : SpecState}

theorem PartsInv.get (h : PartsInv ess ps) {i : Nat} (hi : i < partN) :
    ∃ p, ps[i]? = some p ∧ p.pid = i ∧ PInv2 p (ess i) ∧ p.seq < 2 ^ 64 := by
  have : i < ps.length := by rw [h.len]; exact hi
  exact ⟨ps[i], List.getElem?_eq_getElem this, h.inv i _ (List.getElem?_eq_getElem this)⟩

theorem glive_lt (h : PartsInv ess ps) {k : Bytes} {id : Nat} (hl : GLive pf ess k id) : pf k < partN := by
  obtain ⟨e, he, _⟩ := hl
  apply Classical.byContradiction
  intro hn
  have := h.out (pf k) (by omega)
  rw [this] at he
  exact absurd he.1 (by simp)

/-- the partition of a live series' id is the partition of its key -/
theorem glive_idPart (h : PartsInv ess ps) {k : Bytes} {id : Nat} (hl : GLive pf ess k id) :
    SFile.idPart id = pf k ∧ 0 < id := by
  have hlt := glive_lt h hl
  obtain ⟨e, he, _, hid⟩ := hl
  obtain ⟨p, _, hpid, hinv, _⟩ := h.get hlt
  obtain ⟨hpos, _, hmod⟩ := hinv.idPos e he.1 he.2.1
  rw [hpid, hid] at hmod
  rw [hid] at hpos
  refine ⟨?_, hpos⟩
  unfold SFile.idPart
  simp only [partN] at hmod hlt ⊢
  have : ¬ id = 0 := by omega
  simp only [this, if_false]
  omega

theorem glive_unique_id (h : PartsInv ess ps) {k : Bytes} {id id' : Nat}
    (h1 : GLive pf ess k id) (h2 : GLive pf ess k id') : id = id' := by
  have hlt := glive_lt h h1
  obtain ⟨e, he, hk, hid⟩ := h1
  obtain ⟨e', he', hk', hid'⟩ := h2
  obtain ⟨p, _, _, hinv, _⟩ := h.get hlt
  have := live_unique hinv.toPInv he he' (by rw [hk, hk'])
  rw [← hid, ← hid', this]

theorem glive_unique_key (h : PartsInv ess ps) {k k' : Bytes} {id : Nat}
    (h1 : GLive pf ess k id) (h2 : GLive pf ess k' id) : k = k' := by
  have hp1 := (glive_idPart h h1).1
  have hp2 := (glive_idPart h h2).1
  have hpk : pf k = pf k' := by rw [← hp1, ← hp2]
  have hlt := glive_lt h h1
  obtain ⟨e, he, hk, hid⟩ := h1
  obtain ⟨e', he', hk', hid'⟩ := h2
  rw [← hpk] at he'
  obtain ⟨p, _, _, hinv, _⟩ := h.get hlt
  have := hinv.toPInv.id_unique he.1 he'.1 he.2.1 he'.2.1 (by rw [hid, hid'])
  rw [← hk, ← hk', this]

theorem idOf_iff (h : PartsInv ess ps) (hr : Rel0 pf ess sp) (k : Bytes) (id : Nat) :
    sp.idOf k = some id ↔ GLive pf ess k id := by
  unfold SpecState.idOf
  constructor
  · intro hf
    cases hfind : sp.live.find? (·.1 = k) with
    | none => rw [hfind] at hf; cases hf
    | some x =>
      rw [hfind] at hf
      simp only [Option.map_some, Option.some.injEq] at hf
      have hm := List.mem_of_find?_eq_some hfind
      have hq := List.find?_some hfind
      simp only [decide_eq_true_eq] at hq
      have : x = (k, id) := by cases x; simp_all
      rw [this] at hm
      exact (hr.live k id).mp hm
  · intro hl
    have hm := (hr.live k id).mpr hl
    cases hfind : sp.live.find? (·.1 = k) with
    | none =>
      have := List.find?_eq_none.mp hfind _ hm
      simp at this
    | some x =>
      have hm' := List.mem_of_find?_eq_some hfind
      have hq := List.find?_some hfind
      simp only [decide_eq_true_eq] at hq
      obtain ⟨xk, xid⟩ := x
      simp only at hq
      subst hq
      have := glive_unique_id h ((hr.live xk xid).mp hm') hl
      simp [this]

theorem idOf_none_iff (h : PartsInv ess ps) (hr : Rel0 pf ess sp) (k : Bytes) :
    sp.idOf k = none ↔ ∀ id, ¬ GLive pf ess k id := by
  constructor
  · intro hn id hl
    rw [(idOf_iff h hr k id).mpr hl] at hn; cases hn
  · intro hno
    cases hc : sp.idOf k with
    | none => rfl
    | some id => exact absurd ((idOf_iff h hr k id).mp hc) (hno id)

theorem keyOf_iff (h : PartsInv ess ps) (hr : Rel0 pf ess sp) (id : Nat) (k : Bytes) :
    sp.keyOf id = some k ↔ GLive pf ess k id := by
  unfold SpecState.keyOf
  constructor
  · intro hf
    cases hfind : sp.live.find? (·.2 = id) with
    | none => rw [hfind] at hf; cases hf
    | some x =>
      rw [hfind] at hf
      simp only [Option.map_some, Option.some.injEq] at hf
      have hm := List.mem_of_find?_eq_some hfind
      have hq := List.find?_some hfind
      simp only [decide_eq_true_eq] at hq
      have : x = (k, id) := by cases x; simp_all
      rw [this] at hm
      exact (hr.live k id).mp hm
  · intro hl
    have hm := (hr.live k id).mpr hl
    cases hfind : sp.live.find? (·.2 = id) with
    | none =>
      have := List.find?_eq_none.mp hfind _ hm
      simp at this
    | some x =>
      have hm' := List.mem_of_find?_eq_some hfind
      have hq := List.find?_some hfind
      simp only [decide_eq_true_eq] at hq
      obtain ⟨xk, xid⟩ := x
      simp only at hq
      subst hq
      have := glive_unique_key h ((hr.live xk xid).mp hm') hl
      simp [this]

/-- what `SeriesFile.SeriesID` answers, globally -/
theorem findID_global (h : PartsInv ess ps) {k : Bytes × Nat} (hk : KeyOK pf k) {p : Part}
    (hp : ps[k.2]? = some p) :
    (p.findID k.1 ≠ 0 → GLive pf ess k.1 (p.findID k.1)) ∧
    (p.findID k.1 = 0 → ∀ id, ¬ GLive pf ess k.1 id) := by
  obtain ⟨_, hinv, _⟩ := h.inv _ _ hp
  rw [hk.part] at hinv
  by_cases hex : ∃ e, Live (ess (pf k.1)) e ∧ e.key = k.1
  · obtain ⟨e, hl, hke⟩ := hex
    have := findID_live hinv.toPInv hl
    rw [hke] at this
    have hpos := (hinv.idPos e hl.1 hl.2.1).1
    refine ⟨fun _ => ⟨e, hl, hke, this.symm⟩, fun h0 => ?_⟩
    rw [this] at h0; omega
  · have := findID_none hinv.toPInv k.1 (fun e hl hke => hex ⟨e, hl, hke⟩)
    refine ⟨fun hne => absurd this hne, fun _ id hl => ?_⟩
    obtain ⟨e, hl', hke, _⟩ := hl
    exact hex ⟨e, hl', hke⟩

end Influx.C13
