/-
  Lemmas.C36KeyOrder — `bytes.Compare < 0` (lexicographic order on byte strings) is a strict
  total order; insertion sort under it produces THE strictly ascending list of a set of keys.
-/
import Influx.Model.RHH
import Influx.Spec.C36

namespace Influx.RHH

theorem keyLt_irrefl : ∀ a : Key, keyLt a a = false
  | [] => rfl
  | x :: xs => by simp [keyLt, keyLt_irrefl xs]

theorem keyLt_trans : ∀ a b c : Key, keyLt a b = true → keyLt b c = true → keyLt a c = true
  | [], [], _, h, _ => by simp [keyLt] at h
  | [], _ :: _, [], _, h => by simp [keyLt] at h
  | [], _ :: _, _ :: _, _, _ => by simp [keyLt]
  | _ :: _, [], _, h, _ => by simp [keyLt] at h
  | _ :: _, _ :: _, [], _, h => by simp [keyLt] at h
  | x :: xs, y :: ys, z :: zs, h1, h2 => by
    simp only [keyLt] at h1 h2 ⊢
    by_cases hxy : x < y
    · by_cases hyz : y < z
      · have : x < z := Nat.lt_trans hxy hyz
        simp [this]
      · by_cases hzy : z < y
        · simp [hyz, hzy] at h2
        · have : y = z := by omega
          subst this; simp [hxy]
    · by_cases hyx : y < x
      · simp [hxy, hyx] at h1
      · have : x = y := by omega
        subst this
        simp only [hxy, if_false] at h1
        by_cases hyz : x < z
        · simp [hyz]
        · by_cases hzy : z < x
          · simp [hyz, hzy] at h2
          · simp only [hyz, hzy, if_false] at h2 ⊢
            exact keyLt_trans xs ys zs h1 h2

theorem keyLt_total : ∀ a b : Key, a ≠ b → keyLt a b = true ∨ keyLt b a = true
  | [], [], h => absurd rfl h
  | [], _ :: _, _ => Or.inl (by simp [keyLt])
  | _ :: _, [], _ => Or.inr (by simp [keyLt])
  | x :: xs, y :: ys, h => by
    simp only [keyLt]
    by_cases hxy : x < y
    · simp [hxy]
    · by_cases hyx : y < x
      · simp [hxy, hyx]
      · have : x = y := by omega
        subst this
        simp only [hxy, if_false]
        exact keyLt_total xs ys (fun h' => h (by rw [h']))

theorem keyLt_asymm (a b : Key) (h : keyLt a b = true) : keyLt b a = false := by
  cases hb : keyLt b a with
  | false => rfl
  | true => have := keyLt_trans a b a h hb; rw [keyLt_irrefl] at this; cases this

abbrev SortedK (l : List Key) : Prop := l.Pairwise (fun a b => keyLt a b = true)

theorem mem_insertSorted (k x : Key) (l : List Key) : x ∈ insertSorted k l ↔ x = k ∨ x ∈ l := by
  induction l with
  | nil => simp [insertSorted]
  | cons y ys ih =>
    simp only [insertSorted]
    split
    · simp
    · simp [ih]; constructor
      · rintro (h | h | h) <;> simp [h]
      · rintro (h | h | h) <;> simp [h]

theorem insertSorted_sorted (k : Key) (l : List Key) (hs : SortedK l) (hk : k ∉ l) :
    SortedK (insertSorted k l) := by
  induction l with
  | nil => simp [insertSorted]
  | cons y ys ih =>
    have hy := List.pairwise_cons.mp hs
    simp only [insertSorted]
    split
    · next hlt =>
      refine List.pairwise_cons.mpr ⟨?_, hs⟩
      intro a ha
      rcases List.mem_cons.mp ha with rfl | ha
      · exact hlt
      · exact keyLt_trans _ _ _ hlt (hy.1 a ha)
    · next hnlt =>
      have hne : k ≠ y := fun h => hk (by simp [h])
      have hyk : keyLt y k = true := by
        rcases keyLt_total k y hne with h | h
        · simp [h] at hnlt
        · exact h
      refine List.pairwise_cons.mpr ⟨?_, ih hy.2 (fun h => hk (by simp [h]))⟩
      intro a ha
      rcases (mem_insertSorted k a ys).mp ha with rfl | ha
      · exact hyk
      · exact hy.1 a ha

theorem mem_sortKeys (ks : List Key) (x : Key) : x ∈ sortKeys ks ↔ x ∈ ks := by
  induction ks with
  | nil => simp [sortKeys]
  | cons k ks ih =>
    have : sortKeys (k :: ks) = insertSorted k (sortKeys ks) := rfl
    rw [this, mem_insertSorted, ih]; simp

theorem sortKeys_sorted (ks : List Key) (hn : ks.Nodup) : SortedK (sortKeys ks) := by
  induction ks with
  | nil => simp [sortKeys]
  | cons k ks ih =>
    have hk := List.nodup_cons.mp hn
    have : sortKeys (k :: ks) = insertSorted k (sortKeys ks) := rfl
    rw [this]
    exact insertSorted_sorted k _ (ih hk.2) (fun h => hk.1 ((mem_sortKeys ks k).mp h))

/-- the strictly ascending list of a set of keys is unique -/
theorem sortedK_ext : ∀ (a b : List Key), SortedK a → SortedK b → (∀ x, x ∈ a ↔ x ∈ b) → a = b
  | [], [], _, _, _ => rfl
  | [], y :: ys, _, _, h => by have := (h y).mpr (by simp); simp at this
  | x :: xs, [], _, _, h => by have := (h x).mp (by simp); simp at this
  | x :: xs, y :: ys, ha, hb, h => by
    have hxa := List.pairwise_cons.mp ha
    have hyb := List.pairwise_cons.mp hb
    have hxy : x = y := by
      have h1 := (h x).mp (by simp)
      have h2 := (h y).mpr (by simp)
      rcases List.mem_cons.mp h1 with h1 | h1
      · exact h1
      · rcases List.mem_cons.mp h2 with h2 | h2
        · exact h2.symm
        · have a1 := hyb.1 x h1
          have a2 := hxa.1 y h2
          rw [keyLt_asymm _ _ a1] at a2; cases a2
    subst hxy
    congr 1
    apply sortedK_ext xs ys hxa.2 hyb.2
    intro z
    constructor
    · intro hz
      have := (h z).mp (List.mem_cons_of_mem _ hz)
      rcases List.mem_cons.mp this with rfl | h'
      · have := hxa.1 z hz; rw [keyLt_irrefl] at this; cases this
      · exact h'
    · intro hz
      have := (h z).mpr (List.mem_cons_of_mem _ hz)
      rcases List.mem_cons.mp this with rfl | h'
      · have := hyb.1 z hz; rw [keyLt_irrefl] at this; cases this
      · exact h'

end Influx.RHH

namespace Influx.Spec.C36

theorem keyLt_eq : ∀ a b : List Nat, keyLt a b = RHH.keyLt a b
  | [], [] => rfl
  | [], _ :: _ => rfl
  | _ :: _, [] => rfl
  | x :: xs, y :: ys => by simp [keyLt, RHH.keyLt, keyLt_eq xs ys]

/-- the spec's sort of an association list, seen on the keys -/
theorem sorted_keys (m : Assoc) : (m.sorted).map (·.1) = RHH.sortKeys (m.map (·.1)) := by
  induction m with
  | nil => rfl
  | cons p ps ih =>
    have h1 : Assoc.sorted (p :: ps) = insByKey p (Assoc.sorted ps) := rfl
    have h2 : RHH.sortKeys ((p :: ps).map (·.1)) = RHH.insertSorted p.1 (RHH.sortKeys (ps.map (·.1))) := rfl
    rw [h1, h2, ← ih]
    generalize Assoc.sorted ps = l
    induction l with
    | nil => rfl
    | cons q qs ihq =>
      simp only [insByKey, RHH.insertSorted, List.map_cons, keyLt_eq]
      by_cases hlt : RHH.keyLt p.1 q.1 = true
      · simp [hlt]
      · simp [hlt, ihq]

end Influx.Spec.C36
