/-
  Lemmas.WindowAggSpec — the one-pass sequential semantics of the accumulating window
  cursors equals "group by window, aggregate each group" (`Spec.C20.aggSpec`) on
  time-ordered input, for every window function that behaves like tumbling windows.
-/
import Influx.Lemmas.WindowAggFold
import Influx.Spec.C20

namespace Influx.WindowAgg
open Influx.Spec.C20
variable {α γ : Type}

/-- what the cursors need from the window: a row is inside its own window, and for
    `t1 ≤ t2`, `t2` is before the end of `t1`'s window iff it has the same window. -/
def Win.OK (w : Win) : Prop :=
  (∀ t, w.newWindow t (w.stop t) = false) ∧
  (∀ t1 t2, t1 ≤ t2 → (w.newWindow t2 (w.stop t1) = false ↔ w.stop t2 = w.stop t1))

/-- time order (not necessarily strict) -/
def Sorted (pts : List (Pt α)) : Prop := pts.Pairwise (fun p q => p.1 ≤ q.1)

theorem Win.zero_OK : Win.zero.OK := by
  constructor
  · intro t; simp [Win.newWindow, Win.zero]
  · intro t1 t2 _; simp [Win.newWindow, Win.zero]

theorem Win.ofWindow_OK (every offset : Int) (h : 0 < every) :
    (Win.ofWindow ⟨every, every, offset⟩).OK := by
  constructor
  · intro t
    have := Window.getLatestBounds_contains ⟨every, every, offset⟩ t h rfl
    simp [Win.newWindow, Win.ofWindow]
    omega
  · intro t1 t2 ht
    have := Window.stop_eq_iff ⟨every, every, offset⟩ h rfl ht
    simp only [Win.newWindow, Win.ofWindow, Bool.not_false, Bool.true_and]
    rw [← this]; simp

/-- the accumulator of one group `p :: qs` -/
def foldG (F : Folder α γ) (p : Pt α) (qs : List (Pt α)) : γ :=
  qs.foldl (fun g q => F.add1 (some g) q) (F.add1 none p)

namespace Fold

theorem seq1_split (F : Folder α γ) (w : Win) (we : Int) :
    ∀ (ps : List (Pt α)) (g : γ),
    ps.Pairwise (fun a b => w.newWindow a.1 we = true → w.newWindow b.1 we = true) →
    seq1 F w ps (some g) we =
      F.fin we ((ps.filter (fun q => !w.newWindow q.1 we)).foldl (fun g q => F.add1 (some g) q) g) ::
        seqAll F w (ps.filter (fun q => w.newWindow q.1 we)) := by
  intro ps
  induction ps with
  | nil => intro g _; simp [seq1, flush, seqAll]
  | cons q qs ih =>
    intro g hp
    rw [List.pairwise_cons] at hp
    by_cases hn : w.newWindow q.1 we = true
    · have hall : ∀ b ∈ qs, w.newWindow b.1 we = true := fun b hb => hp.1 b hb hn
      have h1 : (q :: qs).filter (fun q => !w.newWindow q.1 we) = [] := by
        rw [List.filter_eq_nil_iff]
        intro b hb
        rcases List.mem_cons.mp hb with rfl | hb
        · simp [hn]
        · simp [hall b hb]
      have h2 : (q :: qs).filter (fun q => w.newWindow q.1 we) = q :: qs := by
        rw [List.filter_eq_self]
        intro b hb
        rcases List.mem_cons.mp hb with rfl | hb
        · exact hn
        · exact hall b hb
      rw [h1, h2, seqAll_cons]
      simp [seq1, hn, flush]
    · have hn' : w.newWindow q.1 we = false := by simpa using hn
      simp only [seq1, hn', Bool.false_eq_true, ↓reduceIte]
      rw [ih _ hp.2]
      simp [hn']

end Fold

/-- **Sequential semantics = grouped aggregate**, for a folder that computes `agg`. -/
theorem seqAll_eq_aggSpec (o : Ops α) (agg : Agg) (F : Folder α γ) (w : Win) (hw : w.OK)
    (hF : ∀ s p qs, aggregate o agg s (p :: qs) = some (F.fin s (foldG F p qs))) :
    ∀ pts : List (Pt α), Sorted pts → Fold.seqAll F w pts = aggSpec o agg w.stop pts := by
  intro pts
  fun_induction aggSpec o agg w.stop pts with
  | case1 => intro _; simp [Fold.seqAll]
  | case2 p ps s ih =>
    intro hs
    unfold Sorted at hs
    rw [List.pairwise_cons] at hs
    have hmono : ps.Pairwise (fun a b => w.newWindow a.1 (w.stop p.1) = true → w.newWindow b.1 (w.stop p.1) = true) := by
      refine hs.2.imp ?_
      intro a b hab
      simp only [Win.newWindow, Bool.and_eq_true, Bool.not_eq_eq_eq_not, Bool.not_true, decide_eq_true_eq]
      intro h; exact ⟨h.1, by omega⟩
    have hin : ∀ q ∈ ps, (!w.newWindow q.1 (w.stop p.1)) = (w.stop q.1 == s) := by
      intro q hq
      have := hw.2 p.1 q.1 (hs.1 q hq)
      by_cases h : w.newWindow q.1 (w.stop p.1) = true
      · have hne : ¬ w.stop q.1 = w.stop p.1 := fun he => by simp [this.mpr he] at h
        simp [h, s, hne]
      · have h' : w.newWindow q.1 (w.stop p.1) = false := by simpa using h
        simp [h', s, this.mp h']
    have f1 : ps.filter (fun q => !w.newWindow q.1 (w.stop p.1)) = ps.filter (fun q => w.stop q.1 == s) :=
      List.filter_congr hin
    have f2 : ps.filter (fun q => w.newWindow q.1 (w.stop p.1)) = ps.filter (fun q => !(w.stop q.1 == s)) :=
      List.filter_congr (fun q hq => by rw [← hin q hq]; simp)
    rw [Fold.seqAll_cons, Fold.seq1_split F w _ ps _ hmono, f1, f2, hF, ih (hs.2.sublist List.filter_sublist)]
    simp [foldG, s]

end Influx.WindowAgg
