/-
  Lemmas.DurableQueueOpen — `segment.open` / `repair` on well-formed files and
  on files torn inside the write of an append or of a footer rewrite.
-/
import Influx.Lemmas.DurableQueueSeg
import Influx.Model.DurableQueueStep
namespace Influx.DQ

theorem rd64_footer (a : Bytes) (p : Nat) (hp : p < 2^64) :
    rd64 ((a ++ be64 p).drop ((a ++ be64 p).length - 8)) = p := by
  rw [drop_len_append a (be64 p) _ (by simp [be64_length])]
  exact rd64_be64 p hp

/-- second half of `open` on a well-formed file: nothing to repair -/
theorem openAt_wf (mx : Nat) (k : Bytes → Option Seg) (file : Bytes) (done rest : List Bytes) (pos : Nat)
    (hf : file = encRecs done ++ (encRecs rest ++ be64 pos)) (hp : pos = (encRecs done).length)
    (hsm : file.length < 2^63) :
    openAt verifyAll mx k file pos = some ⟨file, pos, mx⟩ := by
  have hlen : file.length = (encRecs done).length + (encRecs rest).length + 8 := by
    rw [hf]; simp [be64_length]; omega
  have hdrop : file.drop pos = encRecs rest ++ be64 pos := by
    rw [hf]; exact drop_len_append _ _ _ hp
  unfold openAt
  simp only []
  cases rest with
  | nil =>
    simp only [encRecs_nil, List.length_nil] at hlen
    rw [if_pos (by omega)]
  | cons r rs =>
    simp only [encRecs_cons, encRec_length, List.length_append] at hlen
    rw [if_neg (by omega)]
    have hcs : rd64 (file.drop pos) = r.length := by
      rw [hdrop]; simp only [encRecs_cons, encRec, List.append_assoc]
      exact rd64_be64_append _ (by omega) _
    simp only [hcs]
    rw [if_neg (by omega)]
    simp [verifyAll]

theorem openAux_wf (mx fuel : Nat) (file : Bytes) (done rest : List Bytes) (pos : Nat)
    (hf : file = encRecs done ++ (encRecs rest ++ be64 pos)) (hp : pos = (encRecs done).length)
    (hsm : file.length < 2^63) :
    openAux verifyAll mx (fuel + 1) file = some ⟨file, pos, mx⟩ := by
  have hlen : file.length = (encRecs done).length + (encRecs rest).length + 8 := by
    rw [hf]; simp [be64_length]; omega
  have hfoot : rd64 (file.drop (file.length - 8)) = pos := by
    have : file = (encRecs done ++ encRecs rest) ++ be64 pos := by rw [hf]; simp
    rw [this]; exact rd64_footer _ _ (by omega)
  unfold openAux
  simp only [hfoot]
  rw [if_neg (by omega), if_neg (by omega)]
  exact openAt_wf mx _ file done rest pos hf hp hsm

/-- `newSegment` on the file of a well-formed segment: same file, same head. -/
theorem newSeg_wf (mx : Nat) {s : Seg} {done rest} (h : SegWF s done rest) :
    newSeg verifyAll mx s.file = some ⟨s.file, s.pos, max mx s.file.length⟩ := by
  have hs := h.size_eq
  unfold newSeg
  rw [if_neg (by simp [Seg.size] at hs; omega)]
  exact openAux_wf _ 3 s.file done rest s.pos h.file_eq h.pos_eq h.small

/-! ### the repair walk -/

/-- the walk steps over a run of complete records that fit -/
theorem walk_recs (size : Nat) (rs : List Bytes) :
    ∀ (fuel off : Nat) (tail : Bytes),
      off + (encRecs rs).length ≤ size - 8 → size < 2^63 → fuel ≥ rs.length →
      walk size fuel (encRecs rs ++ tail) off
        = walk size (fuel - rs.length) tail (off + (encRecs rs).length) := by
  induction rs with
  | nil => intro fuel off tail _ _ _; simp
  | cons r rs ih =>
    intro fuel off tail hfit hsz hfuel
    simp only [encRecs_cons, encRec_length, List.length_append, List.length_cons] at hfit hfuel
    obtain ⟨f, rfl⟩ : ∃ f, fuel = f + 1 := ⟨fuel - 1, by omega⟩
    have hread : read8 (encRecs (r :: rs) ++ tail) = .ok r.length := by
      simp only [encRecs_cons, encRec, List.append_assoc]
      exact read8_be64 _ (by omega) _
    have hdrop : (encRecs (r :: rs) ++ tail).drop (8 + r.length) = encRecs rs ++ tail := by
      simp only [encRecs_cons, List.append_assoc]
      exact drop_len_append _ _ _ (by simp)
    rw [walk, if_neg (by omega), hread]
    simp only []
    rw [if_neg (by omega), if_neg (by omega), hdrop, ih f (off + 8 + r.length) tail (by omega) hsz (by omega)]
    congr 1
    · simp only [List.length_cons]; omega
    · simp only [encRecs_cons, encRec_length, List.length_append]; omega

/-- the walk stops where the data ends -/
theorem walk_stop_end (size fuel off : Nat) (tail : Bytes) (h : off = size - 8) :
    walk size (fuel + 1) tail off = some off := by
  rw [walk, if_pos h]

/-- the walk stops at a record whose announced length runs past the end -/
theorem walk_stop_short (size fuel off n : Nat) (tail : Bytes) (hn : n < 2^63)
    (h : off + 8 + n > size - 8) :
    walk size (fuel + 1) (be64 n ++ tail) off = some off := by
  rw [walk]
  split
  · rfl
  · rw [read8_be64 _ (by omega)]
    simp only []
    rw [if_neg (by omega), if_pos h]

theorem length_le_encRecs (rs : List Bytes) : rs.length ≤ (encRecs rs).length := by
  induction rs with
  | nil => simp
  | cons r rs ih => simp only [encRecs_cons, encRec_length, List.length_append, List.length_cons]; omega

/-- `repair` of a file made of complete records followed by a tail the walk
    stops at: the records are kept, the tail is replaced by a zero footer. -/
theorem repairFile_recs (rs : List Bytes) (tail : Bytes)
    (hsz : (encRecs rs ++ tail).length < 2^63)
    (htail : tail.length = 8 ∨ ∃ n t, tail = be64 n ++ t ∧ n < 2^63 ∧ 8 + n > tail.length - 8) :
    repairFile (encRecs rs ++ tail) = some (encRecs rs ++ be64 0) := by
  have hlen : (encRecs rs ++ tail).length = (encRecs rs).length + tail.length := by simp
  have htl : tail.length ≥ 8 := by
    rcases htail with h | ⟨n, t, rfl, _, _⟩
    · omega
    · simp [be64_length]
  have hrl := length_le_encRecs rs
  unfold repairFile
  rw [walk_recs _ rs _ 0 tail (by omega) (by omega) (by omega)]
  have hfuel : (encRecs rs ++ tail).length + 1 - rs.length = ((encRecs rs ++ tail).length - rs.length) + 1 := by
    omega
  rw [hfuel]
  have hstop : walk (encRecs rs ++ tail).length ((encRecs rs ++ tail).length - rs.length + 1) tail
      (0 + (encRecs rs).length) = some (encRecs rs).length := by
    rcases htail with h | ⟨n, t, rfl, hn, hgt⟩
    · rw [walk_stop_end _ _ _ _ (by omega)]; simp
    · rw [walk_stop_short _ _ _ n t hn (by omega)]; simp
  rw [hstop]
  simp only [Option.map_some]
  rw [take_len_append _ _ _ rfl]

end Influx.DQ
