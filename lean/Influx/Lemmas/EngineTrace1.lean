/-
  Lemmas.EngineTrace1 — bookkeeping lemmas for the trace-level C39 theorem:
  how the checker's admissible sets (Spec.C39) change, and what deletes do to the
  abstract content of the step model.
-/
import Influx.Lemmas.EngineSteps
import Influx.Spec.C39

namespace Influx.Conc
open Influx.Spec.C39

/-! ### the checker's admissible sets -/

def ptPred (k : Key) (t : TS) (p : PInfo) : Bool := p.k == k && p.t == t

theorem adm_eq (s : SpecSt) (k : Key) (t : TS) :
    s.adm k t = match s.pts.find? (ptPred k t) with | some p => p.adm | none => [none] := rfl

theorem find_map_same (g : PInfo → PInfo) (hg : ∀ p, (g p).k = p.k ∧ (g p).t = p.t) (l : List PInfo)
    (k : Key) (t : TS) : (l.map g).find? (ptPred k t) = (l.find? (ptPred k t)).map g := by
  rw [List.find?_map]
  have : (ptPred k t ∘ g) = ptPred k t := by
    funext p
    simp [ptPred, Function.comp, (hg p).1, (hg p).2]
  rw [this]

theorem find_ptPred_some {l : List PInfo} {k : Key} {t : TS} {p : PInfo}
    (h : l.find? (ptPred k t) = some p) : p.k = k ∧ p.t = t := by
  have := List.find?_some h
  simpa [ptPred] using this

theorem adm_setPoint (s : SpecSt) (k : Key) (t : TS) (a : List (Option Val)) (r : Bool) (k' : Key) (t' : TS) :
    (setPoint s k t a r).adm k' t' = if k' = k ∧ t' = t then a else s.adm k' t' := by
  unfold setPoint
  simp only [adm_eq]
  by_cases hany : s.pts.any (fun p => p.k == k && p.t == t) = true
  · simp only [hany, if_true]
    have hg : ∀ p : PInfo, (if (p.k == k && p.t == t) = true then { p with adm := a, racing := r } else p).k = p.k ∧
        (if (p.k == k && p.t == t) = true then { p with adm := a, racing := r } else p).t = p.t := by
      intro p; split <;> exact ⟨rfl, rfl⟩
    rw [find_map_same _ hg]
    by_cases hkt : k' = k ∧ t' = t
    · obtain ⟨rfl, rfl⟩ := hkt
      obtain ⟨p, hp, hpp⟩ := List.any_eq_true.mp hany
      cases hf : s.pts.find? (ptPred k' t') with
      | none =>
        have := List.find?_eq_none.mp hf p hp
        simp [ptPred] at this hpp
        exact absurd hpp.2 (this hpp.1)
      | some q =>
        have hq := find_ptPred_some hf
        simp [hq.1, hq.2]
    · simp only [hkt, if_false]
      cases hf : s.pts.find? (ptPred k' t') with
      | none => rfl
      | some q =>
        have hq := find_ptPred_some hf
        have : ¬ (q.k = k ∧ q.t = t) := by
          rw [hq.1, hq.2]; exact hkt
        simp [this]
  · have hany' : s.pts.any (fun p => p.k == k && p.t == t) = false := by simpa using hany
    simp only [hany', Bool.false_eq_true, if_false]
    rw [List.find?_cons]
    by_cases hkt : k' = k ∧ t' = t
    · obtain ⟨rfl, rfl⟩ := hkt
      simp [ptPred]
    · have : ptPred k' t' { k := k, t := t, adm := a, racing := r } = false := by
        simp only [ptPred]
        cases h1 : k == k' <;> cases h2 : t == t' <;> simp_all
      simp [this, hkt]

theorem setPoint_inflight (s : SpecSt) (k : Key) (t : TS) (a : List (Option Val)) (r : Bool) :
    (setPoint s k t a r).inflight = s.inflight := rfl

theorem mapRange_inflight (s : SpecSt) (k : Key) (lo hi : TS) (f : PInfo → PInfo) :
    (mapRange s k lo hi f).inflight = s.inflight := rfl

theorem adm_mapRange (s : SpecSt) (k : Key) (lo hi : TS) (f : PInfo → PInfo)
    (hf : ∀ p, (f p).k = p.k ∧ (f p).t = p.t) (k' : Key) (t' : TS) :
    (mapRange s k lo hi f).adm k' t' =
      match s.pts.find? (ptPred k' t') with
      | some p => if covers (k, lo, hi) k' t' then (f p).adm else p.adm
      | none => [none] := by
  unfold mapRange
  simp only [adm_eq]
  have hg : ∀ p : PInfo, (if covers (k, lo, hi) p.k p.t = true then f p else p).k = p.k ∧
      (if covers (k, lo, hi) p.k p.t = true then f p else p).t = p.t := by
    intro p; split
    · exact hf p
    · exact ⟨rfl, rfl⟩
  rw [find_map_same _ hg]
  cases hfd : s.pts.find? (ptPred k' t') with
  | none => rfl
  | some q =>
    have hq := find_ptPred_some hfd
    simp only [Option.map_some, hq.1, hq.2]
    split <;> rfl

/-- racing flag of a known point -/
def SpecSt.racing (s : SpecSt) (k : Key) (t : TS) : Bool :=
  match s.pts.find? (ptPred k t) with | some p => p.racing | none => false

/-! ### deletes in the step model -/

theorem filesGet_delAll (fs : List CFile) (k : Key) (lo hi : TS) (k' : Key) (t' : TS) :
    filesGet (fs.map (fun f => { f with tombs := { key := k, lo := lo, hi := hi } :: f.tombs })) k' t' =
      if (k == k' && decide (lo ≤ t') && decide (t' ≤ hi)) = true then none else filesGet fs k' t' := by
  induction fs with
  | nil => simp [filesGet]
  | cons f fs ih =>
    simp only [List.map_cons, filesGet, ih]
    by_cases hc : (k == k' && decide (lo ≤ t') && decide (t' ≤ hi)) = true
    · simp [hc, CFile.get, Tomb.covers]
    · have hc' : (k == k' && decide (lo ≤ t') && decide (t' ≤ hi)) = false := by simpa using hc
      simp only [hc', Bool.false_eq_true, if_false]
      congr 1
      simp [CFile.get, Tomb.covers, hc']

theorem Store.get_filter_in (s : Store) (k : Key) (lo hi t : TS) (h1 : lo ≤ t) (h2 : t ≤ hi) :
    Store.get (s.filter (fun e => !inRange k lo hi e)) k t = none := by
  induction s with
  | nil => rfl
  | cons e s ih =>
    obtain ⟨ek, et, ev⟩ := e
    rw [List.filter_cons]
    by_cases hr : inRange k lo hi (ek, et, ev) = true
    · simp only [hr, Bool.not_true, Bool.false_eq_true, if_false]; exact ih
    · have hr' : inRange k lo hi (ek, et, ev) = false := by simpa using hr
      simp only [hr', Bool.not_false, if_true]
      rw [Store.get_cons]
      have : ((ek == k) && (et == t)) = false := by
        cases hk : ek == k
        · simp
        · cases ht : et == t
          · simp
          · exfalso
            simp only [beq_iff_eq] at hk ht
            subst hk ht
            simp [inRange, h1, h2] at hr'
      simp [this, ih]

/-- the file-level early-return test of deleteSeriesRange: no file overlaps ⇒ no point in range -/
theorem filesGet_none_of_no_overlap (fs : List CFile) (lo hi : TS)
    (h : fs.any (fun f => f.overlapsTime lo hi) = false) (k : Key) (t : TS) (h1 : lo ≤ t) (h2 : t ≤ hi) :
    filesGet fs k t = none := by
  induction fs with
  | nil => rfl
  | cons f fs ih =>
    simp only [List.any_cons, Bool.or_eq_false_iff] at h
    simp only [filesGet, ih h.2, Option.none_or]
    cases hg : f.get k t with
    | none => rfl
    | some v =>
      exfalso
      have hm := CFile.get_some_mem hg
      have : f.overlapsTime lo hi = true := by
        unfold CFile.overlapsTime
        rw [Bool.and_eq_true, List.any_eq_true, List.any_eq_true]
        exact ⟨⟨(k, t, v), hm, by simpa using h2⟩, ⟨(k, t, v), hm, by simpa using h1⟩⟩
      rw [h.1] at this; simp at this

/-! ### what an atomic read lists -/

theorem mem_insertTS' {a x : TS} {l : List TS} : x ∈ insertTS a l ↔ x = a ∨ x ∈ l := by
  induction l with
  | nil => simp [insertTS]
  | cons b l ih =>
    unfold insertTS
    split
    · simp
    · split
      · next h => subst h; simp
      · simp [ih]; constructor
        · rintro (h | h | h) <;> simp [h]
        · rintro (h | h | h) <;> simp [h]

theorem mem_sortDedup' {x : TS} {l : List TS} : x ∈ sortDedup l ↔ x ∈ l := by
  induction l with
  | nil => simp [sortDedup]
  | cons a l ih =>
    have : sortDedup (a :: l) = insertTS a (sortDedup l) := rfl
    rw [this, mem_insertTS', ih]; simp

theorem mem_storeTimes {s : Store} {k : Key} {t : TS} {v : Val} (h : (k, t, v) ∈ s) : t ∈ storeTimes s k := by
  unfold storeTimes
  exact List.mem_map.mpr ⟨(k, t, v), by simp [h], rfl⟩

theorem filesGet_some_file {fs : List CFile} {k : Key} {t : TS} {v : Val} (h : filesGet fs k t = some v) :
    ∃ f ∈ fs, (k, t, v) ∈ f.pts := by
  induction fs with
  | nil => simp [filesGet] at h
  | cons f fs ih =>
    simp only [filesGet] at h
    cases hr : filesGet fs k t with
    | some w =>
      rw [hr] at h; simp at h; subst h
      obtain ⟨g, hg, hm⟩ := ih hr
      exact ⟨g, by simp [hg], hm⟩
    | none =>
      rw [hr] at h; simp at h
      exact ⟨f, by simp, CFile.get_some_mem h⟩

theorem abs_some_mem_times {s : St} {k : Key} {t : TS} {v : Val} (h : s.abs k t = some v) : t ∈ s.times k := by
  unfold St.times
  rw [mem_sortDedup']
  unfold St.abs St.cacheView St.filesView at h
  cases hc : s.cache.get k t with
  | some w => simp [mem_storeTimes (Store.get_some_mem hc)]
  | none =>
    cases hs : s.snap.get k t with
    | some w => simp [mem_storeTimes (Store.get_some_mem hs)]
    | none =>
      rw [hc, hs] at h; simp at h
      obtain ⟨f, hf, hm⟩ := filesGet_some_file h
      simp only [List.mem_append, List.mem_flatMap]
      right
      exact ⟨f, hf, mem_storeTimes hm⟩

/-- the answer of an atomic read looks up as the abstract content -/
theorem lookup_readKey (s : St) (k : Key) (t : TS) : (s.readKey k).lookup t = s.abs k t := by
  unfold St.readKey
  -- (t, f t) pairs over the candidate times
  have hgen : ∀ (l : List TS), (l.filterMap (fun x => (s.abs k x).map (fun v => (x, v)))).lookup t =
      if t ∈ l then s.abs k t else none := by
    intro l
    induction l with
    | nil => simp
    | cons a l ih =>
      rw [List.filterMap_cons]
      cases hfa : s.abs k a with
      | none =>
        simp only [Option.map_none]
        rw [ih]
        by_cases hta : t = a
        · subst hta; simp [hfa]
        · simp [hta]
      | some v =>
        simp only [Option.map_some, List.lookup_cons]
        by_cases hta : t = a
        · subst hta; simp [hfa]
        · have : (t == a) = false := by simp [hta]
          rw [this]; simp only []
          rw [ih]; simp [hta]
  rw [hgen]
  split
  · rfl
  · next hn =>
    cases h : s.abs k t with
    | none => rfl
    | some v => exact absurd (abs_some_mem_times h) hn

theorem mem_readKey {s : St} {k : Key} {t : TS} {v : Val} (h : (t, v) ∈ s.readKey k) : s.abs k t = some v := by
  unfold St.readKey at h
  obtain ⟨t', _, hv⟩ := List.mem_filterMap.mp h
  cases ha : s.abs k t' with
  | none => simp [ha] at hv
  | some w => simp [ha] at hv; obtain ⟨rfl, rfl⟩ := hv; exact ha

end Influx.Conc
