/-
  Lemmas.TsmApply — `TSMReader.applyTombstones`: walking tombstones and applying them in
  batches of equal (min, max) applies exactly the walked tombstones as requests.
-/
import Influx.Model.TsmTomb
import Influx.Lemmas.TsmHidden

namespace Influx.Tsm

def toReq (t : Tombstone) : Key × Int × Int := (t.key, t.min, t.max)

/-- the index after `applyTombstones` has processed the walked tombstones `ws` -/
def applyWalked (ix : Index) (ws : List Tombstone) : Index :=
  let s := ws.foldl abStep { ix := ix }
  if s.batch.isEmpty then s.ix else deleteRange s.ix s.batch s.cur.min s.cur.max

structure ABInv (H0 : Hist) (done : List Tombstone) (s : ABState) : Prop where
  tinv : ∃ H, TInv s.ix H ∧
    ∀ r, (r ∈ H ∨ r ∈ reqs s.batch s.prev.min s.prev.max) ↔ (r ∈ H0 ∨ r ∈ done.map toReq)
  cur : s.batch ≠ [] → s.cur = s.prev

theorem abStep_inv (H0 : Hist) (done : List Tombstone) (s : ABState) (t : Tombstone)
    (h : ABInv H0 done s) : ABInv H0 (done ++ [t]) (abStep s t) := by
  obtain ⟨⟨H, hT, hset⟩, _⟩ := h
  unfold abStep
  simp only
  -- 1. a change of range flushes the batch
  by_cases hflush : (!s.batch.isEmpty && (decide (s.prev.min ≠ t.min) || decide (s.prev.max ≠ t.max))) = true
  · simp only [hflush, if_true]
    have hT1 := TInv_deleteRange s.ix H hT s.batch s.prev.min s.prev.max
    -- after the flush the batch is [t.key]
    by_cases hbig : ([] ++ [t.key] : List Key).length ≥ 4096
    · simp at hbig
    · simp only [List.nil_append, List.length_cons, List.length_nil, ge_iff_le, Nat.reduceLeDiff, decide_false,
        Bool.false_eq_true, if_false]
      refine ⟨⟨_, hT1, ?_⟩, fun _ => rfl⟩
      intro r
      simp only [List.mem_append, List.map_append, List.map_cons, List.map_nil, List.mem_cons, List.not_mem_nil, or_false]
      have hs := hset r
      have : r ∈ reqs [t.key] t.min t.max ↔ r = toReq t := by
        rw [mem_reqs]; obtain ⟨a, b, c⟩ := r
        simp [toReq]
      grind
  · simp only [hflush, Bool.false_eq_true, if_false]
    -- the batch is empty or the ranges agree
    have hcases : s.batch = [] ∨ (s.prev.min = t.min ∧ s.prev.max = t.max) := by
      cases hb : s.batch with
      | nil => exact Or.inl rfl
      | cons a l =>
        right
        simp only [hb, List.isEmpty_cons, Bool.not_false, Bool.true_and, Bool.or_eq_true, decide_eq_true_eq,
          not_or, Decidable.not_not] at hflush
        exact hflush
    have hsame : ∀ r, r ∈ reqs (s.batch ++ [t.key]) t.min t.max ↔
        (r ∈ reqs s.batch s.prev.min s.prev.max ∨ r = toReq t) := by
      intro r
      obtain ⟨a, b, c⟩ := r
      simp only [mem_reqs, List.mem_append, List.mem_cons, List.not_mem_nil, or_false, toReq, Prod.mk.injEq]
      rcases hcases with he | ⟨h1, h2⟩
      · simp [he]
      · rw [h1, h2]
        constructor
        · rintro ⟨h | h, hb, hc⟩
          · exact Or.inl ⟨h, hb, hc⟩
          · exact Or.inr ⟨h, hb, hc⟩
        · rintro (⟨h, hb, hc⟩ | ⟨h, hb, hc⟩)
          · exact ⟨Or.inl h, hb, hc⟩
          · exact ⟨Or.inr h, hb, hc⟩
    by_cases hbig : (s.batch ++ [t.key]).length ≥ 4096
    · -- a full batch is applied with `prev`'s range, which is `t`'s: the batch had ≥ 4095 earlier keys
      have hne : s.batch ≠ [] := by
        intro he; rw [he] at hbig; simp at hbig
      have hr : s.prev.min = t.min ∧ s.prev.max = t.max := by
        rcases hcases with he | h
        · exact absurd he hne
        · exact h
      simp only [hbig, decide_true, if_true]
      have hT1 := TInv_deleteRange s.ix H hT (s.batch ++ [t.key]) s.prev.min s.prev.max
      refine ⟨⟨_, hT1, ?_⟩, fun h => absurd rfl h⟩
      intro r
      simp only [List.mem_append, List.map_append, List.map_cons, List.map_nil, List.mem_cons, List.not_mem_nil, or_false]
      rw [hr.1, hr.2, hsame r]
      have hs := hset r
      have : ¬ r ∈ reqs [] t.min t.max := by simp [reqs]
      grind
    · simp only [hbig, decide_false, Bool.false_eq_true, if_false]
      refine ⟨⟨H, hT, ?_⟩, fun _ => rfl⟩
      intro r
      simp only [List.mem_append, List.map_append, List.map_cons, List.map_nil, List.mem_cons, List.not_mem_nil, or_false]
      rw [hsame r]
      have hs := hset r
      grind

theorem foldl_abStep_inv (H0 : Hist) (ws : List Tombstone) :
    ∀ (done : List Tombstone) (s : ABState), ABInv H0 done s → ABInv H0 (done ++ ws) (ws.foldl abStep s) := by
  induction ws with
  | nil => intro done s h; simpa using h
  | cons t ws ih =>
    intro done s h
    have := ih (done ++ [t]) (abStep s t) (abStep_inv H0 done s t h)
    simpa [List.append_assoc] using this

/-- **applyTombstones applies exactly the walked tombstones** (as a set of requests). -/
theorem applyWalked_inv (ix : Index) (H0 : Hist) (h : TInv ix H0) (ws : List Tombstone) :
    ∃ H, TInv (applyWalked ix ws) H ∧ ∀ r, r ∈ H ↔ (r ∈ H0 ∨ r ∈ ws.map toReq) := by
  have h0 : ABInv H0 [] { ix := ix } :=
    ⟨⟨H0, h, by intro r; simp [reqs]⟩, fun hne => absurd rfl hne⟩
  obtain ⟨⟨H, hT, hset⟩, hcur⟩ := foldl_abStep_inv H0 ws [] _ h0
  simp only [List.nil_append] at hset
  unfold applyWalked
  simp only
  by_cases hb : (ws.foldl abStep { ix := ix }).batch.isEmpty = true
  · simp only [hb, if_true]
    refine ⟨H, hT, ?_⟩
    intro r
    rw [← hset r]
    have : (ws.foldl abStep { ix := ix }).batch = [] := List.isEmpty_iff.mp hb
    simp [this, reqs]
  · simp only [hb, Bool.false_eq_true, if_false]
    have hne : (ws.foldl abStep { ix := ix }).batch ≠ [] := by
      intro he; rw [he] at hb; simp at hb
    rw [hcur hne]
    refine ⟨_, TInv_deleteRange _ H hT _ _ _, ?_⟩
    intro r
    rw [← hset r, List.mem_append]

end Influx.Tsm
