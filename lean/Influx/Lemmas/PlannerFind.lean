/-
  Lemmas.PlannerFind — what `FindGenerations` guarantees about its result:
  strictly ascending ids, every file in the generation its `Generation` field
  names, and exactly the files of `Stats()`.
-/
import Influx.Model.Planner

namespace Influx.Planner

/-- the invariant of `FindGenerations`' result for the stats `fs` -/
structure GensOK (fs : List File) (gens : List Gen) : Prop where
  sorted : gens.Pairwise (fun a b => a.id < b.id)
  genOf : ∀ g ∈ gens, ∀ f ∈ g.files, f.gen = g.id
  perm : (gens.flatMap Gen.files).Perm fs

theorem insertFile_lb (f : File) (lb : Int) (gens : List Gen)
    (h : ∀ g ∈ gens, lb < g.id) (hf : lb < f.gen) : ∀ g ∈ insertFile f gens, lb < g.id := by
  induction gens with
  | nil => intro g hg; simp [insertFile] at hg; subst hg; exact hf
  | cons g rest ih =>
    intro g' hg'
    simp only [insertFile] at hg'
    split at hg'
    · rcases List.mem_cons.mp hg' with rfl | h'
      · exact h g (by simp)
      · exact h g' (by simp [h'])
    · split at hg'
      · rcases List.mem_cons.mp hg' with rfl | h'
        · exact hf
        · exact h g' h'
      · rcases List.mem_cons.mp hg' with rfl | h'
        · exact h _ (by simp)
        · exact ih (fun x hx => h x (by simp [hx])) g' h'

theorem insertFile_ok (f : File) (fs : List File) (gens : List Gen) (h : GensOK fs gens) :
    GensOK (fs ++ [f]) (insertFile f gens) := by
  induction gens generalizing fs with
  | nil =>
    have : fs = [] := by simpa using h.perm.symm
    subst this
    exact ⟨by simp [insertFile], by intro g hg f' hf'; simp [insertFile] at hg; subst hg; simp [Gen.files] at hf'; simp [hf'],
      by simp [insertFile, Gen.files]⟩
  | cons g rest ih =>
    obtain ⟨hs, hg, hp⟩ := h
    have hs' := List.pairwise_cons.mp hs
    simp only [insertFile]
    split
    · rename_i heq
      refine ⟨?_, ?_, ?_⟩
      · exact List.pairwise_cons.mpr ⟨hs'.1, hs'.2⟩
      · intro g' hg' f' hf'
        rcases List.mem_cons.mp hg' with rfl | h'
        · simp only [Gen.files, List.mem_cons, List.mem_append, List.not_mem_nil, or_false] at hf'
          rcases hf' with rfl | hf' | rfl
          · exact hg g (by simp) _ (by simp [Gen.files])
          · exact hg g (by simp) _ (by simp [Gen.files, hf'])
          · exact heq
        · exact hg g' (by simp [h']) f' hf'
      · simp only [List.flatMap_cons, Gen.files] at hp ⊢
        have : (g.first :: (g.rest ++ [f]) ++ List.flatMap Gen.files rest).Perm
            ((g.first :: g.rest ++ List.flatMap Gen.files rest) ++ [f]) := by
          simp only [List.cons_append, List.append_assoc]
          refine List.Perm.cons _ (List.Perm.append_left _ ?_)
          simpa using List.perm_append_comm (l₁ := [f]) (l₂ := List.flatMap Gen.files rest)
        exact this.trans (List.Perm.append_right _ hp)
    · split
      · rename_i hne hlt
        refine ⟨?_, ?_, ?_⟩
        · refine List.pairwise_cons.mpr ⟨?_, hs⟩
          intro g' hg'
          rcases List.mem_cons.mp hg' with rfl | h'
          · exact hlt
          · exact Int.lt_trans hlt (hs'.1 g' h')
        · intro g' hg' f' hf'
          rcases List.mem_cons.mp hg' with rfl | h'
          · simp [Gen.files] at hf'; simp [hf']
          · exact hg g' h' f' hf'
        · simp only [List.flatMap_cons, Gen.files, List.cons_append, List.nil_append]
          have : (f :: List.flatMap Gen.files (g :: rest)).Perm (List.flatMap Gen.files (g :: rest) ++ [f]) := by
            simpa using List.perm_append_comm (l₁ := [f]) (l₂ := List.flatMap Gen.files (g :: rest))
          exact this.trans (List.Perm.append_right _ hp)
      · rename_i hne hnlt
        have hgt : g.id < f.gen := by omega
        -- the files of `g` come first in `fs` up to permutation: recurse on the rest
        have hrest : GensOK (rest.flatMap Gen.files) rest :=
          ⟨hs'.2, fun g' hg' => hg g' (by simp [hg']), List.Perm.refl _⟩
        have ih' := ih _ hrest
        refine ⟨?_, ?_, ?_⟩
        · refine List.pairwise_cons.mpr ⟨?_, ih'.sorted⟩
          exact insertFile_lb f g.id rest hs'.1 hgt
        · intro g' hg' f' hf'
          rcases List.mem_cons.mp hg' with rfl | h'
          · exact hg _ (by simp) f' hf'
          · exact ih'.genOf g' h' f' hf'
        · simp only [List.flatMap_cons] at hp ⊢
          have := List.Perm.append_left g.files ih'.perm
          rw [← List.append_assoc] at this
          exact this.trans (List.Perm.append_right _ hp)

theorem foldl_insertFile_ok (rest : List File) : ∀ (acc : List File) (gens : List Gen),
    GensOK acc gens → GensOK (acc ++ rest) (rest.foldl (fun gs f => insertFile f gs) gens) := by
  induction rest with
  | nil => intro acc gens h; simpa using h
  | cons f rest ih =>
    intro acc gens h
    have := ih (acc ++ [f]) (insertFile f gens) (insertFile_ok f acc gens h)
    simpa using this

theorem findGenerations_ok (fs : List File) : GensOK fs (findGenerations fs) := by
  simpa [findGenerations] using foldl_insertFile_ok fs [] [] ⟨by simp, by simp, by simp⟩

end Influx.Planner
