/-
  Lemmas.PlannerInv — the invariant that ties the planner model's state to the
  state of the statement checker (Spec.C05), and its preservation by every step.
-/
import Influx.Lemmas.PlannerStruct
import Influx.Lemmas.PlannerFind
import Influx.Spec.C05

namespace Influx.Planner
open Influx.Spec.C05

def pg (f : File) : String × Int := (f.path, f.gen)

/-! ### paths -/

theorem gensPaths_eq (gens : List Gen) : gensPaths gens = (gens.flatMap Gen.files).map (·.path) := by
  induction gens with
  | nil => simp [gensPaths]
  | cons g rest ih => simp_all [gensPaths, Gen.paths]

theorem mem_gensPaths {gens : List Gen} {p : String} :
    p ∈ gensPaths gens ↔ ∃ g ∈ gens, ∃ f ∈ g.files, f.path = p := by
  simp [gensPaths, Gen.paths]

theorem insertSorted_perm (x : String) (l : List String) : (insertSorted x l).Perm (x :: l) := by
  induction l with
  | nil => simp [insertSorted]
  | cons y ys ih =>
    simp only [insertSorted]
    split
    · exact List.Perm.refl _
    · exact (List.Perm.cons y ih).trans (List.Perm.swap x y ys)

theorem sortStrings_perm (l : List String) : (sortStrings l).Perm l := by
  induction l with
  | nil => simp [sortStrings]
  | cons x xs ih =>
    have : sortStrings (x :: xs) = insertSorted x (sortStrings xs) := rfl
    rw [this]
    exact (insertSorted_perm x _).trans (List.Perm.cons x ih)

theorem toFiles_flatten (gss : List (List Gen)) : (toFiles gss).flatten = gensPaths gss.flatten := by
  induction gss with
  | nil => simp [toFiles, gensPaths]
  | cons g rest ih =>
    simp only [toFiles, List.map_cons, List.flatten_cons] at ih ⊢
    rw [ih]
    simp [gensPaths]

theorem sortedFiles_flatten_perm (gss : List (List Gen)) :
    ((gss.map fun g => sortStrings (gensPaths g)).flatten).Perm (toFiles gss).flatten := by
  induction gss with
  | nil => simp [toFiles]
  | cons g rest ih =>
    simp only [toFiles, List.map_cons, List.flatten_cons] at ih ⊢
    exact List.Perm.append (sortStrings_perm _) ih

theorem paths_nodup_of_sub {fs : List File} {gens : List Gen} {gss : List (List Gen)}
    (ok : GensOK fs gens) (hn : (fs.map (·.path)).Nodup) (hs : Sub gens gss) :
    (toFiles gss).flatten.Nodup := by
  rw [toFiles_flatten]
  have h1 : (gensPaths gss.flatten).Sublist (gensPaths gens) := flatMap_sublist_of_sublist _ hs
  have h2 : (gensPaths gens).Perm (fs.map (·.path)) := by
    rw [gensPaths_eq]; exact ok.perm.map _
  exact List.Nodup.sublist h1 (h2.nodup_iff.mpr hn)

/-! ### contiguity, as the statement checker sees it -/

theorem lookup_pg {fs : List File} (hn : (fs.map (·.path)).Nodup) {f : File} (hf : f ∈ fs) :
    genOf (fs.map pg) f.path = some f.gen := by
  induction fs with
  | nil => simp at hf
  | cons x rest ih =>
    simp only [List.map_cons, List.nodup_cons] at hn
    rcases List.mem_cons.mp hf with rfl | h
    · simp [genOf, pg]
    · have hne : f.path ≠ x.path := by
        intro e; apply hn.1; rw [← e]; exact List.mem_map_of_mem h
      have := ih hn.2 h
      simp only [genOf] at this ⊢
      simp only [List.map_cons, pg, List.lookup]
      have hb : (f.path == x.path) = false := by simpa using hne
      simpa [hb, pg] using this

theorem contiguous_of_infix {fs : List File} {gens gs : List Gen} (ok : GensOK fs gens)
    (hn : (fs.map (·.path)).Nodup) (hi : gs <:+: gens) (G : List String)
    (hG : ∀ p, p ∈ G ↔ p ∈ gensPaths gs) : contiguousIn (fs.map pg) G = true := by
  obtain ⟨pre, post, rfl⟩ := hi
  have hfile : ∀ g ∈ pre ++ gs ++ post, ∀ f ∈ g.files, f ∈ fs ∧ f.gen = g.id := by
    intro g hg f hf
    refine ⟨ok.perm.subset ?_, ok.genOf g hg f hf⟩
    exact List.mem_flatMap.mpr ⟨g, hg, hf⟩
  have hsorted := ok.sorted
  have key : ∀ p ∈ G, ∃ g ∈ gs, genOf (fs.map pg) p = some g.id := by
    intro p hp
    obtain ⟨g, hg, f, hf, rfl⟩ := mem_gensPaths.mp ((hG p).mp hp)
    have := hfile g (by simp [hg]) f hf
    exact ⟨g, hg, by rw [lookup_pg hn this.1, this.2]⟩
  unfold contiguousIn
  simp only [List.all_eq_true]
  intro pa hpa pb hpb
  obtain ⟨ga, hga, ea⟩ := key pa hpa
  obtain ⟨gb, hgb, eb⟩ := key pb hpb
  rw [ea, eb]
  simp only [List.all_eq_true, Bool.or_eq_true, Bool.not_eq_true', Bool.and_eq_false_iff,
    decide_eq_false_iff_not, List.any_eq_true, beq_iff_eq]
  intro e he
  obtain ⟨f, hf, rfl⟩ := List.mem_map.mp he
  by_cases hin : ga.id ≤ f.gen ∧ f.gen ≤ gb.id
  · right
    -- the generation of `f` lies between two generations of the block, hence inside it
    obtain ⟨g, hg, hfg⟩ := List.mem_flatMap.mp (ok.perm.symm.subset hf)
    have hid : f.gen = g.id := ok.genOf g hg f hfg
    have hgs : g ∈ gs := by
      rw [List.pairwise_append] at hsorted
      obtain ⟨hl, _, hlr⟩ := hsorted
      rw [List.pairwise_append] at hl
      obtain ⟨_, _, hpg⟩ := hl
      simp only [List.mem_append] at hg
      rcases hg with (hg | hg) | hg
      · have := hpg g hg ga hga; omega
      · exact hg
      · have := hlr gb (by simp [hgb]) g hg; omega
    refine ⟨f.path, (hG _).mpr (mem_gensPaths.mpr ⟨g, hgs, f, hfg, rfl⟩), ?_⟩
    rw [lookup_pg hn hf]; rfl
  · left
    simp only [pg]
    omega

/-! ### held groups -/

@[simp] theorem heldOf_nil : heldOf [] = [] := rfl
theorem heldOf_cons (x : List String × Bool) (t) :
    heldOf (x :: t) = if x.2 then x.1 :: heldOf t else heldOf t := by
  unfold heldOf
  cases h : x.2 <;> simp [h]

theorem heldOf_append (a b) : heldOf (a ++ b) = heldOf a ++ heldOf b := by
  simp [heldOf]

theorem heldOf_new (groups : List (List String)) : heldOf (groups.map (·, true)) = groups := by
  induction groups with
  | nil => rfl
  | cons g rest ih => simp [heldOf_cons, ih]

theorem held_set (handed : List (List String × Bool)) : ∀ (k : Nat) (g : List String),
    handed[k]? = some (g, true) → (heldOf handed).flatten.Nodup →
    (heldOf (handed.set k (g, false))).flatten.Nodup ∧
    ∀ p, p ∈ (heldOf (handed.set k (g, false))).flatten ↔ (p ∈ (heldOf handed).flatten ∧ p ∉ g) := by
  induction handed with
  | nil => intro k g h; simp at h
  | cons x t ih =>
    intro k g h hn
    cases k with
    | zero =>
      simp only [List.getElem?_cons_zero, Option.some.injEq] at h
      subst h
      simp only [heldOf_cons, List.set_cons_zero, Bool.false_eq_true, if_false, if_true,
        List.flatten_cons] at hn ⊢
      rw [List.nodup_append] at hn
      refine ⟨hn.2.1, fun p => ⟨fun hp => ⟨by simp [hp], fun hg => hn.2.2 p hg p hp rfl⟩, ?_⟩⟩
      rintro ⟨hp, hng⟩
      simp only [List.mem_append] at hp
      rcases hp with hp | hp
      · exact absurd hp hng
      · exact hp
    | succ k =>
      simp only [List.getElem?_cons_succ] at h
      simp only [List.set_cons_succ, heldOf_cons] at hn ⊢
      cases hx : x.2
      · simp only [hx, Bool.false_eq_true, if_false] at hn ⊢
        exact ih k g h hn
      · simp only [hx, if_true, List.flatten_cons] at hn ⊢
        rw [List.nodup_append] at hn
        obtain ⟨ihn, ihm⟩ := ih k g h hn.2.1
        refine ⟨?_, ?_⟩
        · rw [List.nodup_append]
          refine ⟨hn.1, ihn, ?_⟩
          intro a ha b hb
          exact hn.2.2 a ha b ((ihm b).mp hb).1
        · intro p
          simp only [List.mem_append, ihm]
          constructor
          · rintro (hp | ⟨hp, hng⟩)
            · refine ⟨Or.inl hp, ?_⟩
              intro hg
              -- p is in the held group x.1 and in g (another held group): contradiction with Nodup
              have hgm : p ∈ (heldOf t).flatten := by
                have : g ∈ heldOf t := by
                  clear ihn ihm ih hn
                  induction t generalizing k with
                  | nil => simp at h
                  | cons y t' ih' =>
                    cases k with
                    | zero =>
                      simp only [List.getElem?_cons_zero, Option.some.injEq] at h
                      subst h; simp [heldOf_cons]
                    | succ k =>
                      simp only [List.getElem?_cons_succ] at h
                      have := ih' k h
                      rw [heldOf_cons]; split <;> simp [this]
                exact List.mem_flatten.mpr ⟨g, this, hg⟩
              exact hn.2.2 p hp p hgm rfl
            · exact ⟨Or.inr hp, hng⟩
          · rintro ⟨hp | hp, hng⟩
            · exact Or.inl hp
            · exact Or.inr ⟨hp, hng⟩

/-! ### the invariant -/

structure Inv (s : State) (st : St) : Prop where
  store : st.store = s.stats.map pg
  statsNodup : (s.stats.map (·.path)).Nodup
  atFind : ∃ fsAt, st.atFind = fsAt.map pg ∧ s.gens = findGenerations fsAt ∧ (fsAt.map (·.path)).Nodup
  handed : st.handed = s.handed
  force : st.forcePending = s.forceFull
  dur : st.durPos = s.durPos
  inUse : ∀ p, p ∈ s.inUse ↔ p ∈ (heldOf s.handed).flatten
  heldNodup : (heldOf s.handed).flatten.Nodup

theorem Inv.init : Inv {} {} :=
  ⟨rfl, by simp, ⟨[], rfl, rfl, by simp⟩, rfl, rfl, rfl, by simp, by simp⟩

/-- a failure list that contains at most waived (full-path contiguity) failures -/
def OnlyFull (fs : List Fail) : Prop := ∀ f ∈ fs, f.isFullNoncontiguous = true

theorem judge_nil (st : St) (i : Nat) (full : Bool) (h : (heldOf st.handed).flatten.Nodup) :
    judge st i full [] = (st, []) := by
  simp [judge, disjointOK, h]

@[simp] theorem judge_forcePending (st : St) (i full gs) : (judge st i full gs).1.forcePending = st.forcePending := rfl

/-- the tail common to the three planning calls -/
theorem finishPlan_inv {s : State} {st : St} (inv : Inv s st) (i : Nat) (full : Bool)
    (groups : List (List String)) (gc : Nat) (hnd : groups.flatten.Nodup)
    (hc : full = true ∨ ∀ g ∈ groups, contiguousIn st.atFind g = true) :
    ∃ gs' n, (finishPlan s groups gc).2 = .plan gs' n gc ∧
      Inv (finishPlan s groups gc).1 (judge st i full gs').1 ∧
      OnlyFull (judge st i full gs').2 ∧
      ((∀ g ∈ groups, contiguousIn st.atFind g = true) → (judge st i full gs').2 = []) := by
  have hheld : (heldOf st.handed).flatten.Nodup := by rw [inv.handed]; exact inv.heldNodup
  unfold finishPlan
  cases hacq : acquire s.inUse groups with
  | none =>
    refine ⟨[], groups.length, rfl, ?_⟩
    rw [judge_nil st i full hheld]
    exact ⟨inv, by intro f hf; simp at hf, fun _ => rfl⟩
  | some iu =>
    refine ⟨groups, groups.length, rfl, ?_⟩
    -- no file of the new groups is in use
    have hfree : ∀ p ∈ groups.flatten, p ∉ s.inUse := by
      intro p hp hin
      unfold acquire at hacq
      split at hacq
      · rename_i he; simp [List.isEmpty_iff.mp he] at hp
      · split at hacq
        · simp at hacq
        · rename_i hany
          apply hany
          obtain ⟨g, hg, hpg⟩ := List.mem_flatten.mp hp
          simp only [List.any_eq_true]
          exact ⟨g, hg, p, hpg, by simpa using hin⟩
    have hiu : ∀ p, p ∈ iu ↔ p ∈ s.inUse ∨ p ∈ groups.flatten := by
      intro p
      unfold acquire at hacq
      split at hacq
      · rename_i he
        simp only [Option.some.injEq] at hacq; subst hacq
        simp [List.isEmpty_iff.mp he]
      · split at hacq
        · simp at hacq
        · simp only [Option.some.injEq] at hacq; subst hacq; simp
    have hnew : ((heldOf s.handed).flatten ++ groups.flatten).Nodup := by
      rw [List.nodup_append]
      refine ⟨inv.heldNodup, hnd, ?_⟩
      intro a ha b hb hab
      subst hab
      exact hfree a hb ((inv.inUse a).mpr ha)
    have hdis : disjointOK (heldOf st.handed) groups = true := by
      simp only [disjointOK, decide_eq_true_eq]; rw [inv.handed]; exact hnew
    refine ⟨?_, ?_, ?_⟩
    · refine ⟨inv.store, inv.statsNodup, inv.atFind, ?_, inv.force, inv.dur, ?_, ?_⟩
      · simp [judge, inv.handed]
      · intro p
        simp only [heldOf_append, heldOf_new, List.flatten_append, List.mem_append, hiu, inv.inUse]
      · simpa only [heldOf_append, heldOf_new, List.flatten_append] using hnew
    · intro f hf
      simp only [judge, hdis, if_true, List.nil_append] at hf
      split at hf
      · simp at hf
      · simp only [List.mem_singleton] at hf; subst hf
        rcases hc with rfl | hc
        · rfl
        · rename_i hno; exact absurd (by simpa only [List.all_eq_true] using hc) hno
    · intro hc'
      have : groups.all (contiguousIn st.atFind) = true := by simpa only [List.all_eq_true] using hc'
      simp [judge, hdis, this]

end Influx.Planner
