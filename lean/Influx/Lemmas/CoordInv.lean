/-
  Lemmas.CoordInv — the invariant of the coordinator/middleware model and its
  preservation by every operation (used by Props.C25).
-/
import Influx.Lemmas.Coord
set_option linter.unusedSimpArgs false
namespace Influx.Lemmas.Coord
open Influx.Model.Coord Influx.Spec.C25

/-- The invariant: the store is id-ascending with ids below the allocator, every
    stored schedule names a cron or an every (the service validated it), and the
    scheduler holds exactly the active tasks with their current schedule. -/

structure Inv (s : State) : Prop where
  sorted : Sorted s.tasks
  bound : ∀ t ∈ s.tasks, t.id < s.next
  valid : ∀ t ∈ s.tasks, ¬ (t.sched.cron = "" ∧ t.sched.every = "")
  held : s.held = expected s.tasks

theorem newSchedulable_valid (t : Task) (h : ¬ (t.sched.cron = "" ∧ t.sched.every = "")) :
    newSchedulable t = some (entryOf t) := by
  simp [newSchedulable, h, entryOf]

theorem accept_valid (si : SchedIn) (h : si.accept = true) :
    ¬ (si.toSched.cron = "" ∧ si.toSched.every = "") := by
  unfold SchedIn.accept at h
  unfold SchedIn.toSched
  cases hc : si.isCron <;> simp_all

theorem isActive_iff (t : Task) : isActive t = true ↔ t.status = .active := by
  unfold isActive; cases t.status <;> simp

theorem not_active (t : Task) : isActive t = false ↔ t.status = .inactive := by
  unfold isActive; cases t.status <;> simp

theorem active_of_not_inactive {t : Task} (h : ¬ t.status = .inactive) : isActive t = true := by
  unfold isActive; cases h' : t.status <;> simp_all

theorem lookup_eq (id : Nat) (m : List Task) : lookup id m = findTask id m := rfl

theorem expected_bound {s : State} (hI : Inv s) : ∀ e ∈ expected s.tasks, e.id < s.next := by
  intro e he
  obtain ⟨t, ht, _, rfl⟩ := mem_expected he
  exact hI.bound t ht

theorem find_next_none {s : State} (hI : Inv s) : findTask s.next s.tasks = none := by
  unfold findTask
  rw [List.find?_eq_none]
  intro t ht
  have := hI.bound t ht
  simp; omega

theorem taskCreated_valid (h : List Entry) (t : Task) (hv : ¬ (t.sched.cron = "" ∧ t.sched.every = "")) :
    taskCreated h t = if t.status = .inactive then (h, [], true)
      else (upsert (entryOf t) h, [.schedule t.id], true) := by
  simp [taskCreated, newSchedulable_valid t hv]

/-- the task `svcCreate` builds -/
def newTask (s : State) (st : Option Status) (si : SchedIn) : Task :=
  { id := s.next, status := st.getD .active, sched := si.toSched }

theorem svcCreate_accept (s : State) (st : Option Status) (si : SchedIn) (h : si.accept = true) :
    svcCreate s st si =
      .ok ({ s with tasks := s.tasks ++ [newTask s st si], next := s.next + 1 }, newTask s st si) := by
  simp [svcCreate, h, newTask]

theorem create_ok (s : State) (hI : Inv s) (st : Option Status) (si : SchedIn) :
    Inv (step s (.create st si)).1 ∧
      absStep s.tasks (.create st si) (step s (.create st si)).2 = some (step s (.create st si)).1.tasks := by
  by_cases hacc : si.accept = true
  · have hv : ¬ ((newTask s st si).sched.cron = "" ∧ (newTask s st si).sched.every = "") :=
      accept_valid si hacc
    have hlt : ∀ x ∈ s.tasks, x.id < (newTask s st si).id := hI.bound
    have hins := insertTask_append (newTask s st si) s.tasks hlt
    have hfn := find_next_none hI
    have habs : ∀ o : Obs, o.res = .created s.next →
        absStep s.tasks (.create st si) o = some (s.tasks ++ [newTask s st si]) := by
      intro o ho
      simp only [absStep, ho, lookup_eq, hfn]
      simpa [newTask] using hins
    have hbound : ∀ x ∈ s.tasks ++ [newTask s st si], x.id < s.next + 1 := by
      intro x hx; simp at hx; rcases hx with hx | rfl
      · have := hI.bound x hx; omega
      · simp [newTask]
    have hvalid : ∀ x ∈ s.tasks ++ [newTask s st si], ¬ (x.sched.cron = "" ∧ x.sched.every = "") := by
      intro x hx; simp at hx; rcases hx with hx | rfl
      · exact hI.valid x hx
      · exact hv
    by_cases hst : (newTask s st si).status = .inactive
    · have hia : isActive (newTask s st si) = false := (not_active _).mpr hst
      have hstep : step s (.create st si) =
          ({ tasks := s.tasks ++ [newTask s st si], next := s.next + 1, held := s.held },
           { res := .created s.next, calls := [], tasks := s.tasks ++ [newTask s st si], held := s.held }) := by
        simp [step, stepWith, mwCreate, svcCreate_accept s st si hacc, taskCreated_valid _ _ hv, hst, obsOf]
        simp [newTask]
      rw [hstep]
      exact ⟨⟨sorted_append hI.sorted hlt, hbound, hvalid, by simp [expected_append, hia, hI.held]⟩,
        habs _ rfl⟩
    · have hia : isActive (newTask s st si) = true := active_of_not_inactive hst
      have hstep : step s (.create st si) =
          ({ tasks := s.tasks ++ [newTask s st si], next := s.next + 1,
             held := upsert (entryOf (newTask s st si)) s.held },
           { res := .created s.next, calls := [.schedule s.next], tasks := s.tasks ++ [newTask s st si],
             held := upsert (entryOf (newTask s st si)) s.held }) := by
        simp [step, stepWith, mwCreate, svcCreate_accept s st si hacc, taskCreated_valid _ _ hv, hst, obsOf]
        simp [newTask]
      rw [hstep]
      refine ⟨⟨sorted_append hI.sorted hlt, hbound, hvalid, ?_⟩, habs _ rfl⟩
      simp only [expected_append, hia, if_true, hI.held]
      exact upsert_append_gt _ _ (expected_bound hI)
  · have hstep : step s (.create st si) =
        (s, { res := .err .invalid, calls := [], tasks := s.tasks, held := s.held }) := by
      simp [step, stepWith, mwCreate, svcCreate, hacc, obsOf]
    rw [hstep]
    exact ⟨hI, by simp [absStep]⟩

theorem taskUpdated_valid (h : List Entry) (frm to : Task)
    (hv : ¬ (to.sched.cron = "" ∧ to.sched.every = "")) :
    taskUpdated h frm to =
      if to.status = frm.status ∧ to.status = .inactive then (h, [], true)
      else if to.status ≠ frm.status ∧ to.status = .inactive then (erase to.id h, [.release to.id], true)
      else (upsert (entryOf to) h, [.schedule to.id], true) := by
  simp [taskUpdated, newSchedulable_valid to hv]

/-- the task `svcUpdate` stores -/
def updTask (frm : Task) (st : Option Status) (si : Option SchedIn) : Task :=
  { id := frm.id, status := st.getD frm.status, sched := (si.map SchedIn.toSched).getD frm.sched }

theorem svcUpdate_found (s : State) (id : Nat) (st : Option Status) (si : Option SchedIn) (frm : Task)
    (hf : findTask id s.tasks = some frm) (hacc : ∀ i, si = some i → i.accept = true) :
    svcUpdate s id st si =
      .ok ({ s with tasks := replaceTask (updTask frm st si) s.tasks }, updTask frm st si) := by
  cases si with
  | none => simp [svcUpdate, hf, updTask]
  | some i => simp [svcUpdate, hf, updTask, hacc i rfl]

theorem svcUpdate_reject (s : State) (id : Nat) (st : Option Status) (i : SchedIn) (frm : Task)
    (hf : findTask id s.tasks = some frm) (hacc : ¬ i.accept = true) :
    svcUpdate s id st (some i) = .error .invalid := by
  simp [svcUpdate, hf, hacc]

theorem update_ok (s : State) (hI : Inv s) (id : Nat) (st : Option Status) (si : Option SchedIn) :
    Inv (step s (.update id st si)).1 ∧
      absStep s.tasks (.update id st si) (step s (.update id st si)).2
        = some (step s (.update id st si)).1.tasks := by
  cases hf : findTask id s.tasks with
  | none =>
    have hstep : step s (.update id st si) =
        (s, { res := .err .notfound, calls := [], tasks := s.tasks, held := s.held }) := by
      simp [step, stepWith, mwUpdate, hf, obsOf]
    rw [hstep]; exact ⟨hI, by simp [absStep]⟩
  | some frm =>
    obtain ⟨hmem, hid⟩ := findTask_some hf
    by_cases hacc : ∀ i, si = some i → i.accept = true
    · have hsvc := svcUpdate_found s id st si frm hf hacc
      have hv : ¬ ((updTask frm st si).sched.cron = "" ∧ (updTask frm st si).sched.every = "") := by
        cases si with
        | none => simpa [updTask] using hI.valid frm hmem
        | some i => simpa [updTask] using accept_valid i (hacc i rfl)
      have htid : (updTask frm st si).id = frm.id := rfl
      have hex : ∃ x ∈ s.tasks, x.id = (updTask frm st si).id := ⟨frm, hmem, rfl⟩
      have hsorted := sorted_replace (t := updTask frm st si) hI.sorted
      have hbound : ∀ x ∈ replaceTask (updTask frm st si) s.tasks, x.id < s.next := by
        intro x hx
        rcases mem_replace hx with rfl | hx
        · exact hI.bound frm hmem
        · exact hI.bound x hx
      have hvalid : ∀ x ∈ replaceTask (updTask frm st si) s.tasks,
          ¬ (x.sched.cron = "" ∧ x.sched.every = "") := by
        intro x hx
        rcases mem_replace hx with rfl | hx
        · exact hv
        · exact hI.valid x hx
      have habs : ∀ o : Obs, o.res = .ok →
          absStep s.tasks (.update id st si) o = some (replaceTask (updTask frm st si) s.tasks) := by
        intro o ho
        have := insertTask_eq_replace (updTask frm st si) s.tasks hI.sorted hex
        simp only [absStep, ho, lookup_eq, hf]
        simpa [updTask, hid] using this
      by_cases h1 : (updTask frm st si).status = frm.status ∧ (updTask frm st si).status = .inactive
      · have hstep : step s (.update id st si) =
            ({ s with tasks := replaceTask (updTask frm st si) s.tasks },
             { res := .ok, calls := [], tasks := replaceTask (updTask frm st si) s.tasks, held := s.held }) := by
          have htu : taskUpdated s.held frm (updTask frm st si) = (s.held, [], true) := by
            rw [taskUpdated_valid _ _ _ hv, if_pos h1]
          simp [step, stepWith, mwUpdate, hf, hsvc, htu, obsOf]
        rw [hstep]
        refine ⟨⟨hsorted, hbound, hvalid, ?_⟩, habs _ rfl⟩
        have hfi : isActive frm = false := (not_active _).mpr (h1.1 ▸ h1.2)
        have hti : isActive (updTask frm st si) = false := (not_active _).mpr h1.2
        have hf' : findTask (updTask frm st si).id s.tasks = some frm := by rw [htid, hid]; exact hf
        simp only []
        rw [expected_replace_both_inactive _ frm s.tasks hI.sorted hf' hfi hti]
        exact hI.held
      · by_cases h2 : (updTask frm st si).status ≠ frm.status ∧ (updTask frm st si).status = .inactive
        · have hstep : step s (.update id st si) =
              ({ s with tasks := replaceTask (updTask frm st si) s.tasks,
                        held := erase (updTask frm st si).id s.held },
               { res := .ok, calls := [.release (updTask frm st si).id],
                 tasks := replaceTask (updTask frm st si) s.tasks,
                 held := erase (updTask frm st si).id s.held }) := by
            have htu : taskUpdated s.held frm (updTask frm st si) =
                (erase (updTask frm st si).id s.held, [.release (updTask frm st si).id], true) := by
              rw [taskUpdated_valid _ _ _ hv, if_neg h1, if_pos h2]
            simp [step, stepWith, mwUpdate, hf, hsvc, htu, obsOf]
          rw [hstep]
          refine ⟨⟨hsorted, hbound, hvalid, ?_⟩, habs _ rfl⟩
          have hti : isActive (updTask frm st si) = false := (not_active _).mpr h2.2
          simp only [hI.held]
          exact expected_replace_inactive _ _ hti
        · have hstep : step s (.update id st si) =
              ({ s with tasks := replaceTask (updTask frm st si) s.tasks,
                        held := upsert (entryOf (updTask frm st si)) s.held },
               { res := .ok, calls := [.schedule (updTask frm st si).id],
                 tasks := replaceTask (updTask frm st si) s.tasks,
                 held := upsert (entryOf (updTask frm st si)) s.held }) := by
            have htu : taskUpdated s.held frm (updTask frm st si) =
                (upsert (entryOf (updTask frm st si)) s.held, [.schedule (updTask frm st si).id], true) := by
              rw [taskUpdated_valid _ _ _ hv, if_neg h1, if_neg h2]
            simp [step, stepWith, mwUpdate, hf, hsvc, htu, obsOf]
          rw [hstep]
          refine ⟨⟨hsorted, hbound, hvalid, ?_⟩, habs _ rfl⟩
          have hni : ¬ (updTask frm st si).status = .inactive := by
            intro hi
            by_cases he : (updTask frm st si).status = frm.status
            · exact h1 ⟨he, hi⟩
            · exact h2 ⟨he, hi⟩
          have hta : isActive (updTask frm st si) = true := active_of_not_inactive hni
          simp only [hI.held]
          exact expected_replace_active _ _ hI.sorted hta hex
    · have : ∃ i, si = some i ∧ ¬ i.accept = true := by
        cases si with
        | none => exact absurd (fun i h => by cases h) hacc
        | some i => exact ⟨i, rfl, fun h => hacc (fun j hj => by cases hj; exact h)⟩
      obtain ⟨i, rfl, hrej⟩ := this
      have hstep : step s (.update id st (some i)) =
          (s, { res := .err .invalid, calls := [], tasks := s.tasks, held := s.held }) := by
        simp [step, stepWith, mwUpdate, hf, svcUpdate_reject s id st i frm hf hrej, obsOf]
      rw [hstep]; exact ⟨hI, by simp [absStep]⟩

/-- the task `svcOptUpdate` stores -/
def optTask (frm : Task) (ev cr : Option String) (off : Option Int) : Task :=
  { frm with sched := patchSched frm.sched ev cr off }

theorem patch_valid (old : Sched) (ev cr : Option String) (off : Option Int) (v : Bool)
    (hold : ¬ (old.cron = "" ∧ old.every = "")) (hok : patchOK ev cr v = true) :
    ¬ ((patchSched old ev cr off).cron = "" ∧ (patchSched old ev cr off).every = "") := by
  unfold patchOK at hok
  unfold patchSched
  cases ev <;> cases cr <;> simp_all

theorem optUpdate_ok (s : State) (hI : Inv s) (id : Nat) (ev cr : Option String) (off : Option Int) (v : Bool) :
    Inv (step s (.optUpdate id ev cr off v)).1 ∧
      absStep s.tasks (.optUpdate id ev cr off v) (step s (.optUpdate id ev cr off v)).2
        = some (step s (.optUpdate id ev cr off v)).1.tasks := by
  cases hf : findTask id s.tasks with
  | none =>
    have hstep : step s (.optUpdate id ev cr off v) =
        (s, { res := .err .notfound, calls := [], tasks := s.tasks, held := s.held }) := by
      simp [step, stepWith, mwOptUpdate, hf, obsOf]
    rw [hstep]; exact ⟨hI, by simp [absStep]⟩
  | some frm =>
    obtain ⟨hmem, hid⟩ := findTask_some hf
    by_cases hacc : patchOK ev cr v = true
    · have hsvc : svcOptUpdate s id ev cr off v =
          .ok ({ s with tasks := replaceTask (optTask frm ev cr off) s.tasks }, optTask frm ev cr off) := by
        simp [svcOptUpdate, hf, hacc, optTask]
      have hv : ¬ ((optTask frm ev cr off).sched.cron = "" ∧ (optTask frm ev cr off).sched.every = "") :=
        patch_valid frm.sched ev cr off v (hI.valid frm hmem) hacc
      have htid : (optTask frm ev cr off).id = frm.id := rfl
      have hst : (optTask frm ev cr off).status = frm.status := rfl
      have hex : ∃ x ∈ s.tasks, x.id = (optTask frm ev cr off).id := ⟨frm, hmem, rfl⟩
      have hsorted := sorted_replace (t := optTask frm ev cr off) hI.sorted
      have hbound : ∀ x ∈ replaceTask (optTask frm ev cr off) s.tasks, x.id < s.next := by
        intro x hx
        rcases mem_replace hx with rfl | hx
        · exact hI.bound frm hmem
        · exact hI.bound x hx
      have hvalid : ∀ x ∈ replaceTask (optTask frm ev cr off) s.tasks,
          ¬ (x.sched.cron = "" ∧ x.sched.every = "") := by
        intro x hx
        rcases mem_replace hx with rfl | hx
        · exact hv
        · exact hI.valid x hx
      have habs : ∀ o : Obs, o.res = .ok →
          absStep s.tasks (.optUpdate id ev cr off v) o = some (replaceTask (optTask frm ev cr off) s.tasks) := by
        intro o ho
        have := insertTask_eq_replace (optTask frm ev cr off) s.tasks hI.sorted hex
        simp only [absStep, ho, lookup_eq, hf]
        simpa [optTask] using this
      by_cases h1 : frm.status = .inactive
      · have htu : taskUpdated s.held frm (optTask frm ev cr off) = (s.held, [], true) := by
          rw [taskUpdated_valid _ _ _ hv, if_pos ⟨hst, by rw [hst]; exact h1⟩]
        have hstep : step s (.optUpdate id ev cr off v) =
            ({ s with tasks := replaceTask (optTask frm ev cr off) s.tasks },
             { res := .ok, calls := [], tasks := replaceTask (optTask frm ev cr off) s.tasks, held := s.held }) := by
          simp [step, stepWith, mwOptUpdate, hf, hsvc, htu, obsOf]
        rw [hstep]
        refine ⟨⟨hsorted, hbound, hvalid, ?_⟩, habs _ rfl⟩
        have hfi : isActive frm = false := (not_active _).mpr h1
        have hti : isActive (optTask frm ev cr off) = false := (not_active _).mpr (by rw [hst]; exact h1)
        have hf' : findTask (optTask frm ev cr off).id s.tasks = some frm := by rw [htid, hid]; exact hf
        simp only []
        rw [expected_replace_both_inactive _ frm s.tasks hI.sorted hf' hfi hti]
        exact hI.held
      · have hn1 : ¬ ((optTask frm ev cr off).status = frm.status ∧ (optTask frm ev cr off).status = .inactive) :=
          fun h => h1 (by rw [← hst]; exact h.2)
        have hn2 : ¬ ((optTask frm ev cr off).status ≠ frm.status ∧ (optTask frm ev cr off).status = .inactive) :=
          fun h => h.1 hst
        have htu : taskUpdated s.held frm (optTask frm ev cr off) =
            (upsert (entryOf (optTask frm ev cr off)) s.held, [.schedule (optTask frm ev cr off).id], true) := by
          rw [taskUpdated_valid _ _ _ hv, if_neg hn1, if_neg hn2]
        have hstep : step s (.optUpdate id ev cr off v) =
            ({ s with tasks := replaceTask (optTask frm ev cr off) s.tasks,
                      held := upsert (entryOf (optTask frm ev cr off)) s.held },
             { res := .ok, calls := [.schedule (optTask frm ev cr off).id],
               tasks := replaceTask (optTask frm ev cr off) s.tasks,
               held := upsert (entryOf (optTask frm ev cr off)) s.held }) := by
          simp [step, stepWith, mwOptUpdate, hf, hsvc, htu, obsOf]
        rw [hstep]
        refine ⟨⟨hsorted, hbound, hvalid, ?_⟩, habs _ rfl⟩
        have hta : isActive (optTask frm ev cr off) = true := active_of_not_inactive (by rw [hst]; exact h1)
        simp only [hI.held]
        exact expected_replace_active _ _ hI.sorted hta hex
    · have hstep : step s (.optUpdate id ev cr off v) =
          (s, { res := .err .invalid, calls := [], tasks := s.tasks, held := s.held }) := by
        simp [step, stepWith, mwOptUpdate, hf, svcOptUpdate, hacc, obsOf]
      rw [hstep]; exact ⟨hI, by simp [absStep]⟩

theorem delete_ok (s : State) (hI : Inv s) (id : Nat) :
    Inv (step s (.delete id)).1 ∧
      absStep s.tasks (.delete id) (step s (.delete id)).2 = some (step s (.delete id)).1.tasks := by
  cases hf : findTask id s.tasks with
  | none =>
    have hstep : step s (.delete id) =
        ({ s with held := erase id s.held },
         { res := .err .notfound, calls := [.release id], tasks := s.tasks, held := erase id s.held }) := by
      simp [step, stepWith, mwDelete, taskDeleted, svcDelete, hf, obsOf]
    rw [hstep]
    refine ⟨⟨hI.sorted, hI.bound, hI.valid, ?_⟩, by simp [absStep]⟩
    simp only [hI.held]
    rw [expected_remove, remove_noop id s.tasks (findTask_none hf)]
  | some frm =>
    have hstep : step s (.delete id) =
        ({ s with held := erase id s.held, tasks := removeTask id s.tasks },
         { res := .ok, calls := [.release id], tasks := removeTask id s.tasks, held := erase id s.held }) := by
      simp [step, stepWith, mwDelete, taskDeleted, svcDelete, hf, obsOf]
    rw [hstep]
    have hsub : ∀ x ∈ removeTask id s.tasks, x ∈ s.tasks := by
      intro x hx; unfold removeTask at hx; exact (List.mem_filter.mp hx).1
    refine ⟨⟨sorted_remove hI.sorted, fun x hx => hI.bound x (hsub x hx),
      fun x hx => hI.valid x (hsub x hx), ?_⟩, ?_⟩
    · simp only [hI.held]; exact expected_remove id s.tasks
    · simp [absStep, lookup_eq, hf, removeTask]

/-- the start-up loop over the remaining tasks `q`, having handled the prefix `p` -/
theorem restart_fold (k : RestartKind) (q p : List Task) (c : List Call)
    (hs : Sorted (p ++ q)) (hv : ∀ t ∈ q, ¬ (t.sched.cron = "" ∧ t.sched.every = "")) :
    (q.foldl (notifyOne taskCreated k) (expected p, c)).1 = expected (p ++ q) := by
  induction q generalizing p c with
  | nil => simp
  | cons t q ih =>
    have hvt := hv t (by simp)
    have hs' : Sorted ((p ++ [t]) ++ q) := by simpa using hs
    have hlt : ∀ e ∈ expected p, e.id < (entryOf t).id := by
      intro e he
      obtain ⟨x, hx, _, rfl⟩ := mem_expected he
      unfold Sorted at hs
      rw [List.pairwise_append] at hs
      exact hs.2.2 x hx t (by simp)
    have key : ∃ c', notifyOne taskCreated k (expected p, c) t = (expected (p ++ [t]), c') := by
      by_cases ha : t.status = .active
      · have hia : isActive t = true := (isActive_iff t).mpr ha
        have hni : ¬ t.status = .inactive := by rw [ha]; decide
        have hup := upsert_append_gt (entryOf t) (expected p) hlt
        have hup2 := upsert_append_same (entryOf t) (entryOf t) (expected p) hlt rfl
        cases k <;>
          simp [notifyOne, ha, taskCreated_valid _ _ hvt, taskUpdated_valid _ _ _ hvt, expected_append,
            hia, hup, hup2]
      · have hia : isActive t = false := by
          unfold isActive; cases h : t.status <;> simp_all
        exact ⟨c, by simp [notifyOne, ha, expected_append, hia]⟩
    obtain ⟨c', hk⟩ := key
    rw [List.foldl_cons, hk, ih (p ++ [t]) c' hs' (fun x hx => hv x (by simp [hx]))]
    simp

theorem restart_ok (s : State) (hI : Inv s) (k : RestartKind) (ps : Nat) :
    Inv (step s (.restart k ps)).1 ∧
      absStep s.tasks (.restart k ps) (step s (.restart k ps)).2 = some (step s (.restart k ps)).1.tasks := by
  have hfold := restart_fold k s.tasks [] [] (by simpa using hI.sorted) hI.valid
  simp only [expected_nil, List.nil_append] at hfold
  have h1 : (step s (.restart k ps)).1.tasks = s.tasks := by simp [step, stepWith, restart, obsOf]
  have h2 : (step s (.restart k ps)).1.next = s.next := by simp [step, stepWith, restart, obsOf]
  have h3 : (step s (.restart k ps)).1.held = expected s.tasks := by
    simp [step, stepWith, restart, obsOf, hfold]
  refine ⟨⟨h1 ▸ hI.sorted, ?_, ?_, ?_⟩, ?_⟩
  · rw [h1, h2]; exact hI.bound
  · rw [h1]; exact hI.valid
  · rw [h3, h1]
  · simp [absStep, h1]

theorem runOp_state (s : State) (id : Nat) (c : Call) : (runOp s id c).1 = s := by
  unfold runOp; cases findTask id s.tasks <;> rfl

/-- every operation keeps the invariant and is acknowledged consistently -/
theorem step_ok (s : State) (hI : Inv s) (op : Op) :
    Inv (step s op).1 ∧ absStep s.tasks op (step s op).2 = some (step s op).1.tasks := by
  cases op with
  | create st si => exact create_ok s hI st si
  | update id st si => exact update_ok s hI id st si
  | optUpdate id ev cr off v => exact optUpdate_ok s hI id ev cr off v
  | delete id => exact delete_ok s hI id
  | restart k ps => exact restart_ok s hI k ps
  | cancel id run =>
    have h : (step s (.cancel id run)).1 = s := by simp [step, stepWith, obsOf, runOp_state]
    rw [h]; exact ⟨hI, by simp [absStep]⟩
  | force id sf =>
    have h : (step s (.force id sf)).1 = s := by simp [step, stepWith, obsOf, runOp_state]
    rw [h]; exact ⟨hI, by simp [absStep]⟩
  | retry id run =>
    have h : (step s (.retry id run)).1 = s := by simp [step, stepWith, obsOf, runOp_state]
    rw [h]; exact ⟨hI, by simp [absStep]⟩

theorem inv_init : Inv init :=
  ⟨by simp [Sorted, init], by simp [init], by simp [init], by simp [init, expected]⟩

theorem obs_tasks (s : State) (op : Op) : (step s op).2.tasks = (step s op).1.tasks := rfl
theorem obs_held (s : State) (op : Op) : (step s op).2.held = (step s op).1.held := rfl

theorem inv_final (s : State) (hI : Inv s) (ops : List Op) : Inv (finalFrom step s ops) := by
  induction ops generalizing s with
  | nil => exact hI
  | cons op rest ih => exact ih _ (step_ok s hI op).1

theorem check_run (s : State) (hI : Inv s) (ops : List Op) :
    check s.tasks (runFrom step s ops) = none := by
  induction ops generalizing s with
  | nil => rfl
  | cons op rest ih =>
    obtain ⟨hI', habs⟩ := step_ok s hI op
    simp only [runFrom, check, obs_held, obs_tasks, hI'.held, habs, ne_eq, not_true_eq_false, if_false]
    exact ih _ hI'
end Influx.Lemmas.Coord
