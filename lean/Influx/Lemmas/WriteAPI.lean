/-
  Lemmas.WriteAPI — helper lemmas about the write-path model (Model/WriteAPI.lean):
  one `Read` of the scripted source, one `Read` of the LimitedReadCloser, and the
  closed form of `io.ReadAll` / `readAll` for every chunking script.
-/
import Influx.Model.WriteAPI
import Influx.Spec.C32

namespace Influx.WriteAPI

theorem Src.read_spec (s : Src) (k : Nat) {s' : Src} {bs : List Nat} {e : Option RErr}
    (h : s.read k = (s', bs, e)) :
    s.data = bs ++ s'.data ∧ s'.term = s.term ∧ s'.eager = s.eager ∧ s'.closeErr = s.closeErr ∧
    s'.closes = s.closes ∧ bs.length ≤ k ∧
    (e = none ∨ (e = some s.term ∧ s'.data = [])) ∧
    (s.data = [] → e = some s.term) := by
  unfold Src.read at h
  cases hd : s.data with
  | nil =>
    simp [hd] at h
    obtain ⟨rfl, rfl, rfl⟩ := h
    simp [hd]
  | cons a as =>
    have hc := s.chunk_le k
    generalize s.chunk k = c at h hc
    simp only [hd, List.isEmpty_cons, Bool.false_eq_true, ↓reduceIte, Prod.mk.injEq] at h
    obtain ⟨rfl, rfl, rfl⟩ := h
    refine ⟨by simp, rfl, rfl, rfl, rfl, ?_, ?_, by simp⟩
    · simp only [List.length_take]; omega
    · by_cases hh : min c (a :: as).length = (a :: as).length ∧ s.eager = true
      · right; rw [if_pos hh]; have := hh.1; simp only [List.length_cons] at this; simp; omega
      · left; rw [if_neg hh]

/-- the error io.ReadAll reports for a stream ending in `t` -/
def termErr (t : RErr) : Option RErr := if t = .eof then none else some t

theorem ioReadAll_none {old b bufs acc b' bs} (h : Body.read old b (bufSize bufs) = (b', bs, none)) :
    ioReadAll old b bufs acc = ioReadAll old b' bufs.tail (acc ++ bs) := by
  rw [ioReadAll]
  split
  · next h' => rw [h] at h'; simp only [Prod.mk.injEq] at h'; obtain ⟨rfl, rfl, -⟩ := h'; rfl
  · next h' => rw [h] at h'; simp at h'
  · next h' => rw [h] at h'; simp at h'

theorem ioReadAll_some {old b bufs acc b' bs e} (h : Body.read old b (bufSize bufs) = (b', bs, some e)) :
    ioReadAll old b bufs acc = (b', acc ++ bs, termErr e) := by
  rw [ioReadAll]
  split
  · next h' => rw [h] at h'; simp at h'
  · next h' => rw [h] at h'; simp only [Prod.mk.injEq, Option.some.injEq] at h'; obtain ⟨rfl, rfl, rfl⟩ := h'; rfl
  · next hne h' =>
    rw [h] at h'; simp only [Prod.mk.injEq, Option.some.injEq] at h'; obtain ⟨rfl, rfl, rfl⟩ := h'
    simp only [termErr]
    rw [if_neg]
    intro he; exact hne he

theorem Body.read_raw (old s k) : Body.read old (.raw s) k = (.raw (s.read k).1, (s.read k).2.1, (s.read k).2.2) := rfl

theorem ioReadAll_raw (old : Bool) (s : Src) (bufs acc : List Nat) :
    ∃ s', ioReadAll old (.raw s) bufs acc = (.raw s', acc ++ s.data, termErr s.term) ∧
      s'.closeErr = s.closeErr ∧ s'.closes = s.closes := by
  suffices h : ∀ b bufs acc, ∀ s, b = Body.raw s →
      ∃ s', ioReadAll old b bufs acc = (.raw s', acc ++ s.data, termErr s.term) ∧
        s'.closeErr = s.closeErr ∧ s'.closes = s.closes from h _ bufs acc s rfl
  intro b bufs acc
  induction b, bufs, acc using ioReadAll.induct old with
  | case1 b bufs acc b' bs hr ih =>
    intro s hb
    subst hb
    have hr' := hr
    rw [Body.read_raw] at hr'
    generalize hs : s.read (bufSize bufs) = res at hr'
    obtain ⟨s1, bs1, e1⟩ := res
    simp only [Prod.mk.injEq] at hr'
    obtain ⟨rfl, rfl, he⟩ := hr'
    subst he
    obtain ⟨hd, ht, -, hc, hcl, -, -, -⟩ := Src.read_spec s (bufSize bufs) hs
    obtain ⟨s', h1, h2, h3⟩ := ih _ rfl
    refine ⟨s', ?_, h2.trans hc, h3.trans hcl⟩
    rw [ioReadAll_none hr, h1, ht, List.append_assoc, ← hd]
  | case2 b bufs acc b' bs hr =>
    intro s hb
    subst hb
    have hr' := hr
    rw [Body.read_raw] at hr'
    generalize hs : s.read (bufSize bufs) = res at hr'
    obtain ⟨s1, bs1, e1⟩ := res
    simp only [Prod.mk.injEq] at hr'
    obtain ⟨rfl, rfl, he⟩ := hr'
    subst he
    obtain ⟨hd, ht, -, hc, hcl, -, h7, -⟩ := Src.read_spec s (bufSize bufs) hs
    simp only [reduceCtorEq, Option.some.injEq, false_or] at h7
    refine ⟨_, ?_, hc, hcl⟩
    rw [ioReadAll_some hr, hd, h7.2, ← h7.1, List.append_nil]
  | case3 b bufs acc b' bs e hne hr =>
    intro s hb
    subst hb
    have hr' := hr
    rw [Body.read_raw] at hr'
    generalize hs : s.read (bufSize bufs) = res at hr'
    obtain ⟨s1, bs1, e1⟩ := res
    simp only [Prod.mk.injEq] at hr'
    obtain ⟨rfl, rfl, he⟩ := hr'
    subst he
    obtain ⟨hd, ht, -, hc, hcl, -, h7, -⟩ := Src.read_spec s (bufSize bufs) hs
    simp only [reduceCtorEq, Option.some.injEq, false_or] at h7
    refine ⟨_, ?_, hc, hcl⟩
    rw [ioReadAll_some hr, hd, h7.2, ← h7.1, List.append_nil]

theorem Body.read_limited (l k) : Body.read false (.limited l) k = (.limited (l.read k).1, (l.read k).2.1, (l.read k).2.2) := rfl

/-- one `Read` of the repaired LimitedReadCloser that reports no error -/
theorem LRC.read_none {l : LRC} {k : Nat} (hk : 0 < k) (hn : 0 ≤ l.n) (hx : l.limitExceeded = false)
    {l' : LRC} {bs : List Nat} (h : l.read k = (l', bs, none)) :
    0 ≤ l'.n ∧ l'.limitExceeded = false ∧ l.r.data = bs ++ l'.r.data ∧ l'.n = l.n - bs.length ∧
    l'.err = l.err ∧ l'.closed = l.closed ∧ l'.r.closeErr = l.r.closeErr ∧ l'.r.closes = l.r.closes ∧
    l'.r.term = l.r.term := by
  unfold LRC.read at h
  split at h
  · next h0 =>
    rw [if_neg (by simp [hx])] at h
    generalize hs : l.r.read 1 = res at h
    obtain ⟨r1, bs1, e1⟩ := res
    obtain ⟨hd, ht, -, hc, hcl, -, -, -⟩ := Src.read_spec _ _ hs
    simp only at h
    split at h
    · simp at h
    · next hlen =>
      simp only [Prod.mk.injEq] at h
      obtain ⟨rfl, rfl, rfl⟩ := h
      have : bs1 = [] := by cases bs1 <;> simp_all
      subst this
      simp_all
  · next h0 =>
    simp only at h
    generalize hk' : (if (k : Int) > l.n then l.n.toNat else k) = k' at h
    generalize hs : l.r.read k' = res at h
    obtain ⟨r1, bs1, e1⟩ := res
    obtain ⟨hd, ht, -, hc, hcl, hlen, -, -⟩ := Src.read_spec _ _ hs
    simp only [Prod.mk.injEq] at h
    obtain ⟨rfl, rfl, rfl⟩ := h
    refine ⟨?_, hx, hd, rfl, rfl, rfl, hc, hcl, ht⟩
    simp only
    split at hk' <;> omega

/-- one `Read` of the repaired LimitedReadCloser that reports an error -/
theorem LRC.read_some {l : LRC} {k : Nat} (hk : 0 < k) (hn : 0 ≤ l.n) (hx : l.limitExceeded = false)
    {l' : LRC} {bs : List Nat} {e : RErr} (h : l.read k = (l', bs, some e)) :
    bs = l.r.data.take l.n.toNat ∧
    termErr e = (if l.n.toNat < l.r.data.length then none else termErr l.r.term) ∧
    l'.limitExceeded = decide (l.n.toNat < l.r.data.length) ∧
    l'.err = l.err ∧ l'.closed = l.closed ∧ l'.r.closeErr = l.r.closeErr ∧ l'.r.closes = l.r.closes := by
  unfold LRC.read at h
  split at h
  · next h0 =>
    have hn0 : l.n = 0 := by omega
    rw [if_neg (by simp [hx])] at h
    generalize hs : l.r.read 1 = res at h
    obtain ⟨r1, bs1, e1⟩ := res
    obtain ⟨hd, ht, -, hc, hcl, -, h7, h8⟩ := Src.read_spec _ _ hs
    simp only at h
    split at h
    · next hlen =>
      simp only [Prod.mk.injEq, Option.some.injEq] at h
      obtain ⟨rfl, rfl, rfl⟩ := h
      have : 0 < l.r.data.length := by rw [hd]; simp; omega
      simp [hn0, this, hc, hcl, termErr]
    · next hlen =>
      simp only [Prod.mk.injEq] at h
      obtain ⟨rfl, rfl, rfl⟩ := h
      have : bs1 = [] := by cases bs1 <;> simp_all
      subst this
      simp only [reduceCtorEq, Option.some.injEq, false_or] at h7
      obtain ⟨rfl, hr1⟩ := h7
      simp [hn0, hd, hr1, hc, hcl, hx]
  · next h0 =>
    simp only at h
    generalize hk' : (if (k : Int) > l.n then l.n.toNat else k) = k' at h
    generalize hs : l.r.read k' = res at h
    obtain ⟨r1, bs1, e1⟩ := res
    obtain ⟨hd, ht, -, hc, hcl, hlen, h7, -⟩ := Src.read_spec _ _ hs
    simp only [Prod.mk.injEq] at h
    obtain ⟨rfl, rfl, rfl⟩ := h
    simp only [reduceCtorEq, Option.some.injEq, false_or] at h7
    obtain ⟨rfl, hr1⟩ := h7
    have hk2 : k' ≤ l.n.toNat := by split at hk' <;> omega
    have hlen2 : l.r.data.length = bs1.length := by rw [hd, hr1]; simp
    have : ¬ l.n.toNat < l.r.data.length := by omega
    simp only [this, ↓reduceIte, decide_false, hc, hcl, hx, and_self, and_true]
    rw [hd, hr1, List.append_nil, List.take_of_length_le (by omega)]

theorem bufSize_pos (bufs : List Nat) : 0 < bufSize bufs := by unfold bufSize; split <;> omega

theorem ioReadAll_limited (l : LRC) (bufs acc : List Nat) (hn : 0 ≤ l.n) (hx : l.limitExceeded = false) :
    ∃ l', ioReadAll false (.limited l) bufs acc =
        (.limited l', acc ++ l.r.data.take l.n.toNat,
          if l.n.toNat < l.r.data.length then none else termErr l.r.term) ∧
      l'.limitExceeded = decide (l.n.toNat < l.r.data.length) ∧
      l'.err = l.err ∧ l'.closed = l.closed ∧ l'.r.closeErr = l.r.closeErr ∧ l'.r.closes = l.r.closes := by
  suffices h : ∀ b bufs acc, ∀ l, b = Body.limited l → 0 ≤ l.n → l.limitExceeded = false →
      ∃ l', ioReadAll false b bufs acc =
        (.limited l', acc ++ l.r.data.take l.n.toNat,
          if l.n.toNat < l.r.data.length then none else termErr l.r.term) ∧
      l'.limitExceeded = decide (l.n.toNat < l.r.data.length) ∧
      l'.err = l.err ∧ l'.closed = l.closed ∧ l'.r.closeErr = l.r.closeErr ∧ l'.r.closes = l.r.closes
    from h _ bufs acc l rfl hn hx
  intro b bufs acc
  have some_case : ∀ (b : Body) (bufs acc : List Nat) (b' : Body) (bs : List Nat) (e : RErr),
      Body.read false b (bufSize bufs) = (b', bs, some e) →
      ∀ l, b = Body.limited l → 0 ≤ l.n → l.limitExceeded = false →
      ∃ l', ioReadAll false b bufs acc =
        (.limited l', acc ++ l.r.data.take l.n.toNat,
          if l.n.toNat < l.r.data.length then none else termErr l.r.term) ∧
      l'.limitExceeded = decide (l.n.toNat < l.r.data.length) ∧
      l'.err = l.err ∧ l'.closed = l.closed ∧ l'.r.closeErr = l.r.closeErr ∧ l'.r.closes = l.r.closes := by
    intro b bufs acc b' bs e hr l hb hn hx
    subst hb
    have hr' := hr
    rw [Body.read_limited] at hr'
    generalize hs : l.read (bufSize bufs) = res at hr'
    obtain ⟨l1, bs1, e1⟩ := res
    simp only [Prod.mk.injEq] at hr'
    obtain ⟨rfl, rfl, rfl⟩ := hr'
    obtain ⟨h1, h2, h3, h4, h5, h6, h7⟩ := LRC.read_some (bufSize_pos bufs) hn hx hs
    exact ⟨l1, by rw [ioReadAll_some hr, h1, h2], h3, h4, h5, h6, h7⟩
  induction b, bufs, acc using ioReadAll.induct false with
  | case1 b bufs acc b' bs hr ih =>
    intro l hb hn hx
    subst hb
    have hr' := hr
    rw [Body.read_limited] at hr'
    generalize hs : l.read (bufSize bufs) = res at hr'
    obtain ⟨l1, bs1, e1⟩ := res
    simp only [Prod.mk.injEq] at hr'
    obtain ⟨rfl, rfl, rfl⟩ := hr'
    obtain ⟨g1, g2, g3, g4, g5, g6, g7, g8, g9⟩ := LRC.read_none (bufSize_pos bufs) hn hx hs
    obtain ⟨l', i1, i2, i3, i4, i5, i6⟩ := ih l1 rfl g1 g2
    have hlen : bs1.length ≤ l.n.toNat := by omega
    have e1 : l1.n.toNat = l.n.toNat - bs1.length := by omega
    have e2 : (l1.n.toNat < l1.r.data.length) ↔ (l.n.toNat < l.r.data.length) := by
      rw [g3, List.length_append]; omega
    refine ⟨l', ?_, ?_, i3.trans g5, i4.trans g6, i5.trans g7, i6.trans g8⟩
    · have e3 : List.take l.n.toNat l.r.data = bs1 ++ List.take l1.n.toNat l1.r.data := by
        rw [g3, List.take_append, List.take_of_length_le hlen, e1]
      rw [ioReadAll_none hr, i1, g9, e3, List.append_assoc]
      simp only [e2]
    · rw [i2]; simp only [e2]
  | case2 b bufs acc b' bs hr => exact some_case b bufs acc b' bs _ hr
  | case3 b bufs acc b' bs e hne hr => exact some_case b bufs acc b' bs _ hr

/-- the error of the first `Close` of a LimitedReadCloser -/
theorem LRC.close_err (l : LRC) (hc : l.closed = false) (he : l.err = none) :
    l.close.2 = if l.limitExceeded then some .limit
      else if l.r.closeErr then some (.under .other) else none := by
  obtain ⟨⟨d, ch, eg, t, ce, cl⟩, n, err, closed, ex⟩ := l
  simp only at hc he
  subst hc he
  cases ex <;> cases ce <;> simp [LRC.close, Src.close]

theorem Body.close_limited (l : LRC) : (Body.limited l).close.2 = l.close.2 := rfl
theorem Body.close_raw (s : Src) : (Body.raw s).close.2 = if s.closeErr then some (.under .other) else none := by
  cases h : s.closeErr <;> simp [Body.close, Src.close, h]

/-- `readAll` only looks at the error of Close -/
theorem readAll_eq (old : Bool) (b : Body) (bufs : List Nat) :
    (readAll old b bufs).2 =
      match (ioReadAll old b bufs []).2.2 with
      | some e => .error (.rd e)
      | none =>
        match (ioReadAll old b bufs []).1.close.2 with
        | some .limit => .error .tooLarge
        | some (.under e) => .error (.cl e)
        | none => .ok (ioReadAll old b bufs []).2.1 := by
  unfold readAll
  generalize ioReadAll old b bufs [] = res
  obtain ⟨b1, data, rerr⟩ := res
  generalize hc : b1.close = res2
  obtain ⟨b2, cerr⟩ := res2
  cases rerr with
  | some e => rfl
  | none =>
    simp only
    cases cerr with
    | none => simp [hc]
    | some c => cases c <;> simp [hc]

/-- what `readAll` returns, in closed form -/
def readAllResult (s : Src) (limit : Int) : Except ReadErr (List Nat) :=
  if 0 < limit ∧ limit.toNat < s.data.length then .error .tooLarge
  else if s.term ≠ .eof then .error (.rd s.term)
  else if s.closeErr then .error (.cl .other)
  else .ok s.data

theorem readAll_spec (s : Src) (limit : Int) (bufs : List Nat) :
    (readAll false (openBody s limit) bufs).2 = readAllResult s limit := by
  rw [readAll_eq]
  unfold openBody readAllResult
  by_cases hl : limit > 0
  · rw [if_pos hl]
    obtain ⟨l', h1, h2, h3, h4, h5, h6⟩ := ioReadAll_limited (LRC.new s limit) bufs [] (by simp [LRC.new]; omega) rfl
    rw [h1]
    simp only [LRC.new] at h2 h3 h4 h5 h6 ⊢
    rw [Body.close_limited, LRC.close_err l' h4 h3, h2, h5]
    by_cases hx : limit.toNat < s.data.length
    · simp [hx, hl]
    · have : s.data.take limit.toNat = s.data := List.take_of_length_le (by omega)
      simp only [hx, decide_false, Bool.false_eq_true, ↓reduceIte, List.nil_append, this, and_false]
      by_cases ht : s.term = .eof
      · simp only [ht, termErr, ↓reduceIte, ne_eq, not_true_eq_false]
        cases s.closeErr <;> simp
      · simp [termErr, ht]
  · rw [if_neg hl]
    obtain ⟨s', h1, h2, h3⟩ := ioReadAll_raw false s bufs []
    rw [h1]
    simp only
    rw [Body.close_raw, h2]
    have : ¬ (0 < limit ∧ limit.toNat < s.data.length) := by omega
    simp only [this, ↓reduceIte, List.nil_append]
    by_cases ht : s.term = .eof
    · simp only [ht, termErr, ↓reduceIte, ne_eq, not_true_eq_false]
      cases s.closeErr <;> simp
    · simp [termErr, ht]

/-- everything one `Read` of the repaired LimitedReadCloser does, for a reader with N ≥ 0 -/
theorem LRC.read_cases {l : LRC} {k : Nat} (hn : 0 ≤ l.n) {l' : LRC} {bs : List Nat} {e : Option RErr}
    (h : l.read k = (l', bs, e)) :
    l'.closed = l.closed ∧ l'.err = l.err ∧ l'.r.term = l.r.term ∧
    ((l.limitExceeded = true ∧ l.n = 0 ∧ l' = l ∧ bs = [] ∧ e = some .eof) ∨
     (l.limitExceeded = true ∧ 0 < l.n ∧ l'.limitExceeded = true ∧ l.r.data = bs ++ l'.r.data ∧
        l'.n = l.n - bs.length ∧ (bs.length : Int) ≤ l.n) ∨
     (l.limitExceeded = false ∧ l.n = 0 ∧ bs = [] ∧ l'.n = 0 ∧ l'.limitExceeded = true ∧
        l'.r.data.length + 1 = l.r.data.length ∧ e = some .eof) ∨
     (l.limitExceeded = false ∧ l.n = 0 ∧ bs = [] ∧ l'.n = 0 ∧ l'.limitExceeded = false ∧
        l'.r.data = l.r.data ∧ (e = none ∨ (e = some l.r.term ∧ l.r.data = []))) ∨
     (l.limitExceeded = false ∧ 0 < l.n ∧ l'.limitExceeded = false ∧ l.r.data = bs ++ l'.r.data ∧
        l'.n = l.n - bs.length ∧ (bs.length : Int) ≤ l.n ∧ (e = none ∨ (e = some l.r.term ∧ l'.r.data = [])))) := by
  unfold LRC.read at h
  split at h
  · next h0 =>
    have hn0 : l.n = 0 := by omega
    split at h
    · next hx =>
      simp only [Prod.mk.injEq] at h
      obtain ⟨rfl, rfl, rfl⟩ := h
      exact ⟨rfl, rfl, rfl, Or.inl ⟨hx, hn0, rfl, rfl, rfl⟩⟩
    · next hx =>
      have hx' : l.limitExceeded = false := by simpa using hx
      generalize hs : l.r.read 1 = res at h
      obtain ⟨r1, bs1, e1⟩ := res
      obtain ⟨hd, ht, -, -, -, hlen, h7, -⟩ := Src.read_spec _ _ hs
      simp only at h
      split at h
      · next hpos =>
        simp only [Prod.mk.injEq] at h
        obtain ⟨rfl, rfl, rfl⟩ := h
        refine ⟨rfl, rfl, ht, Or.inr (Or.inr (Or.inl ⟨hx', hn0, rfl, hn0, rfl, ?_, rfl⟩))⟩
        simp only
        rw [hd, List.length_append]
        omega
      · next hpos =>
        simp only [Prod.mk.injEq] at h
        obtain ⟨rfl, rfl, rfl⟩ := h
        have hb : bs1 = [] := by cases bs1 <;> simp_all
        subst hb
        refine ⟨rfl, rfl, ht, Or.inr (Or.inr (Or.inr (Or.inl ⟨hx', hn0, rfl, hn0, hx', ?_, ?_⟩)))⟩
        · simp only; simpa using hd.symm
        · rcases h7 with h7 | ⟨h7, h8⟩
          · left; exact h7
          · right; exact ⟨h7, by simpa [h8] using hd⟩
  · next h0 =>
    simp only at h
    generalize hk' : (if (k : Int) > l.n then l.n.toNat else k) = k' at h
    generalize hs : l.r.read k' = res at h
    obtain ⟨r1, bs1, e1⟩ := res
    obtain ⟨hd, ht, -, -, -, hlen, h7, -⟩ := Src.read_spec _ _ hs
    simp only [Prod.mk.injEq] at h
    obtain ⟨rfl, rfl, rfl⟩ := h
    have hk2 : (bs1.length : Int) ≤ l.n := by split at hk' <;> omega
    refine ⟨rfl, rfl, ht, ?_⟩
    rcases Bool.eq_false_or_eq_true l.limitExceeded with hx | hx
    · exact Or.inr (Or.inl ⟨hx, by omega, hx, hd, rfl, hk2⟩)
    · exact Or.inr (Or.inr (Or.inr (Or.inr ⟨hx, by omega, hx, hd, rfl, hk2, h7⟩)))

section
open Influx.Spec.C32

/-- invariant of a LimitedReadCloser (limit ≥ 0) around a clean stream of `size`
    bytes while it is being read: `d` bytes delivered so far, `e`: some Read has
    reported an error -/
def LInv (limit : Int) (size : Nat) (l : LRC) (d : Nat) (e : Bool) : Prop :=
  l.closed = false ∧ l.err = none ∧ l.r.term = .eof ∧ 0 ≤ l.n ∧ l.n = limit - d ∧
  (l.limitExceeded = false → d + l.r.data.length = size) ∧
  (l.limitExceeded = true → (d : Int) = limit ∧ limit < size) ∧
  (e = true → l.limitExceeded = true ∨ l.r.data = [])

theorem LInv.read {limit : Int} {size : Nat} {l : LRC} {d : Nat} {e : Bool} (hi : LInv limit size l d e)
    {k : Nat} {l' : LRC} {bs : List Nat} {er : Option RErr} (h : l.read k = (l', bs, er)) :
    LInv limit size l' (d + bs.length) (e || er.isSome) := by
  obtain ⟨i1, i2, i3, i4, i5, i6, i7, i8⟩ := hi
  obtain ⟨c1, c2, c3, hc⟩ := LRC.read_cases i4 h
  rcases hc with ⟨hx, hn, rfl, rfl, rfl⟩ | ⟨hx, hn, -⟩ | ⟨hx, hn, rfl, hn', hx', hd, rfl⟩ |
      ⟨hx, hn, rfl, hn', hx', hd, he⟩ | ⟨hx, hn, hx', hd, hn', hle, he⟩
  · exact ⟨i1, i2, i3, i4, by simpa using i5, i6, by simpa using i7, fun _ => Or.inl hx⟩
  · have := (i7 hx).1; omega
  · refine ⟨c1.trans i1, c2.trans i2, c3.trans i3, by omega, by simp; omega, ?_, ?_, fun _ => Or.inl hx'⟩
    · intro hf; rw [hx'] at hf; cases hf
    · intro _
      have := i6 hx
      simp only [List.length_nil, Nat.add_zero]
      omega
  · refine ⟨c1.trans i1, c2.trans i2, c3.trans i3, by omega, by simp; omega, ?_, ?_, ?_⟩
    · intro _; simpa [hd] using i6 hx
    · intro hf; rw [hx'] at hf; cases hf
    · intro he'
      right
      rw [hd]
      rcases he with rfl | ⟨rfl, hnil⟩
      · simp only [Option.isSome_none, Bool.or_false] at he'
        rcases i8 he' with h1 | h1
        · rw [hx] at h1; cases h1
        · exact h1
      · exact hnil
  · have hlen : l.r.data.length = bs.length + l'.r.data.length := by rw [hd, List.length_append]
    refine ⟨c1.trans i1, c2.trans i2, c3.trans i3, by omega, by rw [hn', i5]; simp; omega, ?_, ?_, ?_⟩
    · intro _; have := i6 hx; omega
    · intro hf; rw [hx'] at hf; cases hf
    · intro he'
      right
      rcases he with rfl | ⟨rfl, hnil⟩
      · simp only [Option.isSome_none, Bool.or_false] at he'
        rcases i8 he' with h1 | h1
        · rw [hx] at h1; cases h1
        · rw [h1] at hd
          have := List.append_eq_nil_iff.1 hd.symm
          exact this.2
      · exact hnil

theorem lrc_run (limit : Int) (size : Nat) (steps : List Step) :
    ∀ (l : LRC) (d : Nat) (e : Bool), LInv limit size l d e →
    match readsThenClose steps ((l.runSteps steps).2.map obsOfRes) d e with
    | none => True
    | some (n, c) => n = min size limit.toNat ∧ c.isLimit = decide (limit < (size : Int)) := by
  induction steps with
  | nil => intro l d e _; simp [LRC.runSteps, readsThenClose]
  | cons st ss ih =>
    intro l d e hi
    cases st with
    | read k =>
      generalize hr : l.read k = res
      obtain ⟨l', bs, er⟩ := res
      have := ih l' (d + bs.length) (e || er.isSome) (hi.read hr)
      simpa [LRC.runSteps, hr, readsThenClose, obsOfRes] using this
    | close =>
      obtain ⟨i1, i2, i3, i4, i5, i6, i7, i8⟩ := hi
      have hce := LRC.close_err l i1 i2
      generalize hc : l.close = res at hce
      obtain ⟨l', ce⟩ := res
      simp only [LRC.runSteps, hc, List.map_cons, readsThenClose, obsOfRes]
      cases e with
      | false => simp
      | true =>
        simp only [↓reduceIte]
        simp only at hce
        rcases Bool.eq_false_or_eq_true l.limitExceeded with hx | hx
        · obtain ⟨h1, h2⟩ := i7 hx
          rw [hce, hx]
          simp only [↓reduceIte, beq_self_eq_true]
          constructor
          · omega
          · simpa using h2
        · have hd : l.r.data = [] := by
            rcases i8 rfl with h1 | h1
            · rw [hx] at h1; cases h1
            · exact h1
          have hs := i6 hx
          rw [hd] at hs
          simp only [List.length_nil, Nat.add_zero] at hs
          rw [hce, hx]
          constructor
          · omega
          · have : ¬ limit < (size : Int) := by omega
            cases l.r.closeErr <;> simp [this]

end

end Influx.WriteAPI
