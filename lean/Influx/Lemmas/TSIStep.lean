/-
  Lemmas.TSIStep — every operation of the engine's flows keeps the state invariant.
-/
import Influx.Lemmas.TSIState

namespace Influx.Model.TSI

/-- replace the partitions (same number) and the cache. -/
theorem ginv_parts {st : State} {live : List Nat} (h : GInv st live) (parts' : List Partition)
    (hlen : parts'.length = st.parts.length)
    (hp : ∀ i p, parts'[i]? = some p → PInv st.sf live i p)
    (cache' : List ((String × String × String) × List Nat)) (hc : ∀ e ∈ cache', CacheOK st.sf live e) :
    GInv { st with parts := parts', configured := true, cache := cache' } live where
  sfok := h.sfok
  partlt s hs := by simp only; rw [hlen]; exact h.partlt s hs
  liveKnown := h.liveKnown
  liveUndel := h.liveUndel
  deadDel := h.deadDel
  delKnown := h.delKnown
  pinv := hp
  tracked := h.tracked
  cache := hc
  fresh hc' := by simp at hc'

/-- an operation that rebuilds one partition. -/
theorem ginv_modifyAt {st : State} {live : List Nat} (h : GInv st live) (j : Nat) (f : Partition → Partition)
    (hf : ∀ p, st.parts[j]? = some p → PInv st.sf live j (f p)) :
    GInv { st with parts := modifyAt st.parts j f, configured := true } live := by
  have := ginv_parts h (modifyAt st.parts j f) (length_modifyAt _ _ _) (by
    intro i p hp
    rw [getElem?_modifyAt] at hp
    split at hp
    · next hij =>
      subst hij
      cases hq : st.parts[i]? with
      | none => simp [hq] at hp
      | some q =>
        simp only [hq, Option.map_some, Option.some.injEq] at hp
        subst hp
        exact hf q hq
    · exact h.pinv i p hp) st.cache h.cache
  exact this

theorem ginv_roll {st : State} {live : List Nat} (h : GInv st live) (j : Nat) :
    GInv (step st (.roll j)).1 live := by
  simp only [step]
  split
  · exact h
  · exact ginv_modifyAt h j _ (fun p hp => pinv_roll (h.pinv j p hp))

theorem ginv_compactLog {st : State} {live : List Nat} (h : GInv st live) (j : Nat) :
    GInv (step st (.compactLog j)).1 live := by
  simp only [step]
  split
  · exact h
  · exact ginv_modifyAt h j _ (fun p hp => pinv_compactOldestLog (h.pinv j p hp))

theorem ginv_compactLevel {st : State} {live : List Nat} (h : GInv st live) (j level : Nat) :
    GInv (step st (.compactLevel j level)).1 live := by
  simp only [step]
  split
  · exact h
  · exact ginv_modifyAt h j _ (fun p hp => pinv_compactLevel (h.pinv j p hp) level)

theorem ginv_reopen {st : State} {live : List Nat} (h : GInv st live) :
    GInv (step st .reopen).1 live := by
  simp only [step]
  exact ginv_parts h (st.parts.map (·.reopen st.sf)) (by simp) (by
    intro i p hp
    rw [List.getElem?_map] at hp
    cases hq : st.parts[i]? with
    | none => simp [hq] at hp
    | some q =>
      simp only [hq, Option.map_some, Option.some.injEq] at hp
      subst hp
      exact pinv_reopen (h.pinv i q hq)) [] (by simp)

/-! #### configuration -/

theorem ginv_cfg {st : State} {live : List Nat} (h : GInv st live) (n : Nat) :
    GInv (step st (.cfg n)).1 live := by
  simp only [step]
  split
  · exact h
  · next hc =>
    have hconf : st.configured = false := by
      cases hcc : st.configured with
      | false => rfl
      | true => exact absurd (Or.inl hcc) hc
    obtain ⟨hk, hl, _⟩ := h.fresh hconf
    subst hl
    exact {
      sfok := h.sfok
      partlt := fun s hs => by rw [hk] at hs; simp at hs
      liveKnown := fun id hid => by simp at hid
      liveUndel := fun id hid => by simp at hid
      deadDel := h.deadDel
      delKnown := h.delKnown
      pinv := fun i p hp => by
        simp only [List.getElem?_replicate] at hp
        split at hp
        · simp only [Option.some.injEq] at hp; subst hp; exact pinv_init _ i
        · simp at hp
      tracked := h.tracked
      cache := h.cache
      fresh := fun hc' => by simp at hc' }

/-! #### creation -/

theorem findKey_some {sf : SFile} {name : String} {tags : Tags} {s : SeriesInfo}
    (h : sf.findKey name tags = some s) :
    s ∈ sf.known ∧ s.name = name ∧ s.tags = tags ∧ s.id ∉ sf.deleted := by
  unfold SFile.findKey at h
  have h1 := List.mem_of_find?_eq_some h
  have h2 := List.find?_some h
  simp only [Bool.and_eq_true, decide_eq_true_eq, Bool.not_eq_true', List.contains_eq_mem,
    decide_eq_false_iff_not, Bool.decide_and] at h2
  exact ⟨h1, h2.1, h2.2.1, h2.2.2⟩

/-- the live set after an accepted creation. -/
def liveCreate (live : List Nat) (id : Nat) : List Nat := if id ∈ live then live else id :: live

theorem cacheAdd_ok {sf : SFile} {live : List Nat} {id : Nat} {s : SeriesInfo}
    (hf : sf.find id = some s) (hd : (s.tags.map (·.1)).Nodup)
    (c : List ((String × String × String) × List Nat)) (hc : ∀ e ∈ c, CacheOK sf live e) :
    ∀ e ∈ cacheAdd c s.name s.tags id, CacheOK sf (id :: live) e := by
  intro e he
  unfold cacheAdd at he
  obtain ⟨e0, he0, rfl⟩ := List.mem_map.mp he
  obtain ⟨hs, hcpl⟩ := hc e0 he0
  by_cases hm : e0.1.1 = s.name ∧ s.tags.any (fun kv => decide (kv.1 = e0.1.2.1 ∧ kv.2 = e0.1.2.2)) = true
  · simp only [hm, and_self, if_true]
    have hmem : (e0.1.2.1, e0.1.2.2) ∈ s.tags := by
      obtain ⟨kv, hkv, hdec⟩ := List.any_eq_true.mp hm.2
      simp only [decide_eq_true_eq] at hdec
      have : kv = (e0.1.2.1, e0.1.2.2) := by
        obtain ⟨k, v⟩ := kv
        simp only at hdec
        rw [hdec.1, hdec.2]
      rw [← this]; exact hkv
    refine ⟨?_, ?_⟩
    · intro x hx
      simp only at hx
      rcases (mem_sadd _ _ _).mp hx with rfl | hx
      · exact ⟨s, hf, hm.1.symm, tagOf_of_mem hd hmem⟩
      · exact hs x hx
    · intro x hx t ht hn htag
      simp only
      rcases List.mem_cons.mp hx with rfl | hx
      · exact (mem_sadd _ _ _).mpr (Or.inl rfl)
      · exact (mem_sadd _ _ _).mpr (Or.inr (hcpl x hx t ht hn htag))
  · have hm' : ¬ (e0.1.1 = s.name ∧ (s.tags.any fun kv => decide (kv.1 = e0.1.2.1 ∧ kv.2 = e0.1.2.2)) = true) := hm
    simp only [hm', if_false]
    refine ⟨hs, ?_⟩
    intro x hx t ht hn htag
    rcases List.mem_cons.mp hx with rfl | hx
    · exfalso
      have := find_inj hf ht; subst this
      apply hm
      refine ⟨hn.symm, List.any_eq_true.mpr ⟨(e0.1.2.1, e0.1.2.2), tagOf_mem htag, by simp⟩⟩
    · exact hcpl x hx t ht hn htag

theorem cacheOK_extends {sf sf' : SFile} (hx : Extends sf sf') {live : List Nat}
    (hlk : ∀ id ∈ live, (sf.find id).isSome) {e : (String × String × String) × List Nat}
    (h : CacheOK sf live e) : CacheOK sf' live e := by
  refine ⟨?_, ?_⟩
  · intro x hxm
    obtain ⟨s, hs, h1, h2⟩ := h.1 x hxm
    exact ⟨s, hx.find x s hs, h1, h2⟩
  · intro id hid s hs hn ht
    have hk := hlk id hid
    cases hf : sf.find id with
    | none => simp [hf] at hk
    | some t =>
      have := hx.find id t hf
      rw [this] at hs
      simp only [Option.some.injEq] at hs
      subst hs
      exact h.2 id hid t hf hn ht

theorem ginv_create {st : State} {live : List Nat} (h : GInv st live) (id part : Nat) (name : String)
    (tags : Tags) :
    GInv (step st (.create id part name tags)).1
      (if (step st (.create id part name tags)).2 = .ok then liveCreate live id else live) := by
  cases hfk : st.sf.findKey name tags with
  | some s =>
    simp only [step, hfk]
    split
    · simp; exact h
    · next hbad =>
      simp only [not_or] at hbad
      obtain ⟨hpart, hname, htags, hid0⟩ := hbad
      have hpart' : part < st.parts.length := Nat.lt_of_not_ge hpart
      have hnd : (tags.map (·.1)).Nodup := nodup_of_tagsOK (by simpa using htags)
      split
      · simp; exact h
      · next hidok =>
        have hidok : s.id = id ∧ s.part = part := by
          simpa using hidok
        simp only [if_true]
        obtain ⟨hsid, hspart⟩ := hidok
        obtain ⟨hsk, hsn, hst, hsd⟩ := findKey_some hfk
        have hfind : st.sf.find id = some s := by rw [← hsid]; exact find_of_mem h.sfok hsk
        have hlive : id ∈ live := by
          rcases Classical.em (id ∈ live) with hl | hl
          · exact hl
          · exact absurd (h.deadDel' s hsk (by rw [hsid]; exact hl)) hsd
        obtain ⟨p, hp⟩ : ∃ p, st.parts[part]? = some p := by
          cases hq : st.parts[part]? with
          | none => exact absurd (List.getElem?_eq_none_iff.mp hq) (by omega)
          | some p => exact ⟨p, rfl⟩
        have hin : id ∈ p.sset := ((h.pinv part p hp).sset id).mpr ⟨hlive, s, hfind, hspart⟩
        simp only [hfind, Option.isSome_some, if_true, liveCreate, hlive]
        have hnew : (!((st.parts[part]?.map (·.sset.contains id)).getD true)) = false := by
          simp [hp, hin]
        simp only [hnew, Bool.false_eq_true, if_false]
        refine {
          sfok := h.sfok
          partlt := fun t ht => by
            simp only [length_modifyAt, markOpStart, List.length_map]; exact h.partlt t ht
          liveKnown := h.liveKnown, liveUndel := h.liveUndel, deadDel := h.deadDel, delKnown := h.delKnown
          pinv := ?_
          tracked := fun x => by
            simp only [mem_sadd]
            rw [h.tracked x]
            constructor
            · rintro (rfl | hx)
              · exact hlive
              · exact hx
            · exact fun hx => Or.inr hx
          cache := h.cache
          fresh := fun hc => by simp at hc }
        intro i q hq
        rw [getElem?_modifyAt, getElem?_markOpStart] at hq
        cases hqi : st.parts[i]? with
        | none => simp [hqi] at hq
        | some q0 =>
          have hq0 := h.pinv i q0 hqi
          split at hq
          · next hip =>
            subst hip
            rw [hp] at hqi
            simp only [Option.some.injEq] at hqi
            subst hqi
            simp only [hp, Option.map_some, Option.some.injEq] at hq
            subst hq
            have : (List.contains p.sset id) = true := by simpa using hin
            simp only [this, if_true]
            exact pinv_congr (p := p) rfl rfl hq0
          · simp only [hqi, Option.map_some, Option.some.injEq] at hq
            subst hq
            exact pinv_congr (p := q0) rfl rfl hq0
  | none =>
    simp only [step, hfk]
    split
    · simp; exact h
    · next hbad =>
      simp only [not_or] at hbad
      obtain ⟨hpart, hname, htags, hid0⟩ := hbad
      have hpart' : part < st.parts.length := Nat.lt_of_not_ge hpart
      have hnd : (tags.map (·.1)).Nodup := nodup_of_tagsOK (by simpa using htags)
      split
      · simp; exact h
      · next hidok =>
        -- a fresh id: the series file learns the series, its partition appends an entry
        have hfresh : st.sf.find id = none := by
          simpa using hidok
        simp only [if_true]
        simp only [hfresh, Option.isSome_none, Bool.false_eq_true, if_false]
        have hnl : id ∉ live := fun hl => by
          have := h.liveKnown id hl
          simp [hfresh] at this
        simp only [liveCreate, hnl, if_false]
        -- names
        generalize hnew : ({ id := id, name := name, tags := tags, part := part } : SeriesInfo) = new
        have hnewid : new.id = id := by rw [← hnew]
        have hnewname : new.name = name := by rw [← hnew]
        have hnewtags : new.tags = tags := by rw [← hnew]
        have hnewpart : new.part = part := by rw [← hnew]
        generalize hsf' : ({ st.sf with known := st.sf.known ++ [new] } : SFile) = sf'
        have hfind' : ∀ x, sf'.find x = if x = id then some new else st.sf.find x := by
          intro x
          rw [← hsf', find_append_fresh st.sf new (by rw [hnewid]; exact hfresh) x, hnewid]
        have hext : Extends st.sf sf' := ⟨fun x s hs => by
          rw [hfind' x]
          have : x ≠ id := by rintro rfl; rw [hfresh] at hs; simp at hs
          simp [this, hs]⟩
        have hfnew : sf'.find id = some new := by rw [hfind' id]; simp
        have hknown' : sf'.known = st.sf.known ++ [new] := by rw [← hsf']
        have hdel' : sf'.deleted = st.sf.deleted := by rw [← hsf']
        have hsfok' : SFOK sf' := by
          refine ⟨?_, ?_⟩
          · intro s hs
            rw [hknown'] at hs
            rcases List.mem_append.mp hs with hs | hs
            · exact h.sfok.nodup s hs
            · simp only [List.mem_singleton] at hs
              subst hs; rw [hnewtags]; exact hnd
          · intro s hs t ht hst
            rw [hknown'] at hs ht
            have hne : ∀ u ∈ st.sf.known, u.id ≠ id := by
              intro u hu hid
              have := find_of_mem h.sfok hu
              rw [hid, hfresh] at this
              simp at this
            rcases List.mem_append.mp hs with hs1 | hs1 <;> rcases List.mem_append.mp ht with ht1 | ht1
            · exact h.sfok.uniq s hs1 t ht1 hst
            · simp only [List.mem_singleton] at ht1
              exact absurd (by rw [hst, ht1, hnewid]) (hne s hs1)
            · simp only [List.mem_singleton] at hs1
              exact absurd (by rw [← hst, hs1, hnewid]) (hne t ht1)
            · simp only [List.mem_singleton] at hs1 ht1
              rw [hs1, ht1]
        obtain ⟨p, hp⟩ : ∃ p, st.parts[part]? = some p := by
          cases hq : st.parts[part]? with
          | none => exact absurd (List.getElem?_eq_none_iff.mp hq) (by omega)
          | some p => exact ⟨p, rfl⟩
        have hnin : id ∉ p.sset := fun hin => hnl (((h.pinv part p hp).sset id).mp hin).1
        have hnew' : (!((st.parts[part]?.map (·.sset.contains id)).getD true)) = true := by
          simp [hp, hnin]
        simp only [hnew', if_true]
        -- no tombstone anywhere names the fresh id
        have hnotomb : ∀ (i : Nat) (q : Partition), st.parts[i]? = some q → ∀ f ∈ q.files, id ∉ f.data.tomb := by
          intro i q hq f hf hin
          have := (h.pinv i q hq).tknown f hf id hin
          simp [hfresh] at this
        refine {
          sfok := hsfok'
          partlt := ?_, liveKnown := ?_, liveUndel := ?_, deadDel := ?_, delKnown := ?_
          pinv := ?_, tracked := ?_, cache := ?_
          fresh := fun hc => by simp at hc }
        · intro s hs
          simp only [length_modifyAt, markOpStart, List.length_map]
          rw [hknown'] at hs
          rcases List.mem_append.mp hs with hs | hs
          · exact h.partlt s hs
          · simp only [List.mem_singleton] at hs
            subst hs; rw [hnewpart]; exact hpart'
        · intro x hx
          rcases List.mem_cons.mp hx with rfl | hx
          · simp [hfnew]
          · have := h.liveKnown x hx
            cases hf : st.sf.find x with
            | none => simp [hf] at this
            | some s => simp [hext.find x s hf]
        · intro x hx
          simp only [hdel']
          rcases List.mem_cons.mp hx with rfl | hx
          · intro hd
            have := h.delKnown x hd
            simp [hfresh] at this
          · exact h.liveUndel x hx
        · intro s hs hsl
          simp only [hdel']
          rw [hknown'] at hs
          rcases List.mem_append.mp hs with hs | hs
          · exact Or.inl (h.deadDel' s hs (fun hl => hsl (List.mem_cons_of_mem _ hl)))
          · simp only [List.mem_singleton] at hs
            subst hs
            exact absurd (by rw [hnewid]; exact List.mem_cons_self) hsl
        · intro x hx
          simp only [hdel'] at hx
          have := h.delKnown x hx
          cases hf : st.sf.find x with
          | none => simp [hf] at this
          | some s => simp [hext.find x s hf]
        · -- partitions
          intro i q hq
          rw [getElem?_modifyAt, getElem?_markOpStart] at hq
          cases hqi : st.parts[i]? with
          | none => simp [hqi] at hq
          | some q0 =>
            have hq0 : PInv sf' live i q0 := pinv_extends hext h.liveKnown (h.pinv i q0 hqi)
            split at hq
            · next hip =>
              subst hip
              rw [hp] at hqi
              simp only [Option.some.injEq] at hqi
              subst hqi
              simp only [hp, Option.map_some, Option.some.injEq] at hq
              subst hq
              have hc : (List.contains p.sset id) = false := by simpa using hnin
              simp only [hc, Bool.false_eq_true, if_false]
              have hq1 : PInv sf' live i { p with opStart := (p.files.head?.map (·.entries.length)).getD 0 } :=
                pinv_congr (p := p) rfl rfl hq0
              have := pinv_create hsfok' hq1 id new hfnew hnewpart hnl (by
                intro f hf; exact hnotomb i p hp f hf)
              refine pinv_congr ?_ ?_ this
              · simp [appendSeries]
              · simp [appendSeries]
            · next hip =>
              simp only [hqi, Option.map_some, Option.some.injEq] at hq
              subst hq
              have hq1 : PInv sf' live i { q0 with opStart := (q0.files.head?.map (·.entries.length)).getD 0 } :=
                pinv_congr (p := q0) rfl rfl hq0
              exact pinv_create_other hq1 id new hfnew (by rw [hnewpart]; exact fun e => hip e.symm)
                (by intro f hf; exact hnotomb i q0 hqi f hf)
        · intro x
          simp only [mem_sadd, List.mem_cons]
          rw [h.tracked x]
        · have hc0 : ∀ e ∈ st.cache, CacheOK sf' live e :=
            fun e he => cacheOK_extends hext h.liveKnown (h.cache e he)
          have := cacheAdd_ok hfnew (by rw [hnewtags]; exact hnd) st.cache hc0
          rw [hnewname, hnewtags] at this
          exact this

end Influx.Model.TSI
