/-
  Lemmas.Duration — `time.ParseDuration` reads back what `time.Duration.String` writes
  (`Model.Toml.parseDuration` / `durString`), for every int64.
-/
import Influx.Lemmas.Toml
import Influx.Lemmas.Float

namespace Influx.Lemmas.Duration
open Influx.Model.Toml Influx.Lemmas.Toml Influx.Model

/-- value of a digit string continuing from `x` -/
def dval (l : Bytes) (x : Nat) : Nat := l.foldl (fun a c => a * 10 + digitVal c) x

theorem dval_nil (x : Nat) : dval [] x = x := by simp [dval]
theorem dval_cons (c : UInt8) (l : Bytes) (x : Nat) : dval (c :: l) x = dval l (x * 10 + digitVal c) := by simp [dval]
theorem dval_append (l : Bytes) (c : UInt8) (x : Nat) : dval (l ++ [c]) x = dval l x * 10 + digitVal c := by
  simp [dval, List.foldl_append]

theorem dval_ge (l : Bytes) (x : Nat) : x ≤ dval l x := by
  induction l generalizing x with
  | nil => exact Nat.le_refl _
  | cons c l ih => rw [dval_cons]; have := ih (x * 10 + digitVal c); omega

theorem dval_fmtNat (n : Nat) : dval (fmtNat n) 0 = n := by
  induction n using fmtNat.induct with
  | case1 n h => rw [fmtNat, if_pos h]; simp [dval, (digitChar_spec n h).2]
  | case2 n h ih =>
    rw [fmtNat, if_neg h, dval_append, ih, (digitChar_spec (n % 10) (by omega)).2]; omega

theorem leadingInt_go (l R : Bytes) (x : Nat) (hl : l.all isDigit = true)
    (hR : ∀ c, R.head? = some c → isDigit c = false) (hb : dval l x ≤ 2 ^ 63) :
    leadingInt.go (l ++ R) x = some (dval l x, R) := by
  induction l generalizing x with
  | nil =>
    cases R with
    | nil => simp [leadingInt.go, dval]
    | cons c cs => simp [leadingInt.go, dval, hR c rfl]
  | cons c l ih =>
    simp only [List.all_cons, Bool.and_eq_true] at hl
    rw [dval_cons] at hb ⊢
    have hge := dval_ge l (x * 10 + digitVal c)
    simp only [List.cons_append, leadingInt.go, hl.1, Bool.not_true, Bool.false_eq_true, if_false]
    rw [if_neg (by omega), if_neg (by omega)]
    exact ih _ hl.2 hb

theorem leadingInt_fmtNat (n : Nat) (R : Bytes) (hR : ∀ c, R.head? = some c → isDigit c = false)
    (hn : n ≤ 2 ^ 63) : leadingInt (fmtNat n ++ R) = some (n, R) := by
  unfold leadingInt
  rw [leadingInt_go _ _ _ (fmtNat_all_digits n) hR (by rw [dval_fmtNat]; exact hn), dval_fmtNat]

theorem leadingFraction_go (l R : Bytes) (x k : Nat) (hl : l.all isDigit = true)
    (hR : ∀ c, R.head? = some c → isDigit c = false) (hb : dval l x ≤ 2 ^ 63) :
    leadingFraction.go (l ++ R) x k false = (dval l x, k + l.length, R) := by
  induction l generalizing x k with
  | nil =>
    cases R with
    | nil => simp [leadingFraction.go, dval]
    | cons c cs => simp [leadingFraction.go, dval, hR c rfl]
  | cons c l ih =>
    simp only [List.all_cons, Bool.and_eq_true] at hl
    rw [dval_cons] at hb ⊢
    have hge := dval_ge l (x * 10 + digitVal c)
    simp only [List.cons_append, leadingFraction.go, hl.1, Bool.not_true, Bool.false_eq_true, if_false]
    rw [if_neg (by omega), if_neg (by omega)]
    rw [ih _ _ hl.2 hb]
    simp; omega
theorem mod_pow_succ10 (v j : Nat) : v % 10 ^ (j + 1) = v % 10 + 10 * (v / 10 % 10 ^ j) := by
  rw [Nat.pow_succ, Nat.mul_comm, Nat.mod_mul]

theorem div_pow_succ10 (v j : Nat) : v / 10 ^ (j + 1) = v / 10 / 10 ^ j := by
  rw [Nat.pow_succ, Nat.mul_comm, Nat.div_div_eq_div_mul]

/-- what the digit loop of `fmtFrac` leaves: all `j` digits once printing has started,
    otherwise the digits above the trailing zeros -/
theorem fmtFrac_go_spec (j v : Nat) (pr : Bool) (acc : Bytes) :
    (fmtFrac.go j v pr acc).2.1 = v / 10 ^ j ∧
    (pr = true → (fmtFrac.go j v pr acc).2.2 = true ∧
      ∃ D, (fmtFrac.go j v pr acc).1 = D ++ acc ∧ D.all isDigit = true ∧ D.length = j ∧ dval D 0 = v % 10 ^ j) ∧
    (pr = false →
      (v % 10 ^ j = 0 ∧ (fmtFrac.go j v pr acc).2.2 = false ∧ (fmtFrac.go j v pr acc).1 = acc) ∨
      (v % 10 ^ j ≠ 0 ∧ (fmtFrac.go j v pr acc).2.2 = true ∧
        ∃ D, (fmtFrac.go j v pr acc).1 = D ++ acc ∧ D.all isDigit = true ∧ 1 ≤ D.length ∧ D.length ≤ j ∧
          dval D 0 * 10 ^ (j - D.length) = v % 10 ^ j)) := by
  induction j generalizing v pr acc with
  | zero =>
    refine ⟨by simp [fmtFrac.go], ?_, ?_⟩
    · intro h; exact ⟨by simp [fmtFrac.go, h], [], by simp [fmtFrac.go, dval, Nat.mod_one]⟩
    · intro h; exact .inl ⟨by simp [Nat.mod_one], by simp [fmtFrac.go, h], by simp [fmtFrac.go]⟩
  | succ j ih =>
    have hd : v % 10 < 10 := Nat.mod_lt _ (by decide)
    obtain ⟨hc1, hc2⟩ := digitChar_spec (v % 10) hd
    simp only [fmtFrac.go]
    refine ⟨?_, ?_, ?_⟩
    · rw [(ih (v / 10) _ _).1, div_pow_succ10]
    · intro hpr
      subst hpr
      simp only [Bool.true_or, if_true]
      obtain ⟨_, h2, _⟩ := ih (v / 10) true (digitChar (v % 10) :: acc)
      obtain ⟨p1, D, e1, e2, e3, e4⟩ := h2 rfl
      refine ⟨p1, D ++ [digitChar (v % 10)], by simp [e1], by simp [e2, hc1], by simp [e3], ?_⟩
      rw [dval_append, e4, hc2, mod_pow_succ10]; omega
    · intro hpr
      subst hpr
      simp only [Bool.false_or]
      by_cases hz : v % 10 = 0
      · have hb : (v % 10 != 0) = false := by simp [hz]
        simp only [hb, Bool.false_eq_true, if_false]
        obtain ⟨_, _, h3⟩ := ih (v / 10) false acc
        rcases h3 rfl with ⟨a1, a2, a3⟩ | ⟨a1, a2, D, e1, e2, e3, e4, e5⟩
        · left; refine ⟨?_, a2, a3⟩
          rw [mod_pow_succ10, a1, hz]
        · right
          refine ⟨?_, a2, D, e1, e2, e3, by omega, ?_⟩
          · rw [mod_pow_succ10, hz]; omega
          · rw [mod_pow_succ10, hz, ← e5]
            have : j + 1 - D.length = (j - D.length) + 1 := by omega
            rw [this, Nat.pow_succ]; 
            simp only [Nat.zero_add]
            rw [Nat.mul_comm 10, Nat.mul_assoc]
      · have hb : (v % 10 != 0) = true := by simp [hz]
        simp only [hb, if_true]
        obtain ⟨_, h2, _⟩ := ih (v / 10) true (digitChar (v % 10) :: acc)
        obtain ⟨p1, D, e1, e2, e3, e4⟩ := h2 rfl
        right
        refine ⟨?_, p1, D ++ [digitChar (v % 10)], by simp [e1], by simp [e2, hc1], by simp, by simp [e3], ?_⟩
        · rw [mod_pow_succ10]; omega
        · simp only [List.length_append, List.length_singleton, e3, Nat.sub_self, Nat.pow_zero, Nat.mul_one]
          rw [dval_append, e4, hc2, mod_pow_succ10]; omega

theorem fmtFrac_spec (v prec : Nat) :
    (fmtFrac v prec).2 = v / 10 ^ prec ∧
    ((v % 10 ^ prec = 0 ∧ (fmtFrac v prec).1 = []) ∨
     (v % 10 ^ prec ≠ 0 ∧ ∃ D, (fmtFrac v prec).1 = 46 :: D ∧ D.all isDigit = true ∧ 1 ≤ D.length ∧
        D.length ≤ prec ∧ dval D 0 * 10 ^ (prec - D.length) = v % 10 ^ prec)) := by
  obtain ⟨h1, _, h3⟩ := fmtFrac_go_spec prec v false []
  unfold fmtFrac
  simp only
  refine ⟨h1, ?_⟩
  rcases h3 rfl with ⟨a1, a2, a3⟩ | ⟨a1, a2, D, e1, e2, e3, e4, e5⟩
  · left; exact ⟨a1, by simp [a2, a3]⟩
  · right; exact ⟨a1, D, by simp [a2, e1], e2, e3, e4, e5⟩

theorem numStart_facts (c : UInt8) (h : isNumStart c = false) : isDigit c = false ∧ c ≠ 46 := by
  unfold isNumStart at h
  simp only [Bool.or_eq_false_iff, beq_eq_false_iff_ne, ne_eq] at h
  exact ⟨h.2, h.1⟩

theorem digit_numStart (c : UInt8) (h : isDigit c = true) : isNumStart c = true := by
  simp [isNumStart, h]

/-- one loop iteration of `ParseDuration` over an integer component `<n><unit>` -/
theorem iter_int (fuel n unit d : Nat) (c : UInt8) (U R : Bytes)
    (hU : (c :: U).all (fun x => !isNumStart x) = true)
    (hunit : unitMap (c :: U) = some unit)
    (hR : ∀ x, R.head? = some x → isNumStart x = true)
    (hn : n ≤ 2 ^ 63) (hnu : n ≤ 2 ^ 63 / unit) (hd : d + n * unit ≤ 2 ^ 63) :
    parseDurLoop (fuel + 1) (fmtNat n ++ ((c :: U) ++ R)) d = parseDurLoop fuel R (d + n * unit) := by
  have hc : isNumStart c = false := by
    simp only [List.all_cons, Bool.and_eq_true, Bool.not_eq_true'] at hU; exact hU.1
  obtain ⟨hcd, hc46⟩ := numStart_facts c hc
  obtain ⟨c0, rest0, hf, hc0⟩ := fmtNat_head n
  have hli := leadingInt_fmtNat n ((c :: U) ++ R) (by simp [hcd]) hn
  have hlen : (((c :: U) ++ R).length != (fmtNat n ++ ((c :: U) ++ R)).length) = true := by
    have := fmtNat_ne_nil n
    have : 0 < (fmtNat n).length := List.length_pos_iff.mpr this
    simp only [List.length_append, bne_iff_ne, ne_eq]; omega
  obtain ⟨ht, hdw⟩ := takeWhile_append_stop (fun x => !isNumStart x) (c :: U) R hU (by
    intro x hx; simp [hR x hx])
  rw [parseDurLoop.eq_def]
  rw [hf] at hli hlen ⊢
  simp only [List.cons_append, digit_numStart c0 hc0, Bool.not_true, Bool.false_eq_true, if_false]
  simp only [List.cons_append] at hli hlen ht hdw
  rw [hli]
  simp only [hlen]
  split
  · next rest heq => 
    injection heq with h1 _; exact absurd h1 hc46
  · simp only [Bool.not_true, Bool.false_and, Bool.false_eq_true, if_false, ht, hdw, List.isEmpty_cons, hunit]
    rw [if_neg (by omega)]
    simp only [Nat.lt_irrefl, if_false]
    have hw : wrapU (d + n * unit) = d + n * unit := by unfold wrapU; omega
    rw [hw, if_neg (by omega)]

open Influx.Lemmas.Float in
/-- `uint64(float64(f) * (float64(unit) / scale))` is exact when `scale` divides `unit` and
    everything stays below 2^53 -/
theorem fracNanos_exact (f unit k Dv : Nat) (hU : unit = Dv * 10 ^ k) (hf : f < 2 ^ 53) (hu : unit < 2 ^ 53)
    (hs : 10 ^ k < 2 ^ 53) (hD : Dv < 2 ^ 53) (hfd : f * Dv < 2 ^ 53) :
    fracNanos f unit k = some (f * Dv) := by
  obtain ⟨ff, e1, n1, d1⟩ := ofNat_exact f hf
  obtain ⟨fu, e2, n2, d2⟩ := ofNat_exact unit hu
  obtain ⟨fs, e3, n3, d3⟩ := ofNat_exact (10 ^ k) hs
  obtain ⟨q, e4, n4, d4⟩ := div_exact fu fs unit (10 ^ k) Dv n2 n3 d2 d3 (Nat.pow_pos (by decide)) hU hD
  obtain ⟨p, e5, n5, d5⟩ := mul_exact ff q f Dv n1 n4 d1 d4 hfd
  unfold fracNanos
  simp [e1, e2, e3, e4, e5, trunc_exact p (f * Dv) n5 d5]

/-- one loop iteration over a component with a fraction `<n>.<digits><unit>` -/
theorem iter_frac (fuel n unit d add : Nat) (c : UInt8) (U R D : Bytes)
    (hU : (c :: U).all (fun x => !isNumStart x) = true)
    (hunit : unitMap (c :: U) = some unit)
    (hR : ∀ x, R.head? = some x → isNumStart x = true)
    (hD : D.all isDigit = true) (hDne : 1 ≤ D.length) (hfpos : 0 < dval D 0) (hfb : dval D 0 ≤ 2 ^ 63)
    (hadd : fracNanos (dval D 0) unit D.length = some add)
    (hn : n ≤ 2 ^ 63) (hnu : n ≤ 2 ^ 63 / unit) (hsum : n * unit + add ≤ 2 ^ 63)
    (hd : d + (n * unit + add) ≤ 2 ^ 63) :
    parseDurLoop (fuel + 1) (fmtNat n ++ (46 :: (D ++ ((c :: U) ++ R)))) d
      = parseDurLoop fuel R (d + (n * unit + add)) := by
  have hc : isNumStart c = false := by
    simp only [List.all_cons, Bool.and_eq_true, Bool.not_eq_true'] at hU; exact hU.1
  obtain ⟨hcd, hc46⟩ := numStart_facts c hc
  obtain ⟨c0, rest0, hf, hc0⟩ := fmtNat_head n
  have hli := leadingInt_fmtNat n (46 :: (D ++ ((c :: U) ++ R))) (by simp [isDigit]) hn
  have hlen : ((46 :: (D ++ ((c :: U) ++ R))).length != (fmtNat n ++ (46 :: (D ++ ((c :: U) ++ R)))).length) = true := by
    have := fmtNat_ne_nil n
    have : 0 < (fmtNat n).length := List.length_pos_iff.mpr this
    simp only [List.length_append, List.length_cons, bne_iff_ne, ne_eq]; omega
  have hlf := leadingFraction_go D ((c :: U) ++ R) 0 0 hD (by simp [hcd]) hfb
  have hpost : ((((c :: U) ++ R)).length != (D ++ ((c :: U) ++ R)).length) = true := by
    simp only [List.length_append, bne_iff_ne, ne_eq]; omega
  obtain ⟨ht, hdw⟩ := takeWhile_append_stop (fun x => !isNumStart x) (c :: U) R hU (by
    intro x hx; simp [hR x hx])
  rw [parseDurLoop.eq_def]
  rw [hf] at hli hlen ⊢
  simp only [List.cons_append, digit_numStart c0 hc0, Bool.not_true, Bool.false_eq_true, if_false]
  simp only [List.cons_append] at hli hlen ht hdw hlf hpost
  rw [hli]
  simp only [hlen, leadingFraction, hlf, hpost, Nat.zero_add]
  simp only [Bool.not_true, Bool.false_and, Bool.false_eq_true, if_false, ht, hdw, List.isEmpty_cons, hunit]
  rw [if_neg (by omega)]
  simp only [hfpos, if_true, hadd]
  have hw1 : wrapU (n * unit + add) = n * unit + add := by unfold wrapU; omega
  rw [hw1, if_neg (by omega)]
  simp only
  have hw : wrapU (d + (n * unit + add)) = d + (n * unit + add) := by unfold wrapU; omega
  rw [hw, if_neg (by omega)]

theorem parseDurLoop_nil (fuel d : Nat) : parseDurLoop (fuel + 1) [] d = some d := by
  rw [parseDurLoop.eq_def]

theorem pow10_le (k : Nat) (hk : k ≤ 9) : 10 ^ k ≤ 10 ^ 9 := Nat.pow_le_pow_right (by decide) hk

/-- a component `<n><fraction of v to j places><unit>` where the unit is `10^j` ns, j ≤ 9 -/
theorem iter_comp (fuel n v j d : Nat) (c : UInt8) (U R : Bytes)
    (hU : (c :: U).all (fun x => !isNumStart x) = true)
    (hunit : unitMap (c :: U) = some (10 ^ j)) (hj : j ≤ 9)
    (hR : ∀ x, R.head? = some x → isNumStart x = true)
    (hn : n * 10 ^ j + v % 10 ^ j ≤ 2 ^ 63) (hd : d + (n * 10 ^ j + v % 10 ^ j) ≤ 2 ^ 63) :
    parseDurLoop (fuel + 1) (fmtNat n ++ ((fmtFrac v j).1 ++ ((c :: U) ++ R))) d
      = parseDurLoop fuel R (d + (n * 10 ^ j + v % 10 ^ j)) := by
  have hpj : 0 < 10 ^ j := Nat.pow_pos (by decide)
  have hj9 := pow10_le j hj
  have hn63 : n ≤ 2 ^ 63 := by
    have : n ≤ n * 10 ^ j := Nat.le_mul_of_pos_right n hpj
    omega
  have hnu : n ≤ 2 ^ 63 / 10 ^ j := by
    apply (Nat.le_div_iff_mul_le hpj).mpr; omega
  rcases (fmtFrac_spec v j).2 with ⟨hz, hfr⟩ | ⟨hnz, D, hfr, hD, hD1, hDj, hval⟩
  · rw [hfr, List.nil_append, hz, Nat.add_zero]
    rw [hz, Nat.add_zero] at hn hd
    exact iter_int fuel n (10 ^ j) d c U R hU hunit hR hn63 hnu hd
  · rw [hfr, List.cons_append]
    have hk9 := pow10_le D.length (by omega)
    have hjk9 := pow10_le (j - D.length) (by omega)
    have hsplit : 10 ^ j = 10 ^ (j - D.length) * 10 ^ D.length := by
      rw [← Nat.pow_add]; congr 1; omega
    have hvlt : v % 10 ^ j < 10 ^ j := Nat.mod_lt _ hpj
    have hpos : 0 < 10 ^ (j - D.length) := Nat.pow_pos (by decide)
    have hf_le : dval D 0 ≤ dval D 0 * 10 ^ (j - D.length) := Nat.le_mul_of_pos_right _ hpos
    have hfpos : 0 < dval D 0 := by
      apply Nat.pos_of_ne_zero; intro h0; rw [h0, Nat.zero_mul] at hval; exact hnz hval.symm
    have hadd := fracNanos_exact (dval D 0) (10 ^ j) D.length (10 ^ (j - D.length)) hsplit
      (by omega) (by omega) (by omega) (by omega) (by omega)
    rw [hval] at hadd
    exact iter_frac fuel n (10 ^ j) d (v % 10 ^ j) c U R D hU hunit hR hD hD1 hfpos (by omega) hadd
      hn63 hnu hn hd

theorem str_consts : str "ns" = [110, 115] ∧ str "ms" = [109, 115] ∧ str "s" = [115] ∧ str "m" = [109] ∧
    str "h" = [104] := by decide +kernel

theorem unit_consts :
    unitMap [110, 115] = some (10 ^ 0) ∧ unitMap [0xC2, 0xB5, 115] = some (10 ^ 3) ∧
    unitMap [109, 115] = some (10 ^ 6) ∧ unitMap [115] = some (10 ^ 9) ∧
    unitMap [109] = some (60 * 10 ^ 9) ∧ unitMap [104] = some (3600 * 10 ^ 9) ∧
    ([110, 115] : Bytes).all (fun x => !isNumStart x) = true ∧
    ([0xC2, 0xB5, 115] : Bytes).all (fun x => !isNumStart x) = true ∧
    ([109, 115] : Bytes).all (fun x => !isNumStart x) = true ∧
    ([115] : Bytes).all (fun x => !isNumStart x) = true ∧
    ([109] : Bytes).all (fun x => !isNumStart x) = true ∧
    ([104] : Bytes).all (fun x => !isNumStart x) = true := by decide +kernel

theorem head_fmtNat_numStart (n : Nat) (R : Bytes) : ∀ x, (fmtNat n ++ R).head? = some x → isNumStart x = true := by
  obtain ⟨c, rest, hf, hc⟩ := fmtNat_head n
  intro x hx
  rw [hf] at hx
  simp only [List.cons_append, List.head?_cons, Option.some.injEq] at hx
  subst hx; exact digit_numStart _ hc

theorem nil_head (x : UInt8) : ([] : Bytes).head? = some x → isNumStart x = true := by simp

/-- the loop of `ParseDuration` reads back what `Duration.format` wrote, for every magnitude -/
theorem parse_durBody (u fuel : Nat) (hu0 : 0 < u) (hu : u ≤ 2 ^ 63) :
    parseDurLoop (fuel + 4) (durBody u) 0 = some u := by
  obtain ⟨s_ns, s_ms, s_s, s_m, s_h⟩ := str_consts
  obtain ⟨u_ns, u_us, u_ms, u_s, u_m, u_h, a_ns, a_us, a_ms, a_s, a_m, a_h⟩ := unit_consts
  unfold durBody
  split
  · next hlt =>
    rw [if_neg (by omega)]
    split
    · next h3 =>
      -- nanoseconds
      rw [s_ns, show fmtNat u ++ [110, 115] = fmtNat u ++ (([110, 115] : Bytes) ++ []) by simp]
      rw [iter_int (fuel + 3) u (10 ^ 0) 0 110 [115] [] a_ns u_ns nil_head (by omega) (by simp; omega) (by simp; omega)]
      rw [parseDurLoop_nil]; simp
    · split
      · next h6 =>
        -- microseconds
        have h1 := (fmtFrac_spec u 3).1
        rw [h1]
        rw [iter_comp (fuel + 3) (u / 10 ^ 3) u 3 0 0xC2 [0xB5, 115] [] a_us u_us (by decide) nil_head
          (by omega) (by omega)]
        rw [parseDurLoop_nil]; congr 1; omega
      · next h6 =>
        have h1 := (fmtFrac_spec u 6).1
        rw [h1, s_ms]
        rw [iter_comp (fuel + 3) (u / 10 ^ 6) u 6 0 109 [115] [] a_ms u_ms (by decide) nil_head
          (by omega) (by omega)]
        rw [parseDurLoop_nil]; congr 1; omega
  · next hge =>
    have h1 := (fmtFrac_spec u 9).1
    simp only [h1, s_s, s_m, s_h]
    have hsec : ∀ (f d : Nat), d + (u / 10 ^ 9 % 60 * 10 ^ 9 + u % 10 ^ 9) ≤ 2 ^ 63 →
        parseDurLoop (f + 2) (fmtNat (u / 10 ^ 9 % 60) ++ ((fmtFrac u 9).1 ++ (([115] : Bytes) ++ []))) d
          = some (d + (u / 10 ^ 9 % 60 * 10 ^ 9 + u % 10 ^ 9)) := by
      intro f d hd
      rw [iter_comp (f + 1) (u / 10 ^ 9 % 60) u 9 d 115 [] [] a_s u_s (by decide) nil_head (by omega) hd]
      rw [parseDurLoop_nil]
    split
    · next hm =>
      split
      · next hh =>
        -- hours, minutes, seconds
        rw [show ([104] : Bytes) ++ (fmtNat (u / 10 ^ 9 / 60 % 60) ++ ([109] ++ (fmtNat (u / 10 ^ 9 % 60) ++ ((fmtFrac u 9).1 ++ ([115] ++ [])))))
            = ([104] : Bytes) ++ (fmtNat (u / 10 ^ 9 / 60 % 60) ++ (([109] : Bytes) ++ (fmtNat (u / 10 ^ 9 % 60) ++ ((fmtFrac u 9).1 ++ ([115] ++ []))))) from rfl]
        rw [iter_int (fuel + 3) (u / 10 ^ 9 / 60 / 60) (3600 * 10 ^ 9) 0 104 [] _ a_h u_h
          (head_fmtNat_numStart _ _) (by omega) (by omega) (by omega)]
        rw [iter_int (fuel + 2) (u / 10 ^ 9 / 60 % 60) (60 * 10 ^ 9) _ 109 [] _ a_m u_m
          (head_fmtNat_numStart _ _) (by omega) (by omega) (by omega)]
        rw [hsec fuel _ (by omega)]
        congr 1; omega
      · next hh =>
        rw [show fuel + 4 = (fuel + 1) + 2 + 1 from rfl]
        rw [iter_int ((fuel + 1) + 2) (u / 10 ^ 9 / 60 % 60) (60 * 10 ^ 9) 0 109 [] _ a_m u_m
          (head_fmtNat_numStart _ _) (by omega) (by omega) (by omega)]
        rw [hsec (fuel + 1) _ (by omega)]
        congr 1; omega
    · next hm =>
      rw [show fuel + 4 = (fuel + 2) + 2 from rfl, hsec (fuel + 2) 0 (by omega)]
      congr 1; omega

theorem durBody_head (u : Nat) (hu0 : 0 < u) : ∃ c rest, durBody u = c :: rest ∧ isDigit c = true := by
  have key : ∀ (n : Nat) (R : Bytes), ∃ c rest, fmtNat n ++ R = c :: rest ∧ isDigit c = true := by
    intro n R
    obtain ⟨c, rest, hf, hc⟩ := fmtNat_head n
    exact ⟨c, rest ++ R, by rw [hf]; rfl, hc⟩
  unfold durBody
  split
  · rw [if_neg (by omega)]
    split
    · exact key _ _
    · split <;> exact key _ _
  · simp only
    split
    · split <;> exact key _ _
    · exact key _ _

theorem parseDurLoop_zero_only (fuel : Nat) : parseDurLoop (fuel + 4) [48] 0 = none := by
  rw [parseDurLoop.eq_def]
  have h1 : leadingInt [48] = some (0, []) := by decide +kernel
  have h2 : isNumStart 48 = true := by decide +kernel
  simp [h1, h2]

/-- **`time.ParseDuration(d.String()) == d` for every `int64` duration**, hence
    `toml.Duration.UnmarshalText(MarshalText(d)) = d`. -/
theorem duration_roundtrip (d : Int) (hd : -(2 ^ 63 : Int) ≤ d ∧ d < 2 ^ 63) :
    durUnmarshal (durString d) = some d := by
  by_cases h0 : d = 0
  · subst h0; decide +kernel
  · have hu0 : 0 < d.natAbs := by omega
    have hu : d.natAbs ≤ 2 ^ 63 := by omega
    obtain ⟨c, rest, hb, hc⟩ := durBody_head d.natAbs hu0
    obtain ⟨h43, h45⟩ := digit_not_sign c hc
    have hparse := fun fuel => parse_durBody d.natAbs fuel hu0 hu
    have hne48 : (durBody d.natAbs == [48]) = false := by
      apply Bool.eq_false_iff.mpr
      intro h
      have h := eq_of_beq h
      have := hparse 0
      rw [h, parseDurLoop_zero_only] at this
      cases this
    have hlen : parseDurLoop ((durBody d.natAbs).length + 4) (durBody d.natAbs) 0 = some d.natAbs := hparse _
    unfold durUnmarshal durString
    split
    · next hneg =>
      simp only [List.isEmpty_cons, Bool.false_eq_true, if_false, parseDuration, beq_self_eq_true,
        Bool.true_or, if_true, hne48]
      rw [if_neg (by rw [hb]; simp), hlen]
      simp only [if_true]
      congr 1; omega
    · next hpos =>
      rw [if_neg (by rw [hb]; simp)]
      unfold parseDuration
      rw [hb] at hne48 hlen ⊢
      simp only [h45, h43, Bool.or_self, Bool.false_eq_true, if_false, hne48, List.isEmpty_cons, hlen]
      rw [if_neg (by omega)]
      congr 1; omega

end Influx.Lemmas.Duration
