/-
  Lemmas.CompactSortL — what `sort.Stable(k.blocks)` guarantees while it stays in its
  insertion-sort regime (at most 20 blocks): the result is a permutation in which no
  block lies entirely before its predecessor (`AdjOK`), and only blocks with disjoint
  time ranges were exchanged, so the newest-wins content (`restAt`) is unchanged.
-/
import Influx.Lemmas.CompactDedup

namespace Influx.Model.Compact
open Influx.Generated

variable {V : Type}

/-! ### `stable` = insertion sort up to 20 elements -/

theorem stable_eq_insertionSort {α : Type} [Inhabited α] (less : α → α → Bool) (l : List α)
    (h : l.length ≤ 20) : Sort.stable less l = Sort.insertionSort less l := by
  unfold Sort.stable
  have h1 : Sort.insertionBlocks less 20 (l.length + 1) l = Sort.insertionSort less l := by
    cases l with
    | nil => simp [Sort.insertionBlocks, Sort.insertionSort, Sort.insertionSortAux]
    | cons x xs =>
      have ht : (x :: xs).take 20 = x :: xs := List.take_of_length_le h
      have hd : (x :: xs).drop 20 = [] := List.drop_of_length_le h
      simp only [Sort.insertionBlocks, List.isEmpty_cons, Bool.false_eq_true, if_false, ht, hd]
      cases hn : xs.length with
      | zero => simp [Sort.insertionBlocks]
      | succ n => simp [Sort.insertionBlocks]
  rw [h1]
  have h2 : (Sort.insertionSort less l).length = l.length := by
    unfold Sort.insertionSort
    suffices ∀ (acc l : List α), (Sort.insertionSortAux less acc l).length = acc.length + l.length by
      simpa using this [] l
    intro acc l
    induction l generalizing acc with
    | nil => simp [Sort.insertionSortAux]
    | cons x xs ih =>
      simp only [Sort.insertionSortAux, ih, List.length_cons]
      have : ∀ (acc : List α), (Sort.insertRev less x acc).length = acc.length + 1 := by
        intro acc
        induction acc with
        | nil => simp [Sort.insertRev]
        | cons p ps ih2 => simp only [Sort.insertRev]; split <;> simp [ih2]
      rw [this]; omega
  simp only [Sort.mergeLoop]
  rw [if_neg (by omega)]

/-! ### decomposition of one insertion -/

theorem insertRev_decomp {α : Type} (less : α → α → Bool) (x : α) :
    ∀ (acc : List α), ∃ hi lo, acc = hi ++ lo ∧ Sort.insertRev less x acc = hi ++ x :: lo ∧
      (∀ p ∈ hi, less x p = true) ∧ (∀ q, lo.head? = some q → less x q = false)
  | [] => ⟨[], [], rfl, rfl, by simp, by simp⟩
  | p :: ps => by
    by_cases h : less x p = true
    · obtain ⟨hi, lo, e1, e2, e3, e4⟩ := insertRev_decomp less x ps
      refine ⟨p :: hi, lo, by simp [e1], by simp [Sort.insertRev, h, e2], ?_, e4⟩
      intro q hq
      rcases List.mem_cons.mp hq with rfl | hq'
      · exact h
      · exact e3 q hq'
    · refine ⟨[], p :: ps, rfl, by simp [Sort.insertRev, h], by simp, ?_⟩
      intro q hq
      simp at hq; subst hq
      simpa using h

/-! ### `restAt` and `AdjFrom` over append -/

theorem restAt_append (A B : List (Block V)) (t : Int) :
    restAt (A ++ B) t = (restAt B t).or (restAt A t) := by
  induction A with
  | nil => simp [restAt]
  | cons a A ih => simp only [List.cons_append, restAt, ih, Option.or_assoc]

theorem live_time_range {b : Block V} (w : BlockWF b) {t : Int} {v : V} (h : lookup (live b) t = some v) :
    b.minTime ≤ t ∧ t ≤ b.maxTime := by
  have hm := lookup_some_mem h
  unfold live unread at hm
  have := (mem_vExclude.mp (mem_applyTombs.mp hm).1).1
  exact w.mem_range this

theorem restAt_some_range {L : List (Block V)} (hw : ∀ b ∈ L, BlockWF b) {t : Int} {v : V}
    (h : restAt L t = some v) : ∃ b ∈ L, b.minTime ≤ t ∧ t ≤ b.maxTime := by
  induction L generalizing v with
  | nil => simp [restAt] at h
  | cons b L ih =>
    simp only [restAt] at h
    cases hr : restAt L t with
    | some w =>
      obtain ⟨x, hx, hx'⟩ := ih (fun b hb => hw b (List.mem_cons_of_mem _ hb)) hr
      exact ⟨x, List.mem_cons_of_mem _ hx, hx'⟩
    | none =>
      rw [hr] at h
      simp only [Option.none_or] at h
      exact ⟨b, by simp, live_time_range (hw b (by simp)) h⟩

/-- `minTime` of the last block (or `pm` for the empty list) -/
def lastMin (pm : Int) : List (Block V) → Int
  | [] => pm
  | b :: L => lastMin b.minTime L

theorem adjFrom_append (pm : Int) (A B : List (Block V)) :
    AdjFrom pm (A ++ B) ↔ AdjFrom pm A ∧ AdjFrom (lastMin pm A) B := by
  induction A generalizing pm with
  | nil => simp [AdjFrom, lastMin]
  | cons a A ih => simp only [List.cons_append, AdjFrom, lastMin, ih, and_assoc]

theorem lastMin_append_singleton (pm : Int) (A : List (Block V)) (x : Block V) :
    lastMin pm (A ++ [x]) = x.minTime := by
  induction A generalizing pm with
  | nil => simp [lastMin]
  | cons a A ih => simp only [List.cons_append, lastMin, ih]

theorem blkLess_iff {a b : Block V} (wa : BlockWF a) : blkLess a b = true ↔ a.maxTime < b.minTime := by
  have := wa.min_le_max
  simp only [blkLess, Bool.and_eq_true, decide_eq_true_eq]
  constructor
  · intro h; exact h.2
  · intro h; exact ⟨by omega, h⟩

/-- forward view of one insertion: `lo.reverse ++ hi.reverse ++ [x]` becomes `lo.reverse ++ x :: hi.reverse` -/
theorem insert_restAt {x : Block V} {hi lo : List (Block V)} (wx : BlockWF x)
    (whi : ∀ p ∈ hi, BlockWF p) (hless : ∀ p ∈ hi, blkLess x p = true) (t : Int) :
    restAt (lo.reverse ++ x :: hi.reverse) t = restAt ((lo.reverse ++ hi.reverse) ++ [x]) t := by
  rw [restAt_append, restAt_append, restAt_append]
  simp only [restAt]
  cases hx : lookup (live x) t with
  | none => simp
  | some v =>
    have hxr := live_time_range wx hx
    have : restAt hi.reverse t = none := by
      cases hr : restAt hi.reverse t with
      | none => rfl
      | some w =>
        obtain ⟨p, hp, hp'⟩ := restAt_some_range (fun b hb => whi b (List.mem_reverse.mp hb)) hr
        have hp2 := List.mem_reverse.mp hp
        have := (blkLess_iff wx).mp (hless p hp2)
        omega
    simp [this]

theorem insert_adj {x : Block V} {hi lo : List (Block V)} (wx : BlockWF x)
    (whi : ∀ p ∈ hi, BlockWF p)
    (hless : ∀ p ∈ hi, blkLess x p = true) (hlo : ∀ q, lo.head? = some q → blkLess x q = false)
    (h : AdjOK (lo.reverse ++ hi.reverse)) : AdjOK (lo.reverse ++ x :: hi.reverse) := by
  have hxmm := wx.min_le_max
  -- x fits after the last block of lo.reverse (= head of lo)
  have hfit_lo : ∀ q, lo.head? = some q → q.minTime ≤ x.maxTime := by
    intro q hq
    have := hlo q hq
    simp only [blkLess, Bool.and_eq_false_iff, decide_eq_false_iff_not] at this
    rcases this with h1 | h1 <;> omega
  -- the first block of hi.reverse (= last of hi) fits after x
  have hfit_hi : AdjFrom x.minTime hi.reverse → True := fun _ => trivial
  cases lo with
  | nil =>
    simp only [List.reverse_nil, List.nil_append] at h ⊢
    show AdjFrom x.minTime hi.reverse
    cases hh : hi.reverse with
    | nil => trivial
    | cons p ps =>
      rw [hh] at h
      have hp : p ∈ hi := List.mem_reverse.mp (by rw [hh]; simp)
      have := (blkLess_iff wx).mp (hless p hp)
      have := (whi p hp).min_le_max
      exact ⟨by omega, h⟩
  | cons q lo' =>
    have hq := hfit_lo q rfl
    -- lo.reverse = lo'.reverse ++ [q] is non-empty: take its head
    cases hr : (q :: lo').reverse with
    | nil => simp at hr
    | cons r rs =>
      rw [hr] at h
      simp only [List.cons_append] at h ⊢
      show AdjFrom r.minTime (rs ++ x :: hi.reverse)
      have h' : AdjFrom r.minTime (rs ++ hi.reverse) := h
      rw [adjFrom_append] at h' ⊢
      refine ⟨h'.1, ?_⟩
      have hlast : lastMin r.minTime rs = q.minTime := by
        have : r :: rs = lo'.reverse ++ [q] := by rw [← hr]; simp
        have h2 := lastMin_append_singleton r.minTime lo'.reverse q
        -- lastMin r.minTime rs = lastMin pm (r :: rs) for any pm
        have h3 : lastMin r.minTime rs = lastMin 0 (r :: rs) := rfl
        rw [h3, this]
        exact lastMin_append_singleton 0 lo'.reverse q
      rw [hlast] at h' ⊢
      refine ⟨hq, ?_⟩
      cases hh : hi.reverse with
      | nil => trivial
      | cons p ps =>
        rw [hh] at h'
        have hp : p ∈ hi := List.mem_reverse.mp (by rw [hh]; simp)
        have := (blkLess_iff wx).mp (hless p hp)
        have := (whi p hp).min_le_max
        exact ⟨by omega, h'.2.2⟩

/-! ### the whole insertion sort -/

theorem insertionSortAux_spec :
    ∀ (l acc : List (Block V)), (∀ b ∈ acc, BlockWF b) → (∀ b ∈ l, BlockWF b) → AdjOK acc.reverse →
      AdjOK (Sort.insertionSortAux blkLess acc l) ∧
      (∀ t, restAt (Sort.insertionSortAux blkLess acc l) t = restAt (acc.reverse ++ l) t) ∧
      (∀ b, b ∈ Sort.insertionSortAux blkLess acc l ↔ (b ∈ acc ∨ b ∈ l)) ∧
      (Sort.insertionSortAux blkLess acc l).length = acc.length + l.length
  | [], acc, _, _, hadj => by
    have e : Sort.insertionSortAux blkLess acc [] = acc.reverse := rfl
    rw [e]
    exact ⟨hadj, fun t => by simp, fun b => by simp, by simp⟩
  | x :: xs, acc, hacc, hl, hadj => by
    simp only [Sort.insertionSortAux]
    have wx := hl x (by simp)
    obtain ⟨hi, lo, e1, e2, e3, e4⟩ := insertRev_decomp blkLess x acc
    have whi : ∀ p ∈ hi, BlockWF p := fun p hp => hacc p (by rw [e1]; exact List.mem_append_left _ hp)
    have hacc' : ∀ b ∈ Sort.insertRev blkLess x acc, BlockWF b := by
      intro b hb
      rw [e2] at hb
      rcases List.mem_append.mp hb with h1 | h1
      · exact whi b h1
      · rcases List.mem_cons.mp h1 with rfl | h2
        · exact wx
        · exact hacc b (by rw [e1]; exact List.mem_append_right _ h2)
    have hrev : (Sort.insertRev blkLess x acc).reverse = lo.reverse ++ x :: hi.reverse := by
      rw [e2]; simp
    have hadj' : AdjOK (Sort.insertRev blkLess x acc).reverse := by
      rw [hrev]
      apply insert_adj wx whi e3 e4
      rw [e1] at hadj
      simpa using hadj
    obtain ⟨r1, r2, r3, r4⟩ := insertionSortAux_spec xs (Sort.insertRev blkLess x acc) hacc'
      (fun b hb => hl b (List.mem_cons_of_mem _ hb)) hadj'
    refine ⟨r1, ?_, ?_, ?_⟩
    · intro t
      rw [r2 t, hrev, restAt_append, insert_restAt wx whi e3 t]
      rw [restAt_append (acc.reverse) (x :: xs), e1]
      simp only [List.reverse_append]
      rw [restAt_append _ [x]]
      have : restAt (x :: xs) t = (restAt xs t).or (restAt [x] t) := by simp [restAt]
      rw [this, Option.or_assoc]
    · intro b
      rw [r3 b, e2, e1]
      simp only [List.mem_append, List.mem_cons]
      constructor
      · rintro ((h | rfl | h) | h)
        · exact Or.inl (Or.inl h)
        · exact Or.inr (Or.inl rfl)
        · exact Or.inl (Or.inr h)
        · exact Or.inr (Or.inr h)
      · rintro ((h | h) | rfl | h)
        · exact Or.inl (Or.inl h)
        · exact Or.inl (Or.inr (Or.inr h))
        · exact Or.inl (Or.inr (Or.inl rfl))
        · exact Or.inr h
    · rw [r4, e2, e1]
      simp only [List.length_append, List.length_cons]
      omega

/-- `sort.Stable(k.blocks)` for at most 20 blocks -/
theorem stable_spec (l : List (Block V)) (hw : ∀ b ∈ l, BlockWF b) (hlen : l.length ≤ 20) :
    AdjOK (Sort.stable blkLess l) ∧
    (∀ t, restAt (Sort.stable blkLess l) t = restAt l t) ∧
    (∀ b, b ∈ Sort.stable blkLess l ↔ b ∈ l) ∧
    (Sort.stable blkLess l).length = l.length := by
  rw [stable_eq_insertionSort blkLess l hlen]
  unfold Sort.insertionSort
  obtain ⟨r1, r2, r3, r4⟩ := insertionSortAux_spec l [] (by simp) hw trivial
  exact ⟨r1, by simpa using r2, by simpa using r3, by simpa using r4⟩

end Influx.Model.Compact
