/-
  Lemmas.TSIFinal — simulation between the C14 checker (one candidate world) and the model,
  step by step, and along a whole trace.
-/
import Influx.Lemmas.TSITrace

namespace Influx.Model.TSI
open Influx.Spec.C14

/-- the checker's candidate `k` describes the model state `st`, and has met nothing worse than
    a stale tag listing. -/
def Sim (k : Cand) (st : State) : Prop :=
  ∃ live, GInv st live ∧ WRel k.w st live ∧ k.worst.rank ≤ 1

theorem wrel_find {w : World} {st st' : State} {live : List Nat}
    (hf : ∀ x, st'.sf.find x = st.sf.find x) (h : WRel w st live) : WRel w st' live where
  sound s hs := by
    obtain ⟨h1, t, ht, h2⟩ := h.sound s hs
    exact ⟨h1, t, by rw [hf]; exact ht, h2⟩
  complete := h.complete

theorem ginv_cache_cons {st : State} {live : List Nat} (h : GInv st live)
    (e : (String × String × String) × List Nat) (he : CacheOK st.sf live e) :
    GInv { st with cache := e :: st.cache } live := by
  have hc : ∀ e' ∈ e :: st.cache, CacheOK st.sf live e' := by
    intro e' he'
    rcases List.mem_cons.mp he' with rfl | he'
    · exact he
    · exact h.cache e' he'
  exact { h with cache := hc }

theorem cacheGet_mem {c : List ((String × String × String) × List Nat)} {key : String × String × String}
    {ids : List Nat} (h : cacheGet c key = some ids) : (key, ids) ∈ c := by
  unfold cacheGet at h
  cases hf : c.find? (fun e => e.1 = key) with
  | none => simp [hf] at h
  | some e =>
    simp only [hf, Option.map_some, Option.some.injEq] at h
    have h1 := List.mem_of_find?_eq_some hf
    have h2 := List.find?_some hf
    simp only [decide_eq_true_eq] at h2
    obtain ⟨ek, ei⟩ := e
    simp only at h2 h
    subst h2; subst h
    exact h1

theorem step_create_rejected {st : State} (id part : Nat) (name : String) (tags : Tags)
    (h : (step st (.create id part name tags)).2 ≠ .ok) : (step st (.create id part name tags)).1 = st := by
  cases hfk : st.sf.findKey name tags with
  | some s =>
    simp only [step, hfk] at h ⊢
    split
    · rfl
    · next hb =>
      rw [if_neg hb] at h
      split
      · rfl
      · next hb2 => rw [if_neg hb2] at h; exact absurd rfl h
  | none =>
    simp only [step, hfk] at h ⊢
    split
    · rfl
    · next hb =>
      rw [if_neg hb] at h
      split
      · rfl
      · next hb2 => rw [if_neg hb2] at h; exact absurd rfl h

theorem step_create_obs {st : State} (id part : Nat) (name : String) (tags : Tags) :
    (step st (.create id part name tags)).2 = .ok ∨ (step st (.create id part name tags)).2 = .rejected := by
  cases hfk : st.sf.findKey name tags <;> simp only [step, hfk] <;> split <;> (try (right; rfl)) <;>
    split <;> first | (right; rfl) | (left; rfl)

theorem sf_roll (st : State) (j : Nat) : (step st (.roll j)).1.sf = st.sf := by
  simp only [step]; split <;> rfl
theorem sf_compactLog (st : State) (j : Nat) : (step st (.compactLog j)).1.sf = st.sf := by
  simp only [step]; split <;> rfl
theorem sf_compactLevel (st : State) (j l : Nat) : (step st (.compactLevel j l)).1.sf = st.sf := by
  simp only [step]; split <;> rfl
theorem sf_reopen (st : State) : (step st .reopen).1.sf = st.sf := rfl
theorem sf_cfg (st : State) (n : Nat) : (step st (.cfg n)).1.sf = st.sf := by
  simp only [step]; split <;> rfl

/-- **one step of the simulation.** -/
theorem sim_step (k : Cand) (st : State) (hs : Sim k st) (op : Op) (ha : Allowed op = true) :
    ∃ k', stepCheck ⟨[k]⟩ op (step st op).2 = ⟨[k']⟩ ∧ Sim k' (step st op).1 := by
  obtain ⟨live, hg, hw, hr⟩ := hs
  cases op with
  | crash p q e => simp [Allowed] at ha
  | dropSeriesIndexOnly id => simp [Allowed] at ha
  | dropMeasurementIndexOnly n => simp [Allowed] at ha
  | cfg n =>
    refine ⟨k, stepCheck_nostage k _ _ rfl (by intros; simp) rfl, live, ginv_cfg hg n, ?_, hr⟩
    exact wrel_find (fun x => by rw [sf_cfg]) hw
  | roll j =>
    refine ⟨k, stepCheck_nostage k _ _ rfl (by intros; simp) rfl, live, ginv_roll hg j, ?_, hr⟩
    exact wrel_find (fun x => by rw [sf_roll]) hw
  | compactLog j =>
    refine ⟨k, stepCheck_nostage k _ _ rfl (by intros; simp) rfl, live, ginv_compactLog hg j, ?_, hr⟩
    exact wrel_find (fun x => by rw [sf_compactLog]) hw
  | compactLevel j l =>
    refine ⟨k, stepCheck_nostage k _ _ rfl (by intros; simp) rfl, live, ginv_compactLevel hg j l, ?_, hr⟩
    exact wrel_find (fun x => by rw [sf_compactLevel]) hw
  | reopen =>
    refine ⟨k, stepCheck_nostage k _ _ rfl (by intros; simp) rfl, live, ginv_reopen hg, ?_, hr⟩
    exact wrel_find (fun x => by rw [sf_reopen]) hw
  | create id part name tags =>
    have hgi := ginv_create hg id part name tags
    rcases step_create_obs (st := st) id part name tags with hok | hrej
    · rw [hok]
      simp only [hok, if_true] at hgi
      obtain ⟨hpres, t, ht, htn, htt⟩ := step_create_sf id part name tags hg.sfok hok
      have hany : (k.w.live.any (fun s => decide (s.id = id))) = true ↔ id ∈ live := by
        rw [List.any_eq_true]
        constructor
        · rintro ⟨s, hs, hid⟩
          have := (hw.sound s hs).1
          simp only [decide_eq_true_eq] at hid
          rw [← hid]; exact this
        · intro hl
          obtain ⟨s, hs, hid⟩ := hw.complete id hl
          exact ⟨s, hs, by simp [hid]⟩
      refine ⟨_, stepCheck_stage k _ _ rfl (by intros; simp) rfl, liveCreate live id, hgi, ?_, hr⟩
      simp only [List.getLastD_cons, List.getLastD_nil]
      by_cases hl : id ∈ live
      · have : (k.w.live.any (fun s => decide (s.id = id))) = true := hany.mpr hl
        simp only [this, if_true, liveCreate, hl]
        refine ⟨fun s hs => ?_, hw.complete⟩
        obtain ⟨h1, t', ht', h2⟩ := hw.sound s hs
        exact ⟨h1, t', hpres _ _ ht', h2⟩
      · have : ¬ (k.w.live.any (fun s => decide (s.id = id))) = true := fun h => hl (hany.mp h)
        simp only [this, if_false, liveCreate, hl]
        refine ⟨fun s hs => ?_, fun x hx => ?_⟩
        · rcases List.mem_cons.mp hs with rfl | hs
          · exact ⟨List.mem_cons_self, t, ht, htn, htt⟩
          · obtain ⟨h1, t', ht', h2⟩ := hw.sound s hs
            exact ⟨List.mem_cons_of_mem _ h1, t', hpres _ _ ht', h2⟩
        · rcases List.mem_cons.mp hx with rfl | hx
          · exact ⟨_, List.mem_cons_self, rfl⟩
          · obtain ⟨s, hs, hid⟩ := hw.complete x hx
            exact ⟨s, List.mem_cons_of_mem _ hs, hid⟩
    · have hne : (step st (.create id part name tags)).2 ≠ .ok := by rw [hrej]; simp
      have hst := step_create_rejected id part name tags hne
      simp only [hrej, if_false] at hgi
      have hgi' : GInv (step st (.create id part name tags)).1 live := by
        simpa using hgi
      rw [hrej]
      refine ⟨k, stepCheck_notok k _ _ rfl (by simp), live, hgi', ?_, hr⟩
      rw [hst]; exact hw
  | dropSeries id =>
    have hgi := ginv_dropSeries hg id
    cases hf : st.sf.find id with
    | none =>
      have hobs : (step st (.dropSeries id)).2 = .rejected := by simp [step, hf]
      have hst : (step st (.dropSeries id)).1 = st := by simp [step, hf]
      rw [hobs]
      refine ⟨k, stepCheck_notok k _ _ rfl (by simp), live, ?_, ?_, hr⟩
      · rw [hst]; exact hg
      · rw [hst]; exact hw
    | some s =>
      have hobs : (step st (.dropSeries id)).2 = .ok := (step_dropSeries_obs id).mpr (by simp [hf])
      simp only [hobs, if_true] at hgi
      rw [hobs]
      refine ⟨_, stepCheck_stage k _ _ rfl (by intros; simp) rfl, sdel live id, hgi, ?_, hr⟩
      simp only [List.getLastD_cons, List.getLastD_nil]
      refine ⟨fun s' hs' => ?_, fun x hx => ?_⟩
      · obtain ⟨h1, h2⟩ := (mem_drop _ _ _).mp hs'
        simp only [decide_eq_false_iff_not] at h2
        obtain ⟨h3, t, ht, h4⟩ := hw.sound s' h1
        exact ⟨(mem_sdel _ _ _).mpr ⟨h3, h2⟩, t, by rw [step_dropSeries_find]; exact ht, h4⟩
      · obtain ⟨h1, h2⟩ := (mem_sdel _ _ _).mp hx
        obtain ⟨s', hs', hid⟩ := hw.complete x h1
        exact ⟨s', (mem_drop _ _ _).mpr ⟨hs', by simp [hid, h2]⟩, hid⟩
  | dropMeasurement name =>
    have hgi := ginv_dropMeasurement hg name
    have hobs : (step st (.dropMeasurement name)).2 = .ok := rfl
    rw [hobs]
    refine ⟨_, stepCheck_stage k _ _ rfl (by intros; simp) rfl, _, hgi, ?_, hr⟩
    -- the last stage: every live series of the measurement dropped
    have hlast := stages_fold_last ((k.w.live.filter (·.name = name)).foldr insertById []) k.w []
    simp only [List.nil_append] at hlast
    simp only
    rw [hlast]
    refine ⟨fun s hs => ?_, fun x hx => ?_⟩
    · obtain ⟨h1, h2⟩ := (mem_drop_fold _ _ _).mp hs
      obtain ⟨h3, t, ht, htn, htt⟩ := hw.sound s h1
      refine ⟨(mem_foldl_sdel _ _ _).mpr ⟨h3, ?_⟩, t, by rw [step_dropMeasurement_find]; exact ht, htn, htt⟩
      intro v hv hid
      obtain ⟨_, hv2, hv3⟩ := mem_victims.mp hv
      -- `v` is the series-file record of `s`, so `s` is one of the Spec's victims
      rw [hid] at hv2
      rw [ht] at hv2
      simp only [Option.some.injEq] at hv2
      subst hv2
      have : s ∈ (k.w.live.filter (·.name = name)).foldr insertById [] := by
        rw [mem_foldr_insertById, List.mem_filter]
        exact ⟨h1, by simp [← htn, hv3]⟩
      exact h2 s this rfl
    · obtain ⟨h1, h2⟩ := (mem_foldl_sdel _ _ _).mp hx
      obtain ⟨s, hs, hid⟩ := hw.complete x h1
      refine ⟨s, (mem_drop_fold _ _ _).mpr ⟨hs, ?_⟩, hid⟩
      intro v hv hsv
      rw [mem_foldr_insertById, List.mem_filter] at hv
      obtain ⟨hv1, hv2⟩ := hv
      have hvn : v.name = name := by simpa using hv2
      obtain ⟨hvl, t, ht, htn, _⟩ := hw.sound v hv1
      have htid : t.id = v.id := (find_some_mem ht).2
      have : t ∈ victims st name := mem_victims.mpr ⟨by rw [htid]; exact (hg.tracked v.id).mpr hvl,
        by rw [htid]; exact ht, by rw [htn, hvn]⟩
      exact h2 t this (by rw [htid, ← hsv, hid])
  | measurements =>
    refine ⟨_, stepCheck_query k _ _ rfl, live, hg, hw, ?_⟩
    simp only [step]
    rw [rank_worse, grade_measurements hg hw]
    exact Nat.max_le.mpr ⟨hr, by simp [Grade.rank]⟩
  | tagKeys n =>
    refine ⟨_, stepCheck_query k _ _ rfl, live, hg, hw, ?_⟩
    simp only [step]
    rw [rank_worse]
    exact Nat.max_le.mpr ⟨hr, grade_tagKeys hg hw n⟩
  | tagValues n key =>
    refine ⟨_, stepCheck_query k _ _ rfl, live, hg, hw, ?_⟩
    simp only [step]
    rw [rank_worse]
    exact Nat.max_le.mpr ⟨hr, grade_tagValues hg hw n key⟩
  | measurementSeries n =>
    refine ⟨_, stepCheck_query k _ _ rfl, live, hg, hw, ?_⟩
    simp only [step]
    rw [rank_worse, grade_measSeries hg hw n]
    exact Nat.max_le.mpr ⟨hr, by simp [Grade.rank]⟩
  | tagKeySeries n key =>
    refine ⟨_, stepCheck_query k _ _ rfl, live, hg, hw, ?_⟩
    simp only [step]
    rw [rank_worse, grade_keySeries hg hw n key]
    exact Nat.max_le.mpr ⟨hr, by simp [Grade.rank]⟩
  | tagValueSeries n key v =>
    cases hc : cacheGet st.cache (n, key, v) with
    | some ids =>
      have hcok : CacheOK st.sf live ((n, key, v), ids) := hg.cache _ (cacheGet_mem hc)
      refine ⟨_, stepCheck_query k _ _ rfl, live, ?_, ?_, ?_⟩
      · simp only [step, hc, Option.isSome_some, if_true]; exact hg
      · simp only [step, hc, Option.isSome_some, if_true]; exact hw
      · simp only [step, hc]
        rw [rank_worse, grade_valSeries hg hw n key v ids hcok]
        exact Nat.max_le.mpr ⟨hr, by simp [Grade.rank]⟩
    | none =>
      have hcok := rawValSeries_ok hg n key v
      refine ⟨_, stepCheck_query k _ _ rfl, live, ?_, ?_, ?_⟩
      · simp only [step, hc, Option.isSome_none, Bool.false_eq_true, if_false]
        exact ginv_cache_cons hg _ hcok
      · simp only [step, hc, Option.isSome_none, Bool.false_eq_true, if_false]
        exact wrel_find (st := st) (fun x => rfl) hw
      · simp only [step, hc]
        rw [rank_worse, grade_valSeries hg hw n key v _ hcok]
        exact Nat.max_le.mpr ⟨hr, by simp [Grade.rank]⟩

/-- **the simulation along a trace.** -/
theorem sim_run (ops : List Op) (hall : ops.all Allowed = true) :
    ∀ (k : Cand) (st : State), Sim k st →
      ∃ k', finalCands ⟨[k]⟩ (run st ops) = ⟨[k']⟩ ∧ k'.worst.rank ≤ 1 := by
  induction ops with
  | nil =>
    intro k st hs
    obtain ⟨_, _, _, hr⟩ := hs
    exact ⟨k, rfl, hr⟩
  | cons op rest ih =>
    intro k st hs
    simp only [List.all_cons, Bool.and_eq_true] at hall
    obtain ⟨k', hk', hs'⟩ := sim_step k st hs op hall.1
    have hrun : run st (op :: rest) = (op, (step st op).2) :: run (step st op).1 rest := rfl
    rw [hrun]
    simp only [finalCands]
    rw [hk']
    exact ih hall.2 k' _ hs'

theorem sim_init : Sim {} {} :=
  ⟨[], ginv_init, ⟨fun s hs => by simp at hs, fun id h => by simp at h⟩, by simp [Grade.rank]⟩

end Influx.Model.TSI
