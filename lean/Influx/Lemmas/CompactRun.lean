/-
  Lemmas.CompactRun — `tsmBatchKeyIterator.Next` and the write loop over it:
  the emitted block sequence is, key after key in ascending key order, the
  newest-wins content of that key's input blocks.
-/
import Influx.Lemmas.CompactLoad

namespace Influx.Model.Compact
open Influx.Generated

variable {V : Type}

/-- a block as the reader hands it to the iterator: well formed, nothing read yet -/
def Fresh (b : Block V) : Prop := BlockWF b ∧ b.readMin = maxInt64 ∧ b.readMax = minInt64

/-- what is known about one emitted block: a re-encoded block of 1..size values, or an
    input block of the key forwarded as is -/
def BlockFact (size : Nat) (orig : List (Block V)) (o : OBlk V) : Prop :=
  OBlkOK o ∧ ((1 ≤ o.pts.length ∧ o.pts.length ≤ size) ∨ ∃ b0 ∈ orig, o = passThrough b0)

/-- `outs` completes the values `O` already written for a key to the key's content `target` -/
structure KeyTail (size : Nat) (orig : List (Block V)) (target : Int → Option V) (O : Pts V)
    (outs : List (OBlk V)) : Prop where
  asc : Asc (O ++ outPts outs)
  content : ∀ t, target t = lookup (O ++ outPts outs) t
  blocks : ∀ o ∈ outs, BlockFact size orig o

/-- the per-key invariant at a call of `Next`: `Oe` = values of the key already written
    (including the block `Read` returned last, the head of `k.merged`) -/
structure CurInv (cfg : Cfg) (k : Iter V) (Oe : Pts V) (target : Int → Option V) (orig : List (Block V)) : Prop where
  inv : ∃ T, KInv T k.st (Oe ++ outPts k.st.merged.tail) target
  pend : ∀ o ∈ k.st.merged.tail, BlockFact cfg.size orig o
  len20 : k.st.blocks.length ≤ 20
  same : ∀ b ∈ k.st.blocks, ∃ b0 ∈ orig, SameStatic b b0
  lens : k.its.length = k.buf.length
  rwf : ∀ f ∈ allRuns k.its k.buf, RunsWF f
  fresh : ∀ f ∈ allRuns k.its k.buf, ∀ r ∈ f, ∀ b ∈ r.2, Fresh b
  cap : ∀ k', (blocksFor (allRuns k.its k.buf) k').length ≤ 20
  above : ∀ f ∈ allRuns k.its k.buf, ∀ r ∈ f, keyLt k.key r.1 = true

/-- the iterator left the current key: which keys disappeared from the files -/
structure Moved (cfg : Cfg) (R : List (FileRuns V)) (key0 : Key) (more : Bool) (k' : Iter V) : Prop where
  runs : ∀ k'', blocksFor (allRuns k'.its k'.buf) k'' = blocksFor R k'' ∨
      (blocksFor (allRuns k'.its k'.buf) k'' = [] ∧
        ((more = true ∧ k'' = k'.key) ∨ ∀ t, restAt (blocksFor R k'') t = none))
  next : more = true → keyLt key0 k'.key = true ∧ ∃ o ms, k'.st.merged = o :: ms ∧
      BlockFact cfg.size (blocksFor R k'.key) o ∧
      CurInv cfg k' o.pts (restAt (blocksFor R k'.key)) (blocksFor R k'.key)
  done : more = false → ∀ k'', blocksFor (allRuns k'.its k'.buf) k'' = []

/-- result of one `Next` call -/
def NextOK (cfg : Cfg) (k : Iter V) (Oe : Pts V) (target : Int → Option V) (orig : List (Block V))
    (more : Bool) (k' : Iter V) : Prop :=
  (more = true ∧ k'.key = k.key ∧ allRuns k'.its k'.buf = allRuns k.its k.buf ∧
    ∃ o ms, k'.st.merged = o :: ms ∧ BlockFact cfg.size orig o ∧ CurInv cfg k' (Oe ++ o.pts) target orig)
  ∨ (KeyTail cfg.size orig target Oe [] ∧ Moved cfg (allRuns k.its k.buf) k.key more k')

theorem passThrough_same {b b0 : Block V} (h : SameStatic b b0) : passThrough b = passThrough b0 := by
  obtain ⟨h1, h2, h3, _⟩ := h
  simp [passThrough, h1, h2, h3]

/-- the facts `merge<T>()` gives about its output, in terms of the key's original blocks -/
theorem stepOut_facts {size : Nat} {T : Int} {st st' : KSt V} {O : Pts V} {target : Int → Option V}
    {orig : List (Block V)} (so : StepOut size T st st' O target)
    (hsame : ∀ b ∈ st.blocks, ∃ b0 ∈ orig, SameStatic b b0) :
    (∀ o ∈ st'.merged, BlockFact size orig o) ∧ (∀ b ∈ st'.blocks, ∃ b0 ∈ orig, SameStatic b b0) := by
  constructor
  · intro o ho
    obtain ⟨h1, h2⟩ := so.hout o ho
    refine ⟨h1, ?_⟩
    rcases h2 with h2 | ⟨b, hb, _, rfl⟩
    · exact Or.inl h2
    · obtain ⟨b0, hb0, hs⟩ := hsame b hb
      exact Or.inr ⟨b0, hb0, passThrough_same hs⟩
  · intro b hb
    obtain ⟨b1, hb1, hs1⟩ := so.hsame b hb
    obtain ⟨b0, hb0, hs0⟩ := hsame b1 hb1
    exact ⟨b0, hb0, hs1.1.trans hs0.1, hs1.2.1.trans hs0.2.1, hs1.2.2.1.trans hs0.2.2.1, hs1.2.2.2.trans hs0.2.2.2⟩

/-- fresh blocks satisfy the per-key invariant with nothing written -/
theorem kinv_fresh (bl : List (Block V)) (hf : ∀ b ∈ bl, Fresh b) :
    KInv minInt64 (⟨bl, [], []⟩ : KSt V) [] (restAt bl) := by
  refine ⟨fun b hb => BlockSt.fresh (hf b hb).1 (hf b hb).2.1 (hf b hb).2.2, ?_, by simp, ?_⟩
  · simpa using asc_nil
  · intro t; simp

end Influx.Model.Compact
