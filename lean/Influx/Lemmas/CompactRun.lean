/-
  Lemmas.CompactRun — `tsmBatchKeyIterator.Next` and the write loop over it:
  the emitted block sequence is, key after key in ascending key order, the
  newest-wins content of that key's input blocks.
-/
import Influx.Lemmas.CompactLoad

namespace Influx.Model.Compact
open Influx.Generated

variable {V : Type}

/-- "at most `bound` blocks" (no bound for `none`) -/
def LenOK (bound : Option Nat) (n : Nat) : Prop := ∀ m, bound = some m → n ≤ m

theorem lenOK_mono {bound : Option Nat} {n n' : Nat} (h : n' ≤ n) (hn : LenOK bound n) : LenOK bound n' :=
  fun m hm => Nat.le_trans h (hn m hm)

/-- the sort of `cfg` does what `merge<T>()` needs on every list of at most `bound` blocks -/
def SortLaw (cfg : Cfg) (bound : Option Nat) : Prop :=
  ∀ {V : Type} (l : List (Block V)), LenOK bound l.length → SortSpecAt cfg l

/-- a block as the reader hands it to the iterator: well formed, nothing read yet -/
def Fresh (b : Block V) : Prop := BlockWF b ∧ b.readMin = maxInt64 ∧ b.readMax = minInt64

/-- what is known about one emitted block: a re-encoded block of 1..size values, or an
    input block of the key forwarded as is -/
def BlockFact (size : Nat) (orig : List (Block V)) (o : OBlk V) : Prop :=
  OBlkOK o ∧ ((1 ≤ o.pts.length ∧ o.pts.length ≤ size) ∨ ∃ b0 ∈ orig, o = passThrough b0)

/-- `outs` completes the values `O` already written for a key to the key's content `target` -/
structure KeyTail (size : Nat) (orig : List (Block V)) (target : Int → Option V) (O : Pts V)
    (outs : List (OBlk V)) : Prop where
  asc : Asc (O ++ outPts outs)
  content : ∀ t, target t = lookup (O ++ outPts outs) t
  blocks : ∀ o ∈ outs, BlockFact size orig o

/-- the per-key invariant at a call of `Next`: `Oe` = values of the key already written
    (including the block `Read` returned last, the head of `k.merged`) -/
structure CurInv (cfg : Cfg) (bound : Option Nat) (k : Iter V) (Oe : Pts V) (target : Int → Option V) (orig : List (Block V)) : Prop where
  inv : ∃ T, KInv T k.st (Oe ++ outPts k.st.merged.tail) target
  pend : ∀ o ∈ k.st.merged.tail, BlockFact cfg.size orig o
  len20 : LenOK bound k.st.blocks.length
  same : ∀ b ∈ k.st.blocks, ∃ b0 ∈ orig, SameStatic b b0
  lens : k.its.length = k.buf.length
  rwf : ∀ f ∈ allRuns k.its k.buf, RunsWF f
  fresh : ∀ k', ∀ b ∈ blocksFor (allRuns k.its k.buf) k', Fresh b
  cap : ∀ k', LenOK bound (blocksFor (allRuns k.its k.buf) k').length
  above : ∀ f ∈ allRuns k.its k.buf, ∀ r ∈ f, keyLt k.key r.1 = true

/-- the iterator left the current key: which keys disappeared from the files -/
structure Moved (cfg : Cfg) (bound : Option Nat) (R : List (FileRuns V)) (key0 : Key) (more : Bool) (k' : Iter V) : Prop where
  runs : ∀ k'', blocksFor (allRuns k'.its k'.buf) k'' = blocksFor R k'' ∨
      (blocksFor (allRuns k'.its k'.buf) k'' = [] ∧
        ((more = true ∧ k'' = k'.key) ∨ ∀ t, restAt (blocksFor R k'') t = none))
  next : more = true → keyLt key0 k'.key = true ∧ ∃ o ms, k'.st.merged = o :: ms ∧
      BlockFact cfg.size (blocksFor R k'.key) o ∧
      CurInv cfg bound k' o.pts (restAt (blocksFor R k'.key)) (blocksFor R k'.key)
  done : more = false → ∀ k'', blocksFor (allRuns k'.its k'.buf) k'' = []

/-- result of one `Next` call -/
def NextOK (cfg : Cfg) (bound : Option Nat) (k : Iter V) (Oe : Pts V) (target : Int → Option V) (orig : List (Block V))
    (more : Bool) (k' : Iter V) : Prop :=
  (more = true ∧ k'.key = k.key ∧ allRuns k'.its k'.buf = allRuns k.its k.buf ∧
    ∃ o ms, k'.st.merged = o :: ms ∧ BlockFact cfg.size orig o ∧ CurInv cfg bound k' (Oe ++ o.pts) target orig)
  ∨ (KeyTail cfg.size orig target Oe [] ∧ Moved cfg bound (allRuns k.its k.buf) k.key more k')

theorem passThrough_same {b b0 : Block V} (h : SameStatic b b0) : passThrough b = passThrough b0 := by
  obtain ⟨h1, h2, h3, _⟩ := h
  simp [passThrough, h1, h2, h3]

/-- the facts `merge<T>()` gives about its output, in terms of the key's original blocks -/
theorem stepOut_facts {size : Nat} {T : Int} {st st' : KSt V} {O : Pts V} {target : Int → Option V}
    {orig : List (Block V)} (so : StepOut size T st st' O target)
    (hsame : ∀ b ∈ st.blocks, ∃ b0 ∈ orig, SameStatic b b0) :
    (∀ o ∈ st'.merged, BlockFact size orig o) ∧ (∀ b ∈ st'.blocks, ∃ b0 ∈ orig, SameStatic b b0) := by
  constructor
  · intro o ho
    obtain ⟨h1, h2⟩ := so.hout o ho
    refine ⟨h1, ?_⟩
    rcases h2 with h2 | ⟨b, hb, _, rfl⟩
    · exact Or.inl h2
    · obtain ⟨b0, hb0, hs⟩ := hsame b hb
      exact Or.inr ⟨b0, hb0, passThrough_same hs⟩
  · intro b hb
    obtain ⟨b1, hb1, hs1⟩ := so.hsame b hb
    obtain ⟨b0, hb0, hs0⟩ := hsame b1 hb1
    exact ⟨b0, hb0, hs1.1.trans hs0.1, hs1.2.1.trans hs0.2.1, hs1.2.2.1.trans hs0.2.2.1, hs1.2.2.2.trans hs0.2.2.2⟩

/-- fresh blocks satisfy the per-key invariant with nothing written -/
theorem kinv_fresh (bl : List (Block V)) (hf : ∀ b ∈ bl, Fresh b) :
    KInv minInt64 (⟨bl, [], []⟩ : KSt V) [] (restAt bl) := by
  refine ⟨fun b hb => BlockSt.fresh (hf b hb).1 (hf b hb).2.1 (hf b hb).2.2, ?_, by simp, ?_⟩
  · simpa using asc_nil
  · intro t; simp


/-- one conditional `merge<T>()` of `Next`, with `k.merged` empty -/
theorem mergeIf_phase (cfg : Cfg) (bound : Option Nat) (law : SortLaw cfg bound) (hs : 0 < cfg.size) {T : Int} {st st' : KSt V} {Oe : Pts V}
    {target : Int → Option V} {orig : List (Block V)} (cond : Bool)
    (inv : KInv T st Oe target) (hm : st.merged = []) (hlen : LenOK bound st.blocks.length)
    (hsame : ∀ b ∈ st.blocks, ∃ b0 ∈ orig, SameStatic b b0)
    (h : mergeIf cfg cond st = .ok st') :
    (∃ T', KInv T' st' (Oe ++ outPts st'.merged) target) ∧
    (∀ o ∈ st'.merged, BlockFact cfg.size orig o) ∧
    (∀ b ∈ st'.blocks, ∃ b0 ∈ orig, SameStatic b b0) ∧
    LenOK bound st'.blocks.length ∧
    (cond = true → st'.merged = [] → st'.mv = [] ∧ st'.blocks = []) ∧
    (cond = false → st' = st) := by
  unfold mergeIf at h
  cases cond with
  | false =>
    simp only [Bool.false_eq_true, if_false, pure, Except.pure, Except.ok.injEq] at h
    subst h
    refine ⟨⟨T, by rw [hm]; simpa using inv⟩, by rw [hm]; simp, hsame, hlen, by simp, fun _ => rfl⟩
  | true =>
    simp only [if_true] at h
    have so := mergeStep_spec cfg inv hm (law _ hlen) h
    obtain ⟨f1, f2⟩ := stepOut_facts so hsame
    obtain ⟨T', _, inv'⟩ := so.hex
    exact ⟨⟨T', inv'⟩, f1, f2, lenOK_mono so.hlen hlen, fun _ => so.hempty hs, by simp⟩

@[simp] theorem popMerged_blocks (st : KSt V) : (popMerged st).blocks = st.blocks := by
  unfold popMerged; split <;> rfl
@[simp] theorem popMerged_mv (st : KSt V) : (popMerged st).mv = st.mv := by
  unfold popMerged; split <;> rfl

theorem blocksFor_nil_of_above {R : List (FileRuns V)} {key : Key}
    (h : ∀ f ∈ R, ∀ r ∈ f, keyLt key r.1 = true) : blocksFor R key = [] := by
  simp only [blocksFor, List.flatMap_eq_nil_iff]
  intro f hf
  have : f.filter (fun r => decide (r.1 = key)) = [] := by
    apply List.filter_eq_nil_iff.mpr
    intro r hr
    simp only [decide_eq_true_eq]
    intro heq
    have := h f hf r hr
    rw [heq, keyLt_irrefl] at this; cases this
  rw [this]; simp

theorem mem_blocksFor {R : List (FileRuns V)} {k : Key} {b : Block V} (h : b ∈ blocksFor R k) :
    ∃ f ∈ R, ∃ r ∈ f, r.1 = k ∧ b ∈ r.2 := by
  simp only [blocksFor, List.mem_flatMap, List.mem_filter, decide_eq_true_eq] at h
  obtain ⟨f, hf, r, ⟨hr, hk⟩, hb⟩ := h
  exact ⟨f, hf, r, hr, hk, hb⟩

/-- `Next` returns with a block of the current key at the head of `k.merged` -/
theorem caseA_of_merged (cfg : Cfg) (bound : Option Nat) {k : Iter V} {Oe : Pts V} {target : Int → Option V} {orig : List (Block V)}
    (ci : CurInv cfg bound k Oe target orig) {T2 : Int} {st2 : KSt V} {o : OBlk V} {ms : List (OBlk V)}
    (hmg : st2.merged = o :: ms)
    (inv2 : KInv T2 st2 (Oe ++ outPts st2.merged) target)
    (fact2 : ∀ o ∈ st2.merged, BlockFact cfg.size orig o)
    (same2 : ∀ b ∈ st2.blocks, ∃ b0 ∈ orig, SameStatic b b0) (len2 : LenOK bound st2.blocks.length) :
    NextOK cfg bound k Oe target orig true { k with st := st2 } := by
  left
  refine ⟨rfl, rfl, rfl, o, ms, hmg, fact2 o (by rw [hmg]; simp), ?_⟩
  refine ⟨⟨T2, ?_⟩, ?_, len2, same2, ci.lens, ci.rwf, ci.fresh, ci.cap, ci.above⟩
  · show KInv T2 st2 (Oe ++ o.pts ++ outPts st2.merged.tail) target
    rw [hmg] at inv2 ⊢
    simp only [List.tail_cons]
    have e : Oe ++ o.pts ++ outPts ms = Oe ++ outPts (o :: ms) := by simp
    rw [e]; exact inv2
  · intro x hx
    show BlockFact cfg.size orig x
    have : x ∈ st2.merged.tail := hx
    rw [hmg] at this
    exact fact2 x (by rw [hmg]; exact List.mem_cons_of_mem _ this)

theorem kst_eta (st : KSt V) (h1 : st.blocks = []) (h2 : st.mv = []) (h3 : st.merged = []) :
    st = ⟨[], [], []⟩ := by
  cases st; simp_all

/-- `tsmBatchKeyIterator.Next` -/
theorem next_spec (cfg : Cfg) (bound : Option Nat) (law : SortLaw cfg bound) (hs : 0 < cfg.size) :
    ∀ (fuel : Nat) (k : Iter V) (Oe : Pts V) (target : Int → Option V) (orig : List (Block V)),
      CurInv cfg bound k Oe target orig →
      ∀ more k', Iter.next cfg fuel k = .ok (more, k') → NextOK cfg bound k Oe target orig more k' := by
  intro fuel
  induction fuel with
  | zero => intro k Oe target orig _ more k' h; simp [Iter.next, throw, throwThe, MonadExceptOf.throw] at h
  | succ fuel ih =>
    intro k Oe target orig ci more k' h
    obtain ⟨T, inv⟩ := ci.inv
    unfold Iter.next at h
    simp only [bind, Except.bind, pure, Except.pure] at h
    -- pop
    by_cases hp : (popMerged k.st).merged.length > 0
    · rw [if_pos hp] at h
      simp only [Except.ok.injEq, Prod.mk.injEq] at h
      obtain ⟨rfl, rfl⟩ := h
      -- k.merged = m0 :: o :: ms
      have hpm : popMerged k.st = { k.st with merged := k.st.merged.tail } := by
        unfold popMerged
        split
        · rfl
        · next hn =>
          have : k.st.merged = [] := List.length_eq_zero_iff.mp (by omega)
          cases hst : k.st with
          | mk b m mg => rw [hst] at this; simp at this; subst this; rfl
      have hpt : (popMerged k.st).merged = k.st.merged.tail := by rw [hpm]
      cases hmt : k.st.merged.tail with
      | nil => rw [hpt, hmt] at hp; simp at hp
      | cons o ms =>
        have hmg : (popMerged k.st).merged = o :: ms := by rw [hpt, hmt]
        apply caseA_of_merged cfg bound ci hmg (T2 := T)
        · rw [hmg, ← hmt]
          exact ⟨by simpa using inv.hb, by simpa using inv.hasc, by simpa using inv.hle, by simpa using inv.hc⟩
        · intro x hx
          rw [hmg, ← hmt] at hx
          exact ci.pend x hx
        · simpa using ci.same
        · simpa using ci.len20
    · rw [if_neg hp] at h
      -- nothing pending: Oe is everything written so far
      have hst1 : (popMerged k.st).merged = [] := List.length_eq_zero_iff.mp (by omega)
      have htail : k.st.merged.tail = [] := by
        unfold popMerged at hst1
        split at hst1
        · exact hst1
        · next hn =>
          have : k.st.merged = [] := List.length_eq_zero_iff.mp (by omega)
          rw [this]; rfl
      rw [htail] at inv
      simp only [outPts_nil, List.append_nil] at inv
      have inv1 : KInv T (popMerged k.st) Oe target :=
        ⟨by simpa using inv.hb, by simpa using inv.hasc, by simpa using inv.hle, by simpa using inv.hc⟩
      have len1 : LenOK bound (popMerged k.st).blocks.length := by simpa using ci.len20
      have same1 : ∀ b ∈ (popMerged k.st).blocks, ∃ b0 ∈ orig, SameStatic b b0 := by simpa using ci.same
      generalize popMerged k.st = st1 at h hst1 inv1 len1 same1
      -- merged values pending?
      cases h2 : mergeIf cfg (decide (st1.mv.length > 0)) st1 with
      | error e => rw [h2] at h; simp at h
      | ok st2 =>
      rw [h2] at h
      simp only at h
      obtain ⟨⟨T2, inv2⟩, fact2, same2, len2, emp2, keep2⟩ :=
        mergeIf_phase cfg bound law hs (decide (st1.mv.length > 0)) inv1 hst1 len1 same1 h2
      by_cases hc2 : decide (st1.mv.length > 0) = true ∧ (st2.merged.length > 0 ∨ st2.mv.length > 0)
      · rw [if_pos hc2] at h
        simp only [Except.ok.injEq, Prod.mk.injEq] at h
        obtain ⟨rfl, rfl⟩ := h
        cases hmg : st2.merged with
        | nil =>
          have := emp2 hc2.1 hmg
          rw [hmg, this.1] at hc2
          simp at hc2
        | cons o ms => exact caseA_of_merged cfg bound ci hmg inv2 fact2 same2 len2
      · rw [if_neg hc2] at h
        have hm2 : st2.merged = [] ∧ st2.mv = [] := by
          by_cases hcond : decide (st1.mv.length > 0) = true
          · have : ¬ (st2.merged.length > 0 ∨ st2.mv.length > 0) := fun hx => hc2 ⟨hcond, hx⟩
            exact ⟨List.length_eq_zero_iff.mp (by omega), List.length_eq_zero_iff.mp (by omega)⟩
          · have hcf : decide (st1.mv.length > 0) = false := by simpa using hcond
            rw [keep2 hcf]
            refine ⟨hst1, List.length_eq_zero_iff.mp ?_⟩
            simp only [decide_eq_false_iff_not] at hcf
            omega
        rw [hm2.1] at inv2
        simp only [outPts_nil, List.append_nil] at inv2
        -- blocks left from the last read?
        cases h3 : mergeIf cfg (decide (st2.blocks.length > 0)) st2 with
        | error e => rw [h3] at h; simp at h
        | ok st3 =>
        rw [h3] at h
        simp only at h
        obtain ⟨⟨T3, inv3⟩, fact3, same3, len3, emp3, keep3⟩ :=
          mergeIf_phase cfg bound law hs (decide (st2.blocks.length > 0)) inv2 hm2.1 len2 same2 h3
        by_cases hc3 : decide (st2.blocks.length > 0) = true ∧ (st3.merged.length > 0 ∨ st3.mv.length > 0)
        · rw [if_pos hc3] at h
          simp only [Except.ok.injEq, Prod.mk.injEq] at h
          obtain ⟨rfl, rfl⟩ := h
          cases hmg : st3.merged with
          | nil =>
            have := emp3 hc3.1 hmg
            rw [hmg, this.1] at hc3
            simp at hc3
          | cons o ms => exact caseA_of_merged cfg bound ci hmg inv3 fact3 same3 len3
        · rw [if_neg hc3] at h
          have hm3 : st3.merged = [] ∧ st3.mv = [] ∧ st3.blocks = [] := by
            by_cases hcond : decide (st2.blocks.length > 0) = true
            · have : ¬ (st3.merged.length > 0 ∨ st3.mv.length > 0) := fun hx => hc3 ⟨hcond, hx⟩
              have hmg : st3.merged = [] := List.length_eq_zero_iff.mp (by omega)
              exact ⟨hmg, (emp3 hcond hmg).1, (emp3 hcond hmg).2⟩
            · have hcf : decide (st2.blocks.length > 0) = false := by simpa using hcond
              rw [keep3 hcf]
              refine ⟨hm2.1, hm2.2, List.length_eq_zero_iff.mp ?_⟩
              simp only [decide_eq_false_iff_not] at hcf
              omega
          have hst3 := kst_eta st3 hm3.2.2 hm3.2.1 hm3.1
          subst hst3
          simp only [outPts_nil, List.append_nil] at inv3
          -- the current key is complete
          have ktail : KeyTail cfg.size orig target Oe [] := by
            refine ⟨by simpa using inv3.hasc, ?_, by simp⟩
            intro t
            have := inv3.hc t
            simpa [restAt] using this
          right
          refine ⟨ktail, ?_⟩
          -- read the next key
          cases hl : load k.its k.buf with
          | mk its' r1 =>
          obtain ⟨buf', key', bl⟩ := r1
          rw [hl] at h
          simp only [List.nil_append] at h
          obtain ⟨l1, l2, l3, l4, l5, l6, l7⟩ := load_spec k.its k.buf ci.lens ci.rwf its' buf' key' bl hl
          have hnil' : blocksFor (allRuns its' buf') key' = [] := blocksFor_nil_of_above l7
          by_cases hb0 : bl.length = 0
          · rw [if_pos hb0] at h
            simp only [Except.ok.injEq, Prod.mk.injEq] at h
            obtain ⟨rfl, rfl⟩ := h
            have hbl : bl = [] := List.length_eq_zero_iff.mp hb0
            have hall := l5 hbl
            refine ⟨?_, by simp, ?_⟩
            · intro k''
              right
              refine ⟨?_, Or.inr (fun t => by rw [hall k'']; rfl)⟩
              show blocksFor (allRuns its' buf') k'' = []
              by_cases hk : k'' = key'
              · rw [hk]; exact hnil'
              · rw [l4 k'' hk]; exact hall k''
            · intro _ k''
              show blocksFor (allRuns its' buf') k'' = []
              by_cases hk : k'' = key'
              · rw [hk]; exact hnil'
              · rw [l4 k'' hk]; exact hall k''
          · rw [if_neg hb0] at h
            have hbl : bl ≠ [] := fun h0 => hb0 (by rw [h0]; rfl)
            have hfresh : ∀ b ∈ bl, Fresh b := fun b hb => ci.fresh key' b (by rw [← l3]; exact hb)
            have inv4 := kinv_fresh bl hfresh
            cases h5 : mergeStep cfg (⟨bl, [], []⟩ : KSt V) with
            | error e => rw [h5] at h; simp at h
            | ok st5 =>
            rw [h5] at h
            simp only at h
            have len4 : LenOK bound bl.length := by rw [l3]; exact ci.cap key'
            have so5 := mergeStep_spec cfg inv4 rfl (law _ len4) h5
            obtain ⟨fact5, same5⟩ := stepOut_facts (orig := bl) so5 (fun b hb => ⟨b, hb, SameStatic.refl b⟩)
            obtain ⟨T5, _, inv5⟩ := so5.hex
            simp only [List.nil_append] at inv5
            have len5 : LenOK bound st5.blocks.length := lenOK_mono so5.hlen len4
            have hkey : keyLt k.key key' = true := by
              obtain ⟨f, hf, r, hr, hrk⟩ := l6 hbl
              have := ci.above f hf r hr
              rw [hrk] at this; exact this
            -- facts about the remaining runs
            have hfresh' : ∀ k'', ∀ b ∈ blocksFor (allRuns its' buf') k'', Fresh b := by
              intro k'' b hb
              by_cases hk : k'' = key'
              · rw [hk, hnil'] at hb; simp at hb
              · rw [l4 k'' hk] at hb; exact ci.fresh k'' b hb
            have hcap' : ∀ k'', LenOK bound (blocksFor (allRuns its' buf') k'').length := by
              intro k''
              by_cases hk : k'' = key'
              · rw [hk, hnil']; intro m _; simp
              · rw [l4 k'' hk]; exact ci.cap k''
            by_cases hm5 : st5.merged.length = 0
            · -- the key produced nothing: RETRY
              rw [if_pos hm5] at h
              have hmg5 : st5.merged = [] := List.length_eq_zero_iff.mp hm5
              have he5 := so5.hempty hs hmg5
              have ci5 : CurInv cfg bound ({ its := its', buf := buf', key := key', st := st5 } : Iter V) []
                  (restAt bl) bl := by
                refine ⟨⟨T5, ?_⟩, ?_, len5, same5, l1, l2, hfresh', hcap', l7⟩
                · show KInv T5 st5 ([] ++ outPts st5.merged.tail) (restAt bl)
                  rw [hmg5] at inv5 ⊢
                  simpa using inv5
                · intro o ho
                  have : o ∈ st5.merged.tail := ho
                  rw [hmg5] at this; simp at this
              -- the skipped key has no content
              have hnone : ∀ t, restAt bl t = none := by
                intro t
                rw [hmg5] at inv5
                have := inv5.hc t
                rw [he5.1, he5.2] at this
                simpa [restAt] using this
              have res := ih _ [] (restAt bl) bl ci5 more k' h
              rcases res with ⟨hmore, hk', hR', o, ms, hmg, hfact, hci⟩ | ⟨_, mv⟩
              · -- continues with the same (new) key
                simp only at hk' hR'
                refine ⟨?_, ?_, by simp [hmore]⟩
                · intro k''
                  rw [hR']
                  by_cases hk : k'' = key'
                  · right
                    rw [hk]
                    exact ⟨hnil', Or.inl ⟨hmore, hk'.symm⟩⟩
                  · left; exact l4 k'' hk
                · intro _
                  rw [hk', ← l3]
                  refine ⟨hkey, o, ms, hmg, hfact, ?_⟩
                  simpa using hci
              · -- moved on past further keys
                refine ⟨?_, ?_, ?_⟩
                · intro k''
                  rcases mv.runs k'' with h1 | ⟨h1, h2⟩
                  · simp only at h1
                    by_cases hk : k'' = key'
                    · right
                      rw [hk] at h1 ⊢
                      rw [hnil'] at h1
                      exact ⟨h1, Or.inr (fun t => by rw [← l3]; exact hnone t)⟩
                    · left; rw [h1]; exact l4 k'' hk
                  · right
                    refine ⟨h1, ?_⟩
                    rcases h2 with h2 | h2
                    · exact Or.inl h2
                    · simp only at h2
                      by_cases hk : k'' = key'
                      · right; intro t; rw [hk, ← l3]; exact hnone t
                      · right; intro t; rw [← l4 k'' hk]; exact h2 t
                · intro hmore
                  obtain ⟨n1, o, ms, n2, n3, n4⟩ := mv.next hmore
                  simp only at n1 n3 n4
                  have hne : k'.key ≠ key' := by
                    intro heq; rw [heq, keyLt_irrefl] at n1; cases n1
                  rw [l4 k'.key hne] at n3 n4
                  exact ⟨keyLt_trans hkey n1, o, ms, n2, n3, n4⟩
                · exact mv.done
            · rw [if_neg hm5] at h
              simp only [Except.ok.injEq, Prod.mk.injEq] at h
              obtain ⟨rfl, rfl⟩ := h
              cases hmg : st5.merged with
              | nil => rw [hmg] at hm5; simp at hm5
              | cons o ms =>
                refine ⟨?_, ?_, by simp⟩
                · intro k''
                  show blocksFor (allRuns its' buf') k'' = _ ∨ _
                  by_cases hk : k'' = key'
                  · right
                    rw [hk]
                    exact ⟨hnil', Or.inl ⟨rfl, rfl⟩⟩
                  · left; exact l4 k'' hk
                · intro _
                  show keyLt k.key key' = true ∧ _
                  rw [← l3]
                  refine ⟨hkey, o, ms, hmg, fact5 o (by rw [hmg]; simp), ?_⟩
                  refine ⟨⟨T5, ?_⟩, ?_, len5, same5, l1, l2, hfresh', hcap', l7⟩
                  · show KInv T5 st5 (o.pts ++ outPts st5.merged.tail) (restAt bl)
                    rw [hmg] at inv5 ⊢
                    simpa using inv5
                  · intro x hx
                    have : x ∈ st5.merged.tail := hx
                    rw [hmg] at this
                    exact fact5 x (by rw [hmg]; exact List.mem_cons_of_mem _ this)


/-! ### the write loop over `Next` / `Read` -/

/-- the blocks written for key `k`, in order -/
def seqOf (k : Key) (seq : List (Key × OBlk V)) : List (OBlk V) :=
  (seq.filter (fun e => decide (e.1 = k))).map (·.2)

theorem seqOf_append (k : Key) (a b : List (Key × OBlk V)) : seqOf k (a ++ b) = seqOf k a ++ seqOf k b := by
  simp [seqOf]

theorem seqOf_map_same (k : Key) (outs : List (OBlk V)) : seqOf k (outs.map (fun o => (k, o))) = outs := by
  induction outs with
  | nil => rfl
  | cons o os ih => simp [seqOf] at ih ⊢; exact ih

theorem seqOf_map_other {k k' : Key} (h : k ≠ k') (outs : List (OBlk V)) :
    seqOf k' (outs.map (fun o => (k, o))) = [] := by
  induction outs with
  | nil => rfl
  | cons o os ih => simp [seqOf, h] at ih ⊢

theorem seqOf_nil_of_ne {k : Key} {seq : List (Key × OBlk V)} (h : ∀ e ∈ seq, e.1 ≠ k) : seqOf k seq = [] := by
  simp only [seqOf, List.map_eq_nil_iff, List.filter_eq_nil_iff, decide_eq_true_eq]
  exact h

/-- keys never decrease along the sequence -/
def KeysSorted (seq : List (Key × OBlk V)) : Prop := seq.Pairwise (fun a b => keyLt b.1 a.1 = false)

/-- what follows the current key: keys above `key`, sorted, every key with its newest-wins content -/
structure RestOK (cfg : Cfg) (R : List (FileRuns V)) (key : Key) (rest : List (Key × OBlk V)) : Prop where
  above : ∀ e ∈ rest, keyLt key e.1 = true
  sorted : KeysSorted rest
  keys : ∀ k', KeyTail cfg.size (blocksFor R k') (restAt (blocksFor R k')) [] (seqOf k' rest)

theorem keyTail_none {size : Nat} {orig : List (Block V)} {target : Int → Option V}
    (h : ∀ t, target t = none) : KeyTail size orig target [] [] :=
  ⟨by simpa using asc_nil, fun t => by simpa using h t, by simp⟩

theorem keyTail_outs_nil {size : Nat} {orig : List (Block V)} {target : Int → Option V} {outs : List (OBlk V)}
    (kt : KeyTail size orig target [] outs) (h : ∀ t, target t = none) : outs = [] := by
  cases outs with
  | nil => rfl
  | cons o os =>
    exfalso
    obtain ⟨a, _, ha, _⟩ := (kt.blocks o (by simp)).1
    have hmem : a ∈ [] ++ outPts (o :: os) := by
      simp only [List.nil_append, outPts_cons]
      exact List.mem_append_left _ (List.mem_of_head? ha)
    have := lookup_of_mem_asc kt.asc hmem
    rw [← kt.content a.1, h a.1] at this
    cases this

theorem runIter_spec (cfg : Cfg) (bound : Option Nat) (law : SortLaw cfg bound) (hs : 0 < cfg.size) (rf : Nat) :
    ∀ (n : Nat) (k : Iter V) (Oe : Pts V) (target : Int → Option V) (orig : List (Block V)),
      CurInv cfg bound k Oe target orig →
      ∀ seq, runIter cfg rf n k = .ok seq →
        ∃ outs rest, seq = outs.map (fun o => (k.key, o)) ++ rest ∧
          KeyTail cfg.size orig target Oe outs ∧ RestOK cfg (allRuns k.its k.buf) k.key rest := by
  intro n
  induction n with
  | zero => intro k Oe target orig _ seq h; simp [runIter, throw, throwThe, MonadExceptOf.throw] at h
  | succ n ih =>
    intro k Oe target orig ci seq h
    unfold runIter at h
    simp only [bind, Except.bind, pure, Except.pure] at h
    cases hn : Iter.next cfg rf k with
    | error e => rw [hn] at h; simp at h
    | ok r =>
    obtain ⟨more, k'⟩ := r
    rw [hn] at h
    simp only at h
    have nx := next_spec cfg bound law hs rf k Oe target orig ci more k' hn
    cases more with
    | false =>
      simp only [Bool.not_false, if_true, Except.ok.injEq] at h
      subst h
      rcases nx with ⟨hm, _⟩ | ⟨kt, mv⟩
      · cases hm
      · refine ⟨[], [], rfl, kt, by simp, List.Pairwise.nil, ?_⟩
        intro k''
        apply keyTail_none
        intro t
        rcases mv.runs k'' with h1 | ⟨_, h2⟩
        · rw [← h1, mv.done rfl k'']; rfl
        · rcases h2 with ⟨hf, _⟩ | h2
          · cases hf
          · exact h2 t
    | true =>
      simp only [Bool.not_true, Bool.false_eq_true, if_false] at h
      cases hr : runIter cfg rf n k' with
      | error e => rw [hr] at h; simp at h
      | ok rest' =>
      rw [hr] at h
      simp only at h
      rcases nx with ⟨_, hk', hR', o, ms, hmg, hfact, hci⟩ | ⟨kt, mv⟩
      · -- same key
        rw [hmg] at h
        simp only [Except.ok.injEq] at h
        subst h
        obtain ⟨outs', rest'', e1, kt', ro'⟩ := ih k' (Oe ++ o.pts) target orig hci rest' hr
        rw [hk'] at e1
        rw [hk', hR'] at ro'
        refine ⟨o :: outs', rest'', by rw [hk', e1]; simp, ?_, ro'⟩
        refine ⟨?_, ?_, ?_⟩
        · have := kt'.asc; simpa using this
        · intro t; have := kt'.content t; simpa using this
        · intro x hx
          rcases List.mem_cons.mp hx with rfl | hx2
          · exact hfact
          · exact kt'.blocks x hx2
      · -- a new key
        obtain ⟨hlt, o, ms, hmg, hfact, hci⟩ := mv.next rfl
        rw [hmg] at h
        simp only [Except.ok.injEq] at h
        subst h
        obtain ⟨outs', rest'', e1, kt', ro'⟩ := ih k' o.pts _ _ hci rest' hr
        refine ⟨[], (k'.key, o) :: rest', by simp, kt, ?_⟩
        have hab : ∀ e ∈ rest', keyLt k'.key e.1 = true ∨ e.1 = k'.key := by
          intro e he
          rw [e1] at he
          rcases List.mem_append.mp he with h1 | h1
          · simp only [List.mem_map] at h1
            obtain ⟨x, _, rfl⟩ := h1
            exact Or.inr rfl
          · exact Or.inl (ro'.above e h1)
        refine ⟨?_, ?_, ?_⟩
        · intro e he
          rcases List.mem_cons.mp he with rfl | he2
          · exact hlt
          · rcases hab e he2 with h1 | h1
            · exact keyLt_trans hlt h1
            · rw [h1]; exact hlt
        · refine List.pairwise_cons.mpr ⟨?_, ?_⟩
          · intro e he
            rcases hab e he with h1 | h1
            · exact keyLt_asymm h1
            · rw [h1]; exact keyLt_irrefl _
          · rw [e1]
            refine List.pairwise_append.mpr ⟨?_, ro'.sorted, ?_⟩
            · rw [List.pairwise_map]
              exact List.pairwise_of_forall (fun _ _ => keyLt_irrefl _)
            · intro a ha b hb
              simp only [List.mem_map] at ha
              obtain ⟨x, _, rfl⟩ := ha
              exact keyLt_asymm (ro'.above b hb)
        · intro k''
          by_cases hk : k'' = k'.key
          · -- the new current key
            rw [hk]
            have hs1 : seqOf k'.key ((k'.key, o) :: rest') = o :: outs' := by
              rw [e1]
              have h0 : seqOf k'.key rest'' = [] := seqOf_nil_of_ne (fun e he heq => by
                have := ro'.above e he; rw [heq, keyLt_irrefl] at this; cases this)
              have : (k'.key, o) :: (outs'.map (fun o => (k'.key, o)) ++ rest'') =
                  ((o :: outs').map (fun o => (k'.key, o))) ++ rest'' := by simp
              rw [this, seqOf_append, seqOf_map_same, h0, List.append_nil]
            rw [hs1]
            refine ⟨?_, ?_, ?_⟩
            · have := kt'.asc; simpa using this
            · intro t; have := kt'.content t; simpa using this
            · intro x hx
              rcases List.mem_cons.mp hx with rfl | hx2
              · exact hfact
              · exact kt'.blocks x hx2
          · -- any other key: nothing of it in the current key's output
            have hs1 : seqOf k'' ((k'.key, o) :: rest') = seqOf k'' rest'' := by
              rw [e1]
              have : (k'.key, o) :: (outs'.map (fun o => (k'.key, o)) ++ rest'') =
                  ((o :: outs').map (fun o => (k'.key, o))) ++ rest'' := by simp
              rw [this, seqOf_append, seqOf_map_other (fun h => hk h.symm), List.nil_append]
            rw [hs1]
            have hk'' := ro'.keys k''
            rcases mv.runs k'' with h1 | ⟨h1, h2⟩
            · rw [h1] at hk''; exact hk''
            · rw [h1] at hk''
              have hnil : seqOf k'' rest'' = [] := keyTail_outs_nil hk'' (fun t => rfl)
              rw [hnil]
              rcases h2 with ⟨_, h2⟩ | h2
              · exact absurd h2 hk
              · exact keyTail_none h2


/-! ### a whole compaction -/

/-- the input files as the readers present them: per file ascending non-empty keys,
    fresh well-formed blocks, and at most 20 blocks per key over all files
    (so that `sort.Stable` stays an insertion sort) -/
structure FilesOK (bound : Option Nat) (files : List (FileRuns V)) : Prop where
  rwf : ∀ f ∈ files, RunsWF f
  fresh : ∀ k, ∀ b ∈ blocksFor files k, Fresh b
  cap : ∀ k, LenOK bound (blocksFor files k).length

theorem allRuns_init (files : List (FileRuns V)) :
    allRuns files (files.map (fun _ => (([] : Key), ([] : List (Block V))))) = files := by
  induction files with
  | nil => rfl
  | cons f fs ih => simp [allRuns, runsOf, ih]

/-- **the compaction iterator**: the written sequence has ascending keys and holds, for
    every key, exactly the newest-wins content of that key's blocks (minus tombstones). -/
theorem compactSeq_spec (cfg : Cfg) (bound : Option Nat) (law : SortLaw cfg bound) (hs : 0 < cfg.size)
    (files : List (FileRuns V)) (ok : FilesOK bound files)
    (seq : List (Key × OBlk V)) (h : compactSeq cfg files = .ok seq) :
    RestOK cfg files [] seq := by
  unfold compactSeq at h
  have hR : allRuns (Iter.init files).its (Iter.init files).buf = files := allRuns_init files
  have ci : CurInv cfg bound (Iter.init files) [] (fun _ => none) [] := by
    refine ⟨⟨0, ?_⟩, by simp [Iter.init], by intro m _; simp [Iter.init], by simp [Iter.init], by simp [Iter.init],
      ?_, ?_, ?_, ?_⟩
    · refine ⟨by simp [Iter.init], by simpa [Iter.init] using asc_nil, by simp [Iter.init], ?_⟩
      intro t; simp [Iter.init, restAt]
    · rw [hR]; exact ok.rwf
    · rw [hR]; exact ok.fresh
    · rw [hR]; exact ok.cap
    · rw [hR]
      show ∀ f ∈ files, ∀ r ∈ f, keyLt [] r.1 = true
      intro f hf r hr
      have := ((ok.rwf f hf).2 r hr).1
      cases hk : r.1 with
      | nil => exact absurd hk this
      | cons a as => rfl
  obtain ⟨outs, rest, e1, kt, ro⟩ := runIter_spec cfg bound law hs _ _ (Iter.init files) [] _ [] ci seq h
  have : outs = [] := keyTail_outs_nil kt (fun _ => rfl)
  subst this
  simp only [List.map_nil, List.nil_append] at e1
  subst e1
  rw [hR] at ro
  exact ro


/-! ### the two sorts -/

/-- the code's `sort.Stable(k.blocks)` is good for at most 20 blocks per key -/
theorem stableLaw (size : Nat) (fast : Bool) : SortLaw { size := size, fast := fast } (some 20) := by
  intro V l hl hw
  exact stable_spec l hw (hl 20 rfl)

/-- the same iterator with an insertion sort in place of `sort.Stable` -/
def insertionCfg (size : Nat) (fast : Bool) : Cfg :=
  { size := size, fast := fast, sort := fun _ => Sort.insertionSort blkLess }

/-- an insertion sort over `blocks.Less` is good for any number of blocks -/
theorem insertionLaw (size : Nat) (fast : Bool) : SortLaw (insertionCfg size fast) none := by
  intro V l _ hw
  obtain ⟨r1, r2, r3, r4⟩ := insertionSortAux_spec l [] (by simp) hw trivial
  show AdjOK (Sort.insertionSort blkLess l) ∧ (∀ t, restAt (Sort.insertionSort blkLess l) t = restAt l t) ∧
    (∀ b, b ∈ Sort.insertionSort blkLess l ↔ b ∈ l) ∧ (Sort.insertionSort blkLess l).length = l.length
  unfold Sort.insertionSort
  exact ⟨r1, by simpa using r2, by simpa using r3, by simpa using r4⟩

end Influx.Model.Compact
