/-
  Lemmas.KCLive — a file's live points (Spec.C06: written and not in a deleted range) are
  exactly the live points of its locations; the locations are well-formed blocks.
-/
import Influx.Lemmas.KCFiles

namespace Influx.KC
open Influx.Generated.KeyCursor Influx.Spec.C06

/-- what `fileOK` says -/
structure FileWF (f : FileSpec) : Prop where
  ne : ∀ b ∈ f.blocks, b ≠ []
  sorted : f.blocks.flatten.Pairwise (· < ·)
  range : ∀ ts ∈ f.blocks.flatten, minI64 ≤ ts ∧ ts ≤ maxI64

theorem fileWF_of_ok {f : FileSpec} (h : fileOK f = true) : FileWF f := by
  simp only [fileOK, Bool.and_eq_true, List.all_eq_true, decide_eq_true_eq] at h
  refine { ne := ?_, sorted := sortedInts_pairwise _ h.1.2, range := h.2 }
  intro b hb e
  have := h.1.1 b hb
  simp [e] at this

theorem FileWF.block_sorted {f : FileSpec} (w : FileWF f) {b : List Int} (hb : b ∈ f.blocks) : b.Pairwise (· < ·) :=
  (List.pairwise_flatten.1 w.sorted).1 b hb

theorem FileWF.mem_flatten {f : FileSpec} {b : List Int} (hb : b ∈ f.blocks) {ts : Int} (h : ts ∈ b) :
    ts ∈ f.blocks.flatten := List.mem_flatten.2 ⟨b, hb, h⟩

/-- a block's timestamps lie between its entry's bounds -/
theorem entry_bounds {b : List Int} (hs : b.Pairwise (· < ·)) (hne : b ≠ []) :
    (entryOfInts b).MinTime ∈ b ∧ (entryOfInts b).MaxTime ∈ b ∧
    ∀ ts ∈ b, (entryOfInts b).MinTime ≤ ts ∧ ts ≤ (entryOfInts b).MaxTime := by
  obtain ⟨a, ha⟩ : ∃ a, b.head? = some a := by
    cases b with
    | nil => exact absurd rfl hne
    | cons a _ => exact ⟨a, rfl⟩
  obtain ⟨z, hz⟩ : ∃ z, b.getLast? = some z := by
    cases hl : b.getLast? with
    | none => exact absurd (List.getLast?_eq_none_iff.1 hl) hne
    | some z => exact ⟨z, rfl⟩
  simp only [entryOfInts, ha, hz, Option.getD_some]
  refine ⟨List.mem_of_head? ha, List.mem_of_getLast? hz, ?_⟩
  intro ts hts
  exact ⟨head_le_of_sorted hs ha ts hts, le_last_of_sorted hs hz ts hts⟩

/-- the entries of file `fi` as written -/
def entriesOf (fi : Nat) (f : FileSpec) : List (IndexEntry × Vals Nat) :=
  f.blocks.map fun b => (entryOfInts b, tag fi b)

theorem fileState_eq {f : FileSpec} (w : FileWF f) (fi : Nat) :
    fileState fi f = some (f.deletes.foldl applyDelete { entries := entriesOf fi f, tombs := [] }) := by
  unfold fileState mkFile
  have : (f.blocks.map fun b => b.map fun ts => (ts, fi)) = f.blocks.map (tag fi) := rfl
  rw [this, mkEntries_tag fi f.blocks w.ne]
  rfl

/-- first entry's MinTime and last entry's MaxTime bound every timestamp of the file -/
theorem key_bounds {f : FileSpec} (w : FileWF f) {fi : Nat} {first last : IndexEntry × Vals Nat}
    (hf : (entriesOf fi f).head? = some first) (hl : (entriesOf fi f).getLast? = some last) :
    (∀ ts ∈ f.blocks.flatten, first.1.MinTime ≤ ts ∧ ts ≤ last.1.MaxTime) ∧
    minI64 ≤ first.1.MinTime ∧ first.1.MinTime ≤ last.1.MaxTime ∧ last.1.MaxTime ≤ maxI64 := by
  unfold entriesOf at hf hl
  rw [List.head?_map] at hf
  rw [List.getLast?_map] at hl
  cases hb0 : f.blocks.head? with
  | none => rw [hb0] at hf; cases hf
  | some b0 =>
    cases hbl : f.blocks.getLast? with
    | none => rw [hbl] at hl; cases hl
    | some bl =>
      rw [hb0] at hf; rw [hbl] at hl
      simp at hf hl
      subst hf hl
      simp only
      have hb0m : b0 ∈ f.blocks := List.mem_of_head? hb0
      have hblm : bl ∈ f.blocks := List.mem_of_getLast? hbl
      obtain ⟨m0, _, _⟩ := entry_bounds (w.block_sorted hb0m) (w.ne b0 hb0m)
      obtain ⟨_, ml, _⟩ := entry_bounds (w.block_sorted hblm) (w.ne bl hblm)
      -- head / last of the flattened list
      have hh : f.blocks.flatten.head? = some (entryOfInts b0).MinTime := by
        obtain ⟨rest, hr⟩ := List.head?_eq_some_iff.1 hb0
        rw [hr, List.flatten_cons]
        cases b0 with
        | nil => exact absurd rfl (w.ne [] hb0m)
        | cons a as => simp [entryOfInts]
      have hlst : f.blocks.flatten.getLast? = some (entryOfInts bl).MaxTime := by
        obtain ⟨ys, hr⟩ := List.getLast?_eq_some_iff.1 hbl
        rw [hr, List.flatten_append, List.getLast?_append]
        simp only [List.flatten_cons, List.flatten_nil, List.append_nil]
        cases hz : bl.getLast? with
        | none => exact absurd (List.getLast?_eq_none_iff.1 hz) (w.ne bl hblm)
        | some z => simp [entryOfInts, hz]
      have hall : ∀ ts ∈ f.blocks.flatten, (entryOfInts b0).MinTime ≤ ts ∧ ts ≤ (entryOfInts bl).MaxTime :=
        fun ts hts => ⟨head_le_of_sorted w.sorted hh ts hts, le_last_of_sorted w.sorted hlst ts hts⟩
      refine ⟨hall, ?_⟩
      have h1 := w.range _ (FileWF.mem_flatten hb0m m0)
      have h2 := w.range _ (FileWF.mem_flatten hblm ml)
      have h3 := hall _ (FileWF.mem_flatten hb0m m0)
      omega

theorem deleted_iff {f : FileSpec} {ts : Int} : f.deleted ts = true ↔ requested f.deletes ts := by
  unfold FileSpec.deleted requested
  simp [List.any_eq_true]

theorem holds_iff {f : FileSpec} {ts : Int} : f.holds ts = true ↔ ∃ b ∈ f.blocks, ts ∈ b := by
  unfold FileSpec.holds
  simp [List.any_eq_true]

/-- the state of file `fi` after its deletes, with the invariant of Lemmas.KCDelete -/
theorem fileState_inv {f : FileSpec} (w : FileWF f) (fi : Nat) {st : FileState Nat}
    (hst : fileState fi f = some st) :
    (f.blocks = [] ∧ st.entries = []) ∨
    ∃ first last, (entriesOf fi f).head? = some first ∧ (entriesOf fi f).getLast? = some last ∧
      DelInv (entriesOf fi f) first.1.MinTime last.1.MaxTime f.deletes st := by
  rw [fileState_eq w fi] at hst
  cases hst
  cases hE : (entriesOf fi f).head? with
  | none =>
    left
    have he : entriesOf fi f = [] := List.head?_eq_none_iff.1 hE
    refine ⟨?_, ?_⟩
    · unfold entriesOf at he; simpa using he
    · rw [foldl_applyDelete_nil _ _ (by simpa using he)]; exact he
  | some first =>
    right
    cases hL : (entriesOf fi f).getLast? with
    | none =>
      have := List.getLast?_eq_none_iff.1 hL
      rw [this] at hE; cases hE
    | some last =>
      refine ⟨first, last, rfl, rfl, ?_⟩
      have h64 := (key_bounds w hE hL).2
      have inv0 : DelInv (entriesOf fi f) first.1.MinTime last.1.MaxTime []
          ({ entries := entriesOf fi f, tombs := [] } : FileState Nat) :=
        { ent := Or.inl rfl, sub := by intro tr h; cases h
          alive := by intro _ x _ _ h; obtain ⟨d, hd, _⟩ := h; cases hd
          dead := by
            intro e
            simp only at e
            rw [e] at hE; cases hE }
      have := foldl_applyDelete_inv hE hL h64 f.deletes [] _ inv0
      simpa using this

/-- the entries of a state are entries as written -/
theorem entry_of_state {f : FileSpec} (w : FileWF f) (fi : Nat) {st : FileState Nat}
    (hst : fileState fi f = some st) {bi : Nat} {e : IndexEntry} {vals : Vals Nat}
    (h : st.entries[bi]? = some (e, vals)) :
    st.entries = entriesOf fi f ∧ ∃ b, f.blocks[bi]? = some b ∧ e = entryOfInts b ∧ vals = tag fi b := by
  rcases fileState_inv w fi hst with ⟨_, he⟩ | ⟨first, last, _, _, inv⟩
  · rw [he] at h; simp at h
  · rcases inv.ent with he | he
    · refine ⟨he, ?_⟩
      rw [he] at h
      unfold entriesOf at h
      rw [List.getElem?_map] at h
      cases hb : f.blocks[bi]? with
      | none => rw [hb] at h; cases h
      | some b =>
        rw [hb] at h
        simp at h
        exact ⟨b, rfl, h.1.symm, h.2.symm⟩
    · rw [he] at h; simp at h

/-- locations of well-formed files are well-formed blocks whose payload is the file index -/
theorem location_wf {f : FileSpec} (w : FileWF f) (fi : Nat) {st : FileState Nat}
    (hst : fileState fi f = some st) {bi : Nat} {e : IndexEntry} {vals : Vals Nat}
    (h : st.entries[bi]? = some (e, vals)) :
    BlockWF ({ file := fi, blk := bi, entry := e, vals := vals, tombs := st.tombs } : Block Nat) ∧
    ∀ p ∈ vals, p.2 = fi := by
  obtain ⟨_, b, hb, rfl, rfl⟩ := entry_of_state w fi hst h
  have hbm : b ∈ f.blocks := List.mem_of_getElem? hb
  obtain ⟨m0, ml, hall⟩ := entry_bounds (w.block_sorted hbm) (w.ne b hbm)
  refine ⟨{ sorted := sortedV_tag (w.block_sorted hbm), inEntry := ?_, lo := ?_, hi := ?_ }, ?_⟩
  · intro p hp
    exact hall p.1 (mem_tag.1 hp).1
  · exact (w.range _ (FileWF.mem_flatten hbm m0)).1
  · exact (w.range _ (FileWF.mem_flatten hbm ml)).2
  · intro p hp; exact (mem_tag.1 hp).2

/-- a live point of the file (at or after / at or before the seek time) is a live point of one
    of the file's locations -/
theorem live_to_location {f : FileSpec} (w : FileWF f) (fi : Nat) {st : FileState Nat}
    (hst : fileState fi f = some st) (t : Int) (asc : Bool) {ts : Int}
    (hlive : f.live ts = true) (hdir : if asc then t ≤ ts else ts ≤ t) :
    ∃ bi e vals, st.entries[bi]? = some (e, vals) ∧ keepEntry st.tombs t asc e = true ∧
      (ts, fi) ∈ live ({ file := fi, blk := bi, entry := e, vals := vals, tombs := st.tombs } : Block Nat) := by
  simp only [FileSpec.live, Bool.and_eq_true, Bool.not_eq_true'] at hlive
  obtain ⟨hh, hd⟩ := hlive
  obtain ⟨b, hbm, htsb⟩ := holds_iff.1 hh
  have hnd : ¬ requested f.deletes ts := by
    intro h; rw [deleted_iff.2 h] at hd; cases hd
  have hflat : ts ∈ f.blocks.flatten := FileWF.mem_flatten hbm htsb
  rcases fileState_inv w fi hst with ⟨hb0, _⟩ | ⟨first, last, hf, hl, inv⟩
  · rw [hb0] at hbm; cases hbm
  · obtain ⟨hbounds, _⟩ := key_bounds w hf hl
    obtain ⟨k1, k2⟩ := hbounds ts hflat
    have hent : st.entries = entriesOf fi f := by
      rcases inv.ent with he | he
      · exact he
      · exact absurd (inv.dead he ts k1 k2) hnd
    obtain ⟨bi, hbi⟩ := List.mem_iff_getElem?.1 hbm
    have hget : st.entries[bi]? = some (entryOfInts b, tag fi b) := by
      rw [hent]; unfold entriesOf; rw [List.getElem?_map, hbi]; rfl
    obtain ⟨_, _, hall⟩ := entry_bounds (w.block_sorted hbm) (w.ne b hbm)
    obtain ⟨e1, e2⟩ := hall ts htsb
    have hncov : ¬ covered st.tombs ts := by
      rintro ⟨tr, htr, h1, h2⟩
      exact hnd ⟨tr, inv.sub tr htr, h1, h2⟩
    refine ⟨bi, entryOfInts b, tag fi b, hget, ?_, ?_⟩
    · unfold keepEntry
      simp only [Bool.and_eq_true, Bool.not_eq_true', List.any_eq_false, Bool.and_eq_false_iff,
        decide_eq_false_iff_not]
      constructor
      · intro tr htr
        rintro ⟨h1, h2⟩
        have h1' := of_decide_eq_true h1
        have h2' := of_decide_eq_true h2
        exact hncov ⟨tr, htr, by omega, by omega⟩
      · cases asc
        · simp only [Bool.false_eq_true, if_false] at hdir ⊢
          simp; omega
        · simp only [if_true] at hdir ⊢
          simp; omega
    · rw [mem_live]
      exact ⟨mem_tag.2 ⟨htsb, rfl⟩, hncov⟩

/-- and conversely -/
theorem location_to_live {f : FileSpec} (w : FileWF f) (fi : Nat) {st : FileState Nat}
    (hst : fileState fi f = some st) {bi : Nat} {e : IndexEntry} {vals : Vals Nat}
    (h : st.entries[bi]? = some (e, vals)) {p : Int × Nat}
    (hp : p ∈ live ({ file := fi, blk := bi, entry := e, vals := vals, tombs := st.tombs } : Block Nat)) :
    f.live p.1 = true ∧ p.2 = fi := by
  obtain ⟨hent, b, hb, rfl, rfl⟩ := entry_of_state w fi hst h
  have hbm : b ∈ f.blocks := List.mem_of_getElem? hb
  obtain ⟨hpv, hncov⟩ := mem_live.1 hp
  simp only at hpv hncov
  obtain ⟨hpb, hp2⟩ := mem_tag.1 hpv
  refine ⟨?_, hp2⟩
  simp only [FileSpec.live, Bool.and_eq_true, Bool.not_eq_true']
  refine ⟨holds_iff.2 ⟨b, hbm, hpb⟩, ?_⟩
  cases hd : f.deleted p.1 with
  | false => rfl
  | true =>
    exfalso
    have hreq := deleted_iff.1 hd
    rcases fileState_inv w fi hst with ⟨hb0, _⟩ | ⟨first, last, hf, hl, inv⟩
    · rw [hb0] at hbm; cases hbm
    · obtain ⟨hbounds, _⟩ := key_bounds w hf hl
      obtain ⟨k1, k2⟩ := hbounds p.1 (FileWF.mem_flatten hbm hpb)
      exact hncov (inv.alive hent p.1 k1 k2 hreq)

end Influx.KC
