/-
  Lemmas.MetaMap — `sgList` finds every covered timestamp; `MapShards` drops exactly the
  points older than its lower bound (on well-formed data, in-range timestamps).
-/
import Influx.Lemmas.MetaCreate

namespace Influx.Meta
open Influx.Generated.Meta

/-- invariant of the `sgList` built by `MapShards` for policy `(db, rp)` of `d` -/
structure SgOK (d : Data) (db rp : String) (l : SgList) : Prop where
  items : ∀ g ∈ l.items, InRP d db rp g ∧ g.DeletedAt = zeroTime ∧ WFGroup g
  empty : l.items = [] → l.earliest = zeroTime ∧ l.latest = zeroTime
  early : l.items ≠ [] → MinNanoTime ≤ l.earliest ∧ ∀ g ∈ l.items, l.earliest ≤ g.StartTime
  late : l.items ≠ [] → MinNanoTime < l.latest ∧ ∀ g ∈ l.items, g.EndTime ≤ l.latest

theorem SgOK.empty_ok (d : Data) (db rp : String) : SgOK d db rp SgList.empty :=
  ⟨by simp [SgList.empty], fun _ => ⟨rfl, rfl⟩, by simp [SgList.empty], by simp [SgList.empty]⟩

theorem SgOK.mono {d d' : Data} {db rp : String} {l : SgList} (h : SgOK d db rp l) (hm : Mono d d') :
    SgOK d' db rp l :=
  ⟨fun g hg => ⟨(h.items g hg).1.mono hm, (h.items g hg).2⟩, h.empty, h.early, h.late⟩

theorem minNano_ne_zero : MinNanoTime ≠ zeroTime := by unfold MinNanoTime zeroTime; omega

theorem SgOK.add {d : Data} {db rp : String} {l : SgList} (h : SgOK d db rp l) {g : ShardGroupInfo}
    (hin : InRP d db rp g) (hlive : g.DeletedAt = zeroTime) (hw : WFGroup g) : SgOK d db rp (l.add g) := by
  have hlo := hw.lo
  have hne := hw.ne
  refine ⟨?_, ?_, ?_, ?_⟩
  · intro x hx
    simp only [SgList.add, List.mem_append, List.mem_singleton] at hx
    rcases hx with hx | rfl
    · exact h.items x hx
    · exact ⟨hin, hlive, hw⟩
  · intro he; simp [SgList.add] at he
  · intro _
    by_cases hemp : l.items = []
    · have := h.empty hemp
      simp only [SgList.add, this.1, hemp, List.nil_append, List.mem_singleton, forall_eq]
      simp [Time.IsZero, hlo]
    · have he := h.early hemp
      have hz : Time.IsZero l.earliest = false := by
        simp only [isZero_false_iff]; unfold MinNanoTime zeroTime at *; omega
      simp only [SgList.add, hz, Bool.false_or, after_iff, List.mem_append, List.mem_singleton]
      split
      · refine ⟨hlo, ?_⟩
        rintro x (hx | rfl)
        · have := he.2 x hx; omega
        · omega
      · refine ⟨he.1, ?_⟩
        rintro x (hx | rfl)
        · exact he.2 x hx
        · omega
  · intro _
    by_cases hemp : l.items = []
    · have := h.empty hemp
      simp only [SgList.add, this.2, hemp, List.nil_append, List.mem_singleton, forall_eq]
      simp [Time.IsZero]; omega
    · have he := h.late hemp
      have hz : Time.IsZero l.latest = false := by
        simp only [isZero_false_iff]; unfold MinNanoTime zeroTime at *; omega
      simp only [SgList.add, hz, Bool.false_or, before_iff, List.mem_append, List.mem_singleton]
      split
      · refine ⟨by omega, ?_⟩
        rintro x (hx | rfl)
        · have := he.2 x hx; omega
        · omega
      · refine ⟨he.1, ?_⟩
        rintro x (hx | rfl)
        · exact he.2 x hx
        · omega

/-- `ShardGroupAt` keeps the list (sorted) with the same bounds -/
theorem shardGroupAt_fst (l : SgList) (t : Int) :
    (l.shardGroupAt t).1.earliest = l.earliest ∧ (l.shardGroupAt t).1.latest = l.latest ∧
    ∀ g, g ∈ (l.shardGroupAt t).1.items ↔ g ∈ l.items := by
  unfold SgList.shardGroupAt
  split
  · simp
  · simp only
    split
    · simp [mem_sgSort]
    · split <;> simp [mem_sgSort]

theorem SgOK.at {d : Data} {db rp : String} {l : SgList} (h : SgOK d db rp l) (t : Int) :
    SgOK d db rp (l.shardGroupAt t).1 := by
  obtain ⟨h1, h2, h3⟩ := shardGroupAt_fst l t
  have hne : (l.shardGroupAt t).1.items = [] ↔ l.items = [] := by
    constructor
    · intro he; apply List.eq_nil_iff_forall_not_mem.mpr; intro g hg; have := (h3 g).mpr hg; rw [he] at this; simp at this
    · intro he; apply List.eq_nil_iff_forall_not_mem.mpr; intro g hg; have := (h3 g).mp hg; rw [he] at this; simp at this
  refine ⟨fun g hg => h.items g ((h3 g).mp hg), ?_, ?_, ?_⟩
  · intro he; rw [h1, h2]; exact h.empty (hne.mp he)
  · intro he
    have := h.early (fun hc => he (hne.mpr hc))
    rw [h1]; exact ⟨this.1, fun g hg => this.2 g ((h3 g).mp hg)⟩
  · intro he
    have := h.late (fun hc => he (hne.mpr hc))
    rw [h2]; exact ⟨this.1, fun g hg => this.2 g ((h3 g).mp hg)⟩

/-- **`ShardGroupAt` finds every covered timestamp** -/
theorem shardGroupAt_finds {d : Data} {db rp : String} {l : SgList} (h : SgOK d db rp l) (t : Int)
    (hc : ∃ g ∈ l.items, g.StartTime ≤ t ∧ t < g.EndTime) : ∃ g', (l.shardGroupAt t).2 = some g' := by
  obtain ⟨g, hg, hgt⟩ := hc
  have hne : l.items ≠ [] := by intro he; rw [he] at hg; simp at hg
  have hlen : ¬(l.items.length == 0) = true := by
    simp only [beq_iff_eq]; intro hl; exact hne (List.eq_nil_of_length_eq_zero hl)
  unfold SgList.shardGroupAt
  simp only [hlen, Bool.false_eq_true, ↓reduceIte]
  split
  · next g' _ => exact ⟨g', rfl⟩
  · have he := (h.early hne).2 g hg
    have hl := (h.late hne).2 g hg
    have hb : (Time.Before t l.earliest || Time.After t l.latest) = false := by
      simp only [Bool.or_eq_false_iff, before_false_iff, after_false_iff]; omega
    simp only [hb, Bool.false_eq_true, ↓reduceIte]
    cases hf : (sgSort l.items).find? (Contains · t) with
    | some g' => exact ⟨g', rfl⟩
    | none =>
      have := List.find?_eq_none.mp hf g (mem_sgSort.mpr hg)
      exact absurd ((contains_iff g t).mpr hgt) (by simpa using this)

/-- result of the first loop of `MapShards` -/
theorem mapCreate_spec (db rp : String) (min : Int) :
    ∀ (ts : List Int) (d : Data) (l : SgList), WF d → SgOK d db rp l → (∀ t ∈ ts, inRange t) →
      WF (mapCreate db rp min d l ts).1 ∧ Mono d (mapCreate db rp min d l ts).1 ∧
      ∀ l', (mapCreate db rp min d l ts).2 = .ok l' →
        SgOK (mapCreate db rp min d l ts).1 db rp l' ∧ (∀ g ∈ l.items, g ∈ l'.items) ∧
        ∀ t ∈ ts, ¬(t < min) → ∃ g ∈ l'.items, g.StartTime ≤ t ∧ t < g.EndTime := by
  intro ts
  induction ts with
  | nil =>
    intro d l hwf hl _
    simp only [mapCreate]
    exact ⟨hwf, Mono.refl d, fun l' h => by cases h; exact ⟨hl, fun _ h => h, by simp⟩⟩
  | cons t ts ih =>
    intro d l hwf hl hts
    have htr : inRange t := hts t (by simp)
    have hts' : ∀ t ∈ ts, inRange t := fun x hx => hts x (by simp [hx])
    simp only [mapCreate]
    by_cases hold : Time.Before t min = true
    · simp only [hold, ↓reduceIte]
      have := ih d l hwf hl hts'
      refine ⟨this.1, this.2.1, fun l' h => ?_⟩
      obtain ⟨h1, h2, h3⟩ := this.2.2 l' h
      refine ⟨h1, h2, ?_⟩
      intro x hx hmin
      rcases List.mem_cons.mp hx with rfl | hx
      · exact absurd ((before_iff _ _).mp hold) hmin
      · exact h3 x hx hmin
    · simp only [hold, Bool.false_eq_true, ↓reduceIte]
      have hcov1 : SgOK d db rp (l.covers t).1 := by
        unfold SgList.covers; split
        · exact hl
        · exact hl.at t
      have hcovmem : ∀ g, g ∈ (l.covers t).1.items ↔ g ∈ l.items := by
        unfold SgList.covers; split
        · intro g; rfl
        · exact (shardGroupAt_fst l t).2.2
      by_cases hcov : (l.covers t).2 = true
      · simp only [hcov, ↓reduceIte]
        have := ih d (l.covers t).1 hwf hcov1 hts'
        refine ⟨this.1, this.2.1, fun l' h => ?_⟩
        obtain ⟨h1, h2, h3⟩ := this.2.2 l' h
        refine ⟨h1, fun g hg => h2 g ((hcovmem g).mpr hg), ?_⟩
        intro x hx hmin
        rcases List.mem_cons.mp hx with rfl | hx
        · -- covered: some item contains it
          unfold SgList.covers at hcov
          split at hcov
          · simp at hcov
          · simp only [Option.isSome_iff_exists] at hcov
            obtain ⟨g, hg⟩ := hcov
            have := shardGroupAt_some l x g hg
            exact ⟨g, h2 g ((hcovmem g).mpr this.1), this.2⟩
        · exact h3 x hx hmin
      · simp only [hcov, Bool.false_eq_true, ↓reduceIte]
        cases hc : clientCreateShardGroup d db rp t with
        | error e => exact ⟨hwf, Mono.refl d, fun l' h => by cases h⟩
        | ok res =>
          obtain ⟨d', og⟩ := res
          obtain ⟨hwf', hm, g, hog, hin, hlive, hgt⟩ := clientCreateShardGroup_spec hwf htr hc
          subst hog
          simp only
          have hwg : WFGroup g := by
            obtain ⟨r, hr, hg⟩ := hin
            exact (getRP_wf hwf' hr).groups g hg
          have hl' : SgOK d' db rp ((l.covers t).1.add g) := (hcov1.mono hm).add hin hlive hwg
          have := ih d' ((l.covers t).1.add g) hwf' hl' hts'
          refine ⟨this.1, hm.trans this.2.1, fun l' h => ?_⟩
          obtain ⟨h1, h2, h3⟩ := this.2.2 l' h
          refine ⟨h1, fun x hx => h2 x (by simp [SgList.add, (hcovmem x).mpr hx]), ?_⟩
          intro x hx hmin
          rcases List.mem_cons.mp hx with rfl | hx
          · exact ⟨g, h2 g (by simp [SgList.add]), hgt⟩
          · exact h3 x hx hmin

/-- **second loop of `MapShards`**: a point is dropped exactly when it is older than `min`
    (given that every younger point is covered by the list) -/
theorem mapPlace_dropped (d : Data) (db rp : String) (min : Int) :
    ∀ (ts : List Int) (l : SgList) (ps : List Placement), SgOK d db rp l →
      (∀ t ∈ ts, ¬(t < min) → ∃ g ∈ l.items, g.StartTime ≤ t ∧ t < g.EndTime) →
      mapPlace min l ts = .ok ps →
      ps.map (· == Placement.dropped) = ts.map (fun t => decide (t < min)) := by
  intro ts
  induction ts with
  | nil => intro l ps _ _ h; simp only [mapPlace, Except.ok.injEq] at h; subst h; rfl
  | cons t ts ih =>
    intro l ps hl hcov h
    have hl' := hl.at t
    have hcov' : ∀ x ∈ ts, ¬(x < min) → ∃ g ∈ (l.shardGroupAt t).1.items, g.StartTime ≤ x ∧ x < g.EndTime := by
      intro x hx hmin
      obtain ⟨g, hg, hgt⟩ := hcov x (by simp [hx]) hmin
      exact ⟨g, ((shardGroupAt_fst l t).2.2 g).mpr hg, hgt⟩
    simp only [mapPlace] at h
    by_cases hold : t < min
    · have hb : Time.Before t min = true := (before_iff _ _).mpr hold
      simp only [hb, ↓reduceIte] at h
      cases hrec : mapPlace min (l.shardGroupAt t).1 ts with
      | error e => simp [hrec, Except.map] at h
      | ok ps' =>
        simp only [hrec, Except.map, Except.ok.injEq] at h
        subst h
        simp [ih _ _ hl' hcov' hrec, hold]
    · have hb : Time.Before t min = false := (before_false_iff _ _).mpr (by omega)
      obtain ⟨g', hg'⟩ := shardGroupAt_finds hl t (hcov t (by simp) hold)
      simp only [hb, Bool.false_eq_true, ↓reduceIte, hg'] at h
      cases hsh : shardFor g' with
      | none => simp [hsh] at h
      | some sh =>
        simp only [hsh] at h
        cases hrec : mapPlace min (l.shardGroupAt t).1 ts with
        | error e => simp [hrec, Except.map] at h
        | ok ps' =>
          simp only [hrec, Except.map, Except.ok.injEq] at h
          subst h
          simp [ih _ _ hl' hcov' hrec, hold]

end Influx.Meta
