/-
  Lemmas.Toml — decimal printing/parsing, the V1 size patterns and the 64-bit
  overflow tests of `Model.Toml`.
-/
import Influx.Model.Toml

namespace Influx.Lemmas.Toml
open Influx.Model.Toml

theorem digitChar_spec : ∀ d, d < 10 → isDigit (digitChar d) = true ∧ digitVal (digitChar d) = d := by decide

theorem fmtNat_all_digits (n : Nat) : (fmtNat n).all isDigit = true := by
  induction n using fmtNat.induct with
  | case1 n h => rw [fmtNat, if_pos h]; simp [(digitChar_spec n h).1]
  | case2 n h ih =>
    rw [fmtNat, if_neg h]
    simp [ih, (digitChar_spec (n % 10) (by omega)).1]

theorem fmtNat_ne_nil (n : Nat) : fmtNat n ≠ [] := by
  rw [fmtNat]; split <;> simp

theorem foldlM_fmtNat (n : Nat) (h : n < 2 ^ 64) : (fmtNat n).foldlM parseUintStep 0 = some n := by
  induction n using fmtNat.induct with
  | case1 n h10 =>
    rw [fmtNat, if_pos h10]
    obtain ⟨h1, h2⟩ := digitChar_spec n h10
    simp [parseUintStep, h1, h2, cutoff10]
    omega
  | case2 n h10 ih =>
    rw [fmtNat, if_neg h10, List.foldlM_append, ih (by omega)]
    obtain ⟨h1, h2⟩ := digitChar_spec (n % 10) (by omega)
    simp [parseUintStep, h1, h2, cutoff10]
    omega

/-- `strconv.ParseUint(strconv.FormatUint(n, 10), 10, 64) = n` for every uint64 -/
theorem parseUint10_fmtNat (n : Nat) (h : n < 2 ^ 64) : parseUint10 (fmtNat n) = some n := by
  unfold parseUint10
  rw [if_neg (by simp [fmtNat_ne_nil]), foldlM_fmtNat n h]

/-- the first character of a decimal numeral is a digit -/
theorem fmtNat_head (n : Nat) : ∃ c rest, fmtNat n = c :: rest ∧ isDigit c = true := by
  have h := fmtNat_all_digits n
  cases hf : fmtNat n with
  | nil => exact absurd hf (fmtNat_ne_nil n)
  | cons c rest =>
    rw [hf] at h
    simp only [List.all_cons, Bool.and_eq_true] at h
    exact ⟨c, rest, rfl, h.1⟩

theorem digit_not_sign (c : UInt8) (h : isDigit c = true) : (c == 43) = false ∧ (c == 45) = false := by
  revert h
  have : ∀ n, n < 256 → isDigit (UInt8.ofNat n) = true →
      ((UInt8.ofNat n) == 43) = false ∧ ((UInt8.ofNat n) == 45) = false := by decide +kernel
  have h2 := this c.toNat c.toNat_lt
  simpa using h2

/-- `strconv.ParseInt(strconv.FormatInt(i, 10), 10, 64) = i` for every int64 -/
theorem parseInt10_fmtInt (i : Int) (h : -(2 ^ 63 : Int) ≤ i ∧ i < 2 ^ 63) : parseInt10 (fmtInt i) = some i := by
  unfold fmtInt
  split
  · next hneg =>
    have hu : (-i).toNat < 2 ^ 64 := by omega
    simp only [parseInt10, beq_self_eq_true, Bool.or_true, if_true, parseUint10_fmtNat _ hu]
    have h1 : ¬ ((-i).toNat > 2 ^ 63) := by omega
    simp [h1]
    omega
  · next hpos =>
    obtain ⟨c, rest, hf, hc⟩ := fmtNat_head i.toNat
    obtain ⟨h43, h45⟩ := digit_not_sign c hc
    have hu : i.toNat < 2 ^ 64 := by omega
    have hp := parseUint10_fmtNat _ hu
    rw [hf] at hp ⊢
    simp only [parseInt10, h43, h45, Bool.or_self, Bool.false_eq_true, if_false, hp]
    have h1 : ¬ (i.toNat ≥ 2 ^ 63) := by omega
    simp [h1]
    omega

theorem takeWhile_append_stop {α} (p : α → Bool) (l r : List α) (hl : l.all p = true)
    (hr : ∀ c, r.head? = some c → p c = false) : (l ++ r).takeWhile p = l ∧ (l ++ r).dropWhile p = r := by
  induction l with
  | nil =>
    cases r with
    | nil => simp
    | cons c r => simp [hr c rfl]
  | cons a l ih =>
    simp only [List.all_cons, Bool.and_eq_true] at hl
    simp [hl.1, ih hl.2]

/-! ### the overflow tests -/

/-- **the unsigned overflow test of `unmarshalSizeV1` is exact**: `result/mult == n` iff `n*mult` fits -/
theorem overflowU_exact (n mult : Nat) (hm : 0 < mult) :
    (wrapU (n * mult) / mult = n) ↔ n * mult < 2 ^ 64 := by
  unfold wrapU
  constructor
  · intro h
    by_cases hlt : n * mult < 2 ^ 64
    · exact hlt
    · exfalso
      have h1 : n * mult % 2 ^ 64 < n * mult := by omega
      have h2 : n * mult % 2 ^ 64 / mult < n := by
        apply (Nat.div_lt_iff_lt_mul hm).mpr; exact h1
      omega
  · intro h
    rw [Nat.mod_eq_of_lt h]
    exact Nat.mul_div_cancel n hm

theorem tdiv_pos (a m : Int) : a.tdiv m = if 0 ≤ a then a / m else -((-a) / m) := by
  split
  · next h => exact Int.tdiv_eq_ediv_of_nonneg h
  · next h =>
    have : a = -(-a) := by omega
    rw [this, Int.neg_tdiv, Int.tdiv_eq_ediv_of_nonneg (by omega)]
    simp

theorem tmod_pos (a m : Int) : a.tmod m = if 0 ≤ a then a % m else -((-a) % m) := by
  rw [Int.tmod_def, tdiv_pos]
  split
  · rw [Int.emod_def]
  · rw [Int.emod_def]; rw [Int.mul_neg]; omega

/-- **the signed overflow test is exact** for the multipliers `unmarshalSizeV1` uses
    (Go's truncating `/` on the two's-complement product) -/
theorem overflowS_exact (n mult : Int) (hn : -(2 ^ 63 : Int) ≤ n ∧ n < 2 ^ 63)
    (hm : mult = 1 ∨ mult = 2 ^ 10 ∨ mult = 2 ^ 20 ∨ mult = 2 ^ 30) :
    ((wrapS (n * mult)).tdiv mult = n) ↔ (-(2 ^ 63 : Int) ≤ n * mult ∧ n * mult < 2 ^ 63) := by
  unfold wrapS
  rw [tdiv_pos]
  rcases hm with rfl | rfl | rfl | rfl <;> (split <;> omega)

theorem bareMult_cases (suf : Option UInt8) :
    bareMult suf = 1 ∨ bareMult suf = 2 ^ 10 ∨ bareMult suf = 2 ^ 20 ∨ bareMult suf = 2 ^ 30 := by
  unfold bareMult
  cases suf with
  | none => simp
  | some c =>
    dsimp only
    repeat' split
    all_goals simp

theorem suffix_facts : isDigit (chr 'g') = false ∧ isDigit (chr 'm') = false ∧ isDigit (chr 'k') = false ∧
    isBareSuffix (chr 'g') = true ∧ isBareSuffix (chr 'm') = true ∧ isBareSuffix (chr 'k') = true ∧
    isReSpace (chr 'g') = false ∧ isReSpace (chr 'm') = false ∧ isReSpace (chr 'k') = false ∧
    bareMult (some (chr 'g')) = 2 ^ 30 ∧ bareMult (some (chr 'm')) = 2 ^ 20 ∧ bareMult (some (chr 'k')) = 2 ^ 10 := by decide

/-! ### SizeV1 -/

theorem unmarshalV1U_digits_suffix (q : Nat) (c : UInt8)
    (hc1 : isDigit c = false) (hc2 : isBareSuffix c = true) (hc3 : isReSpace c = false) :
    unmarshalV1U (fmtNat q ++ [c]) = Res.ofOption (fastU (fmtNat q) (some c)) := by
  unfold unmarshalV1U matchSizeV1
  obtain ⟨h1, h2⟩ := takeWhile_append_stop isDigit (fmtNat q) [c] (fmtNat_all_digits q) (by simp [hc1])
  simp only [h1, h2, matchTail, List.dropWhile, hc3, hc2]
  simp [fmtNat_ne_nil]

theorem unmarshalV1U_digits (q : Nat) :
    unmarshalV1U (fmtNat q) = Res.ofOption (fastU (fmtNat q) none) := by
  unfold unmarshalV1U matchSizeV1
  obtain ⟨h1, h2⟩ := takeWhile_append_stop isDigit (fmtNat q) [] (fmtNat_all_digits q) (by simp)
  simp only [List.append_nil] at h1 h2
  simp only [h1, h2, matchTail, List.dropWhile]
  simp [fmtNat_ne_nil]

theorem fastU_fmtNat (q : Nat) (suf : Option UInt8) (hq : q < 2 ^ 64) (h : q * bareMult suf < 2 ^ 64)
    (hm : 0 < bareMult suf) : fastU (fmtNat q) suf = some (q * bareMult suf) := by
  unfold fastU
  rw [parseUint10_fmtNat q hq]
  simp only
  rw [if_neg (by rw [Decidable.not_not]; exact (overflowU_exact q _ hm).mpr h)]
  simp [wrapU, Nat.mod_eq_of_lt h]

theorem v1u_roundtrip (x : Nat) (hx : x < 2 ^ 64) : unmarshalV1U (marshalV1U x) = .ok x := by
  obtain ⟨g1, m1, k1, g2, m2, k2, g3, m3, k3, g4, m4, k4⟩ := suffix_facts
  unfold marshalV1U
  split
  · next h =>
    rw [unmarshalV1U_digits_suffix _ _ g1 g2 g3, fastU_fmtNat _ _ (by omega) (by rw [g4]; omega) (by rw [g4]; decide), g4]
    simp only [Res.ofOption]; congr 1; omega
  · split
    · next h =>
      rw [unmarshalV1U_digits_suffix _ _ m1 m2 m3, fastU_fmtNat _ _ (by omega) (by rw [m4]; omega) (by rw [m4]; decide), m4]
      simp only [Res.ofOption]; congr 1; omega
    · split
      · next h =>
        rw [unmarshalV1U_digits_suffix _ _ k1 k2 k3, fastU_fmtNat _ _ (by omega) (by rw [k4]; omega) (by rw [k4]; decide), k4]
        simp only [Res.ofOption]; congr 1; omega
      · rw [unmarshalV1U_digits, fastU_fmtNat _ _ hx (by simp [bareMult]; omega) (by simp [bareMult])]
        simp [bareMult, Res.ofOption]

theorem matchSSizeV1_fmtInt (q : Int) (r : Bytes) (hr : ∀ c, r.head? = some c → isDigit c = false) :
    matchSSizeV1 (fmtInt q ++ r) = (matchTail r).map fun suf => (fmtInt q, suf) := by
  unfold fmtInt
  split
  · obtain ⟨h1, h2⟩ := takeWhile_append_stop isDigit (fmtNat (-q).toNat) r (fmtNat_all_digits _) hr
    simp only [matchSSizeV1, List.cons_append, beq_self_eq_true, Bool.or_true, if_true, h1, h2]
    simp [fmtNat_ne_nil]
  · obtain ⟨c, rest, hf, hc⟩ := fmtNat_head q.toNat
    obtain ⟨h43, h45⟩ := digit_not_sign c hc
    obtain ⟨h1, h2⟩ := takeWhile_append_stop isDigit (fmtNat q.toNat) r (fmtNat_all_digits _) hr
    have hm : matchSSizeV1 (fmtNat q.toNat ++ r) =
        (let ds := (fmtNat q.toNat ++ r).takeWhile isDigit
         if ds.isEmpty then none
         else (matchTail ((fmtNat q.toNat ++ r).dropWhile isDigit)).map fun suf => ([] ++ ds, suf)) := by
      rw [hf]
      simp only [matchSSizeV1, List.cons_append, h43, h45, Bool.or_self, Bool.false_eq_true, if_false]
    rw [hm]
    simp only [h1, h2]
    simp [fmtNat_ne_nil]

theorem fastS_fmtInt (q : Int) (suf : Option UInt8) (hq : -(2 ^ 63 : Int) ≤ q ∧ q < 2 ^ 63)
    (h : -(2 ^ 63 : Int) ≤ q * (bareMult suf : Int) ∧ q * (bareMult suf : Int) < 2 ^ 63) :
    fastS (fmtInt q) suf = some (q * (bareMult suf : Int)) := by
  unfold fastS
  rw [parseInt10_fmtInt q hq]
  simp only
  have hm : ((bareMult suf : Nat) : Int) = 1 ∨ ((bareMult suf : Nat) : Int) = 2 ^ 10 ∨
      ((bareMult suf : Nat) : Int) = 2 ^ 20 ∨ ((bareMult suf : Nat) : Int) = 2 ^ 30 := by
    rcases bareMult_cases suf with h | h | h | h <;> rw [h] <;> simp
  rw [if_neg (by rw [Decidable.not_not]; exact (overflowS_exact q _ hq hm).mpr h)]
  congr 1
  unfold wrapS
  omega

theorem unmarshalV1S_fmtInt_suffix (q : Int) (c : UInt8)
    (hc1 : isDigit c = false) (hc2 : isBareSuffix c = true) (hc3 : isReSpace c = false) :
    unmarshalV1S (fmtInt q ++ [c]) = Res.ofOption (fastS (fmtInt q) (some c)) := by
  unfold unmarshalV1S
  rw [matchSSizeV1_fmtInt q [c] (by simp [hc1])]
  simp [matchTail, hc3, hc2]

theorem unmarshalV1S_fmtInt (q : Int) :
    unmarshalV1S (fmtInt q) = Res.ofOption (fastS (fmtInt q) none) := by
  unfold unmarshalV1S
  have := matchSSizeV1_fmtInt q [] (by simp)
  rw [List.append_nil] at this
  rw [this]
  simp [matchTail]

theorem v1s_suffix_case (x q : Int) (c : UInt8) (M : Nat)
    (hc1 : isDigit c = false) (hc2 : isBareSuffix c = true) (hc3 : isReSpace c = false)
    (hM : bareMult (some c) = M) (hq : -(2 ^ 63 : Int) ≤ q ∧ q < 2 ^ 63)
    (hx : -(2 ^ 63 : Int) ≤ x ∧ x < 2 ^ 63) (hqx : q * (M : Int) = x) :
    unmarshalV1S (fmtInt q ++ [c]) = .ok x := by
  rw [unmarshalV1S_fmtInt_suffix _ _ hc1 hc2 hc3, fastS_fmtInt _ _ hq (by rw [hM, hqx]; exact hx), hM, hqx]
  rfl

theorem v1s_roundtrip (x : Int) (hx : -(2 ^ 63 : Int) ≤ x ∧ x < 2 ^ 63) : unmarshalV1S (marshalV1S x) = .ok x := by
  obtain ⟨g1, m1, k1, g2, m2, k2, g3, m3, k3, g4, m4, k4⟩ := suffix_facts
  unfold marshalV1S
  by_cases h0 : 0 ≤ x
  · simp only [tdiv_pos, tmod_pos, h0, if_true]
    split
    · exact v1s_suffix_case x _ _ _ g1 g2 g3 g4 (by omega) hx (by omega)
    · split
      · exact v1s_suffix_case x _ _ _ m1 m2 m3 m4 (by omega) hx (by omega)
      · split
        · exact v1s_suffix_case x _ _ _ k1 k2 k3 k4 (by omega) hx (by omega)
        · rw [unmarshalV1S_fmtInt, fastS_fmtInt _ _ hx (by simp [bareMult]; omega)]
          simp [bareMult, Res.ofOption]
  · simp only [tdiv_pos, tmod_pos, h0, if_false]
    split
    · exact v1s_suffix_case x _ _ _ g1 g2 g3 g4 (by omega) hx (by omega)
    · split
      · exact v1s_suffix_case x _ _ _ m1 m2 m3 m4 (by omega) hx (by omega)
      · split
        · exact v1s_suffix_case x _ _ _ k1 k2 k3 k4 (by omega) hx (by omega)
        · rw [unmarshalV1S_fmtInt, fastS_fmtInt _ _ hx (by simp [bareMult]; omega)]
          simp [bareMult, Res.ofOption]

/-! ### SizeV2 / SSizeV2 (with the digits fast path of fixes/C34-sizev2-exact-integers.patch) -/

theorem v2u_digits (x : Nat) (hx : x < 2 ^ 64) : unmarshalV2U (fmtNat x) = .ok x := by
  unfold unmarshalV2U
  rw [if_pos (by simp [fmtNat_all_digits, fmtNat_ne_nil]), parseUint10_fmtNat x hx]
  rfl

theorem v2s_digits (x : Int) (hx : -(2 ^ 63 : Int) ≤ x ∧ x < 2 ^ 63) : unmarshalV2S (fmtInt x) = .ok x := by
  unfold unmarshalV2S
  have hp := parseInt10_fmtInt x hx
  unfold fmtInt at hp ⊢
  split at hp
  · next hneg =>
    rw [if_pos hneg]
    simp only [beq_self_eq_true, if_true]
    rw [if_pos (by simp [fmtNat_all_digits, fmtNat_ne_nil]), hp]
    rfl
  · next hpos =>
    rw [if_neg hpos]
    obtain ⟨c, rest, hf, hc⟩ := fmtNat_head x.toNat
    obtain ⟨_, h45⟩ := digit_not_sign c hc
    have hall := fmtNat_all_digits x.toNat
    rw [hf] at hp hall ⊢
    simp only [h45, Bool.false_eq_true, if_false]
    rw [if_pos (by simp [hall]), hp]
    rfl

theorem fmtInt_ofNat (x : Nat) : fmtInt (x : Int) = fmtNat x := by
  unfold fmtInt
  rw [if_neg (by omega)]
  simp

/-- through the TOML encoder and decoder: every `Size` up to MaxInt64 comes back -/
theorem toml_v2u (x : Nat) (hx : x ≤ 2 ^ 63 - 1) : tomlRoundTripV2U x = .ok x := by
  unfold tomlRoundTripV2U
  rw [if_neg (by omega), fmtInt_ofNat, v2u_digits x (by omega)]

/-- ... and a `Size` above MaxInt64 cannot be read back (the TOML integer is out of int64 range) -/
theorem toml_v2u_above (x : Nat) (hx : x > 2 ^ 63 - 1) : tomlRoundTripV2U x = .err := by
  unfold tomlRoundTripV2U
  rw [if_pos hx]

theorem toml_v2s (x : Int) (hx : -(2 ^ 63 : Int) ≤ x ∧ x < 2 ^ 63) : tomlRoundTripV2S x = .ok x :=
  v2s_digits x hx

end Influx.Lemmas.Toml
