/-
  `bytes.Compare` (`cmpBytes`) is a strict total order; the specification's `bytesLe` is its `≤`.
-/
import Influx.Model.LineProtocol
import Influx.Spec.C11

namespace Influx.LP
open Influx.Spec.C11

theorem cmpBytes_eq_iff (a b : Bytes) : cmpBytes a b = .eq ↔ a = b := by
  induction a generalizing b with
  | nil => cases b <;> simp [cmpBytes]
  | cons x xs ih =>
    cases b with
    | nil => simp [cmpBytes]
    | cons y ys =>
      simp only [cmpBytes]
      by_cases h1 : x < y
      · simp [h1]; omega
      · by_cases h2 : y < x
        · simp [h1, h2]; omega
        · have : x = y := by omega
          subst this
          simp [ih]

theorem cmpBytes_refl (a : Bytes) : cmpBytes a a = .eq := (cmpBytes_eq_iff a a).mpr rfl

theorem cmpBytes_gt_iff_lt (a b : Bytes) : cmpBytes a b = .gt ↔ cmpBytes b a = .lt := by
  induction a generalizing b with
  | nil => cases b <;> simp [cmpBytes]
  | cons x xs ih =>
    cases b with
    | nil => simp [cmpBytes]
    | cons y ys =>
      simp only [cmpBytes]
      by_cases h1 : x < y
      · have h2 : ¬ y < x := by omega
        simp [h1, h2]
      · by_cases h2 : y < x
        · simp [h1, h2]
        · simp [h1, h2, ih]

theorem cmpBytes_lt_trans (a b c : Bytes) (h1 : cmpBytes a b = .lt) (h2 : cmpBytes b c = .lt) :
    cmpBytes a c = .lt := by
  induction a generalizing b c with
  | nil =>
    cases c with
    | nil => cases b <;> simp [cmpBytes] at h1 h2
    | cons z zs => simp [cmpBytes]
  | cons x xs ih =>
    cases b with
    | nil => simp [cmpBytes] at h1
    | cons y ys =>
      cases c with
      | nil => simp [cmpBytes] at h2
      | cons z zs =>
        simp only [cmpBytes] at h1 h2 ⊢
        by_cases hxy : x < y
        · by_cases hyz : y < z
          · have : x < z := by omega
            simp [this]
          · by_cases hzy : z < y
            · simp [hyz, hzy] at h2
            · have : y = z := by omega
              subst this; simp [hxy]
        · by_cases hyx : y < x
          · simp [hxy, hyx] at h1
          · have : x = y := by omega
            subst this
            simp only [Nat.lt_irrefl, if_false] at h1
            by_cases hyz : x < z
            · simp [hyz]
            · by_cases hzy : z < x
              · simp [hyz, hzy] at h2
              · simp only [hyz, hzy, if_false] at h2 ⊢
                exact ih _ _ h1 h2

/-- the specification's `≤` is "not greater" of `bytes.Compare` -/
theorem bytesLe_iff (a b : Bytes) : bytesLe a b = true ↔ cmpBytes a b ≠ .gt := by
  induction a generalizing b with
  | nil => cases b <;> simp [bytesLe, cmpBytes]
  | cons x xs ih =>
    cases b with
    | nil => simp [bytesLe, cmpBytes]
    | cons y ys =>
      simp only [bytesLe, cmpBytes]
      by_cases h1 : x < y
      · simp [h1]
      · by_cases h2 : y < x
        · have : x ≠ y := by omega
          simp [h1, h2, this]
        · have : x = y := by omega
          subst this
          simp [ih]

theorem cmpBytes_lt_of_le_ne (a b : Bytes) (h : bytesLe a b = true) (hne : a ≠ b) : cmpBytes a b = .lt := by
  have h1 := (bytesLe_iff a b).mp h
  have h2 : cmpBytes a b ≠ .eq := fun e => hne ((cmpBytes_eq_iff a b).mp e)
  cases hc : cmpBytes a b <;> simp_all

end Influx.LP
